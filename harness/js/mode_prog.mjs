// C01 / C08 / C15 / C04: TsCore programs -> TypeScript source -> REAL compiler (Rust stage) -> emitted module
// evaluated here against the REAL runtime.
//   gen:  (prog <id> <tscore-prog> <files> (<value>*))          files = (("entry.ts" "<source>") …)
//   run:  input lines are "<request>\t<compile-result>" where compile-result comes from `beffh compile run`:
//         (js "<emitted code>") | (diags …) | (panic …)
//   reply: (bits (<Export> "0101…")*) | (diags n) | (panic) | (load-error "…")
import { A, Atom, show, head, isAtom, quote } from "./sx.mjs";
import { encVal, decVal, canonNum, TYPED } from "./values.mjs";
import fs from "node:fs";
import path from "node:path";
import os from "node:os";
import { pathToFileURL } from "node:url";
import { genSplitProject, genStarDag, genWatch, genEnumLayer } from "./split.mjs";

// ---------- TsCore -> TypeScript text ----------
const IDENT = /^[A-Za-z_$][A-Za-z0-9_$]*$/;
export function tsOfTpl(items) {
  return "`" + items.map((it) => (it instanceof Atom ? "${" + { str: "string", num: "number", bool: "boolean" }[it.s] + "}" : head(it) === "lit" ? it[1].replace(/[`\\$]/g, (c) => "\\" + c) : "${" + it.slice(1).map((x) => (head(x) === "lit" ? JSON.stringify(x[1]) : tsOfTpl([x]))).join(" | ") + "}")).join("") + "`";
}
export function tsOf(t) {
  if (t instanceof Atom) return t.s;
  const h = head(t);
  switch (h) {
    case "lit": { const v = t[1]; return head(v) === "s" ? JSON.stringify(v[1]) : head(v) === "n" ? v[1] : v[1].s; }
    case "array": return "Array<" + tsOf(t[1]) + ">";
    case "arr2": return "(" + tsOf(t[1]) + ")[]";
    case "tuple": return "[" + [...t[1].map(tsOf), ...(isAtom(t[2], "none") ? [] : ["..." + tsOf(t[2]) + "[]"])].join(", ") + "]";
    case "obj": return "{ " + [...t[1].map(([k, opt, ty]) => (IDENT.test(k) ? k : JSON.stringify(k)) + (opt.s === "true" ? "?" : "") + ": " + tsOf(ty)), ...(isAtom(t[2], "none") ? [] : ["[key: " + tsOf(t[2][0]) + "]: " + tsOf(t[2][1])])].join("; ") + " }";
    case "union": return "(" + t.slice(1).map(tsOf).join(" | ") + ")";
    case "inter": return "(" + t.slice(1).map(tsOf).join(" & ") + ")";
    case "ref": return t[1] + (t.length > 2 ? "<" + t.slice(2).map(tsOf).join(", ") + ">" : "");
    case "bi": return t[1] + (t.length > 2 ? "<" + t.slice(2).map(tsOf).join(", ") + ">" : "");
    case "tpl": return tsOfTpl(t.slice(1));
    case "paren": return "(" + tsOf(t[1]) + ")";
    case "readonly": return "readonly " + tsOf(t[1]);
    case "keyof": return "keyof " + tsOf(t[1]);
    case "idx": return tsOf(t[1]) + "[" + tsOf(t[2]) + "]";
    case "cond": return "(" + tsOf(t[1]) + " extends " + tsOf(t[2]) + " ? " + tsOf(t[3]) + " : " + tsOf(t[4]) + ")";
  }
  throw new Error("tsOf: " + show(t));
}
export function tsOfDecl(d) {
  const params = d[2].length ? "<" + d[2].join(", ") + ">" : "";
  if (head(d) === "alias") return `type ${d[1]}${params} = ${tsOf(d[3])};`;
  const ext = d[3].length ? " extends " + d[3].map(tsOf).join(", ") : "";
  return `interface ${d[1]}${params}${ext} { ${d[4].map(([k, opt, ty]) => (IDENT.test(k) ? k : JSON.stringify(k)) + (opt.s === "true" ? "?" : "") + ": " + tsOf(ty)).join("; ")} }`;
}
export function tsOfProg(p) {
  const decls = p[1].map(tsOfDecl).join("\n");
  const exps = p[2].map(([n, t]) => `${n}: ${tsOf(t)}`).join(", ");
  return `${decls}\nparse.buildParsers<{ ${exps} }>();\n`;
}

// own data property, whatever the name (`o["__proto__"] = v` would set the prototype instead)
const setOwn = (o, k, v) => Object.defineProperty(o, k, { value: v, enumerable: true, configurable: true, writable: true });
// ---------- generator ----------
const KEYS = ["a", "b", "c", "t", "kind"];
const ODD_KEYS = ["a-b", "constructor", "toString", "0", "x y", "__proto__"];
const KW = ["string", "number", "boolean", "null", "undefined", "any", "unknown", "bigint"];
function genLit(rng) {
  switch (rng.below(6)) {
    case 0: return [A("lit"), [A("b"), A(rng.chance(1, 2) ? "true" : "false")]];
    // (fractions that are not sums of few powers of two, a magnitude beyond 2^63, a negative fraction)
    case 1: case 2: return [A("lit"), [A("n"), rng.pick(["0", "1", "2", "12", "1.5", "0.1", "3.14159", "2.675", "-2.5", "1e+21"])]];
    // (sometimes a string that spells a number or a boolean: `"1"` is not `1`, `"true"` is not `true`)
    default: return [A("lit"), [A("s"), rng.chance(1, 5) ? rng.pick(["1", "2", "12", "1.5", "true", "false", "null"]) : rng.pick(["a", "b", "c", "ab", "x", "toString"])]];
  }
}
function genKey(rng) { return rng.chance(1, 12) ? rng.pick(ODD_KEYS) : rng.pick(KEYS); }
function genObjMembers(rng, d, sc) {
  const n = rng.below(4), seen = new Set(), out = [];
  for (let i = 0; i < n; i++) { const k = genKey(rng); if (seen.has(k)) continue; seen.add(k); out.push([k, A(rng.chance(1, 3) ? "true" : "false"), genTy(rng, d - 1, sc)]); }
  return out;
}
function genObj(rng, d, sc, allowIndex = true) {
  const idx = allowIndex && rng.chance(1, 7) ? [A(rng.pick(["string", "string", "number"])), genTy(rng, d - 1, sc)] : A("none");
  return [A("obj"), genObjMembers(rng, d, sc), idx];
}
function genTpl(rng) {
  const n = 1 + rng.below(3), items = [];
  for (let i = 0; i < n; i++) items.push(rng.pick([A("str"), A("num"), A("bool"), [A("lit"), "a"], [A("lit"), "-"], [A("lit"), "x.y"], [A("lit"), "/u/"], [A("lit"), "s://"], [A("lit"), "C:\\"], [A("lit"), "a`"], [A("lit"), "$"], [A("oneof"), [A("lit"), "p"], [A("lit"), "q"]], [A("oneof"), [A("lit"), ""], [A("lit"), "-"]]]));
  // adjacent literal quasis are one quasi in source; merge them so the TsCore term is canonical
  const merged = [];
  for (const it of items) { const last = merged[merged.length - 1]; if (head(it) === "lit" && last && head(last) === "lit") last[1] += it[1]; else merged.push(head(it) === "lit" ? [A("lit"), it[1]] : it); }
  return [A("tpl"), ...merged];
}
export function genTy(rng, d, sc) {
  if (d <= 0) {
    const r = rng.below(10);
    if (r < 5) return A(rng.pick(KW));
    if (r < 8) return genLit(rng);
    if (r === 8 && sc.params.length) return [A("ref"), rng.pick(sc.params)];
    return A(rng.pick(["string", "number"]));
  }
  switch (rng.below(25)) {
    case 21: case 22: { // discriminated union whose variants are intersections re-declaring the discriminator (wider ∩ narrower)
      const key = rng.pick(["t", "kind"]);
      const lit = (v) => [A("lit"), [A("s"), v]];
      const extra = () => genObjMembers(rng, d - 1, sc).filter((m) => m[0] !== key);
      const wide = [A("obj"), [[key, A("false"), [A("union"), lit("a"), lit("b")]], ...extra()], A("none")];
      const narrow = (v) => [A("obj"), [[key, A("false"), lit(v)], ...extra()], A("none")];
      const variant = (v) => (rng.chance(1, 2) ? [A("inter"), wide, narrow(v)] : [A("inter"), narrow(v), wide]);
      return [A("union"), variant("a"), ...(rng.chance(1, 2) ? [variant("b")] : []), narrow("c")];
    }
    case 23: { // intersection members that share a key: same type with different optionality, or a narrower type
      const k = rng.pick(["a", "b", "t"]);
      const ty = genTy(rng, 0, sc);
      const others = (skip) => genObjMembers(rng, d - 1, sc).filter((m) => m[0] !== skip);
      const m1 = [A("obj"), [[k, A("false"), ty], ...others(k)], A("none")];
      // … or the very same declaration in both members (`{id: string; a: number} & {id: string; b: number}`)
      const m2 = [A("obj"), [[k, A(rng.chance(1, 3) ? "false" : "true"), ty], ...others(k)], A("none")];
      return rng.chance(1, 2) ? [A("inter"), m1, m2] : [A("inter"), m2, m1];
    }
    case 0: case 1: case 2: return genObj(rng, d, sc);
    case 3: return [A(rng.chance(1, 2) ? "array" : "arr2"), genTy(rng, d - 1, sc)];
    case 4: return [A("tuple"), Array.from({ length: rng.below(3) }, () => genTy(rng, d - 1, sc)), rng.chance(1, 3) ? genTy(rng, d - 1, sc) : A("none")];
    case 5: case 6: return [A("union"), ...Array.from({ length: 2 + rng.below(2) }, () => genTy(rng, d - 1, sc))];
    case 7: { // discriminated union
      const key = rng.pick(["t", "kind"]);
      // sometimes two properties qualify as discriminator (the compiler has to pick one, deterministically)
      const key2 = rng.chance(1, 3) ? (key === "t" ? "kind" : rng.pick(["t", "a"])) : null;
      const vs = ["a", "b", "c"].slice(0, 2 + rng.below(2)).map((v, i) => [A("obj"), [[key, A("false"), [A("lit"), [A("s"), v]]], ...(key2 ? [[key2, A("false"), [A("lit"), [A("s"), ["x", "ab", "c"][i]]]]] : []), ...genObjMembers(rng, d - 1, sc).filter((m) => m[0] !== key && m[0] !== key2)], A("none")]);
      // one variant open through an index signature (its declared members are string literals, which conform): the keys it
      // admits are admitted in strict mode too, for that variant only
      if (rng.chance(1, 3)) { const v = rng.pick(vs); v[1] = v[1].filter((m) => m[0] === key || m[0] === key2); v[2] = [A("string"), rng.pick([A("string"), A("unknown"), [A("union"), A("string"), A("number")]])]; }
      // two variants under ONE tag, told apart by a second property (`{type:"a",sub:"x",…} | {type:"a",sub:"y",…} | {type:"b",…}`)
      else if (!key2 && rng.chance(1, 3)) {
        const twin = [A("obj"), [[key, A("false"), [A("lit"), [A("s"), "a"]]], ["sub", A("false"), [A("lit"), [A("s"), "y"]]], ...genObjMembers(rng, d - 1, sc).filter((m) => m[0] !== key && m[0] !== "sub")], A("none")];
        vs[0][1] = [vs[0][1][0], ["sub", A("false"), [A("lit"), [A("s"), "x"]]], ...vs[0][1].slice(1).filter((m) => m[0] !== "sub")];
        vs.splice(1, 0, twin);
      }
      // the tag optional in one variant (`{ kind?: "a"; … } | { kind: "b"; … }`): a value of that variant may leave the tag out, so the
      // property does not discriminate
      if (rng.chance(1, 5)) { const v = rng.pick(vs); const i = v[1].findIndex((m) => m[0] === key); if (i >= 0) v[1][i] = [key, A("true"), v[1][i][2]]; }
      return [A("union"), ...vs];
    }
    case 8: return [A("inter"), ...Array.from({ length: 2 }, () => (sc.objNames.length && rng.chance(1, 2) ? [A("ref"), rng.pick(sc.objNames)] : genObj(rng, d - 1, sc, false)))];
    case 9: case 10: if (sc.names.length) {
      const gens = sc.names.filter((n) => n.params.length);
      const n = sc.params.length && gens.length && rng.chance(1, 2) ? rng.pick(gens) : rng.pick(sc.names);
      const pref = () => [A("ref"), rng.pick(sc.params)];
      const argOf = () => (sc.params.length && rng.chance(2, 3) ? rng.pick([[A("array"), pref()], [A("obj"), [["a", A("false"), pref()]], A("none")], [A("union"), pref(), A("null")], [A("tuple"), [pref(), A("number")], A("none")]]) : genTy(rng, d - 1, sc));
      return [A("ref"), n.name, ...n.params.map(argOf)];
    } return genLit(rng);
    case 11: return [A("bi"), "Record", rng.pick([A("string"), [A("union"), [A("lit"), [A("s"), "a"]], [A("lit"), [A("s"), "b"]]], A("string")]), genTy(rng, d - 1, sc)];
    case 12: { const o = sc.objNames.length && rng.chance(1, 2) ? [A("ref"), rng.pick(sc.objNames)] : genObj(rng, d - 1, sc, false); return [A("bi"), rng.pick(["Partial", "Required", "Readonly"]), o]; }
    case 13: { const o = genObj(rng, d - 1, sc, false); const ks = o[1].map((m) => m[0]); if (!ks.length) return o; const pick = ks.filter(() => rng.chance(1, 2)); const keys = (pick.length ? pick : [ks[0]]).map((k) => [A("lit"), [A("s"), k]]); return [A("bi"), rng.pick(["Pick", "Omit"]), o, keys.length === 1 ? keys[0] : [A("union"), ...keys]]; }
    case 14: return [A("bi"), rng.pick(["Date", "Date", ...TYPED.slice(0, 3)])];
    case 15: return [A("bi"), "Map", genTy(rng, 0, sc), genTy(rng, d - 1, sc)];
    case 16: return [A("bi"), "Set", genTy(rng, d - 1, sc)];
    case 17: return genTpl(rng);
    case 18: return [A("paren"), genTy(rng, d - 1, sc)];
    case 19: return [A("readonly"), [A("arr2"), genTy(rng, d - 1, sc)]];
    case 20: return [A("bi"), "Array", genTy(rng, d - 1, sc)];
    default: return genTy(rng, 0, sc);
  }
}
// an intersection that the compiler flattens into ONE object (an interface with two parents, a body that declares a parent's
// property again, a mapped built-in over `A & B` of named types) where two members declare the same property with the same
// type and the later one has further properties whose names sort after the shared key
export function sharedKeyProg(rng) {
  const leaf = () => rng.pick([A("string"), A("number"), A("boolean"), [A("lit"), [A("s"), "a"]], A("null")]);
  const shared = rng.pick(["k", "b", "kind"]), tk = leaf();
  const after = ["m", "t", "z", "zz"].filter(() => rng.chance(2, 3));
  if (!after.length) after.push("z");
  const before = rng.chance(1, 2) ? [["a", A("false"), leaf()]] : [];
  const pa = [[shared, A("false"), tk], ...(rng.chance(1, 2) ? [["a0", A(rng.chance(1, 3) ? "true" : "false"), leaf()]] : [])];
  const pb = [...before, [shared, A("false"), tk], ...after.map((k) => [k, A(rng.chance(1, 3) ? "true" : "false"), leaf()])];
  const mk = (name, ms) => (rng.chance(1, 2) ? [A("iface"), name, [], [], ms] : [A("alias"), name, [], [A("obj"), ms, A("none")]]);
  const decls = [mk("Pa", pa), mk("Pb", pb)];
  const ra = [A("ref"), "Pa"], rb = [A("ref"), "Pb"];
  const both = rng.chance(1, 2) ? [A("inter"), ra, rb] : [A("inter"), rb, ra];
  const keys = [shared, ...after, "a0"].filter(() => rng.chance(2, 3));
  const keyU = (ks) => (ks.length === 1 ? [A("lit"), [A("s"), ks[0]]] : [A("union"), ...ks.map((k) => [A("lit"), [A("s"), k]])]);
  let root;
  switch (rng.below(7)) {
    case 0: decls.push([A("iface"), "Cc", [], rng.chance(1, 2) ? [ra, rb] : [rb, ra], [["own", A("false"), A("null")]]]); root = [A("ref"), "Cc"]; break;
    case 1: decls.push([A("iface"), "Cc", [], [ra], [[shared, A("false"), tk], ...after.map((k) => [k, A("false"), leaf()])]]); root = [A("ref"), "Cc"]; break;
    case 2: root = [A("bi"), "Partial", both]; break;
    case 3: root = [A("bi"), "Required", both]; break;
    case 4: root = [A("bi"), "Pick", both, keyU(keys.length ? keys : [shared])]; break;
    case 5: root = [A("bi"), "Omit", both, keyU(["a0"])]; break;
    default: root = both;
  }
  return [A("prog"), decls, [["E0", rng.chance(1, 4) ? [A("obj"), [["p", A("false"), root]], A("none")] : root]]];
}
export function genProg(rng) {
  const nd = rng.below(4);
  const names = [], objNames = [], decls = [];
  for (let i = 0; i < nd; i++) {
    const generic = rng.chance(1, 3);
    const params = generic ? ["T"] : [];
    // a declaration called like the type parameter of the generic ones: scoping of `T` is lexical
    // … and one called `K`, the name describe() gives the key variable of every record it prints
    const name = i === 0 && !generic && rng.chance(1, 4) ? rng.pick(["T", "K"]) : (rng.chance(1, 2) ? "O" : "N") + i;
    const sc = { names: names.slice(), objNames: objNames.slice(), params };
    const isObj = name.startsWith("O");
    if (isObj) {
      const self = { name, params };
      const members = genObjMembers(rng, 2, sc);
      if (rng.chance(1, 3)) { // recursion through a guarded position
        const selfRef = [A("ref"), name, ...params.map((p) => [A("ref"), p])];
        members.push([rng.pick(["next", "kids"]), A("true"), rng.pick([selfRef, [A("array"), selfRef], [A("union"), selfRef, A("null")]])]);
      }
      if (rng.chance(1, 3)) {
        const ext = objNames.length && rng.chance(1, 2) && !generic ? [[A("ref"), rng.pick(objNames)]] : [];
        // TypeScript only accepts an overriding member whose type is assignable to the inherited one: keep disjoint keys
        const baseShape = ext.length ? shapeOf([A("prog"), decls, []], ext[0], 0) : null;
        const baseKeys = new Set(baseShape ? baseShape.props.map((x) => x[0]) : []);
        decls.push([A("iface"), name, params, ext, members.filter((m) => !baseKeys.has(m[0]))]);
      } else decls.push([A("alias"), name, params, [A("obj"), members, A("none")]]);
      if (!generic) objNames.push(name);
      names.push(self);
    } else {
      decls.push([A("alias"), name, params, genTy(rng, 2, sc)]);
      names.push({ name, params });
    }
  }
  // a chain of generics, each instantiating the previous one with an argument that contains its own parameter
  // (same parameter name at every level: the type-application stack has to find the innermost binding)
  if (rng.chance(1, 6)) {
    const base = decls.length;
    const depth = 2 + rng.below(2);
    const wrap = (t) => rng.pick([[A("array"), t], [A("obj"), [["v", A("false"), t]], A("none")], [A("union"), t, A("null")], [A("tuple"), [t, A("boolean")], A("none")]]);
    for (let i = 0; i < depth; i++) {
      const name = "G" + (base + i);
      const T = [A("ref"), "T"];
      const body = i === 0 ? [A("obj"), [["value", A("false"), T], ["self", A("true"), rng.chance(1, 3) ? [A("ref"), name, T] : T]], A("none")]
        : [A("obj"), [["items", A("false"), [A("ref"), "G" + (base + i - 1), wrap(T)]], ["own", A("true"), T]], A("none")];
      decls.push([A("alias"), name, ["T"], body]);
      names.push({ name, params: ["T"] });
    }
  }
  // a generic interface whose HERITAGE CLAUSE is generic in the interface's own parameter, reached from a generic alias under another
  // argument (`interface Bq<T> { b: T }`, `interface Aq<T> extends Bq<T> { a: number }`, `type Wq<T> = { inner: Aq<T[]> }`)
  if (rng.chance(1, 8)) {
    const T = [A("ref"), "T"];
    const wrap = (t) => rng.pick([[A("array"), t], [A("obj"), [["v", A("false"), t]], A("none")], [A("union"), t, A("null")]]);
    decls.push([A("iface"), "Bq", ["T"], [], [["b", A("false"), T]]]);
    decls.push([A("iface"), "Aq", ["T"], [[A("ref"), "Bq", rng.chance(1, 2) ? T : wrap(T)]], [["a", A("false"), A("number")]]]);
    decls.push([A("alias"), "Wq", ["T"], [A("obj"), [["inner", A("false"), [A("ref"), "Aq", wrap(T)]], ["own", A("true"), T]], A("none")]]);
    names.push({ name: "Bq", params: ["T"] }, { name: "Aq", params: ["T"] }, { name: "Wq", params: ["T"] }, { name: "Wq", params: ["T"] });
  }
  // two declarations with the same body under different names (the code generator hoists equal constants: both names
  // then denote the SAME runtime object), used side by side in a third one
  if (decls.length && rng.chance(1, 8)) {
    const d = rng.pick(decls.filter((x) => head(x) === "alias" && x[2].length === 0));
    if (d) {
      const twin = "Tw" + decls.length, both = "Bo" + decls.length;
      decls.push([A("alias"), twin, [], clone(d[3])]);
      decls.push([A("alias"), both, [], [A("obj"), [["a", A("false"), [A("ref"), d[1]]], ["b", A("false"), [A("ref"), twin]]], A("none")]]);
      names.push({ name: twin, params: [] }, { name: both, params: [] });
      objNames.push(both);
    }
  }
  const sc = { names, objNames, params: [] };
  const ne = 1 + rng.below(2);
  const exps = Array.from({ length: ne }, (_, i) => ["E" + i, genTy(rng, 1 + rng.below(3), sc)]);
  return [A("prog"), decls, exps];
}

// ---------- type-directed values (best effort; only affects coverage quality) ----------
const STRS = ["", "a", "b", "c", "ab", "x", "p", "a-", "a12", "x.y", "zza1zz", "true", "12", "1.5", "toString"];
const NUMS = [0, 1, 2, 12, 1.5, -1, NaN, 0.1, 3.14159, 3.141589999, 2.675, -2.5, 1e21, 9223372036854776000];
function randomValue(rng, d) {
  switch (rng.below(d > 0 ? 14 : 10)) {
    case 0: return null; case 1: return undefined; case 2: return rng.chance(1, 2);
    case 3: case 4: return rng.pick(NUMS); case 5: case 6: return rng.pick(STRS);
    case 7: return 10n; case 8: return new Date(0); case 9: return function f() {};
    case 10: case 11: return Array.from({ length: rng.below(3) }, () => randomValue(rng, d - 1));
    case 12: { const o = {}; for (let i = rng.below(3); i > 0; i--) o[rng.pick(KEYS)] = randomValue(rng, d - 1); return o; }
    default: return rng.chance(1, 2) ? new Map([["k", 1]]) : new Set(["s"]);
  }
}
function declOf(p, name) { return p[1].find((d) => d[1] === name); }
function subst(t, env) {
  if (t instanceof Atom || typeof t === "string") return t;
  if (head(t) === "ref" && t.length === 2 && env[t[1]] !== undefined) return env[t[1]];
  return t.map((x) => (Array.isArray(x) ? subst(x, env) : x));
}
// object shape of a type, or null
function shapeOf(p, t, depth) {
  if (depth > 8 || t instanceof Atom) return null;
  switch (head(t)) {
    case "obj": return { props: t[1].map(([k, o, ty]) => [k, o.s === "true", ty]), index: isAtom(t[2], "none") ? null : t[2] };
    case "paren": case "readonly": return shapeOf(p, t[1], depth + 1);
    case "ref": { const d = declOf(p, t[1]); if (!d) return null; const env = {}; d[2].forEach((pn, i) => (env[pn] = t[2 + i]));
      if (head(d) === "alias") return shapeOf(p, subst(d[3], env), depth + 1);
      let props = []; for (const e of d[3]) { const s = shapeOf(p, e, depth + 1); if (s) props = props.concat(s.props); }
      for (const [k, o, ty] of d[4]) { props = props.filter((x) => x[0] !== k); props.push([k, o.s === "true", subst(ty, env)]); }
      return { props, index: null }; }
    case "inter": { let props = [], index = null; for (const m of t.slice(1)) { const s = shapeOf(p, m, depth + 1); if (!s) return null; props = props.concat(s.props); index = index || s.index; } return { props, index }; }
    case "bi": {
      const s = t.length > 2 ? shapeOf(p, t[2], depth + 1) : null;
      const keysOf = (k) => (head(k) === "lit" ? [k[1][1]] : head(k) === "union" ? k.slice(1).map((x) => x[1][1]) : []);
      switch (t[1]) {
        case "Partial": return s && { props: s.props.map(([k, , ty]) => [k, true, ty]), index: s.index };
        case "Required": return s && { props: s.props.map(([k, , ty]) => [k, false, ty]), index: s.index };
        case "Readonly": return s;
        case "Pick": return s && { props: s.props.filter(([k]) => keysOf(t[3]).includes(k)), index: null };
        case "Omit": return s && { props: s.props.filter(([k]) => !keysOf(t[3]).includes(k)), index: null };
        case "Record": { const ks = keysOf(t[2]); return ks.length ? { props: ks.map((k) => [k, false, t[3]]), index: null } : { props: [], index: [t[2], t[3]] }; }
      }
    }
  }
  return null;
}
function tplMember(rng, it) {
  if (it instanceof Atom) return it.s === "str" ? rng.pick(["", "a", "zz"]) : it.s === "num" ? rng.pick(["0", "12", "1.5"]) : rng.pick(["true", "false"]);
  if (head(it) === "lit") return it[1];
  return tplMember(rng, rng.pick(it.slice(1)));
}
export function member(rng, p, t, d) {
  if (d < -5) return null;
  if (t instanceof Atom) {
    switch (t.s) {
      case "string": return rng.pick(STRS); case "number": return rng.pick(NUMS); case "boolean": return rng.chance(1, 2);
      case "null": case "undefined": case "void": return rng.chance(1, 2) ? null : undefined;
      case "any": case "unknown": return randomValue(rng, 1); case "never": return randomValue(rng, 1);
      case "bigint": return 5n; case "object": return rng.chance(1, 2) ? {} : { a: 1 };
    }
  }
  const sh = shapeOf(p, t, 0);
  if (sh) {
    const o = {};
    for (const [k, opt, ty] of sh.props) { if (opt && (rng.chance(1, 3) || d < -2)) continue; setOwn(o, k, member(rng, p, ty, d - 1)); }
    if (sh.index) for (let i = rng.below(3); i > 0; i--) { const k = isAtom(sh.index[0], "number") ? String(rng.below(5)) : rng.pick(["k1", "k2", "zz"]); if (!(k in o)) o[k] = member(rng, p, sh.index[1], d - 1); }
    if (rng.chance(1, 6)) o.extra = randomValue(rng, 1);
    return o;
  }
  switch (head(t)) {
    case "lit": return decVal(t[1]);
    case "array": case "arr2": return Array.from({ length: d < -2 ? 0 : rng.below(3) }, () => member(rng, p, t[1], d - 1));
    case "tuple": { const out = t[1].map((x) => member(rng, p, x, d - 1)); if (!isAtom(t[2], "none")) for (let i = rng.below(3); i > 0; i--) out.push(member(rng, p, t[2], d - 1)); return out; }
    case "union": return member(rng, p, rng.pick(t.slice(1)), d - 1);
    case "inter": return member(rng, p, t[1], d - 1);
    case "paren": case "readonly": return member(rng, p, t[1], d);
    case "tpl": { const s = t.slice(1).map((it) => tplMember(rng, it)).join(""); return rng.chance(1, 6) ? "zz" + s + "zz" : s; }
    case "ref": { const dcl = declOf(p, t[1]); if (!dcl) return randomValue(rng, 1); const env = {}; dcl[2].forEach((pn, i) => (env[pn] = t[2 + i])); return head(dcl) === "alias" ? member(rng, p, subst(dcl[3], env), d - 1) : randomValue(rng, 1); }
    case "bi": switch (t[1]) {
      case "Date": return new Date(86400000 * rng.below(2));
      case "Map": return new Map(Array.from({ length: rng.below(3) }, () => [member(rng, p, t[2], d - 1), member(rng, p, t[3], d - 1)]));
      case "Set": return new Set(Array.from({ length: rng.below(3) }, () => member(rng, p, t[2], d - 1)));
      case "Array": case "ReadonlyArray": return Array.from({ length: rng.below(3) }, () => member(rng, p, t[2], d - 1));
      default: if (TYPED.includes(t[1])) return new globalThis[t[1]](rng.below(3));
    }
  }
  return randomValue(rng, 1);
}
function mutate(rng, v) {
  if (Array.isArray(v)) { const c = v.slice(); if (rng.chance(1, 2)) c.push(randomValue(rng, 1)); else if (c.length) c[rng.below(c.length)] = randomValue(rng, 1); else c.push(1); return c; }
  if (v && typeof v === "object" && Object.getPrototypeOf(v) === Object.prototype) {
    const keys = Object.keys(v), o = { ...v };
    if (keys.length && rng.chance(2, 3)) { const k = rng.pick(keys); if (rng.chance(1, 2)) delete o[k]; else setOwn(o, k, rng.chance(1, 2) ? randomValue(rng, 1) : mutate(rng, o[k])); } else o[rng.pick(KEYS)] = randomValue(rng, 1);
    return o;
  }
  return randomValue(rng, 1);
}
export function genValues(rng, p, n) {
  const vals = [];
  for (const [, ty] of p[2]) for (let i = 0; i < n; i++) { const m = member(rng, p, ty, 2); vals.push(i % 3 === 2 ? mutate(rng, m) : i % 7 === 6 ? randomValue(rng, 2) : m); }
  // the value a literal SPELLS, in the other kind (`1` next to `"1"`, `"true"` next to `true`), at the same place
  const twin = (v) => (typeof v === "string" && v !== "" && !Number.isNaN(Number(v)) ? Number(v) : v === "true" ? true : v === "false" ? false : v === "null" ? null : typeof v === "number" || typeof v === "boolean" ? String(v) : undefined);
  const twins = (v) => { const t = twin(v); if (t !== undefined) return t; if (Array.isArray(v)) { for (let i = 0; i < v.length; i++) { const t2 = twins(v[i]); if (t2 !== undefined) { const c = v.slice(); c[i] = t2; return c; } } }
    else if (v && typeof v === "object" && Object.getPrototypeOf(v) === Object.prototype) { for (const k of Object.keys(v)) { const t2 = twins(v[k]); if (t2 !== undefined) { const c = {}; for (const k2 of Object.keys(v)) setOwn(c, k2, k2 === k ? t2 : v[k2]); return c; } } }
    return undefined; };
  for (const v of vals.slice(0, 6)) { const t = twins(v); if (t !== undefined) vals.push(t); }
  return vals;
}
// ---------- C08: meaning-preserving rewrites on TsCore programs ----------
const clone = (x) => (Array.isArray(x) ? x.map(clone) : x);
function shuffle(rng, a) { const c = a.slice(); for (let i = c.length - 1; i > 0; i--) { const j = rng.below(i + 1); [c[i], c[j]] = [c[j], c[i]]; } return c; }
function mapTy(t, f) { // bottom-up map over type nodes
  if (t instanceof Atom || typeof t === "string") return f(t);
  const h = head(t);
  let r;
  switch (h) {
    case "array": case "arr2": case "paren": case "readonly": r = [t[0], mapTy(t[1], f)]; break;
    case "tuple": r = [t[0], t[1].map((x) => mapTy(x, f)), isAtom(t[2], "none") ? t[2] : mapTy(t[2], f)]; break;
    case "obj": r = [t[0], t[1].map(([k, o, ty]) => [k, o, mapTy(ty, f)]), isAtom(t[2], "none") ? t[2] : [mapTy(t[2][0], f), mapTy(t[2][1], f)]]; break;
    case "union": case "inter": case "cond": case "idx": case "keyof": r = [t[0], ...t.slice(1).map((x) => mapTy(x, f))]; break;
    case "ref": case "bi": r = [t[0], t[1], ...t.slice(2).map((x) => mapTy(x, f))]; break;
    default: r = t;
  }
  return f(r);
}
// like mapProg, but a declaration whose own parameter is called `name` is left alone: inside it the name is the parameter
function mapProgExcept(p, name, f, intoExtends = false) {
  const q = mapProg(p, f, intoExtends);
  return [q[0], q[1].map((d, i) => (p[1][i][2].includes(name) ? p[1][i] : d)), q[2]];
}
function mapProg(p, f, intoExtends = false) {
  // `extends` clauses only admit plain names: rewrites leave them alone (except renaming)
  return [p[0], p[1].map((d) => (head(d) === "alias" ? [d[0], d[1], d[2], mapTy(d[3], f)] : [d[0], d[1], d[2], intoExtends ? d[3].map((e) => mapTy(e, f)) : d[3], d[4].map(([k, o, ty]) => [k, o, mapTy(ty, f)])])), p[2].map(([n, t]) => [n, mapTy(t, f)])];
}
const NAMING = new Set(["intro-alias", "inline-alias", "rename", "wrap-id", "iface-alias"]);
function applyRewrite(rng, p, kind) {
  switch (kind) {
    case "perm-members": return mapProg(p, (t) => (head(t) === "union" || head(t) === "inter" ? [t[0], ...shuffle(rng, t.slice(1))] : t));
    case "perm-props": { const q = mapProg(p, (t) => (head(t) === "obj" ? [t[0], shuffle(rng, t[1]), t[2]] : t)); return [q[0], q[1].map((d) => (head(d) === "iface" ? [d[0], d[1], d[2], d[3], shuffle(rng, d[4])] : d)), q[2]]; }
    case "perm-decls": return [p[0], shuffle(rng, p[1]), p[2]];
    case "parens": return mapProg(p, (t) => (!(t instanceof Atom) && head(t) !== "paren" && rng.chance(1, 4) ? [A("paren"), t] : t));
    case "readonly": return mapProg(p, (t) => ((head(t) === "arr2" || head(t) === "tuple") && rng.chance(1, 2) ? [A("readonly"), t] : t));
    case "regroup-union": return mapProg(p, (t) => (head(t) === "union" && t.length > 3 ? [t[0], [A("union"), t[1], t[2]], ...t.slice(3)] : t));
    case "wrap-id": { // generic wrapper type Id<T> = T
      const name = freshName(rng, p, "Id");
      let used = false;
      const q = mapProg(p, (t) => (!(t instanceof Atom) && ["obj", "array", "union", "tuple"].includes(head(t)) && rng.chance(1, 5) ? ((used = true), [A("ref"), name, t]) : t));
      return used ? [q[0], [[A("alias"), name, ["X"], [A("ref"), "X"]], ...q[1]], q[2]] : p;
    }
    case "intro-alias": { // name a closed subterm of an export
      const name = freshName(rng, p, "Al");
      let body = null;
      const exps = p[2].map(([n, t]) => [n, mapTy(t, (x) => { if (body === null && !(x instanceof Atom) && ["obj", "array", "union", "tuple", "lit"].includes(head(x)) && rng.chance(1, 3)) { body = x; return [A("ref"), name]; } return x; })]);
      return body ? [p[0], [...p[1], [A("alias"), name, [], body]], exps] : p;
    }
    case "inline-alias": { // replace references to a non-generic, non-recursive alias by its body
      const cands = p[1].filter((d) => head(d) === "alias" && d[2].length === 0 && !show(d[3]).includes(`(ref ${quote(d[1])}`));
      if (!cands.length) return p;
      const d = rng.pick(cands);
      if (p[1].some((x) => head(x) === "iface" && x[3].some((e) => e[1] === d[1]))) return p; // `extends` needs a name
      const q = mapProgExcept(p, d[1], (t) => (head(t) === "ref" && t[1] === d[1] && t.length === 2 ? clone(d[3]) : t));
      return q;
    }
    case "rename": {
      if (!p[1].length) return p;
      const d = rng.pick(p[1]);
      const nn = freshName(rng, p, rng.pick(["Zz", "Aa", "Mm"]));
      const q = mapProgExcept(p, d[1], (t) => (head(t) === "ref" && t[1] === d[1] ? [t[0], nn, ...t.slice(2)] : t), true);
      return [q[0], q[1].map((x) => (x[1] === d[1] ? [x[0], nn, ...x.slice(2)] : x)), q[2]];
    }
    case "iface-alias": return [p[0], p[1].map((d) => (head(d) === "iface" && d[3].length === 0 ? [A("alias"), d[1], d[2], [A("obj"), d[4], A("none")]] : head(d) === "alias" && head(d[3]) === "obj" && isAtom(d[3][2], "none") && rng.chance(1, 2) ? [A("iface"), d[1], d[2], [], d[3][1]] : d)), p[2]];
  }
  return p;
}
// a name no declaration of the program has (two rewrites of one script once drew the same number: a duplicate
// declaration is not a meaning-preserving rewrite)
function freshName(rng, p, prefix) {
  for (;;) { const n = prefix + rng.below(1000); if (!p[1].some((d) => d[1] === n)) return n; }
}
const REWRITES = ["perm-members", "perm-props", "perm-decls", "parens", "readonly", "regroup-union", "wrap-id", "intro-alias", "inline-alias", "rename", "iface-alias", "jsdoc"];
// JSDoc in front of declarations and — half of the time — at token boundaries INSIDE types as well (before a union member, a
// parenthesised group, a type argument, a property's type): a comment is a comment wherever it stands
// index just after the template literal that starts at `i` (a backtick); `${ … }` holes may hold strings and templates again
function skipTemplate(src, i) {
  let j = i + 1;
  while (j < src.length) {
    if (src[j] === "\\") { j += 2; continue; }
    if (src[j] === "`") return j + 1;
    if (src[j] === "$" && src[j + 1] === "{") {
      j += 2;
      let depth = 1;
      while (j < src.length && depth > 0) {
        if (src[j] === "`") { j = skipTemplate(src, j); continue; }
        if (src[j] === '"' || src[j] === "'") { const q = src[j]; j++; while (j < src.length && src[j] !== q) j += src[j] === "\\" ? 2 : 1; j++; continue; }
        if (src[j] === "{") depth++;
        if (src[j] === "}") depth--;
        j++;
      }
      continue;
    }
    j++;
  }
  return j;
}
function jsdocInline(src, rng) {
  let out = "", i = 0, k = 0;
  while (i < src.length) {
    const c = src[i];
    if (c === "`") { const e = skipTemplate(src, i); out += src.slice(i, e); i = e; continue; }
    if (c === '"' || c === "'") { // skip a string literal
      let j = i + 1;
      while (j < src.length && src[j] !== c) j += src[j] === "\\" ? 2 : 1;
      out += src.slice(i, j + 1); i = j + 1; continue;
    }
    if (src.startsWith("/*", i)) { const j = src.indexOf("*/", i + 2); const e = j < 0 ? src.length : j + 2; out += src.slice(i, e); i = e; continue; }
    let hit = null;
    for (const pat of ["| ", ": ", ", ", "= ", "& ", "<"]) if (src.startsWith(pat, i) && !(pat === "= " && src[i - 1] === "=") && !(pat === "<" && src[i + 1] === "=")) { hit = pat; break; }
    if (hit) { out += hit; i += hit.length; if (rng.chance(1, 10)) out += "/** d" + (k++) + " */ "; continue; }
    out += c; i++;
  }
  return out;
}
function withJsdoc(src, rng) {
  const t = src.split("\n").map((l) => (/^(type|interface) /.test(l) && rng.chance(1, 2) ? "/** doc " + rng.below(100) + " */\n" + l : l)).join("\n");
  return rng.chance(1, 2) ? jsdocInline(t, rng) : t;
}
export function genRewrite(rng, params) {
  const p = genProg(rng);
  const nvals = Number(params[0] || 12);
  if (rng.chance(1, 12)) {
    // a discriminated union whose tags are written through aliases: a variant selected by SEVERAL tags (`kind: "circle" | "disc"`)
    // with some of the tags, or a sub-union of them, named (`type Circle = "circle"; kind: Circle | "disc"`)
    const key = rng.pick(["kind", "t"]);
    const L = (v) => [A("lit"), [A("s"), v]];
    // (one time in three the second variant's tag is ALSO a tag of the first: a tag carried by every variant does not separate
    // them, and the printer must see that through the alias as well)
    const tagsA = rng.pick([["circle", "disc"], ["circle", "disc", "oval"]]), tagB = rng.chance(1, 3) ? tagsA[1] : "square";
    const mkU = (ms) => (ms.length === 1 ? ms[0] : [A("union"), ...ms]);
    const varA = (tag) => [A("obj"), [[key, A("false"), tag], ["r", A("false"), A("number")]], A("none")];
    const varB = [A("obj"), [[key, A("false"), L(tagB)], ["side", A("false"), A("number")]], A("none")];
    const p1 = [p[0], [], [["EX", [A("union"), varA(mkU(tagsA.map(L))), varB]]]];
    const how = rng.below(3);
    const decls = how === 0 ? tagsA.map((t, i) => [A("alias"), "Tg" + i, [], L(t)]) : how === 1 ? [[A("alias"), "Tg0", [], L(tagsA[0])]] : [[A("alias"), "Round", [], mkU(tagsA.slice(0, 2).map(L))]];
    const tagQ = how === 0 ? mkU(tagsA.map((_, i) => [A("ref"), "Tg" + i])) : how === 1 ? mkU([[A("ref"), "Tg0"], ...tagsA.slice(1).map(L)]) : mkU([[A("ref"), "Round"], ...tagsA.slice(2).map(L)]);
    const q1 = [p[0], decls, [["EX", [A("union"), varA(tagQ), varB]]]];
    const vals = [...tagsA.map((t) => ({ [key]: t, r: 1 })), { [key]: tagB, side: 2 }, { [key]: tagsA[0], side: 2 }, { [key]: "zz", r: 1 }, { r: 1 }, { [key]: tagsA[1], r: "x" }, 1, null, "circle"];
    return [A("rewrite"), A(String(counter++)), p1, [["entry.ts", tsOfProg(p1)]], vals.map(encVal), q1, [["entry.ts", tsOfProg(q1)]], [A("intro-alias")]];
  }
  if (rng.chance(1, 14)) {
    // literals that SPELL a number or a boolean, inline next to `null` (a union of constants and a keyword) against the same
    // literals behind an alias (a literal set of its own): `"1"` is not `1` in either form
    const L = (v) => [A("lit"), [A("s"), v]];
    const lits = rng.pick([["1", "2", "3"], ["true", "false"], ["1.5", "12"], ["null", "0"]]).map(L);
    const other = rng.pick([A("null"), A("undefined"), A("boolean")]);
    const wrap = rng.pick([(t) => t, (t) => [A("obj"), [["level", A("false"), t]], A("none")], (t) => [A("array"), t]]);
    const p1 = [p[0], [], [["EX", wrap([A("union"), ...lits, other])]]];
    const q1 = [p[0], [[A("alias"), "Level", [], [A("union"), ...lits]]], [["EX", wrap([A("union"), [A("ref"), "Level"], other])]]];
    const raw = [1, 2, 3, "1", "2", true, false, "true", 1.5, "1.5", 12, 0, "0", null, "null", undefined];
    const vals = raw.flatMap((v) => [v, { level: v }, [v]]);
    return [A("rewrite"), A(String(counter++)), p1, [["entry.ts", tsOfProg(p1)]], vals.map(encVal), q1, [["entry.ts", tsOfProg(q1)]], [A("intro-alias")]];
  }
  if (rng.chance(1, 12)) {
    // a JSDoc comment on an INLINE union that then becomes a member of another union — through an indexed access on the documented
    // property, as a parenthesised member, as a type argument: the comment is metadata, the union is flattened all the same
    const pair = rng.pick([[A("number"), A("boolean")], [A("string"), A("null")], [A("number"), [A("lit"), [A("s"), "x"]]], [A("boolean"), A("null"), A("number")]]);
    const inner = [A("union"), ...pair], other = rng.pick([A("string"), A("number"), A("null"), [A("lit"), [A("s"), "z"]]]);
    const form = rng.below(3);
    let p1, from, to;
    if (form === 0) {
      p1 = [p[0], [[A("alias"), "Row", [], [A("obj"), [["id", A("false"), inner], ["name", A("false"), A("string")]], A("none")]]], [["EX", [A("union"), [A("idx"), [A("ref"), "Row"], [A("lit"), [A("s"), "id"]]], other]]]];
      from = "{ id:"; to = "{ /** the primary key */ id:";
    } else if (form === 1) {
      p1 = [p[0], [], [["EX", rng.chance(1, 2) ? [A("union"), other, inner] : [A("union"), inner, other]]]];
      from = tsOf(inner); to = "/** numeric flags */ " + tsOf(inner);
    } else {
      p1 = [p[0], [[A("alias"), "OrOther", ["T"], [A("union"), [A("ref"), "T"], other]]], [["EX", [A("ref"), "OrOther", inner]]]];
      from = "OrOther<("; to = "OrOther</** d */ (";
    }
    const t1 = tsOfProg(p1), t2 = t1.replace(from, to);
    const vals = [1, 0, true, false, "s", "x", "z", null, undefined, {}, [1]];
    if (t2 !== t1) return [A("rewrite"), A(String(counter++)), p1, [["entry.ts", t1]], vals.map(encVal), p1, [["entry.ts", t2]], [A("jsdoc")]];
  }
  if (rng.chance(1, 12)) {
    // two object types with the same property names and types that differ only in which properties are optional, in one
    // program, and a rewrite that flips the order in which the compiler meets them (renamed aliases / declarations swapped):
    // validators the printer hoists and shares must not be shared between the two
    const props = [["a", A("string")], ["b", A("number")], ["c", A("boolean")]].filter(() => rng.chance(3, 4));
    if (props.length < 2) props.push(["a", A("string")], ["b", A("number")]);
    const uniq = props.filter((x, i) => props.findIndex((y) => y[0] === x[0]) === i);
    const req = [A("obj"), uniq.map(([k, t]) => [k, A("false"), t]), A("none")];
    const someOpt = [A("obj"), uniq.map(([k, t], i) => [k, A(i === 0 || rng.chance(1, 2) ? "true" : "false"), t]), A("none")];
    const second = rng.chance(1, 2) ? someOpt : [A("bi"), "Partial", [A("ref"), "Ta"]];
    const mk = (n1, n2, swap) => { const ds = [[A("alias"), n1, [], req], [A("alias"), n2, [], head(second) === "bi" ? [A("bi"), "Partial", [A("ref"), n1]] : second]];
      const ex = [["E1", [A("ref"), n1]], ["E2", [A("ref"), n2]]]; return [p[0], swap ? [ds[1], ds[0]] : ds, ex]; };
    const p1 = mk("Ta", "Tb", false), q1 = rng.chance(1, 2) ? mk("Tz", "Tb", rng.chance(1, 2)) : mk("Ta", "Tb", true);
    const full = Object.fromEntries(uniq.map(([k, t]) => [k, t.s === "string" ? "x" : t.s === "number" ? 1 : true]));
    const vals = [full, {}, ...uniq.map(([k]) => { const o = { ...full }; delete o[k]; return o; }), { ...full, extra: 1 }, 1, null, "x"];
    return [A("rewrite"), A(String(counter++)), p1, [["entry.ts", tsOfProg(p1)]], vals.map(encVal), q1, [["entry.ts", tsOfProg(q1)]], [A("rename"), A("perm-decls")]];
  }
  if (rng.chance(1, 12)) {
    // renaming an alias in a program of SEVERAL modules: two modules whose paths read alike once mangled (`a/b.ts`, `a_b.ts`;
    // `user-types.ts`, `user_types.ts`) each declare a type; the rewrite gives both types the same name (imports updated).
    // The term is the same before and after (the model compiles the term); the files differ
    const [f1, f2] = rng.pick([["a/b.ts", "a_b.ts"], ["user-types.ts", "user_types.ts"], ["x.y.ts", "x_y.ts"], ["t1.ts", "t2.ts"]]);
    const leafA = rng.pick([A("string"), A("number")]), leafB = rng.pick([A("boolean"), A("null"), A("number")]);
    const tA = [A("obj"), [["id", A("false"), leafA]], A("none")], tB = [A("obj"), [["id", A("false"), leafB], ["key", A("true"), A("number")]], A("none")];
    const ex = [A("obj"), [["a", A("false"), [A("ref"), "Ida"]], ["b", A("false"), [A("ref"), "Idb"]]], A("none")];
    const p1 = [p[0], [[A("alias"), "Ida", [], tA], [A("alias"), "Idb", [], tB]], [["EX", ex], ["EA", [A("ref"), "Ida"]], ["EB", [A("ref"), "Idb"]]]];
    const spec = (f) => "./" + f.replace(/\.ts$/, "");
    const entry = (n1, n2) => `import { ${n1} } from "${spec(f1)}";\nimport { ${n2} } from "${spec(f2)}";\nparse.buildParsers<{ EX: { a: Ida; b: Idb }, EA: Ida, EB: Idb }>();\n`;
    const files1 = [[f1, `export type Ida = ${tsOf(tA)};\n`], [f2, `export type Idb = ${tsOf(tB)};\n`], ["entry.ts", entry("Ida", "Idb")]];
    const nm = rng.pick(["Id", "Ida", "Idb"]);
    const files2 = [[f1, `export type ${nm} = ${tsOf(tA)};\n`], [f2, `export type ${nm} = ${tsOf(tB)};\n`], ["entry.ts", entry(nm === "Ida" ? "Ida" : `${nm} as Ida`, nm === "Idb" ? "Idb" : `${nm} as Idb`)]];
    const mA = (t) => (t.s === "string" ? "x" : t.s === "number" ? 1 : t.s === "boolean" ? true : null);
    const vals = [{ a: { id: mA(leafA) }, b: { id: mA(leafB) } }, { a: { id: mA(leafB) }, b: { id: mA(leafA) } }, { id: mA(leafA) }, { id: mA(leafB) }, { id: mA(leafB), key: 1 }, { id: mA(leafA), key: "k" }, { a: { id: mA(leafA) }, b: { id: mA(leafA) } }, 1, null];
    return [A("rewrite"), A(String(counter++)), p1, files1, vals.map(encVal), p1, files2, [A("rename-across-modules")]];
  }
  if (rng.chance(1, 10)) {
    // a tuple that reaches the semantic engine BY NAME (Exclude, indexed access, a conditional type) against the same tuple
    // written in place: a named tuple without a rest element is as closed as an inline one
    const generic = rng.chance(1, 2), withRest = rng.chance(1, 4);
    const items = rng.pick([[A("string"), A("number")], [A("string")], [A("number"), A("boolean"), A("string")]]);
    const rest = withRest ? A("boolean") : A("none");
    const body = [A("tuple"), items, rest];
    const decl = generic ? [A("alias"), "Pair", items.map((_, i) => "P" + i), [A("tuple"), items.map((_, i) => [A("ref"), "P" + i]), rest]] : [A("alias"), "Pair", [], body];
    const use = generic ? [A("ref"), "Pair", ...items] : [A("ref"), "Pair"];
    const op = rng.below(4);
    const mk = (t) => op === 0 ? [A("bi"), "Exclude", [A("union"), t, A("null")], A("null")] : op === 1 ? [A("idx"), t, A("number")]
      : op === 2 ? [A("cond"), t, body, [A("lit"), [A("s"), "yes"]], [A("lit"), [A("s"), "no"]]] : [A("bi"), "Exclude", [A("union"), t, A("string")], [A("array"), A("boolean")]];
    const ds = [...p[1].filter((d) => d[1] !== "Pair"), decl];
    const p1 = [p[0], ds, [["EX", mk(use)]]], q1 = [p[0], ds, [["EX", mk(body)]]];
    const member = items.map((t) => (t.s === "string" ? "a" : t.s === "number" ? 1 : true));
    const vals = [member, [...member, true], [...member, "x"], member.slice(0, -1), "yes", "no", true, null, 1, "a", [], [true], { 0: "a", 1: 1 }];
    return [A("rewrite"), A(String(counter++)), p1, [["entry.ts", tsOfProg(p1)]], vals.map(encVal), q1, [["entry.ts", tsOfProg(q1)]], [A("inline-alias")]];
  }
  if (rng.chance(1, 10)) {
    // a Map / Set that reaches the semantic engine BY NAME (Exclude, a conditional type) against the same container written
    // in place; key and value types differ, so a converter that mixes them up behind the name shows
    const leafs = [A("string"), A("number"), A("boolean")];
    const k = rng.pick(leafs), v = rng.pick(leafs.filter((t) => t !== k));
    const isMap = rng.chance(2, 3);
    const body = isMap ? [A("bi"), "Map", k, v] : [A("bi"), "Set", k];
    const generic = rng.chance(1, 3);
    const decl = generic ? [A("alias"), "Index", ["P0", "P1"], isMap ? [A("bi"), "Map", [A("ref"), "P0"], [A("ref"), "P1"]] : [A("bi"), "Set", [A("ref"), "P0"]]] : [A("alias"), "Index", [], body];
    const use = generic ? [A("ref"), "Index", k, v] : [A("ref"), "Index"];
    const op = rng.below(4);
    const yes = [A("lit"), [A("s"), "yes"]], no = [A("lit"), [A("s"), "no"]];
    const mk = (t) => op === 0 ? [A("bi"), "Exclude", [A("union"), t, A("null")], A("null")] : op === 1 ? [A("cond"), t, body, yes, no]
      : op === 2 ? [A("bi"), "Exclude", [A("union"), [A("obj"), [["m", A("false"), t]], A("none")], A("string")], A("string")] : [A("cond"), body, t, yes, no];
    const ds = [...p[1].filter((d) => d[1] !== "Index"), decl];
    const p1 = [p[0], ds, [["EX", mk(use)]]], q1 = [p[0], ds, [["EX", mk(body)]]];
    const mA = (t) => (t.s === "string" ? "a" : t.s === "number" ? 1 : true);
    const good = isMap ? new Map([[mA(k), mA(v)]]) : new Set([mA(k)]), bad = isMap ? new Map([[mA(v), mA(k)]]) : new Set([mA(v)]);
    const vals = [good, bad, isMap ? new Map() : new Set(), { m: good }, { m: bad }, "yes", "no", null, 1, "a", [], isMap ? new Set([mA(k)]) : new Map([[mA(k), mA(k)]])];
    return [A("rewrite"), A(String(counter++)), p1, [["entry.ts", tsOfProg(p1)]], vals.map(encVal), q1, [["entry.ts", tsOfProg(q1)]], [A("inline-alias")]];
  }
  // twins that differ only in the optionality of an index signature's value (`Record<K, V>` next to `Partial<Record<K, V>>`):
  // validators the printer hoists and shares must not be shared between the two
  if (rng.chance(1, 10)) {
    const key = rng.pick([A("string"), A("string"), [A("tpl"), [A("lit"), "x_"], A("str")]]);
    const val = rng.chance(1, 2) ? A(rng.pick(["string", "number", "boolean"])) : genLit(rng);
    const rec = [A("bi"), "Record", key, val], par = [A("bi"), "Partial", [A("bi"), "Record", key, val]];
    const [x, y] = rng.chance(1, 2) ? [rec, par] : [par, rec];
    p[2] = [...p[2], ["EH", [A("obj"), [["a", A("false"), x], ["b", A("false"), y]], A("none")]]];
  }
  const vals = genValues(rng, p, nvals);
  let q = clone(p);
  const script = [];
  let jsdoc = false;
  for (let i = 1 + rng.below(4); i > 0; i--) { const k = rng.pick(REWRITES); script.push(A(k)); if (k === "jsdoc") jsdoc = true; else q = applyRewrite(rng, q, k); }
  const src2 = jsdoc ? withJsdoc(tsOfProg(q), rng) : tsOfProg(q);
  return [A("rewrite"), A(String(counter++)), p, [["entry.ts", tsOfProg(p)]], vals.map(encVal), q, [["entry.ts", src2]], script];
}

// ---------- C04: totality — erroneous / unsupported / malformed / multi-file projects ----------
function pickSubterm(rng, p, f) { // replace one random closed subterm of an export by f(subterm)
  let done = false;
  const exps = p[2].map(([n, t]) => [n, mapTy(t, (x) => { if (!done && rng.chance(1, 4)) { done = true; return f(x); } return x; })]);
  if (!done) exps[0] = [exps[0][0], f(exps[0][1])];
  return [p[0], p[1], exps];
}
const MODELLED_ERRORS = ["missing-ref", "partial-nonobject", "pick-nonobject", "omit-nonobject", "required-nonobject", "symbol-kw", "argcount"];
function injectModelled(rng, p, kind) {
  switch (kind) {
    case "missing-ref": return pickSubterm(rng, p, () => [A("ref"), "Missing" + rng.below(100)]);
    case "partial-nonobject": return pickSubterm(rng, p, () => [A("bi"), "Partial", A(rng.pick(["string", "number", "boolean"]))]);
    case "required-nonobject": return pickSubterm(rng, p, () => [A("bi"), "Required", [A("array"), A("string")]]);
    case "pick-nonobject": return pickSubterm(rng, p, () => [A("bi"), "Pick", A("string"), [A("lit"), [A("s"), "a"]]]);
    case "omit-nonobject": return pickSubterm(rng, p, () => [A("bi"), "Omit", [A("tuple"), [A("number")], A("none")], [A("lit"), [A("s"), "a"]]]);
    case "symbol-kw": return pickSubterm(rng, p, () => A("symbol"));
    case "argcount": { const d = p[1].length ? rng.pick(p[1]) : null; if (!d) return pickSubterm(rng, p, () => [A("ref"), "Missing0"]); return pickSubterm(rng, p, () => [A("ref"), d[1], ...Array.from({ length: d[2].length + 1 }, () => A("string"))]); }
  }
  return p;
}
const UNSUPPORTED_SNIPPETS = ["{ f(): void }", "unique symbol", "this", "[string?]", "typeof undefinedValue", 'import("./nofile").T', "{ get x(): number }", "new () => string", "{ [k: string]: number; [j: number]: number }",
  "keyof Missing9", "Missing8[\"a\"]", "string extends infer U ? U : never", "{ readonly [K in keyof Missing7]: 1 }", "abstract new () => void", "asserts x is string", "`${Missing6}`", "Array", "Record<string>", "Map<string>", "Exclude<number, 1>",
  "Set", "StringFormat<123>", "NumberFormat<\"unregisteredFmt\">", "[...string]", "[...string[], ...number[]]", "object[\"x\"]", "1n", "-1", "1e999", "-1e999", "void[]", "never[]", "A.B.C", "typeof import(\"./x\")", "{ a: string }[\"b\"]"];
function textMutate(rng, src) {
  const i = rng.below(src.length + 1);
  switch (rng.below(6)) {
    case 0: return src.slice(0, i) + src.slice(i + 1 + rng.below(3));
    case 1: return src.slice(0, i) + rng.pick(["{", "}", "<", ">", "(", ")", "[", "|", "&", ";", "\"", "`", "=", "?", ":", "é", "\t", "全", "😀", "\n", "/*", "${"]) + src.slice(i);
    case 2: { const m = [...src.matchAll(/\b(string|number|boolean|null|any)\b/g)]; if (!m.length) return src; const k = rng.pick(m); return src.slice(0, k.index) + rng.pick(UNSUPPORTED_SNIPPETS) + src.slice(k.index + k[0].length); }
    case 3: return src.replace("parse.buildParsers", rng.pick(["parse.buildParsers", "buildParsers", "x.y.buildParsers", "parse.buildParsers<{}>();\nparse.buildParsers"]));
    case 4: return rng.pick(["export default 1;\nexport default 2;\n", "enum E { A, B = \"x\" }\n", "declare const v: unique symbol;\n", "export * from \"./entry\";\n", "import X from \"./entry\";\n", "type Self = Self | string;\n", "interface I extends I {}\n", "const va = vb;\nconst vb = va;\ntype Vc = typeof va;\n", "const vs = { k: vs };\ntype Vs = typeof vs;\n"]) + src;
    default: return src.slice(0, i) + src.slice(i).replace(/[A-Za-z]+/, (w) => w.split("").reverse().join(""));
  }
}
function splitFiles(rng, p) { // move some declarations to other files with imports back (may be cyclic / missing)
  const files = [["entry.ts", ""]];
  const decls = p[1];
  if (!decls.length) return null;
  const moved = decls.filter(() => rng.chance(1, 2));
  if (!moved.length) return null;
  const style = rng.below(5);
  const names = moved.map((d) => d[1]);
  const importLine = style === 0 ? `import { ${names.join(", ")} } from "./lib";` : style === 1 ? `import type { ${names.join(", ")} } from "./lib";` : style === 2 ? `import { ${names.join(", ")} } from "./missingfile";` : style === 3 ? `import { ${names.map((n) => n + "x as " + n).join(", ")} } from "./lib";` : `import * as L from "./lib";\n${names.map((n) => `type ${n} = L.${n};`).join("\n")}`;
  const kept = decls.filter((d) => !moved.includes(d));
  const keptNames = kept.map((d) => d[1]);
  // lib may need the kept declarations: import them back from entry (a cycle)
  const libSrc = (keptNames.length && rng.chance(1, 2) ? `import { ${keptNames.join(", ")} } from "./entry";\n` : "") + moved.map((d) => "export " + tsOfDecl(d)).join("\n") + (rng.chance(1, 4) ? '\nexport * from "./entry";' : "") + "\n";
  const entrySrc = importLine + "\n" + kept.map((d) => (rng.chance(1, 2) ? "export " : "") + tsOfDecl(d)).join("\n") + `\nparse.buildParsers<{ ${p[2].map(([n, t]) => `${n}: ${tsOf(t)}`).join(", ")} }>();\n`;
  return [["entry.ts", entrySrc], ["lib.ts", libSrc]];
}
// value-level exports read through `typeof`: several members, some unsupported (more than one candidate diagnostic)
const VALUE_EXPORTS = ['"a"', "1", "true", "null", '{ a: 1, b: "x" }', '["a", 1] as const', '"k" as const', "() => 1", "Symbol()", "new Date()", "undefinedName", "class {}", "1n", "`a${1}`", "[1, 2]", "{ f() {} }", "-1", "!0"];
function defaultExprProject(rng) {
  const pad = Array.from({ length: rng.below(6) }, (_, i) => `// padding comment line ${i} ${"x".repeat(rng.below(60))}`).join("\n");
  const consts = ["const retries = 3;", 'const label = "svc";', "const flag = true;", "const nested = { a: 1 };", "const fn = () => 1;"].filter(() => rng.chance(2, 3)).join("\n");
  const field = () => rng.pick(["retries", "label", "flag", "nested", "fn", "missingIdent", 'name: "service"', "n: 1", "id: makeId()", "inner: { retries }", "arr: [label, 1]", "...nested", "k: label as string", "neg: -retries", "t: `x${label}`"]);
  const expr = rng.pick([() => `{ ${Array.from({ length: 1 + rng.below(4) }, field).join(", ")} }`, () => "[retries, label]", () => "retries", () => "makeId()", () => "{ name: \"service\" } as const", () => "label satisfies string"])();
  const lib = `${pad}\n${consts}\nexport default ${expr};\n`;
  const use = rng.pick(["typeof cfg", "(typeof cfg)[\"name\"]", "{ c: typeof cfg }", "keyof typeof cfg"]);
  return [["entry.ts", `import cfg from "./config";\nparse.buildParsers<{ Cfg: ${use} }>();\n`], ["config.ts", lib]];
}
const SEM_EXPRS = ["Exclude<Rec | string, string>", "Exclude<Tp | string, string>", "Array<Tp>[number]", "Exclude<Rec | Tp, Tp>", "keyof Rec", "({ a: Rec } | { a: 1 })[\"a\"]", "Exclude<Rec2 | number, number>", "Exclude<Tp | Rec2 | null, null>", "Tp[1]", "Exclude<\"a\" | \"b\" | number, \"a\">",
  // named Map / Set / array aliases next to object types in one semantic context (each kind of atom has its own table)
  "Exclude<Attrs | Lk, Attrs>", "Exclude<Lk | St | string, string>", "(Lk extends Attrs ? 1 : 2)", "Exclude<Attrs | St, St>", "Exclude<Rec | Lk, Rec>", "Exclude<Attrs | Rec2 | Lk | St, Lk>", "(Ar extends Tp ? \"y\" : \"n\")", "Exclude<Ar | Attrs | Lk, Ar>",
  // named containers that contain THEMSELVES (a Set of groups, a Map to its own kind, an array of arrays): the conversion of the
  // name to a semantic type meets the name again before it is done
  "Exclude<Gs | string | null, null>", "Exclude<Gm | null, null>", "Exclude<Ga | number, number>", "(Gs extends St ? 1 : 2)", "Ga[number]", "Exclude<Gs | Gm | Ga, Gm>", "keyof { a: Gs; b: Gm }"];
function semanticProject(rng) {
  const decls = "type Rec = { next: Rec | null };\ntype Tp = [string, ...Tp[]];\ntype Rec2 = { v: number; kids?: Array<Rec2> };\ntype Attrs = { id: string };\ntype Lk = Map<string, number>;\ntype St = Set<string>;\ntype Ar = Array<string>;\ntype Gs = Set<Gs | string>;\ntype Gm = Map<string, Gm | number>;\ntype Ga = Array<Ga | string>;\n";
  const n = 2 + rng.below(3);
  const exps = Array.from({ length: n }, (_, i) => `E${i}: ${rng.pick(SEM_EXPRS)}`).join(", ");
  return [["entry.ts", decls + `parse.buildParsers<{ ${exps} }>();\n`]];
}
function valuesProject(rng) {
  const n = 2 + rng.below(6);
  const names = Array.from({ length: n }, (_, i) => rng.pick(["v", "w", "Z", "a", "m"]) + i);
  const lib = names.map((nm) => `export const ${nm} = ${rng.pick(VALUE_EXPORTS)};`).join("\n") + (rng.chance(1, 3) ? "\nexport type T0 = string;\nexport enum En { A, B }" : "") + "\n";
  const use = rng.pick(["typeof L", "typeof L." + names[0], "(typeof L)[keyof typeof L]", "keyof typeof L", "{ x: typeof L }"]);
  const entry = `import * as L from "./vals";\nparse.buildParsers<{ E0: ${use} }>();\n`;
  if (rng.chance(1, 2)) { // the names reach `vals` through a re-export (kept in a different table of the exporting module)
    const reexp = rng.chance(1, 2) ? `export { ${names.join(", ")} } from "./other";\n` : `import { ${names.join(", ")} } from "./other";\nexport { ${names.join(", ")} };\n`;
    return [["entry.ts", entry], ["vals.ts", reexp], ["other.ts", lib]];
  }
  return [["entry.ts", entry], ["vals.ts", lib]];
}
// shapes behind the repaired D86–D89: enums with string-named members, user types called like a built-in used as type
// arguments next to the built-in, generics that re-instantiate themselves with larger arguments, circles of re-exports
function oddProject(rng) {
  switch (rng.below(8)) {
    case 0: {
      const ms = ['"a-b" = "x"', 'B = "y"', '"c d" = 1', "D", 'E = "e"'].filter(() => rng.chance(2, 3));
      if (!ms.length) ms.push('"k-1" = "v"');
      const use = rng.pick(["E", "E.B", "E.D", "E.E", 'E["a-b"]', "`${E}`", "keyof typeof E", "(typeof E)[keyof typeof E]"]);
      return [["entry.ts", `${rng.chance(1, 2) ? "export " : ""}enum E { ${ms.join(", ")} }\nparse.buildParsers<{ E0: ${use} }>();\n`]];
    }
    case 1: {
      const nm = rng.pick(["Function", "Date", "Array", "Object", "Uint8Array", "Record", "Map", "Set", "String"]);
      const args = [nm, rng.pick(["() => void", "Date", "string[]", "object", "Uint8Array", "Map<string, number>", "Set<string>", "string"])];
      return [["entry.ts", `type ${nm} = ${rng.pick(["string", "{ a: number }", "number[]"])};\ntype Box<T> = { v: T };\nparse.buildParsers<{ E0: Box<${args[0]}>, E1: Box<${args[1]}>, E2: ${nm} }>();\n`]];
    }
    case 2: {
      const grow = rng.pick(["T[]", "[T]", "{ a: T }", "T | null", "Array<T>"]);   // not `[T, T]`: recorded finding D88b
      const body = rng.pick([`{ x: A<${grow}> | null }`, `{ x?: A<${grow}> }`, `A<${grow}>[]`, `[T, ...A<${grow}>[]]`]);
      return [["entry.ts", `type A<T> = ${body};\nparse.buildParsers<{ E0: A<${rng.pick(["string", "number", "{ k: 1 }"])}> }>();\n`]];
    }
    case 3: {
      if (rng.chance(1, 2)) {
        // a circle closed only by DEFAULT imports and `export default <identifier>` (every address on it is a local one), down
        // to a file that imports its own default export
        const n = 1 + rng.below(4);
        const files = [["entry.ts", `import X from "./m0";\nparse.buildParsers<{ E0: ${rng.pick(["X", "typeof X", "X[]", "{ v: typeof X }"])} }>();\n`]];
        for (let i = 0; i < n; i++) {
          const next = `./m${(i + 1) % n}`;
          files.push([`m${i}.ts`, rng.pick([`import X from "${next}";\nexport default X;\n`, `import Y${i} from "${next}";\nexport default Y${i};\n`, `import Z from "${next}";\nexport { Z as default };\n`, `export { default } from "${next}";\n`])]);
        }
        if (rng.chance(1, 4)) files[files.length - 1][1] = rng.pick(["type X = string;\nexport default X;\n", "const X = 1;\nexport default X;\n"]);
        return files;
      }
      const n = 2 + rng.below(3);
      const files = [["entry.ts", `import { X } from "./m0";\nparse.buildParsers<{ E0: ${rng.pick(["X", "typeof X", "X[]"])} }>();\n`]];
      for (let i = 0; i < n; i++) {
        const next = `./m${(i + 1) % n}`;
        files.push([`m${i}.ts`, rng.pick([`export { X } from "${next}";\n`, `export * from "${next}";\n`, `import { X } from "${next}";\nexport { X };\n`, `export type { X } from "${next}";\n`])]);
      }
      if (rng.chance(1, 3)) files[files.length - 1][1] = rng.pick(["export type X = string;\n", "export const X = 1;\n"]);
      return files;
    }
    case 4: {
      // barrels that `export *` each other in a circle, with the name behind a LATER star of a file on the circle (valid
      // TypeScript) or nowhere at all; looked up in value and in type position, through every kind of import
      const where = rng.below(3); // 0: declared in c.ts, 1: nowhere, 2: declared in b.ts (found before the circle closes)
      const decl = "export const z = { k: 1 } as const;\nexport type Z = { k: string };\n";
      const a = rng.chance(1, 2) ? 'export * from "./b";\nexport * from "./c";\n' : 'export * from "./c";\nexport * from "./b";\n';
      const files = [["a.ts", a], ["b.ts", 'export * from "./a";\n' + (where === 2 ? decl : "")], ["c.ts", (rng.chance(1, 3) ? 'export * from "./b";\n' : "") + (where === 0 ? decl : "export type Other = 1;\n")]];
      const [imp, use] = rng.pick([
        ['import { z } from "./a";', "typeof z"], ['import * as NS from "./a";', "typeof NS.z"], ["", 'typeof import("./a").z'],
        ['import { z as y } from "./a";', "{ v: typeof y }"], ['import { Z } from "./a";', "Z"], ['import * as NS from "./a";', "NS.Z"],
        ['import type { Z } from "./a";', "Z[]"], ['import { nope } from "./a";', "typeof nope"], ['import * as NS from "./a";', "typeof NS"]]);
      return [["entry.ts", `${imp}\nparse.buildParsers<{ E0: ${use} }>();\n`], ...files];
    }
    case 5: {
      // constants defined in terms of each other, and numeric literals beyond the range of a double
      const shape = rng.pick(rng.pick([["const a = b;\nconst b = a;\ntype T = typeof a;", "const a = { k: b };\nconst b = { k: a };\ntype T = typeof a;",
        "const a = [a];\ntype T = typeof a;", "const a = { ...b };\nconst b = { ...a };\ntype T = typeof b;", "const a = { k: 1 };\nconst b = { p: a, q: a };\ntype T = typeof b;",
        "const a = { x: a.x };\ntype T = typeof a;", "const a = { x: { y: a.x } };\ntype T = typeof a;", "const a = { x: b.y };\nconst b = { y: a.x };\ntype T = typeof a;", "const a = { x: 1, y: a[\"x\"] };\ntype T = typeof a;"],
        // a negation that survives to the printer (Exclude of the top type): the answer is a module, never a panic
        ["type T = Exclude<unknown, Uint8Array>;", "type T = { x: Exclude<unknown, { a: string }> };", "type T = Exclude<unknown, string>[];", "type T = [Exclude<unknown, Date>, number];",
        "type T = { x?: Exclude<unknown, undefined> };", "type T = Record<string, Exclude<unknown, number>>;", "type T = Exclude<unknown, string> & { a: 1 };"],
        // a would-be discriminator one of whose tags is carried by every variant, written through a named type
        ["type Kind = \"a\" | \"b\";\ntype T = { kind: Kind; x: string } | { kind: \"b\"; y: number };", "enum Kind { A = \"a\", B = \"b\" }\ntype T = { kind: Kind; x: string } | { kind: Kind.B; y: number };",
        "type K2 = \"b\";\ntype T = { kind: \"a\" | K2; x: string } | { kind: K2; y: number } | { kind: \"c\"; z: null };", "type Kind = \"a\" | \"b\";\ntype T = { t: Kind; x: string } | { t: Kind; y: number };"],
        // mapped types over literal keys whose body fails differently per key, or materialises helper definitions per key:
        // the answer (which diagnostic, which helper numbers) must not depend on the order the keys are visited in
        ["type T = { [K in \"a\" | \"b\"]: K extends \"a\" ? symbol : Missing };", "type T = { [K in \"x\" | \"y\" | \"z\"]: K extends \"x\" ? Missing1 : K extends \"y\" ? symbol : Missing2 };",
         "type Tree = { a: Tree | null; b: Tree[] };\ntype T = { [K in \"a\" | \"b\"]: (Tree | { a: 1; b: 2 })[K] };", "type L = [string, ...L[]];\ntype T = { [K in \"p\" | \"q\" | \"r\"]: Exclude<L | K, K> };"],
        ["type T = `${\"\"}`;", "type T = { k: `${\"\"}${\"\"}` };", "type T = 1e999 | 2;", "type T = -1e999;", "type T = { k: 1e400 };", "const inf = 1e999;\ntype T = typeof inf;", "type T = `${1e999}`;"]]));
      return [["entry.ts", shape + "\nparse.buildParsers<{ E0: T }>();\n"]];
    }
    case 6: {
      // calls of buildParsers that are malformed at the level of the decoder list: whatever the answer, a module that is
      // returned must build every name the call asks for (the marker comment carries the names for the oracle)
      const [arg, names] = rng.pick([["{ A: A; m(): void }", "A,m"], ['{ A: A; "a-b": number }', "A,a-b"], ["{ A: A; [k: string]: number }", "A"], ["{ A: A; b }", "A,b"],
        ["Parsers", "A"], ["{ A: A }, { B: A }", "A,B"], ["{ A: A; get g(): number }", "A,g"], ["{ A: A; [\"c\"]: A }", "A,c"], ["{ A: A; readonly B: A }", "A,B"], ["{ A: A; B?: A }", "A,B"]]);
      return [["entry.ts", `/*names:${names}*/\ntype A = { k: string };\ntype Parsers = { A: A };\nparse.buildParsers<${arg}>();\n`]];
    }
    default: {
      // (sometimes far beyond any nesting limit: the answer must then be a diagnostic, not an exhausted stack)
      const chain = rng.chance(1, 3) ? rng.pick([400, 1500, 4000]) : 30 + rng.below(120);
      const decls = Array.from({ length: chain }, (_, i) => `type N${i} = { v: ${i + 1 < chain ? "N" + (i + 1) : "string"} };`).join("\n");
      return [["entry.ts", decls + "\nparse.buildParsers<{ E0: N0 }>();\n"]];
    }
  }
}
export function genTotal(rng, params) {
  if (rng.chance(1, 12)) return [A("total"), A(String(counter++)), A("none"), oddProject(rng), []];
  let p = genProg(rng);
  if (rng.chance(1, 12)) return [A("total"), A(String(counter++)), A("none"), valuesProject(rng), []];
  if (rng.chance(1, 12)) return [A("total"), A(String(counter++)), A("none"), defaultExprProject(rng), []];
  if (rng.chance(1, 12)) return [A("total"), A(String(counter++)), A("none"), semanticProject(rng), []];
  const vals = genValues(rng, p, Number(params[0] || 6));
  const r = rng.below(10);
  let tied = true, files;
  if (r < 3) { /* valid program */ }
  else if (r < 6) { for (let i = 1 + rng.below(2); i > 0; i--) p = injectModelled(rng, p, rng.pick(MODELLED_ERRORS)); }
  if (r < 6) files = [["entry.ts", tsOfProg(p)]];
  else if (r < 8) { tied = false; let src = tsOfProg(p); for (let i = 1 + rng.below(3); i > 0; i--) src = textMutate(rng, src); files = [["entry.ts", src]]; }
  else { tied = false; files = splitFiles(rng, p) || [["entry.ts", tsOfProg(p)]]; if (rng.chance(1, 3)) files = files.map(([n, s]) => [n, rng.chance(1, 2) ? textMutate(rng, s) : s]); }
  // tab-indented sources, full-width characters and emoji in front of the declarations: a column is a count of characters of
  // the line, whatever their display width
  if (rng.chance(1, 4)) {
    const pre = rng.pick(["\t", "\t\t", "/* 全角 */ ", "/* 😀 */ ", "\t/* 全 */\t"]);
    files = files.map(([n, s]) => [n, s.split("\n").map((l) => (/^(type|interface|export|import|parse\.|const|namespace|function) /.test(l) || l.startsWith("parse.") ? pre + l : l)).join("\n")]);
  }
  return [A("total"), A(String(counter++)), tied ? p : A("none"), files, vals.map(encVal)];
}

let counter = 0;
export function gen(rng, params, mode) {
  if (mode === "prog-total") return genTotal(rng, params);
  if (mode === "prog-rewrite") return genRewrite(rng, params);
  if (mode === "prog-watch") {
    let p = genProg(rng);
    for (let i = 0; i < 3 && p[1].length < 2; i++) p = genProg(rng);
    if (p[1].length) p = [p[0], p[1], [...p[2], ["EX", [A("obj"), p[1].map((d, i) => ["d" + i, A("false"), [A("ref"), d[1], ...d[2].map(() => A("string"))]]), A("none")]]]];
    // a conditional type over a NAMED type: an edit of that declaration flips the answer while the spelling of the operand stays
    if (rng.chance(1, 4)) {
      const ng = p[1].filter((d) => d[2].length === 0);
      if (ng.length) { const d = rng.pick(ng); const L = (v) => [A("lit"), [A("s"), v]];
        p = [p[0], p[1], [...p[2], ["EC", [A("cond"), [A("ref"), d[1]], A(rng.pick(["string", "number", "boolean"])), L("yes"), L("no")]]]]; }
    }
    const [files, ops] = genWatch(rng, p);
    return [A("watch"), A(String(counter++)), files, ops];
  }
  if (mode === "prog-split") {
    // (split id p files1 values proj filesN expect break-kind)
    let p = genProg(rng);
    for (let i = 0; i < 3 && p[1].length < 2; i++) p = genProg(rng);   // prefer programs with declarations to move
    // make every declaration reachable from an export (otherwise nothing has to be imported)
    if (p[1].length) p = [p[0], p[1], [...p[2], ["EX", [A("obj"), p[1].map((d, i) => ["d" + i, A(rng.chance(1, 3) ? "true" : "false"), [A("ref"), d[1], ...d[2].map(() => { const ng = p[1].filter((x) => x[2].length === 0); return ng.length && rng.chance(1, 2) ? [A("ref"), rng.pick(ng)[1]] : A(rng.pick(["string", "number"])); })]]), A("none")]]]];
    const vals = genValues(rng, p, Number(params[0] || 8));
    const sp = rng.chance(1, 5) ? genStarDag(rng, p) : genSplitProject(rng, p);
    if (rng.chance(1, 6) && isAtom(sp.expect, "ok")) { // an enum reached through re-export chains (not modelled in Lean: marker `enum`)
      const en = genEnumLayer(rng);
      const addExport = (src, ty) => src.replace(/ \}>\(\);\n$/, `, EN: ${ty} }>();\n`);
      const single = en.singleDecl + "\n" + addExport(tsOfProg(p), en.singleType);
      const multi = sp.files.map(([n, t]) => (n === "entry.ts" ? [n, en.entryImport + "\n" + addExport(t, en.entryType)] : [n, t])).concat(en.files);
      const p2 = [p[0], p[1], [...p[2], ["EN", A("unknown")]]];
      const extra = ["a", "b", { tag: "b" }, { tag: "a" }, "internal", { tag: "internal2" }, 1, null, ...en.extra];
      return [A("split"), A(String(counter++)), p2, [["entry.ts", single]], [...vals, ...extra].map(encVal), sp.proj, multi, sp.expect, A("enum")];
    }
    if (rng.chance(1, 8) && isAtom(sp.expect, "ok")) {
      // the `const Status = {…} as const; type Status = (typeof Status)[keyof typeof Status]` idiom, split so that a file
      // IMPORTS the value `Status` and DECLARES the type `Status` (a value-only import and a local type of one name are
      // different meanings and do not clash) — not modelled in Lean: marker `enum` (outcome and bits compared only)
      const nm = rng.pick(["Status", "Kind", "Cfg"]);
      const obj = '{ A: "a", B: "b" }';
      const ty = (v) => `(typeof ${v})[keyof typeof ${v}]`;
      const use = rng.pick([(q) => q, (q) => `{ tag: ${q} }`, (q) => `${q} | 1`]);
      const addExport = (src, t) => src.replace(/ \}>\(\);\n$/, `, EN: ${t} }>();\n`);
      const single = `const ${nm} = ${obj} as const;\ntype ${nm} = ${ty(nm)};\n` + addExport(tsOfProg(p), use(nm));
      const how = rng.below(3);
      const imp = how === 0 ? `import { ${nm} } from "./consts_v";` : how === 1 ? `import ${nm} from "./consts_v";` : `import { Val as ${nm} } from "./consts_v";`;
      const lib = how === 0 ? `export const ${nm} = ${obj} as const;\n` : how === 1 ? `const V = ${obj} as const;\nexport default V;\n` : `export const Val = ${obj} as const;\n`;
      const tyFile = `${imp}\nexport type ${nm} = ${ty(nm)};\n`;
      const multi = sp.files.map(([n, t]) => (n === "entry.ts" ? [n, `import type { ${nm} } from "./types_v";\n` + addExport(t, use(nm))] : [n, t])).concat([["consts_v.ts", lib], ["types_v.ts", tyFile]]);
      const p2 = [p[0], p[1], [...p[2], ["EN", A("unknown")]]];
      const extra = ["a", "b", "c", { tag: "a" }, { tag: "c" }, 1, null];
      return [A("split"), A(String(counter++)), p2, [["entry.ts", single]], [...vals, ...extra].map(encVal), sp.proj, multi, sp.expect, A("enum")];
    }
    if (rng.chance(1, 10) && isAtom(sp.expect, "ok")) {
      // a member of a constant reached through `typeof import("./vals_v").cfg.mode`: the leftmost name after `import(…).` is an
      // EXPORT of the imported file — here exported under another name than the constant's own, next to a private constant that
      // carries the exported name (value modules are outside the Lean module model: marker `enum`)
      const addExport = (src, t) => src.replace(/ \}>\(\);\n$/, `, EN: ${t} }>();\n`);
      const decoy = rng.chance(2, 3), deep = rng.chance(1, 2);
      const path = deep ? "cfg.inner.mode" : "cfg.mode";
      const val = (m) => (deep ? `{ inner: { mode: "${m}" }, n: 1 } as const` : `{ mode: "${m}", n: 1 } as const`);
      const single = `const cfgV = ${val("on")};\n` + addExport(tsOfProg(p), `typeof ${path.replace(/^cfg/, "cfgV")}`);
      const lib = (decoy ? `const cfg = ${val("local")};\n` : "") + `const real = ${val("on")};\nexport { real as cfg };\n` + (decoy ? "export const other = cfg;\n" : "");
      const multi = sp.files.map(([n, t]) => (n === "entry.ts" ? [n, addExport(t, `typeof import("./vals_v").${path}`)] : [n, t])).concat([["vals_v.ts", lib]]);
      const p2 = [p[0], p[1], [...p[2], ["EN", A("unknown")]]];
      const extra = ["on", "local", "off", 1, null, { mode: "on" }];
      return [A("split"), A(String(counter++)), p2, [["entry.ts", single]], [...vals, ...extra].map(encVal), sp.proj, multi, sp.expect, A("enum")];
    }
    if (rng.chance(1, 8) && isAtom(sp.expect, "ok")) {
      // a module whose DEFAULT EXPORT IS AN EXPRESSION that mentions constants of its own module, imported by a module that has
      // a constant of the same name with another value: the expression is typed in the scope of the module it is written in
      // (value modules are outside the Lean module model: marker `enum`, outcome and bits compared only)
      const kind = rng.below(4);
      const expr = (b) => (kind === 0 ? `{ x: ${b}, y: "s" } as const` : kind === 1 ? `[${b}, "s"] as const` : kind === 2 ? `${b}.a` : `{ p: { q: ${b}.a }, r: ${b} } as const`);
      const addExport = (src, t) => src.replace(/ \}>\(\);\n$/, `, EN: ${t} }>();\n`);
      const use = rng.pick(["typeof cfg", "{ c: typeof cfg }", "typeof cfg | typeof base"]);
      const single = `const base_lib = { a: 1 } as const;\nconst base = { a: 2 } as const;\nconst cfg = ${expr("base_lib")};\n` + addExport(tsOfProg(p), use);
      const viaBarrel = rng.chance(1, 3);
      const imp = viaBarrel ? 'import { cfg } from "./barrel_v";' : rng.chance(1, 2) ? 'import cfg from "./cfgd_v";' : 'import { default as cfg } from "./cfgd_v";';
      const lib = `const base = { a: 1 } as const;\nexport default ${expr("base")};\n`;
      const more = viaBarrel ? [["barrel_v.ts", 'export { default as cfg } from "./cfgd_v";\n']] : [];
      const multi = sp.files.map(([n, t]) => (n === "entry.ts" ? [n, imp + "\nconst base = { a: 2 } as const;\n" + addExport(t, use)] : [n, t])).concat([["cfgd_v.ts", lib], ...more]);
      const p2 = [p[0], p[1], [...p[2], ["EN", A("unknown")]]];
      const extra = [{ x: { a: 1 }, y: "s" }, { x: { a: 2 }, y: "s" }, [{ a: 1 }, "s"], [{ a: 2 }, "s"], 1, 2, { a: 1 }, { a: 2 }, { p: { q: 1 }, r: { a: 1 } }, { p: { q: 2 }, r: { a: 2 } }, { c: 1 }, { c: 2 }, { c: { x: { a: 1 }, y: "s" } }, { c: { x: { a: 2 }, y: "s" } }, null];
      return [A("split"), A(String(counter++)), p2, [["entry.ts", single]], [...vals, ...extra].map(encVal), sp.proj, multi, sp.expect, A("enum")];
    }
    return [A("split"), A(String(counter++)), p, [["entry.ts", tsOfProg(p)]], vals.map(encVal), sp.proj, sp.files, sp.expect, sp.breakKind];
  }
  if (mode === "prog-strict") {
    // (strict id p files values): acceptance with disallowExtraProperties on; values carry undeclared keys at every depth
    const p = rng.chance(1, 6) ? sharedKeyProg(rng) : genProg(rng);
    const base = genValues(rng, p, Number(params[0] || 8));
    const extra = (v, d) => {
      if (Array.isArray(v)) return v.map((x) => (rng.chance(1, 3) ? extra(x, d + 1) : x));
      if (v && typeof v === "object" && Object.getPrototypeOf(v) === Object.prototype) {
        const o = {};
        for (const k of Object.keys(v)) Object.defineProperty(o, k, { value: rng.chance(1, 2) ? extra(v[k], d + 1) : v[k], enumerable: true, configurable: true, writable: true });
        if (rng.chance(1, 2 + d)) Object.defineProperty(o, rng.pick(["extra", "zz", "a", "b", "kind"]), { value: rng.pick([1, "x", null]), enumerable: true, configurable: true, writable: true });
        return o;
      }
      return v;
    };
    const vals = base.flatMap((v) => (rng.chance(1, 2) ? [v, extra(v, 0)] : [v]));
    // (sometimes with doc comments at token boundaries inside the types — in front of a member of an intersection, a property's
    // type: a comment must not decide whether an intersection is merged into one object type)
    return [A("strict"), A(String(counter++)), p, [["entry.ts", rng.chance(1, 3) ? jsdocInline(tsOfProg(p), rng) : tsOfProg(p)]], vals.map(encVal)];
  }
  if (mode === "prog-describe") {
    const p = genProg(rng);
    p[2] = [p[2][0]]; // one export
    // a type called K used twice (so that it is printed as a declaration), once as the value type of a record
    if (p[1].some((d) => d[1] === "K" && d[2].length === 0) && rng.chance(1, 2)) p[2] = [["E0", [A("obj"), [["a", A("false"), [A("ref"), "K"]], ["r", A("false"), rng.pick([[A("bi"), "Record", A("string"), [A("ref"), "K"]], [A("obj"), [], [A("string"), [A("ref"), "K"]]], [A("bi"), "Record", [A("tpl"), [A("lit"), "x_"], A("str")], [A("ref"), "K"]]])]], A("none")]]];
    if (rng.chance(1, 10)) {
      // a recursive named type BELOW one or two single-use named wrappers (printed in place by describe(), so the number of
      // named types above the cycle differs between the two generations), or below an inline root
      const self = [A("ref"), "Nd"];
      const rec = rng.pick([[A("obj"), [["value", A("false"), A("number")], ["next", A("true"), self]], A("none")], [A("obj"), [["label", A("false"), A("string")], ["children", A("false"), [A("array"), self]]], A("none")],
        [A("obj"), [["v", A("false"), A("boolean")], ["next", A("false"), [A("union"), self, A("null")]]], A("none")]]);
      const decls = [[A("alias"), "Nd", [], rec]];
      let root = [A("obj"), [["head", A("false"), self]], A("none")];
      const depth = rng.below(3);
      for (let i = 0; i < depth; i++) { decls.push([A("alias"), "W" + i, [], root]); root = [A("obj"), [[rng.pick(["chain", "w"]), A("false"), [A("ref"), "W" + i]]], A("none")]; }
      if (rng.chance(1, 2)) { decls.push([A("alias"), "Root", [], root]); root = [A("ref"), "Root"]; }
      const p2 = [A("prog"), decls, [["E0", root]]];
      const vals = genValues(rng, p2, Number(params[0] || 12));
      return [A("describe"), A(String(counter++)), p2, [["entry.ts", tsOfProg(p2)]], vals.map(encVal)];
    }
    if (rng.chance(1, 12)) {
      // chains of registered string / number formats (`StringFormatExtends<…>`), two to four links, written through aliases or in
      // place: the printed text nests them in place (formats are outside the Lean compiler model: not tied, marker `bi "StringFormat"`)
      const L = (v) => [A("lit"), [A("s"), v]];
      const num = rng.chance(1, 4);
      const names = num ? ["n2", "n3"] : rng.pick([["fa", "fb", "fab"], ["fa", "fab"], ["fb", "fa", "fab", "fa"]]);
      const base = num ? "NumberFormat" : "StringFormat", ext = num ? "NumberFormatExtends" : "StringFormatExtends";
      const decls = []; let cur = null; const chain = [];
      names.forEach((f, i) => {
        const t = i === 0 ? [A("bi"), base, L(f)] : [A("bi"), ext, cur, L(f)];
        if (rng.chance(2, 3)) { decls.push([A("alias"), "F" + i, [], t]); cur = [A("ref"), "F" + i]; } else cur = t;
        chain.push(cur);
      });
      const p2 = [A("prog"), decls, [["E0", rng.chance(1, 2) ? cur : [A("obj"), chain.map((t, i) => ["k" + i, A("false"), t]), A("none")]]]];
      const strs = ["a", "b", "ab", "ba", "abb", "xaby", "", "c"], nums = [0, 2, 3, 4, 6, 12, 1.5];
      const pool = num ? nums : strs;
      const vals = head(p2[2][0][1]) === "obj" ? Array.from({ length: 10 }, () => Object.fromEntries(chain.map((_, i) => ["k" + i, rng.pick(pool)]))) : [...pool, null, 1, "ab"];
      return [A("describe"), A(String(counter++)), p2, [["entry.ts", tsOfProg(p2)]], vals.map(encVal)];
    }
    const vals = genValues(rng, p, Number(params[0] || 12));
    // sometimes further parsers in the same module, over the named types the first one mentions (hoisted runtypes such as the
    // one `B[]` are shared by all of them): only the first export is printed and compiled again
    if (rng.chance(1, 3)) {
      const ns = p[1].filter((d) => d[2].length === 0).map((d) => d[1]);
      if (ns.length) {
        const r = () => [A("ref"), rng.pick(ns)];
        const shapes = [() => [A("array"), r()], () => r(), () => [A("obj"), [["x", A("false"), [A("array"), r()]]], A("none")], () => [A("obj"), [["x", A("false"), r()], ["y", A("true"), r()]], A("none")], () => [A("tuple"), [r(), r()], A("none")]];
        p[2] = [p[2][0], ["E1", rng.pick(shapes)()], ...(rng.chance(1, 2) ? [["E2", rng.pick(shapes)()]] : [])];
      }
    }
    return [A("describe"), A(String(counter++)), p, [["entry.ts", tsOfProg(p)]], vals.map(encVal)];
  }
  const p = genProg(rng);
  const nvals = Number(params[0] || 12);
  // twins that differ only in the optionality of an index signature's value (see genRewrite)
  if (rng.chance(1, 10)) {
    const key = rng.pick([A("string"), A("string"), [A("tpl"), [A("lit"), "x_"], A("str")]]);
    const val = rng.chance(1, 2) ? A(rng.pick(["string", "number", "boolean"])) : genLit(rng);
    const rec = [A("bi"), "Record", key, val], par = [A("bi"), "Partial", [A("bi"), "Record", key, val]];
    const [x, y] = rng.chance(1, 2) ? [rec, par] : [par, rec];
    p[2] = [...p[2], ["EH", [A("obj"), [["a", A("false"), x], ["b", A("false"), y]], A("none")]]];
  }
  // `typeof` of constant object literals: the program text says `typeof Ck`, the term (what the model and the reference
  // read) carries the type TypeScript infers for it — the literal type of the value the expression evaluates to, with
  // object spread semantics (a later property or spread overwrites an earlier one)
  let src = null;
  if (rng.chance(1, 5)) {
    const ct = genConstTypeof(rng);
    p[2] = [...p[2], ["EC", ct.ty]];
    src = ct.decls + "\n" + tsOfProg([p[0], p[1], p[2].map(([n, t]) => (n === "EC" ? [n, A("typeof " + ct.name)] : [n, t]))]);
  }
  const vals = genValues(rng, p, nvals);
  // JSDoc on declarations and on property signatures: descriptions travel into the emitted code and nowhere else
  let text = src ?? tsOfProg(p);
  if (rng.chance(1, 4)) {
    let k = 0;
    text = text.split("\n").map((l) => {
      if (!/^(type|interface) /.test(l)) return l;
      let r = l;
      if (rng.chance(1, 2)) r = r.replace(/\{ (?=[A-Za-z_"])/, () => `{ /** prop doc ${k++} */ `);
      if (rng.chance(1, 2)) r = `/** decl doc ${k++} */\n` + r;
      return r;
    }).join("\n");
  }
  if (rng.chance(1, 6)) text = jsdocInline(text, rng);
  return [A("prog"), A(String(counter++)), p, [["entry.ts", text]], vals.map(encVal)];
}
// constant declarations `const Ck = { … } as const;` with spreads of earlier constants at any position
function genConstTypeof(rng) {
  const consts = []; // {name, text, value}
  const lit = () => rng.pick([["a", '"a"'], ["b", '"b"'], [1, "1"], [2, "2"], [1.5, "1.5"], [true, "true"], [false, "false"], [null, "null"]]);
  const expr = (d) => {
    if (d > 0 && rng.chance(1, 4)) { const n = 1 + rng.below(2); const xs = Array.from({ length: n }, () => expr(d - 1)); return { value: xs.map((x) => x.value), text: "[" + xs.map((x) => x.text).join(", ") + "]" }; }
    if (d > 0 && rng.chance(1, 3)) return obj(d - 1);
    const [v, t] = lit(); return { value: v, text: t };
  };
  const obj = (d) => {
    const value = {}; const parts = [];
    const n = 1 + rng.below(4);
    // TypeScript rejects a literal that writes a key twice (TS1117) or writes a key that a LATER spread always overwrites
    // (TS2783); a spread over a spread, and a written key after a spread, are fine
    const written = new Set();
    for (let i = 0; i < n; i++) {
      const objs = consts.filter((c) => c.value && typeof c.value === "object" && !Array.isArray(c.value) && !Object.keys(c.value).some((k) => written.has(k)));
      if (objs.length && rng.chance(1, 2)) { const c = rng.pick(objs); for (const k of Object.keys(c.value)) { delete value[k]; value[k] = c.value[k]; } parts.push("..." + c.name); }
      else { const ks = ["kind", "a", "b", "retries", "t"].filter((k) => !written.has(k)); if (!ks.length) break; const k = rng.pick(ks); written.add(k); const e = expr(d); delete value[k]; value[k] = e.value; parts.push(k + ": " + e.text); }
    }
    return { value, text: "{ " + parts.join(", ") + " }" };
  };
  const nc = 2 + rng.below(2);
  for (let i = 0; i < nc; i++) { const o = obj(2); consts.push({ name: "C" + i, text: o.text, value: o.value }); }
  const tyOf = (v) => (v === null ? A("null") : Array.isArray(v) ? [A("readonly"), [A("tuple"), v.map(tyOf), A("none")]]
    : typeof v === "object" ? [A("obj"), Object.keys(v).map((k) => [k, A("false"), tyOf(v[k])]), A("none")]
    : [A("lit"), typeof v === "string" ? [A("s"), v] : typeof v === "number" ? [A("n"), String(v)] : [A("b"), A(String(v))]]);
  const last = consts[consts.length - 1];
  return { name: last.name, decls: consts.map((c) => `const ${c.name} = ${c.text} as const;`).join("\n"), ty: tyOf(last.value) };
}

// ---------- load an emitted module against the real runtime ----------
const tmpRoot = fs.mkdtempSync(path.join(os.tmpdir(), "beff-mod-"));
process.on("exit", () => { try { fs.rmSync(tmpRoot, { recursive: true, force: true }); } catch {} });
let modCount = 0;
export async function loadEmitted(build, code, stringFormats = [], numberFormats = []) {
  const glue = fs.readFileSync(path.join(build, "glue-codegen-v2.js"), "utf8").replace('"./client/codegen-v2.js"', JSON.stringify(pathToFileURL(path.join(build, "client/codegen-v2.js")).href));
  const text = [glue, `const RequiredStringFormats = ${JSON.stringify(stringFormats)};`, `const RequiredNumberFormats = ${JSON.stringify(numberFormats)};`, code, "export default { buildParsers };"].join("\n");
  const f = path.join(tmpRoot, `m${modCount++}.mjs`);
  fs.writeFileSync(f, text);
  try { return (await import(pathToFileURL(f).href)).default; } finally { fs.rmSync(f, { force: true }); }
}
// the custom formats of the harness (the same conventions as mode_rt.mjs registerFormats)
const HARNESS_FORMATS = { stringFormats: { fa: (s) => s.includes("a"), fb: (s) => s.includes("b"), fab: (s) => s.includes("ab") }, numberFormats: { n2: (n) => Number.isInteger(n) && Math.abs(n) < 1e15 && n % 2 === 0, n3: (n) => Number.isInteger(n) && Math.abs(n) < 1e15 && n % 3 === 0 } };
export const asyncRunner = true;
export function makeRunner(rt_, mode, build) {
  async function evalOne(exports, valsSx, compiled) {
    const h = head(compiled);
    if (h !== "js") return { reply: [A(h)], fail: h === "diags" ? [] : [A("c04." + h)] };
    let parsers;
    try { parsers = (await loadEmitted(build, compiled[1])).buildParsers(HARNESS_FORMATS); } catch (e) { return { reply: [A("load-error"), String(e && e.message).slice(0, 200)], fail: [A("c04.load")] }; }
    const vals = valsSx.map(decVal);
    const out = [A("bits")], fail = [], h256 = {}, h32 = {};
    for (const [name] of exports) {
      const pr = parsers[name];
      if (!pr) { fail.push(A("c04.missing-parser")); out.push([A(name), "missing"]); continue; }
      let bits = "";
      for (const v of vals) { try { bits += pr.validate(v) ? "1" : "0"; } catch (e) { bits += "T"; fail.push(A("c03.throw")); } }
      out.push([A(name), bits]);
      try { h256[name] = pr.hash256(); h32[name] = pr.hash(); } catch (e) { fail.push(A("c13.hash-throws")); }
    }
    return { reply: out, fail, h256, h32 };
  }
  return async function run(req, compiled, compiled2) {
    if (head(req) === "total") {
      const h = head(compiled);
      const fail = [];
      const files = req[3];
      if (h === "js") {
        // the export names requested in buildParsers (when the TsCore program is known) must all be built
        let parsers = null;
        try { parsers = (await loadEmitted(build, compiled[1])).buildParsers(HARNESS_FORMATS); } catch (e) { fail.push(A("c04.load")); }
        if (parsers && Array.isArray(req[2])) for (const [name] of req[2][2]) if (!parsers[name]) fail.push(A("c04.missing-parser"));
        // (projects written as text carry the requested names in a marker comment)
        const marker = /^\/\*names:([^*]*)\*\//.exec((files.find(([n]) => n === "entry.ts") || ["", ""])[1]);
        if (parsers && marker) for (const name of marker[1].split(",")) if (!Object.prototype.hasOwnProperty.call(parsers, name)) fail.push(A("c04.missing-parser"));
        if (parsers) for (const k of Object.keys(parsers)) { try { parsers[k].validate(1); parsers[k].hash256(); } catch (e) { fail.push(A("c04.parser-throws")); } }
        return [[A("outcome"), A("ok")], fail.length ? [A("oracle"), A("fail"), ...fail] : [A("oracle"), A("ok")]];
      }
      if (h === "diags") {
        if (compiled.length < 2) fail.push(A("c04.nodiag"));
        for (const d of compiled.slice(1)) {
          if (head(d) === "d-unknown") { if (!files.some(([n]) => n === d[1])) fail.push(A("c04.diag-file")); continue; }
          const f = files.find(([n]) => n === d[1]);
          if (!f) { fail.push(A("c04.diag-file")); continue; }
          const len = Buffer.byteLength(f[1], "utf8");
          const [lo, hi, l0, c0, l1, c1] = d.slice(2, 8).map((x) => Number(x.s));
          const nl = f[1].split("\n").length;
          if (!(lo >= 1 && lo <= hi && hi <= len + 1) && !(lo === 0 || hi === 0)) fail.push(A("c04.diag-range"));
          if (!(l0 >= 1 && l0 <= nl && l1 >= l0 && l1 <= nl && (l1 > l0 || c1 >= c0))) fail.push(A("c04.diag-linecol"));
          // … and the columns within their lines (a column counts UTF-16 units, which is what `.length` counts)
          else { const ls = f[1].split("\n"); if (c0 > ls[l0 - 1].length || c1 > ls[l1 - 1].length) fail.push(A("c04.diag-col")); }
        }
        return [[A("outcome"), A("diags")], fail.length ? [A("oracle"), A("fail"), ...fail] : [A("oracle"), A("ok")]];
      }
      if (h === "parse-fail") return [[A("outcome"), A("diags")], [A("oracle"), A("ok")]];   // entry does not parse: reported as "cannot find file" diagnostic by the real driver
      return [[A("outcome"), A(h)], [A("oracle"), A("fail"), A("c04." + h)]];
    }
    if (head(req) === "describe") {
      // stage 1 (compiled2 == null): print describe() of the single export
      // stage 2: evaluate generation 1 and generation 2 on the values
      const name = req[2][2][0][0];
      if (head(compiled) !== "js") return [[A(head(compiled))], [A("oracle"), A(head(compiled) === "diags" ? "ok" : "fail"), ...(head(compiled) === "diags" ? [] : [A("c04." + head(compiled))])]];
      let parsers;
      try { parsers = (await loadEmitted(build, compiled[1])).buildParsers(HARNESS_FORMATS); } catch (e) { return [[A("load-error")], [A("oracle"), A("fail"), A("c04.load")]]; }
      let text;
      try { text = parsers[name].describe(); } catch (e) { return [[A("describe-throws"), String(e && e.message).slice(0, 100)], [A("oracle"), A("fail"), A("c15.throws")]]; }
      // describe() is a function of the parser: describing it again, or after the other parsers of the module (they share the
      // hoisted runtype objects), changes nothing; and another parser prints what it prints in a module instance of its own
      const fail = [];
      try {
        const others = Object.keys(parsers).filter((o) => o !== name);
        for (const o of others) parsers[o].describe();
        if (parsers[name].describe() !== text) fail.push(A("c15.stable"));
        if (others.length) {
          const freshP = (await loadEmitted(build, compiled[1])).buildParsers(HARNESS_FORMATS);
          for (const o of others) if (freshP[o].describe() !== parsers[o].describe()) { fail.push(A("c15.stable")); break; }
        }
      } catch (e) { fail.push(A("c15.throws")); }
      if (compiled2 == null) return [[A("described"), text], fail.length ? [A("oracle"), A("fail"), ...fail] : [A("oracle"), A("ok")]];
      const names = [...text.matchAll(/^type ([A-Za-z0-9_$]+) =/gm)].map((m) => m[1]);
      if (new Set(names).size !== names.length) fail.push(A("c15.once"));
      if (head(compiled2) !== "js") { fail.push(A("c15.compile")); return [[A("described"), text], [A("oracle"), A("fail"), ...fail]]; }
      let p2;
      try { p2 = (await loadEmitted(build, compiled2[1])).buildParsers(HARNESS_FORMATS); } catch (e) { return [[A("described"), text], [A("oracle"), A("fail"), A("c15.load")]]; }
      const a = parsers[name], b = p2[name];
      const vals = req[4].map(decVal);
      for (const v of vals) { let x, y; try { x = a.validate(v); y = b.validate(v); } catch (e) { fail.push(A("c03.throw")); break; } if (x !== y) { fail.push(A("c15.validate")); break; } }
      try { if (a.hash256() !== b.hash256()) fail.push(A("c15.hash256")); } catch (e) { fail.push(A("c13.hash-throws")); }
      return [[A("described"), text], fail.length ? [A("oracle"), A("fail"), ...fail] : [A("oracle"), A("ok")]];
    }
    if (head(req) === "split") {
      // compiled = (pair single multi); export names are those of p
      const a = await evalOne(req[2][2], req[4], compiled[1]);
      const b = await evalOne(req[2][2], req[4], compiled[2]);
      const fail = [...a.fail, ...b.fail];
      if (isAtom(req[7], "diags")) { if (head(b.reply) !== "diags") fail.push(A("c09.unresolved-bound")); }
      else if (head(a.reply) !== head(b.reply)) fail.push(A("c09.outcome"));
      else if (head(a.reply) === "bits" && show(a.reply) !== show(b.reply)) fail.push(A("c09.validate"));
      return [[A("pair"), a.reply, b.reply], fail.length ? [A("oracle"), A("fail"), ...new Map(fail.map((x) => [x.s, x])).values()] : [A("oracle"), A("ok")]];
    }
    if (head(req) === "rewrite") {
      // compiled = (pair r1 r2)
      const a = await evalOne(req[2][2], req[4], compiled[1]);
      const b = await evalOne(req[5][2], req[4], compiled[2]);
      const fail = [...a.fail, ...b.fail];
      if (head(a.reply) === "bits" && head(b.reply) === "bits") {
        if (show(a.reply) !== show(b.reply)) fail.push(A("c08.validate"));
        for (const [name] of req[2][2]) {
          if (a.h256[name] !== b.h256[name]) fail.push(A("c08.hash256"));
          // C13: the 32-bit hash may depend on names, not on property/member order, alias boundaries or comments
          if (a.h32[name] !== b.h32[name] && !req[7].some((k) => k.s === "rename" || k.s === "iface-alias")) fail.push(A("c13.hash32"));
        }
      } else if (head(a.reply) !== head(b.reply)) fail.push(A("c08.outcome"));
      return [[A("pair"), a.reply, b.reply], fail.length ? [A("oracle"), A("fail"), ...new Map(fail.map((x) => [x.s, x])).values()] : [A("oracle"), A("ok")]];
    }
    const h = head(compiled);
    if (h !== "js") return [[A(h)], [A("oracle"), A(h === "diags" ? "ok" : "fail"), ...(h === "diags" ? [] : [A("c04." + h)])]];
    let mod;
    try { mod = await loadEmitted(build, compiled[1]); } catch (e) { return [[A("load-error"), String(e && e.message).slice(0, 200)], [A("oracle"), A("fail"), A("c04.load")]]; }
    let parsers;
    try { parsers = mod.buildParsers(HARNESS_FORMATS); } catch (e) { return [[A("load-error"), String(e && e.message).slice(0, 200)], [A("oracle"), A("fail"), A("c04.load")]]; }
    const vals = req[4].map(decVal);
    if (mode === "prog-schema") {
      // C02 on COMPILED validators: flat schema() and schemaWithContext() + exportDefinitions() of the first export, with the
      // JSON documents among the values; judged by the jsonschema oracle stage (same data layout as mode_schema)
      const cg = rt_.cg;
      const name0 = req[2][2][0][0];
      const pr = parsers[name0];
      if (!pr) return [[A("pschema"), A("missing")], [A("oracle-data"), JSON.stringify({})]];
      const jsonOrThrow = (f) => { try { return { ok: true, v: f() }; } catch (e) { return { ok: false, msg: String(e && e.message) }; } };
      const isJsonDoc = (v) => { try { return v !== undefined && show(encVal(JSON.parse(JSON.stringify(v)))) === show(encVal(v)); } catch { return false; } };
      const docs = vals.filter(isJsonDoc);
      const tpl = "#/$defs/{name}", key = "$defs";
      const flat = jsonOrThrow(() => pr.schema());
      const fc = new cg.SchemaPrintingContext({ refPathTemplate: tpl, definitionContainerKey: key });
      const r = jsonOrThrow(() => pr.schemaWithContext(fc));
      const data = { tpl, key, docs, calls: [], flat: [flat.ok ? flat.v : null], flatMsg: [flat.ok ? null : flat.msg],
        bits: docs.map((d) => { try { return [pr.validate(d), pr.validate(d, { disallowExtraProperties: true })]; } catch { return [null, null]; } }),
        fresh: [{ ok: r.ok, schema: r.ok ? r.v : null, defs: JSON.parse(JSON.stringify(fc.exportDefinitions())) }] };
      return [[A("pschema"), A(flat.ok ? "flat" : "flat-throws"), A(r.ok ? "ctx" : "ctx-throws")], [A("oracle-data"), JSON.stringify(data)]];
    }
    const out = [A("bits")];
    const bad = [];
    for (const [name] of req[2][2]) {
      const pr = parsers[name];
      if (!pr) { bad.push(A("c04.missing-parser")); out.push([A(name), "missing"]); continue; }
      let bits = "";
      if (head(req) === "strict" || head(req) === "semstrict") {
        // default-mode bits, then strict-mode bits; strict acceptance implies default acceptance
        let dflt = "";
        for (const v of vals) { try { dflt += pr.validate(v) ? "1" : "0"; } catch (e) { dflt += "T"; bad.push(A("c03.throw")); } }
        for (const v of vals) { try { bits += pr.validate(v, { disallowExtraProperties: true }) ? "1" : "0"; } catch (e) { bits += "T"; bad.push(A("c03.throw")); } }
        for (let i = 0; i < bits.length; i++) if (bits[i] === "1" && dflt[i] === "0") bad.push(A("c11.mono"));
        out.push([A(name), dflt, bits]);
        continue;
      }
      for (const v of vals) { try { bits += pr.validate(v) ? "1" : "0"; } catch (e) { bits += "T"; bad.push(A("c03.throw")); } }
      out.push([A(name), bits]);
    }
    return [out, bad.length ? [A("oracle"), A("fail"), ...new Map(bad.map((x) => [x.s, x])).values()] : [A("oracle"), A("ok")]];
  };
}
