// C09: distribute the declarations of a TsCore program over several files, connected by every import/export style.
// Produces both the structured project term (for the Lean module model) and the TypeScript text of every file.
//   (proj (exports ("E0" <ty>)…) (file "<name>" <stmt>…)…)
//   stmt: (decl true|false <decl>) (import-named "<local>" "<orig>" <target>) (import-star "<local>" <target>)
//         (import-default "<local>" <target>) (export-local "<name>" "<renamed>") (export-from "<orig>" "<renamed>" <target>)
//         (export-ns "<name>" <target>) (export-all <target>) (export-default "<name>") (export-default-iface <decl>)
//   target: "<file name>" | none (specifier that does not resolve)
//   names inside types: N | A.B.N | import(<file>).A.N | import(?).N
import { A, Atom, head, isAtom, show } from "./sx.mjs";
import { tsOf, tsOfDecl } from "./mode_prog.mjs";

const LIBS = ["lib.ts", "types/a.ts", "types_a.ts", "b.d.ts", "c.tsx", "dir/index.ts", "types/deep/d.ts"];   // types/a.ts and types_a.ts: file names that only differ in the separator

export function specOf(from, to, rng) {
  if (to === null) return "./missing/nowhere";
  const fd = from.split("/").slice(0, -1), tp = to.split("/");
  let file = tp.pop();
  let base = file.replace(/\.d\.ts$|\.tsx$|\.ts$/, "");
  let dir = tp;
  if (base === "index" && dir.length && (!rng || rng.chance(1, 2))) { base = null; }
  let i = 0;
  while (i < fd.length && i < dir.length && fd[i] === dir[i]) i++;
  const ups = fd.length - i;
  const parts = [...Array(ups).fill(".."), ...dir.slice(i), ...(base === null ? [] : [base])];
  const s = parts.join("/");
  return ups === 0 ? "./" + s : s;
}

function mapRefs(t, f) { // map over (ref name args…) nodes, bottom-up
  if (t instanceof Atom || typeof t === "string") return t;
  const h = head(t);
  switch (h) {
    case "array": case "arr2": case "paren": case "readonly": return [t[0], mapRefs(t[1], f)];
    case "tuple": return [t[0], t[1].map((x) => mapRefs(x, f)), isAtom(t[2], "none") ? t[2] : mapRefs(t[2], f)];
    case "obj": return [t[0], t[1].map(([k, o, ty]) => [k, o, mapRefs(ty, f)]), isAtom(t[2], "none") ? t[2] : [mapRefs(t[2][0], f), mapRefs(t[2][1], f)]];
    case "union": case "inter": case "cond": case "idx": case "keyof": return [t[0], ...t.slice(1).map((x) => mapRefs(x, f))];
    case "bi": return [t[0], t[1], ...t.slice(2).map((x) => mapRefs(x, f))];
    case "ref": return f([t[0], t[1], ...t.slice(2).map((x) => mapRefs(x, f))]);
    default: return t;
  }
}

class FileB {
  constructor(name) { this.name = name; this.stmts = []; this.locals = new Set(); this.exported = new Set(); this.hasDefault = false; this.starTarget = null; this.n = 0; }
  fresh(base) { let k = base; while (this.locals.has(k)) k = base + "_" + this.n++; this.locals.add(k); return k; }
  freshExport(base) { let k = base; while (this.exported.has(k) || k === "default") k = base + "_x" + this.n++; this.exported.add(k); return k; }
}

export function genSplitProject(rng, p) {
  const decls = p[1];
  const nlibs = 1 + rng.below(3);
  const pool = LIBS.slice(); const libs = [];
  for (let i = 0; i < nlibs; i++) libs.push(pool.splice(rng.below(pool.length), 1)[0]);
  const files = new Map([["entry.ts", new FileB("entry.ts")], ...libs.map((n) => [n, new FileB(n)])]);
  const hub = rng.chance(1, 2) ? new FileB("hub.ts") : null;
  if (hub) files.set("hub.ts", hub);
  // no file-level binding (declaration or import) may carry the name of a type parameter: inside `type N<T> = … T<…>` the
  // parameter wins, so an import `{ G3 as T }` used there is not the program that was split (false alarm, C09 thorough)
  for (const F of files.values()) for (const n of decls.flatMap((x) => x[2])) F.locals.add(n);
  // 1. place declarations, choose local names (collisions across files on purpose)
  const place = new Map(), local = new Map();
  for (const d of decls) {
    const f = rng.chance(1, 5) ? "entry.ts" : rng.pick(libs);
    place.set(d[1], f);
    const F = files.get(f);
    let ln = d[1];
    // (never the name of a type parameter: `type T<T> = … T<T>` is not TypeScript — inside, T is the parameter)
    const paramNames = new Set(decls.flatMap((x) => x[2]));
    if (rng.chance(1, 3)) ln = rng.pick(["Same", "Item", ...decls.map((x) => x[1]).filter((n) => !paramNames.has(n))]);
    if (F.locals.has(ln)) ln = d[1];
    while (F.locals.has(ln)) ln = d[1] + "_u" + F.n++;
    F.locals.add(ln); local.set(d[1], ln);
  }
  // a declaration named like the identifier the compiler makes up for same-named types of two files (`lib_ts__Same`)
  if (rng.chance(1, 4)) {
    const byLocal = new Map();
    for (const d of decls) { const k = local.get(d[1]); byLocal.set(k, [...(byLocal.get(k) || []), d[1]]); }
    const dup = [...byLocal.entries()].filter(([, xs]) => new Set(xs.map((x) => place.get(x))).size >= 2);
    if (dup.length) {
      const [nm, xs] = rng.pick(dup);
      const mangled = place.get(rng.pick(xs)).replace(/[^A-Za-z0-9_]/g, "_") + "__" + nm;
      const others = decls.filter((d) => !xs.includes(d[1]));
      if (others.length) {
        const d = rng.pick(others), F = files.get(place.get(d[1]));
        if (!F.locals.has(mangled)) { F.locals.delete(local.get(d[1])); F.locals.add(mangled); local.set(d[1], mangled); }
      }
    }
  }
  const declByName = new Map(decls.map((d) => [d[1], d]));
  const exportsOf = new Map(); // decl name -> [{file, kind: named|default|ns, name, inner}]
  const stmtsOfDecl = new Map(); // decl name -> its decl stmt (so that `exported` can be flipped)
  const isIface = (X) => head(declByName.get(X)) === "iface";

  function newExport(X) {
    const F = files.get(place.get(X)), ln = local.get(X);
    const st = stmtsOfDecl.get(X);
    // exported under the name of a TYPE PARAMETER of some generic declaration (`export { Local as T }`): reached only through
    // `import("…").T` / `NS.T`, where the name after the dot is an export of that file whatever parameters are in scope
    const params = [...new Set(decls.flatMap((x) => x[2]))].filter((n) => !F.exported.has(n));
    if (params.length && rng.chance(1, 3)) {
      const en = rng.pick(params);
      F.exported.add(en);
      F.stmts.push({ kind: "export-local", name: ln, renamed: en });
      return { file: F.name, kind: "named", name: en };
    }
    const r = rng.below(8);
    if (r < 2 && !F.exported.has(ln) && st.kind === "decl") { st.exported = true; F.exported.add(ln); return { file: F.name, kind: "named", name: ln }; }
    if (r < 4 && !F.exported.has(ln)) { F.exported.add(ln); F.stmts.push({ kind: "export-local", name: ln, renamed: ln, typeOnly: rng.chance(1, 3) }); return { file: F.name, kind: "named", name: ln }; }
    if (r === 4 && !F.hasDefault) { F.hasDefault = true; F.stmts.push({ kind: "export-default", name: ln }); return { file: F.name, kind: "default" }; }
    if (r === 5 && !F.hasDefault) { F.hasDefault = true; F.stmts.push({ kind: "export-local", name: ln, renamed: "default" }); return { file: F.name, kind: "default" }; }
    if (r === 6 && !F.hasDefault && isIface(X) && st.kind === "decl" && !st.exported) { F.hasDefault = true; st.kind = "export-default-iface"; return { file: F.name, kind: "default" }; }
    // exported under the name ANOTHER declaration of the file carries locally (`type Meta = …; export { Other as Meta }`): inside
    // the file the name is the local declaration, in the export table it is this one
    if (r === 7 && rng.chance(1, 2)) {
      const cands = decls.filter((d) => place.get(d[1]) === F.name && d[1] !== X).map((d) => local.get(d[1])).filter((n) => n !== ln && !F.exported.has(n));
      if (cands.length) { const en = rng.pick(cands); F.exported.add(en); F.stmts.push({ kind: "export-local", name: ln, renamed: en }); return { file: F.name, kind: "named", name: en }; }
    }
    const en = F.freshExport(ln + "_r");
    F.stmts.push({ kind: "export-local", name: ln, renamed: en });
    return { file: F.name, kind: "named", name: en };
  }
  const allParams = new Set(decls.flatMap((x) => x[2]));
  function viaHub(ex) {
    const H = hub;
    if (ex.kind === "default") {
      const hn = H.freshExport("Dflt");
      if (rng.chance(1, 2)) H.stmts.push({ kind: "export-from", orig: "default", renamed: hn, target: ex.file });
      else { const ln = H.fresh("dimp"); H.stmts.push({ kind: "import-default", local: ln, target: ex.file }); H.stmts.push({ kind: "export-local", name: ln, renamed: hn }); }
      return { file: H.name, kind: "named", name: hn };
    }
    const r = rng.below(10);
    if (r >= 7 && H.starTarget === null) { // open an `export *` on another library that already exports something
      const others = [...files.values()].filter((f) => f !== H && f.name !== ex.file && f.name !== "entry.ts" && f.exported.size > 0);
      if (others.length) { H.starTarget = rng.pick(others).name; H.stmts.push({ kind: "export-all", target: H.starTarget }); for (const n of files.get(H.starTarget).exported) if (H.exported.has(n)) { /* explicit hub export already shadows it */ } }
    }
    if (r >= 7 && H.starTarget !== null && H.starTarget !== ex.file) { // explicit re-export shadowing a name that `export *` also brings in
      const cands = [...files.get(H.starTarget).exported].filter((n) => !H.exported.has(n));
      if (cands.length) { const hn = rng.pick(cands); H.exported.add(hn); H.stmts.push({ kind: "export-from", orig: ex.name, renamed: hn, target: ex.file }); return { file: H.name, kind: "named", name: hn }; }
    }
    if (r === 0 && !H.exported.has(ex.name)) { H.exported.add(ex.name); H.stmts.push({ kind: "export-from", orig: ex.name, renamed: ex.name, target: ex.file, typeOnly: rng.chance(1, 3) }); return { file: H.name, kind: "named", name: ex.name }; }
    if (r === 1) { const hn = H.freshExport(ex.name + "_h"); H.stmts.push({ kind: "export-from", orig: ex.name, renamed: hn, target: ex.file }); return { file: H.name, kind: "named", name: hn }; }
    if (r === 2 && (H.starTarget === null || H.starTarget === ex.file) && !H.exported.has(ex.name)) {
      if (H.starTarget === null) { H.starTarget = ex.file; H.stmts.push({ kind: "export-all", target: ex.file }); }
      H.exported.add(ex.name);   // reserved: an explicit hub export of this name would shadow it
      return { file: H.name, kind: "named", name: ex.name, viaStar: true };
    }
    if (r === 3) { const ns = H.freshExport("NSx"); H.stmts.push({ kind: "export-ns", name: ns, target: ex.file }); return { file: H.name, kind: "ns", name: ns, inner: ex.name }; }
    if (r === 4) { const ln = H.fresh("himp"); const hn = H.freshExport(ex.name + "_h"); H.stmts.push({ kind: "import-named", local: ln, orig: ex.name, target: ex.file }); H.stmts.push({ kind: "export-local", name: ln, renamed: hn }); return { file: H.name, kind: "named", name: hn }; }
    if (r === 5) { const ln = H.fresh("hns"); const hn = H.freshExport("NSy"); H.stmts.push({ kind: "import-star", local: ln, target: ex.file }); H.stmts.push({ kind: "export-local", name: ln, renamed: hn }); return { file: H.name, kind: "ns", name: hn, inner: ex.name }; }
    const hn = H.freshExport(ex.name + "_h"); H.stmts.push({ kind: "export-from", orig: ex.name, renamed: hn, target: ex.file }); return { file: H.name, kind: "named", name: hn };
  }
  const bindCache = new Map();
  function refTo(G, X, inExtends) { // the name to write in file G for declaration X
    if (place.get(X) === G.name) return local.get(X);
    const key = G.name + "|" + X;
    if (bindCache.has(key) && rng.chance(3, 4) && !(inExtends && bindCache.get(key).startsWith("import("))) return bindCache.get(key);   // `extends import("…").X` is not TypeScript
    let exs = exportsOf.get(X) || [];
    let ex = exs.length && rng.chance(2, 3) ? rng.pick(exs) : null;
    if (!ex) { ex = newExport(X); exportsOf.set(X, [...exs, ex]); }
    if (hub && G !== hub && rng.chance(1, 3)) ex = viaHub(ex);
    let name;
    const typeOnly = rng.below(4); // 0: plain, 1: import type, 2: inline `type` modifier, 3: plain
    if (ex.kind === "default") {
      const ln = G.fresh(local.get(X) === "Same" ? "Dx" : "D" + X);
      if (rng.chance(1, 2)) G.stmts.unshift({ kind: "import-default", local: ln, target: ex.file, typeOnly: typeOnly === 1 });
      else G.stmts.unshift({ kind: "import-named", local: ln, orig: "default", target: ex.file, typeOnly });
      name = ln;
    } else if (ex.kind === "ns") {
      const r = rng.below(3);
      if (r === 0 && !inExtends) name = `import(${ex.file}).${ex.name}.${ex.inner}`;
      else if (r === 1) { const ln = G.fresh("W"); G.stmts.unshift({ kind: "import-star", local: ln, target: ex.file, typeOnly: typeOnly === 1 }); name = `${ln}.${ex.name}.${ex.inner}`; }
      else { const ln = G.fresh(ex.name); G.stmts.unshift({ kind: "import-named", local: ln, orig: ex.name, target: ex.file, typeOnly }); name = `${ln}.${ex.inner}`; }
    } else {
      // (an export named like a type parameter is written qualified: a bare name would be the parameter)
      const r = allParams.has(ex.name) ? (inExtends ? 1 : rng.below(2)) : rng.below(6);
      if (r === 0 && !inExtends) name = `import(${ex.file}).${ex.name}`;
      else if (r === 1) { const ln = G.fresh("NS"); G.stmts.unshift({ kind: "import-star", local: ln, target: ex.file, typeOnly: typeOnly === 1 }); name = `${ln}.${ex.name}`; }
      else if (r < 4 && !G.locals.has(ex.name)) { G.locals.add(ex.name); G.stmts.unshift({ kind: "import-named", local: ex.name, orig: ex.name, target: ex.file, typeOnly }); name = ex.name; }
      else { const ln = G.fresh("I" + X); G.stmts.unshift({ kind: "import-named", local: ln, orig: ex.name, target: ex.file, typeOnly }); name = ln; }
    }
    bindCache.set(key, name);
    return name;
  }
  // 2. declaration statements (bodies rewritten afterwards, once every file knows its locals)
  for (const d of decls) { const st = { kind: "decl", exported: false, X: d[1] }; stmtsOfDecl.set(d[1], st); files.get(place.get(d[1])).stmts.push(st); }
  // 3. rewrite references
  const rewriteTy = (G, params, t, inExtends) => mapRefs(t, (r) => (r.length === 2 && params.includes(r[1]) ? r : declByName.has(r[1]) ? [r[0], refTo(G, r[1], inExtends), ...r.slice(2)] : r));
  for (const d of decls) {
    const G = files.get(place.get(d[1])), st = stmtsOfDecl.get(d[1]), ln = local.get(d[1]);
    st.decl = head(d) === "alias" ? [d[0], ln, d[2], rewriteTy(G, d[2], d[3], false)]
      : [d[0], ln, d[2], d[3].map((e) => rewriteTy(G, d[2], e, true)), d[4].map(([k, o, ty]) => [k, o, rewriteTy(G, d[2], ty, false)])];
  }
  const E = files.get("entry.ts");
  let exps = p[2].map(([n, t]) => [n, rewriteTy(E, [], t, false)]);
  // 4. optionally break one link so that TypeScript cannot resolve a reference: must become a diagnostic
  let expect = "ok", breakKind = A("none");
  if (rng.chance(1, 6) && decls.length) {
    const victim = rng.pick(decls)[1];
    const VF = files.get(place.get(victim));
    const ghost = "Ghost" + rng.below(1000);
    const kind = rng.below(6);
    let refName = null;
    if (kind === 0 && VF !== E) { // a non-exported local of another file, imported by name
      VF.stmts.push({ kind: "decl", exported: false, X: null, decl: [A("alias"), ghost, [], A("number")] });
      E.stmts.unshift({ kind: "import-named", local: ghost, orig: ghost, target: VF.name, typeOnly: 0 }); refName = ghost;
    } else if (kind === 1 && VF !== E) { // exported elsewhere, never imported here
      VF.stmts.push({ kind: "decl", exported: true, X: null, decl: [A("alias"), ghost, [], A("number")] }); refName = ghost;
    } else if (kind === 2 && hub && VF !== hub && VF !== E) { // the hub does not re-export it
      VF.stmts.push({ kind: "decl", exported: hub.starTarget !== VF.name, X: null, decl: [A("alias"), ghost, [], A("number")] });
      E.stmts.unshift({ kind: "import-named", local: ghost, orig: ghost, target: "hub.ts", typeOnly: 0 }); refName = ghost;
    } else if (kind === 3) { // specifier that does not resolve
      E.stmts.unshift({ kind: "import-named", local: ghost, orig: ghost, target: null, typeOnly: 0 }); refName = ghost;
    }
    if (kind >= 4) { // declared only inside a function body / a namespace: not in scope at module level
      const F = rng.chance(1, 2) ? E : VF;
      F.stmts.push({ kind: "noise", text: kind === 4 ? `function hidden${ghost}() { type ${ghost} = number; return 1; }` : `namespace Inner${ghost} { export type ${ghost} = number }` });
      if (F !== E) { F.stmts.push({ kind: "export-local-noise" }); }
      refName = F === E ? ghost : null;
      if (F !== E) { E.stmts.unshift({ kind: "import-named", local: ghost, orig: ghost, target: F.name, typeOnly: 0 }); refName = ghost; }
    }
    if (refName) { expect = "diags"; breakKind = A("break" + kind); exps = [[exps[0][0], [A("union"), exps[0][1], [A("ref"), refName]]], ...exps.slice(1)]; }
  }
  // 5. emit term + text
  const tgt = (t) => (t === null ? A("none") : t);
  const fileTerms = [], fileTexts = [];
  for (const F of files.values()) {
    if (F !== E && F.stmts.length === 0) continue;
    const terms = [], lines = [];
    if (rng.chance(1, 2)) { for (let i = F.stmts.length - 1; i > 0; i--) { const j = rng.below(i + 1); [F.stmts[i], F.stmts[j]] = [F.stmts[j], F.stmts[i]]; } }
    const tyText = (t) => tsOf(mapRefs(t, (r) => [r[0], r[1].replace(/^import\(([^)]*)\)/, (m, f) => `import("${specOf(F.name, f === "?" ? null : f, rng)}")`), ...r.slice(2)]));
    const declText = (d) => tsOfDecl(head(d) === "alias" ? [d[0], d[1], d[2], mapRefs(d[3], (r) => r)] : d).replace(/import\(([^")]*)\)/g, (m, f) => `import("${specOf(F.name, f === "?" ? null : f, rng)}")`);
    for (const s of F.stmts) {
      const spec = s.target !== undefined ? JSON.stringify(specOf(F.name, s.target, rng)) : null;
      switch (s.kind) {
        case "decl": terms.push([A("decl"), A(String(!!s.exported)), s.decl]); lines.push((s.exported ? "export " : "") + (F.name.endsWith(".d.ts") && rng.chance(1, 2) ? "declare " : "") + declText(s.decl)); break;
        case "export-default-iface": terms.push([A("export-default-iface"), s.decl]); lines.push("export default " + declText(s.decl)); break;
        case "import-named": terms.push([A("import-named"), s.local, s.orig, tgt(s.target)]);
          lines.push(`import ${s.typeOnly === 1 ? "type " : ""}{ ${s.typeOnly === 2 ? "type " : ""}${s.orig === s.local ? s.local : s.orig + " as " + s.local} } from ${spec};`); break;
        case "import-star": terms.push([A("import-star"), s.local, tgt(s.target)]); lines.push(`import ${s.typeOnly ? "type " : ""}* as ${s.local} from ${spec};`); break;
        case "import-default": terms.push([A("import-default"), s.local, tgt(s.target)]); lines.push(`import ${s.typeOnly ? "type " : ""}${s.local} from ${spec};`); break;
        case "export-local": terms.push([A("export-local"), s.name, s.renamed]); lines.push(`export ${s.typeOnly ? "type " : ""}{ ${s.name === s.renamed ? s.name : s.name + " as " + s.renamed} };`); break;
        case "export-from": terms.push([A("export-from"), s.orig, s.renamed, tgt(s.target)]); lines.push(`export ${s.typeOnly ? "type " : ""}{ ${s.orig === s.renamed ? s.orig : s.orig + " as " + s.renamed} } from ${spec};`); break;
        case "export-ns": terms.push([A("export-ns"), s.name, tgt(s.target)]); lines.push(`export * as ${s.name} from ${spec};`); break;
        case "export-all": terms.push([A("export-all"), tgt(s.target)]); lines.push(`export * from ${spec};`); break;
        case "noise": lines.push(s.text); break;
        case "export-local-noise": break;
        case "export-default": terms.push([A("export-default"), s.name]); lines.push(`export default ${s.name};`); break;
      }
    }
    // imports first is only a convention: shuffle export lists / re-exports among the declarations sometimes
    if (F === E) lines.push(`parse.buildParsers<{ ${exps.map(([n, t]) => `${n}: ${tyText(t)}`).join(", ")} }>();`);
    fileTerms.push([A("file"), F.name, ...terms]);
    fileTexts.push([F.name, lines.join("\n") + "\n"]);
  }
  const proj = [A("proj"), [A("exports"), ...exps], ...fileTerms];
  return { proj, files: fileTexts, expect: A(expect), breakKind };
}

// ---------- barrels: `export *` graphs with shared nodes (diamonds), several stars per file, optional back edges ----------
export function genStarDag(rng, p) {
  const decls = p[1], exps0 = p[2];
  const nleaf = 2 + rng.below(2);
  const leaves = Array.from({ length: nleaf }, (_, i) => ["leaf" + i + ".ts", "shared/l" + i + ".ts"][rng.below(2)].replace(/\d/, String(i)));
  const place = new Map(decls.map((d) => [d[1], rng.pick(leaves)]));
  const nbar = 2 + rng.below(3);
  const barrels = Array.from({ length: nbar }, (_, i) => "bar" + i + ".ts");
  const stars = new Map();   // file -> ordered targets
  for (const l of leaves) stars.set(l, []);
  barrels.forEach((b, i) => {
    const cands = [...leaves, ...barrels.slice(0, i)];
    const k = 1 + rng.below(3), ts = [];
    for (let j = 0; j < k; j++) ts.push(rng.pick(cands));          // duplicates allowed: `export *` twice from one file
    if (i + 1 < nbar && rng.chance(1, 6)) ts.splice(rng.below(ts.length + 1), 0, barrels[i + 1]);   // a back edge (cycle)
    stars.set(b, ts);
  });
  // a leaf may itself forward another leaf
  if (rng.chance(1, 3)) { const a = rng.pick(leaves), b = rng.pick(leaves); if (a !== b && !stars.get(b).includes(a)) stars.get(a).push(b); }
  const own = (f) => decls.filter((d) => place.get(d[1]) === f).map((d) => d[1]);
  const reach = (f, seen = new Set()) => { if (seen.has(f)) return new Set(); seen.add(f); const out = new Set(own(f)); for (const t of stars.get(f) || []) for (const n of reach(t, seen)) out.add(n); return out; };
  const sources = (name) => [...leaves, ...barrels].filter((f) => reach(f).has(name));
  const refs = (t, acc) => { if (Array.isArray(t)) { if (head(t) === "ref" && typeof t[1] === "string") acc.add(t[1]); t.forEach((x) => refs(x, acc)); } return acc; };
  const declNames = new Set(decls.map((d) => d[1]));
  const importsFor = (file, used, paramNames = new Set()) => {
    const out = [];
    for (const n of used) { if (!declNames.has(n) || paramNames.has(n) || place.get(n) === file) continue; out.push([A("import-named"), n, n, rng.pick(sources(n).filter((f) => f !== file))]); }
    return out;
  };
  const fileTerms = [];
  for (const l of leaves) {
    const ds = decls.filter((d) => place.get(d[1]) === l);
    const used = new Set(); ds.forEach((d) => refs(d.slice(3), used));
    const stmts = [...importsFor(l, used), ...ds.map((d) => [A("decl"), A("true"), d]), ...stars.get(l).map((t) => [A("export-all"), t])];
    fileTerms.push([A("file"), l, ...stmts]);
  }
  for (const b of barrels) fileTerms.push([A("file"), b, ...stars.get(b).map((t) => [A("export-all"), t])]);
  let exps = exps0, expect = "ok";
  const usedE = new Set(); exps0.forEach((e) => refs(e[1], usedE));
  let entryImports = importsFor("entry.ts", usedE);
  if (rng.chance(1, 6)) { // a name imported from a barrel that does not reach it
    const wanted = [...usedE].filter((n) => declNames.has(n));
    const bad = wanted.length ? rng.pick(wanted) : null;
    const holes = bad ? [...barrels, ...leaves].filter((f) => !reach(f).has(bad)) : [];
    if (bad && holes.length) { entryImports = entryImports.map((s) => (s[1] === bad ? [s[0], s[1], s[2], rng.pick(holes)] : s)); expect = "diags"; }
  }
  fileTerms.unshift([A("file"), "entry.ts", ...entryImports]);
  const files = fileTerms.map((ft) => [ft[1], renderFileTerm(ft[1], ft.slice(2), ft[1] === "entry.ts" ? exps : null, rng)]);
  return { proj: [A("proj"), [A("exports"), ...exps], ...fileTerms], files, expect: A(expect), breakKind: A(expect === "ok" ? "stars" : "stars-hole") };
}

// ---------- C14: file variants for edit histories ----------
function fixImports(text, from, rng) { return text.replace(/import\(([^")]*)\)/g, (m, f) => `import("${specOf(from, f === "?" ? null : f, rng)}")`); }
export function renderFileTerm(name, terms, exps, rng) { // TypeScript text of (file name stmt…) [+ the buildParsers call]
  const lines = [];
  const sp = (t) => JSON.stringify(specOf(name, isAtom(t, "none") ? null : t, rng));
  for (const s of terms) {
    switch (head(s)) {
      case "decl": lines.push((s[1].s === "true" ? "export " : "") + fixImports(tsOfDecl(s[2]), name, rng)); break;
      case "export-default-iface": lines.push("export default " + fixImports(tsOfDecl(s[1]), name, rng)); break;
      case "import-named": lines.push(`import { ${s[2] === s[1] ? s[1] : s[2] + " as " + s[1]} } from ${sp(s[3])};`); break;
      case "import-star": lines.push(`import * as ${s[1]} from ${sp(s[2])};`); break;
      case "import-default": lines.push(`import ${s[1]} from ${sp(s[2])};`); break;
      case "export-local": lines.push(`export { ${s[1] === s[2] ? s[1] : s[1] + " as " + s[2]} };`); break;
      case "export-from": lines.push(`export { ${s[1] === s[2] ? s[1] : s[1] + " as " + s[2]} } from ${sp(s[3])};`); break;
      case "export-ns": lines.push(`export * as ${s[1]} from ${sp(s[2])};`); break;
      case "export-all": lines.push(`export * from ${sp(s[1])};`); break;
      case "export-default": lines.push(`export default ${s[1]};`); break;
    }
  }
  if (exps) lines.push(`parse.buildParsers<{ ${exps.map(([n, t]) => `${n}: ${fixImports(tsOf(t), name, rng)}`).join(", ")} }>();`);
  return lines.join("\n") + "\n";
}
// (watch id (files (file "<name>" (var "<text>" <term>)…)…) (ops (u "<file>" k) | (r) …))
//   term: broken | (src (exports …)? stmt…)   — `exports` only for entry.ts
export function genWatch(rng, p) {
  const sp = genSplitProject(rng, p);
  const exps0 = sp.proj[1].slice(1);
  const fileTerms = sp.proj.slice(2); // (file name stmt…)
  const files = [];
  for (const ft of fileTerms) {
    const name = ft[1], stmts = ft.slice(2), isEntry = name === "entry.ts";
    const text0 = sp.files.find(([n]) => n === name)[1];
    const mk = (st, ex) => [A("src"), ...(isEntry ? [[A("exports"), ...ex]] : []), ...st];
    const vars = [[A("var"), text0, mk(stmts, exps0)]];
    // edited but valid: one declaration becomes `string` (or the first export becomes `number`)
    {
      const di = stmts.map((s, i) => (head(s) === "decl" ? i : -1)).filter((i) => i >= 0);
      let st = stmts, ex = exps0;
      if (di.length && (!isEntry || rng.chance(1, 2))) { const i = rng.pick(di); const d = stmts[i][2]; st = stmts.map((s, j) => (j === i ? [s[0], s[1], [A("alias"), d[1], d[2], A(rng.pick(["string", "number", "boolean"]))]] : s)); }
      else if (isEntry) ex = [[exps0[0][0], A(rng.pick(["number", "boolean"]))], ...exps0.slice(1)];
      else st = [...stmts, [A("decl"), A("true"), [A("alias"), "Extra" + rng.below(100), [], A("number")]]];
      vars.push([A("var"), renderFileTerm(name, st, isEntry ? ex : null, rng), mk(st, ex)]);
    }
    // unresolvable: a reference to a name imported from a file that does not export it (or from nowhere)
    {
      const other = rng.chance(1, 3) ? A("none") : rng.pick(fileTerms)[1];
      const imp = [A("import-named"), "GhostW", "GhostW", other === name ? A("none") : other];
      const di = stmts.map((s, i) => (head(s) === "decl" && head(s[2]) === "alias" ? i : -1)).filter((i) => i >= 0);
      let st = [imp, ...stmts], ex = exps0;
      if (isEntry && (!di.length || rng.chance(1, 2))) ex = [[exps0[0][0], [A("union"), exps0[0][1], [A("ref"), "GhostW"]]], ...exps0.slice(1)];
      else if (di.length) { const i = rng.pick(di) + 1; const d = st[i][2]; st = st.map((s, j) => (j === i ? [s[0], s[1], [d[0], d[1], d[2], [A("union"), d[3], [A("ref"), "GhostW"]]]] : s)); }
      else st = [...st, [A("decl"), A("true"), [A("alias"), "UsesGhost", [], [A("ref"), "GhostW"]]]];
      vars.push([A("var"), renderFileTerm(name, st, isEntry ? ex : null, rng), mk(st, ex)]);
    }
    // syntactically broken
    vars.push([A("var"), text0 + rng.pick(["type Broken = {;\n", "export const = ;\n", "interface { \n", "type X = <<;\n"]), A("broken")]);
    // blank: parses, declares nothing
    if (rng.chance(1, 2)) vars.push([A("var"), rng.pick(["", "  \n", "\n\n", "// nothing left\n", "/* gone */"]), mk([], [])]);
    // JSDoc on declarations and on property signatures (descriptions end up in the emitted code: a rebuild must print the
    // same ones a fresh process prints)
    if (rng.chance(1, 2)) {
      let k = 0;
      const doc = (t) => t.split("\n").map((l) => {
        if (!/^(export )?(type|interface) /.test(l)) return l;
        let r = l;
        if (rng.chance(1, 2)) r = r.replace(/\{ (?=[A-Za-z_"])/, () => `{ /** prop doc ${k++} */ `);
        if (rng.chance(1, 2)) r = `/** decl doc ${k++} */\n` + r;
        return r;
      }).join("\n");
      for (const v of vars) if (typeof v[1] === "string" && !isAtom(v[2], "broken")) v[1] = doc(v[1]);
    }
    files.push([A("file"), name, ...vars]);
  }
  // a file that does not exist when the session starts (its variant 0 is the marker ABSENT: the host has no such file
  // and resolves no import to it; for the model an absent file declares nothing) and is created by its first update
  let late = null;
  if (files.length > 1 && rng.chance(1, 3)) {
    // … chosen among the files no other file re-exports from (`export { X } from "./missing"` next to an `export *` that
    // also provides X falls through to the star in beff, where TypeScript reports the missing module: the model reads an
    // absent file as an empty one, which is right for imports only)
    const reexported = new Set();
    for (const ft of fileTerms) for (const st of ft.slice(2)) if (["export-from", "export-all", "export-ns"].includes(head(st))) reexported.add(show(st[st.length - 1]).replace(/^"|"$/g, ""));
    const cands = files.filter((f) => f[1] !== "entry.ts" && !reexported.has(f[1]));
    if (cands.length) {
      late = rng.pick(cands);
      late.splice(2, 0, [A("var"), "@@ABSENT@@", [A("src")]]);
    }
  }
  // a VALUE module used through its default export (`import cfg from "./cfg_v"; … typeof cfg`): value modules are outside
  // the Lean module model, so such histories are not tied (the file name is the marker); the fresh-session oracle applies
  if (rng.chance(1, 6)) {
    const entry = files.find((f) => f[1] === "entry.ts");
    if (entry) {
      const how = rng.below(3);
      const imp = how === 0 ? 'import cfg from "./cfg_v";' : how === 1 ? 'import { default as cfg } from "./cfg_v";' : 'import cfg, { other } from "./cfg_v";';
      const use = how === 2 ? "{ a: typeof cfg; b: typeof other }" : rng.pick(["typeof cfg", "{ c: typeof cfg }"]);
      for (const v of entry.slice(2)) if (typeof v[1] === "string" && v[1] !== "@@ABSENT@@") v[1] = imp + "\n" + v[1].replace(/ \}>\(\);\n$/, `, EV: ${use} }>();\n`);
      const mk = (val) => `const cfg = ${val} as const;\nexport const other = "o" as const;\nexport default cfg;\n`;
      files.push([A("file"), "cfg_v.ts", [A("var"), mk("{ retries: 3 }"), [A("src")]], [A("var"), mk('{ retries: 4, mode: "x" }'), [A("src")]], [A("var"), mk('"plain"'), [A("src")]], [A("var"), "const cfg = {;\nexport default cfg;\n", A("broken")]]);
    }
  }
  // a declaration file that a NEW source file of the same base name shadows (`./sh_v` resolves to sh_v.d.ts or sh_v/index.ts
  // until sh_v.ts is created: a fresh process then follows sh_v.ts); outside the Lean module model like the value module
  let shadow = null;
  if (rng.chance(1, 6)) {
    const entry = files.find((f) => f[1] === "entry.ts");
    if (entry) {
      for (const v of entry.slice(2)) if (typeof v[1] === "string" && v[1] !== "@@ABSENT@@") v[1] = 'import { Sh } from "./sh_v";\n' + v[1].replace(/ \}>\(\);\n$/, ", ES: Sh }>();\n");
      const low = rng.pick(["sh_v.d.ts", "sh_v/index.ts", "sh_v.tsx"]);
      files.push([A("file"), low, [A("var"), "export type Sh = string;\n", [A("src")]], [A("var"), "export type Sh = string | null;\n", [A("src")]]]);
      shadow = [A("file"), low === "sh_v.tsx" || rng.chance(1, 2) ? "sh_v.ts" : "sh_v.tsx", [A("var"), "@@ABSENT@@", [A("src")]], [A("var"), "export type Sh = number;\n", [A("src")]], [A("var"), "export type Sh = boolean[];\n", [A("src")]]];
      if (low === "sh_v.tsx") shadow[1] = "sh_v.ts";
      files.push(shadow);
    }
  }
  // a type that comes back from the semantic engine with a generated helper definition (`Exclude` over a recursive tuple /
  // object): the helper's name must not depend on how many rebuilds the session has done (outside the Lean module model: `gen_v`)
  if (rng.chance(1, 6)) {
    const entry = files.find((f) => f[1] === "entry.ts");
    if (entry) {
      for (const v of entry.slice(2)) if (typeof v[1] === "string" && v[1] !== "@@ABSENT@@") v[1] = 'import { Tail } from "./gen_v";\n' + v[1].replace(/ \}>\(\);\n$/, ", EG: Tail }>();\n");
      const mk = (t) => `type Chain = [${t}, ...Chain[]];\nexport type Tail = Exclude<Chain | null, null>;\n`;
      files.push([A("file"), "gen_v.ts", [A("var"), mk("string"), [A("src")]], [A("var"), mk("number"), [A("src")]],
        [A("var"), "type Tree = { label: string; children: Tree[] };\nexport type Tail = Exclude<Tree | undefined, undefined>;\n", [A("src")]], [A("var"), "export type Tail = {;\n", A("broken")]]);
    }
  }
  // custom formats: whether `StringFormat<"password">` compiles depends on the SETTINGS a rebuild is asked under — the output is
  // a function of the file contents and the settings of THIS rebuild, not of an earlier one (`gen_v…`: outside the Lean model)
  let formats = false;
  if (rng.chance(1, 5)) {
    const entry = files.find((f) => f[1] === "entry.ts");
    if (entry) {
      formats = true;
      for (const v of entry.slice(2)) if (typeof v[1] === "string" && v[1] !== "@@ABSENT@@") v[1] = 'import { Pw } from "./gen_vfmt";\n' + v[1].replace(/ \}>\(\);\n$/, ", EF: Pw }>();\n");
      files.push([A("file"), "gen_vfmt.ts", [A("var"), 'export type Pw = StringFormat<"password">;\n', [A("src")]], [A("var"), 'export type Pw = { p: StringFormat<"password">; n: NumberFormat<"age"> };\n', [A("src")]],
        [A("var"), "export type Pw = string;\n", [A("src")]]]);
    }
  }
  const ops = [];
  const n = 3 + rng.below(10);
  const pickVar = (f) => (f === late || f === shadow ? 1 + rng.below(f.length - 3) : rng.below(f.length - 2));
  for (let i = 0; i < n; i++) {
    if (rng.chance(1, 3)) ops.push([A("r")]);
    else { const f = rng.pick(files); ops.push([A("u"), f[1], A(String(pickVar(f)))]); }
  }
  if (late) { ops.splice(1 + rng.below(ops.length), 0, [A("u"), late[1], A("1")], [A("r")]); ops.unshift([A("r")]); }
  if (shadow) {
    // nothing touches the new file before the first rebuild has followed the old target
    const first = ops.findIndex((o) => head(o) === "u" && o[1] === shadow[1]);
    if (first >= 0) ops.splice(first, 0, [A("r")]);
    ops.splice(1 + rng.below(ops.length), 0, [A("u"), shadow[1], A("1")], [A("r")]); ops.unshift([A("r")]);
  }
  ops.push([A("r")]);
  // a common end game: repair everything, rebuild
  if (rng.chance(1, 2)) { for (const f of files) if (rng.chance(2, 3)) ops.push([A("u"), f[1], A(String(f === late || f === shadow ? 1 + rng.below(2) : rng.below(2)))]); ops.push([A("r")]); }
  if (formats) {
    // every rebuild names its settings; often two rebuilds in a row differ in nothing but the settings
    for (let i = ops.length - 1; i >= 0; i--) if (head(ops[i]) === "r") {
      const k = rng.below(3);
      ops[i] = [A("rs"), A(String(k))];
      if (rng.chance(1, 2)) ops.splice(i + 1, 0, [A("rs"), A(String((k + 1 + rng.below(2)) % 3))]);
    }
  }
  return [[A("files"), ...files], [A("ops"), ...ops]];
}

// ---------- enums behind re-export chains (outside the Lean module model: such requests are `untied`, the oracle still compares
// the single-file and the multi-file compilation) ----------
export function genEnumLayer(rng) {
  const members = 'A = "a", B = "b"';
  const files = [];
  // the library: exported directly, or a differently named enum exported under the name, next to a same-named non-exported decoy
  let libName = "enums.ts", exported = "En";
  const style = rng.below(3);
  if (style === 0) files.push([libName, `export enum En { ${members} }\n`]);
  else if (style === 1) files.push([libName, `enum Inner { ${members} }\nexport { Inner as En };\n`]);
  else files.push([libName, `enum En { A = "internal", B = "internal2" }\nenum Pub { ${members} }\nexport { Pub as En };\n`]);
  // 0–2 barrels
  let from = libName, name = exported;
  const nb = rng.below(3);
  for (let i = 0; i < nb; i++) {
    const bn = `barrel${i + 1}.ts`;
    const spec = "./" + from.replace(/\.ts$/, "");
    const r = rng.below(4);
    if (r === 0) files.push([bn, `export { ${name} } from "${spec}";\n`]);
    else if (r === 1) { const nn = name + "x"; files.push([bn, `export { ${name} as ${nn} } from "${spec}";\n`]); name = nn; }
    else if (r === 2) files.push([bn, `import { ${name} } from "${spec}";\nexport { ${name} };\n`]);
    else files.push([bn, `export * from "${spec}";\n`]);
    from = bn;
  }
  const spec = "./" + from.replace(/\.ts$/, "");
  let imp, path;
  const r = rng.below(3);
  if (r === 0) { imp = `import { ${name} } from "${spec}";`; path = name; }
  else if (r === 1) { imp = `import { ${name} as E9 } from "${spec}";`; path = "E9"; }
  else { imp = `import * as ENS from "${spec}";`; path = `ENS.${name}`; }
  // a SECOND enum of the same name in another file, same member names, different values, and only its MEMBERS used:
  // the two `En.A` are different types and must stay apart
  if (rng.chance(1, 3)) {
    files.push(["enums_b.ts", `export enum En { A = "a2", B = "b2" }\n`]);
    const use = rng.pick([(q) => `${q}.A | { tag: ${q}.B }`, (q) => `{ tag: ${q}.B }`, (q) => `${q}.A`]);
    const both = (q1, q2) => `{ x: ${use(q1)}; y: ${use(q2)} }`;
    return { singleDecl: `enum En { ${members} }\nenum EnTwin { A = "a2", B = "b2" }`, singleType: both("En", "EnTwin"), files,
      entryImport: imp + `\nimport { En as EnTwin } from "./enums_b";`, entryType: both(path, "EnTwin"),
      extra: [{ x: "a", y: "a2" }, { x: "a", y: "a" }, { x: "a2", y: "a2" }, { x: "a2", y: "a" }, { x: { tag: "b" }, y: { tag: "b2" } }, { x: { tag: "b2" }, y: { tag: "b" } }, { x: { tag: "b" }, y: { tag: "b" } }] };
  }
  // (also in VALUE position: `typeof En.A` reads the enum as a value — an enum exported through an export list is a type AND a value)
  const use = rng.pick([(q) => `${q}.A | { tag: ${q}.B }`, (q) => `{ tag: ${q}.B }`, (q) => `${q}`, (q) => `${q}.A`, (q) => `typeof ${q}.A`, (q) => `{ tag: typeof ${q}.B } | ${q}.A`]);
  return { singleDecl: `enum En { ${members} }`, singleType: use("En"), files, entryImport: imp, entryType: use(path), extra: [] };
}
