// C15 at the Runtype level: describe() of validators built from the REAL classes, including descriptions (JSDoc
// rendering of documented members / declarations), compiled again by the real compiler.
// Request:  (rtd <id> <env> <rt> (<value>…))
// stage 1:  "<request>"                       -> (described "<text>")
// stage 2:  "<request>\t<compiled text>"      -> (described "<text>") + oracle: c15.compile / c15.load / c15.validate / c15.once
import { A, Atom, show, head, isAtom } from "./sx.mjs";
import { encVal, decVal, makeBuilder } from "./values.mjs";
import { genEnv, genRT, member, mutate, randomValue, registerFormats } from "./mode_rt.mjs";
import { loadEmitted } from "./mode_prog.mjs";

const BAD_KEYS = new Set(["__proto__", "constructor", "toString", "prototype", "hasOwnProperty", "valueOf", "length", "size"]);
// shapes the round trip is not claimed for (recorded findings of other hypotheses, or nothing TypeScript can say)
function unsupported(x) {
  if (x instanceof Atom) return x.s === "never";
  if (!Array.isArray(x)) return false;
  switch (head(x)) {
    case "typeof": if (x[1] === "function") return true; break;
    case "strfmt": case "numfmt": return true;
    case "oneof": return true;
    // a finite key set under an index signature is not what the compiler emits for Record<"a" | "b", T> (declared properties)
    case "object": if (x[1].length > 0 && x[2].length > 0) return true; if (x[2].some(([k]) => head(k) === "consts" || head(k) === "const")) return true; if (x[1].some((p) => BAD_KEYS.has(p[0]))) return true; break;
    case "allof": if (x.slice(1).some((t) => !["object", "ref"].includes(head(t)))) return true; break;
    case "disc": if (x[3].some((p) => BAD_KEYS.has(p[0]))) return true; break;
  }
  return x.some(unsupported);
}
let counter = 0;
export function gen(rng, params, mode) {
  for (;;) {
    const { names, env } = genEnv(rng);
    let rt = genRT(rng, 1 + rng.below(3), names);
    // documented members: the multi-line rendering of an object type
    if (rng.chance(1, 2)) {
      const doc = () => rng.pick(["doc", "a */ b", "two\nlines", "requests per minute"]);
      const t = rng.below(3);
      if (t === 0) rt = [A("object"), [["limits", [A("object"), [], [[[A("typeof"), "string"], [A("desc"), doc(), [A("typeof"), "number"]]]]]], ["name", rt]], []];
      else if (t === 1) rt = [A("object"), [], [[[A("typeof"), "string"], [A("desc"), doc(), rt]]]];
      else rt = [A("object"), [["a", [A("desc"), doc(), rt]], ["b", rng.chance(1, 2) ? [A("opt"), [A("desc"), doc(), [A("typeof"), "string"]]] : [A("typeof"), "string"]]], []];
    }
    // type names are arbitrary identifiers, including names of Object.prototype members
    if (names.length && rng.chance(1, 8)) {
      const from = rng.pick(names), to = rng.pick(["toString", "constructor", "hasOwnProperty", "valueOf"]);
      const ren = (x) => { if (!Array.isArray(x)) return; if (head(x) === "ref" && x[1] === from) x[1] = to; x.forEach(ren); };
      env.forEach((e) => { if (e[0] === from) e[0] = to; ren(e[1]); }); ren(rt);
    }
    if (unsupported(rt) || unsupported(env)) continue;
    const r = () => rng.below(10);
    const vals = Array.from({ length: Number(params[0] || 10) }, () => { const k = r(); return k < 6 ? member(rng, rt, env, 2) : k < 9 ? mutate(rng, member(rng, rt, env, 2), 3) : randomValue(rng, 2); });
    return [A("rtd"), A(String(counter++)), env, rt, vals.map(encVal)];
  }
}

export const asyncRunner = true;
export function makeRunner(rt_, mode, build) {
  const cg = rt_.cg;
  registerFormats(cg);
  const buildEnv = makeBuilder(cg);
  return async function run(req, compiled) {
    const [, , envSx, rtSx, valsSx] = req;
    const a = cg.buildParserFromRuntype(buildEnv(envSx, rtSx).rt, "E0", false);
    let text;
    try { text = a.describe(); } catch (e) { return [[A("describe-throws"), String(e && e.message).slice(0, 100)], [A("oracle"), A("fail"), A("c15.throws")]]; }
    if (compiled == null) return [[A("described"), text], [A("oracle"), A("ok")]];
    const fail = [];
    // describe() is a function of the parser: a second call prints the same text
    try { if (a.describe() !== text) fail.push(A("c15.stable")); } catch (e) { fail.push(A("c15.throws")); }
    const names = [...text.matchAll(/^type ([A-Za-z0-9_$]+) =/gm)].map((m) => m[1]);
    if (new Set(names).size !== names.length) fail.push(A("c15.once"));
    if (head(compiled) !== "js") { fail.push(A("c15.compile")); return [[A("described"), text], [A("oracle"), A("fail"), ...fail]]; }
    let p2;
    try { p2 = (await loadEmitted(build, compiled[1])).buildParsers({}); } catch (e) { return [[A("described"), text], [A("oracle"), A("fail"), A("c15.load")]]; }
    const b = p2.E0;
    for (const v of valsSx.map(decVal)) { let x, y; try { x = a.validate(v); y = b.validate(v); } catch (e) { fail.push(A("c03.throw")); break; } if (x !== y) { fail.push(A("c15.validate")); break; } }
    return [[A("described"), text], fail.length ? [A("oracle"), A("fail"), ...fail] : [A("oracle"), A("ok")]];
  };
}
