// S-expression codec + PRNG shared by all JS harness modes (DESIGN.md Appendix A).
export class Atom { constructor(s) { this.s = s; } }
export const A = (s) => new Atom(String(s));
export function quote(s) {
  let out = '"';
  for (const c of s) {
    const n = c.codePointAt(0);
    if (c === '"') out += '\\"';
    else if (c === "\\") out += "\\\\";
    else if (c === "\n") out += "\\n";
    else if (c === "\r") out += "\\r";
    else if (c === "\t") out += "\\t";
    else if (n < 32 || n === 127) out += "\\u" + n.toString(16).padStart(4, "0");
    else out += c;
  }
  return out + '"';
}
export function show(x) {
  if (x instanceof Atom) return x.s;
  if (typeof x === "string") return quote(x);
  if (typeof x === "number") return String(x);
  if (Array.isArray(x)) return "(" + x.map(show).join(" ") + ")";
  throw new Error("cannot show " + x);
}
export function parse(s) {
  let i = 0;
  const cs = Array.from(s);
  const ws = () => { while (i < cs.length && /\s/.test(cs[i])) i++; };
  function one() {
    ws();
    if (i >= cs.length) throw new Error("eof");
    const c = cs[i];
    if (c === "(") {
      i++;
      const v = [];
      for (;;) { ws(); if (cs[i] === ")") { i++; return v; } v.push(one()); }
    }
    if (c === '"') {
      i++;
      let out = "";
      for (;;) {
        const d = cs[i++];
        if (d === undefined) throw new Error("eof in string");
        if (d === '"') return out;
        if (d === "\\") {
          const e = cs[i++];
          if (e === "n") out += "\n"; else if (e === "r") out += "\r"; else if (e === "t") out += "\t";
          else if (e === "b") out += "\b"; else if (e === "f") out += "\f";
          else if (e === "u") { out += String.fromCodePoint(parseInt(cs.slice(i, i + 4).join(""), 16)); i += 4; }
          else out += e;
        } else out += d;
      }
    }
    let st = i;
    while (i < cs.length && !/[\s()"]/.test(cs[i])) i++;
    return new Atom(cs.slice(st, i).join(""));
  }
  return one();
}
export const isAtom = (x, s) => x instanceof Atom && (s === undefined || x.s === s);
export const head = (x) => (Array.isArray(x) ? (x[0] instanceof Atom ? x[0].s : null) : x instanceof Atom ? x.s : null);

// xorshift64* on BigInt (same generator family as the Rust side; streams need not coincide)
export class Rng {
  constructor(seed) { this.s = (BigInt(seed) * 0x9E3779B97F4A7C15n ^ 0xD1B54A32D192ED03n | 1n) & 0xFFFFFFFFFFFFFFFFn; }
  next() {
    let x = this.s;
    x ^= x >> 12n; x ^= (x << 25n) & 0xFFFFFFFFFFFFFFFFn; x ^= x >> 27n;
    this.s = x;
    return (x * 0x2545F4914F6CDD1Dn) & 0xFFFFFFFFFFFFFFFFn;
  }
  below(n) { return n <= 0 ? 0 : Number((this.next() >> 11n) % BigInt(n)); }
  chance(num, den) { return this.below(den) < num; }
  pick(v) { return v[this.below(v.length)]; }
}
