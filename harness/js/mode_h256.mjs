// C13 at the Runtype level: pairs of (env, Runtype) built from the REAL runtime classes.
// Request:  (h256 <same|diff> <script> <env1> <rt1> <env2> <rt2> (<value>…))
// Reply:    (h256 (d <digest>|throw) (d <digest>|throw) "<bits1>" "<bits2>")     — the model produces the same line
// Oracle:   c13.collision  the validators disagree on a value and the digests are equal
//           c13.same       the second type is the first one up to names, alias boundaries, property order, descriptions
//                          and the digests differ
//           c13.hash-throws / c13.same-validate
import { A, Atom, show, head, isAtom } from "./sx.mjs";
import { encVal, decVal, makeBuilder, TYPED, canonNum } from "./values.mjs";
import { genEnv, genRT, genLeaf, genObject, genConst, genTplItem, tplDescribe, member, mutate, randomValue, lookupEnv, registerFormats } from "./mode_rt.mjs";

const clone = (x) => (Array.isArray(x) ? x.map(clone) : x);
const KEYS = ["a", "b", "c", "t", "kind", "x", "y"];

// every Runtype position of a tree, with a setter
function walk(node, set, info, out) {
  out.push({ node, set, info });
  if (node instanceof Atom) return;
  const kid = (arr, i, info2) => walk(arr[i], (v) => { arr[i] = v; }, info2, out);
  switch (head(node)) {
    case "tuple": node[1].forEach((_, i) => kid(node[1], i, {})); if (!isAtom(node[2], "none")) kid(node, 2, {}); break;
    case "array": case "set": kid(node, 1, {}); break;
    case "opt": kid(node, 1, {}); break;
    case "map": kid(node, 1, {}); kid(node, 2, {}); break;
    case "allof": case "anyof": for (let i = 1; i < node.length; i++) kid(node, i, {}); break;
    case "desc": kid(node, 2, info); break;
    case "disc": node[3].forEach((p) => kid(p, 1, {})); break;   // the mapping decides validation; schemaMapping is re-synced
    case "object": node[1].forEach((p) => kid(p, 1, { prop: true })); node[2].forEach((p) => { kid(p, 0, {}); kid(p, 1, { prop: true }); }); break;
  }
}
function walkEnv(e, out) {
  const start = out.length;
  walk(e[1], (v) => { e[1] = v; }, { envRoot: true }, out);
  for (let i = start; i < out.length; i++) out[i].info = { ...out[i].info, envName: e[0] };
}
function allSlots(env, holder) {
  const out = [];
  env.forEach((e) => walkEnv(e, out));
  walk(holder.rt, (v) => { holder.rt = v; }, { root: true }, out);
  return out;
}
function syncDisc(x) {
  if (!Array.isArray(x)) return;
  if (head(x) === "disc") x[4] = clone(x[3]);
  x.forEach(syncDisc);
}
function normProps(plist) {
  const o = {};
  for (const [k, v] of plist) Object.defineProperty(o, k, { value: v, enumerable: true, configurable: true, writable: true });
  return Object.keys(o).map((k) => [k, o[k]]);
}
// names referenced without passing an object / array / tuple / map / set constructor
function unguarded(rt, acc) {
  if (rt instanceof Atom) return;
  switch (head(rt)) {
    case "ref": acc.add(rt[1]); break;
    case "anyof": case "allof": rt.slice(1).forEach((t) => unguarded(t, acc)); break;
    case "desc": unguarded(rt[2], acc); break;
    case "opt": unguarded(rt[1], acc); break;
    case "disc": rt[3].forEach((p) => unguarded(p[1], acc)); break;
  }
}
function contractive(env) {
  const g = new Map(env.map(([n, b]) => { const s = new Set(); unguarded(b, s); return [n, s]; }));
  for (const [n] of env) {
    const seen = new Set(); const todo = [...g.get(n)];
    while (todo.length) { const m = todo.pop(); if (m === n) return false; if (seen.has(m) || !g.has(m)) continue; seen.add(m); todo.push(...g.get(m)); }
  }
  return true;
}
function refsOf(rt, acc) { if (Array.isArray(rt)) { if (head(rt) === "ref") acc.add(rt[1]); rt.forEach((x) => refsOf(x, acc)); } return acc; }
function reaches(env, from, target) {
  const seen = new Set(); const todo = [from];
  while (todo.length) { const m = todo.pop(); if (seen.has(m)) continue; seen.add(m); const b = lookupEnv(env, m); if (!b) continue; for (const r of refsOf(b, new Set())) { if (r === target) return true; todo.push(r); } }
  return false;
}

// ---- single point changes that may change behaviour ----
function reachableSlots(env, holder) {
  const live = new Set(); const todo = [...refsOf(holder.rt, new Set())];
  while (todo.length) { const m = todo.pop(); if (live.has(m)) continue; live.add(m); const b = lookupEnv(env, m); if (b) todo.push(...refsOf(b, new Set())); }
  return allSlots(env, holder).filter((s) => !s.info.envName || live.has(s.info.envName));
}
const LEAF_HEADS = ["typeof", "nullish", "typed", "strfmt", "numfmt", "regex"];
const CHANGES = {
  optional: { on: (s) => s.info.prop, run: (rng, s, n, h) => { s.set(h === "opt" ? n[1] : [A("opt"), n]); return true; } },
  "tuple-rest": { on: (s, h) => h === "tuple", run: (rng, s, n) => { n[2] = isAtom(n[2], "none") ? genLeaf(rng) : A("none"); return true; } },
  "tuple-len": { on: (s, h) => h === "tuple", run: (rng, s, n) => { if (n[1].length && rng.chance(1, 2)) n[1].pop(); else n[1].push(genLeaf(rng)); return true; } },
  key: { on: (s, h, n) => h === "object" && n[1].length > 0, run: (rng, s, n) => { const p = rng.pick(n[1]); const k = rng.pick(KEYS); if (n[1].some((q) => q[0] === k)) return false; p[0] = k; n[1] = normProps(n[1]); return true; } },
  "prop-drop": { on: (s, h, n) => h === "object" && n[1].length > 0, run: (rng, s, n) => { n[1].splice(rng.below(n[1].length), 1); return true; } },
  "prop-add": { on: (s, h) => h === "object", run: (rng, s, n) => { const k = rng.pick(KEYS); if (n[1].some((q) => q[0] === k)) return false; n[1].push([k, genLeaf(rng)]); n[1] = normProps(n[1]); return true; } },
  index: { on: (s, h) => h === "object", run: (rng, s, n) => { if (n[2].length) n[2] = []; else n[2] = [[[A("typeof"), "string"], genLeaf(rng)]]; return true; } },
  "index-key": { on: (s, h, n) => h === "object" && n[2].length > 0, run: (rng, s, n) => { const k = rng.pick([[A("typeof"), "string"], [A("consts"), [A("s"), "a"], [A("s"), "b"]], [A("strfmt"), "fa"], [A("typeof"), "number"]]); if (show(k) === show(n[2][0][0])) return false; n[2][0][0] = k; return true; } },
  const: { on: (s, h) => h === "const", run: (rng, s, n) => { const c = genConst(rng); if (show(c) === show(n[1])) return false; n[1] = c; return true; } },
  consts: { on: (s, h) => h === "consts", run: (rng, s, n) => { if (n.length > 2 && rng.chance(1, 2)) n.splice(1 + rng.below(n.length - 1), 1); else n.push(genConst(rng)); return true; } },
  leaf: { on: (s, h, n) => n instanceof Atom || LEAF_HEADS.includes(h), run: (rng, s, n) => { const l = genLeaf(rng); if (show(l) === show(n)) return false; s.set(l); return true; } },
  "disc-swap": { on: (s, h, n) => h === "disc" && n[3].length >= 2, run: (rng, s, n) => { const i = rng.below(n[3].length); let j = rng.below(n[3].length - 1); if (j >= i) j++; const t = n[3][i][1]; n[3][i][1] = n[3][j][1]; n[3][j][1] = t; return true; } },
  "disc-key": { on: (s, h) => h === "disc", run: (rng, s, n) => { const k = rng.pick(["t", "kind", "type", "x"]); if (k === n[2]) return false; n[2] = k; return true; } },
  "disc-drop": { on: (s, h, n) => h === "disc" && n[3].length > 1, run: (rng, s, n) => { n[3].splice(rng.below(n[3].length), 1); return true; } },
  "disc-tag": { on: (s, h, n) => h === "disc", run: (rng, s, n) => { const k = rng.pick(["a", "b", "c", "d", "e"]); if (n[3].some((p) => p[0] === k)) return false; rng.pick(n[3])[0] = k; return true; } },
  retarget: { on: (s, h) => h === "ref", run: (rng, s, n, h, names) => { const o = rng.pick(names); if (o === n[1]) return false; n[1] = o; return true; } },
  member: { on: (s, h) => h === "anyof" || h === "allof", run: (rng, s, n, h, names) => { if (n.length > 3 && rng.chance(1, 2)) n.splice(1 + rng.below(n.length - 1), 1); else n.push(h === "allof" ? genObject(rng, 1, names) : genLeaf(rng)); return true; } },
  container: { on: (s, h) => h === "array" || h === "set", run: (rng, s, n, h) => { n[0] = A(h === "array" ? "set" : "array"); return true; } },
  "map-swap": { on: (s, h) => h === "map", run: (rng, s, n) => { const t = n[1]; n[1] = n[2]; n[2] = t; return true; } },
  subtree: { on: (s, h) => h !== "opt" && !s.info.envRoot, run: (rng, s, n, h, names) => { s.set(genRT(rng, 1, names)); return true; } },
  connective: { on: (s, h) => h === "anyof" || h === "allof", run: (rng, s, n, h) => { n[0] = A(h === "anyof" ? "allof" : "anyof"); return true; } },
  regex: { on: (s, h) => h === "regex", run: (rng, s, n) => { const items = Array.from({ length: 1 + rng.below(3) }, () => genTplItem(rng, 1)); n[1] = [A("tpl"), ...items]; n[2] = tplDescribe(items); return true; } },
  "array-as-rest": { on: (s, h) => h === "array", run: (rng, s, n) => { s.set([A("tuple"), [], n[1]]); return true; } },
  typeof: { on: (s, h) => h === "typeof", run: (rng, s, n) => { const t = rng.pick(["string", "number", "boolean"]); if (t === n[1]) return false; n[1] = t; return true; } },
  // a string format and a number format of the same registered name(s) are different types
  "format-kind": { on: (s, h, n) => (h === "strfmt" || h === "numfmt") && n.slice(1).every((f) => f === "f2"), run: (rng, s, n, h) => { s.set([A(h === "strfmt" ? "numfmt" : "strfmt"), ...n.slice(1)]); return true; } },
  formats: { on: (s, h) => h === "strfmt" || h === "numfmt", run: (rng, s, n, h) => { const pool = h === "strfmt" ? ["fa", "fb", "fab", "f2"] : ["n2", "n3", "f2"]; if (n.length > 2 && rng.chance(1, 2)) n.pop(); else n.push(rng.pick(pool)); return true; } },
  typed: { on: (s, h) => h === "typed", run: (rng, s, n) => { const t = rng.pick(TYPED); if (t === n[1]) return false; n[1] = t; return true; } },
  wrap: { on: (s, h) => h !== "opt", run: (rng, s, n) => { s.set(rng.pick([[A("array"), n], [A("tuple"), [n], A("none")], [A("object"), [["a", n]], []], [A("anyof"), n, [A("nullish"), "null"]]])); return true; } },
};
const CHANGE_NAMES = Object.keys(CHANGES);
function pointChange(rng, env, holder, names, opts = {}) {
  for (let tries = 0; tries < 12; tries++) {
    const name = opts.mutual && rng.chance(1, 3) ? "retarget" : rng.pick(CHANGE_NAMES), c = CHANGES[name];
    const slots = reachableSlots(env, holder).filter((s) => c.on(s, head(s.node), s.node));
    if (!slots.length) continue;
    const s = rng.pick(slots);
    if (c.run(rng, s, s.node, head(s.node), names)) return name;
  }
  return null;
}

const PROTO_NAMES = ["toString", "valueOf", "constructor", "hasOwnProperty", "isPrototypeOf", "toLocaleString", "__proto__"];
// ---- rewrites that leave the type the same up to names, alias boundaries, property order and descriptions ----
function sameRewrite(rng, env, holder, fresh) {
  const renameAll = (x, m) => { if (!Array.isArray(x)) return; if (head(x) === "ref" && m.has(x[1])) x[1] = m.get(x[1]); x.forEach((y) => renameAll(y, m)); };
  switch (rng.below(7)) {
    case 0: { // alpha: rename every name, permute the environment
      // (sometimes a type is called like a member of Object.prototype: a table of names must not find inherited members)
      const proto = PROTO_NAMES.filter((n) => !env.some((e) => e[0] === n));
      const odd = env.length && proto.length && rng.chance(1, 3) ? rng.below(env.length) : -1;
      const m = new Map(env.map(([n], i) => [n, i === odd ? rng.pick(proto) : n[0] + "r" + (fresh.n++)]));
      env.forEach((e) => { e[0] = m.get(e[0]); renameAll(e[1], m); }); renameAll(holder.rt, m);
      for (let i = env.length - 1; i > 0; i--) { const j = rng.below(i + 1); const t = env[i]; env[i] = env[j]; env[j] = t; }
      return "alpha";
    }
    case 1: { // property order
      let any = false;
      for (const s of allSlots(env, holder)) if (head(s.node) === "object" && s.node[1].length > 1) { const p = s.node[1]; for (let i = p.length - 1; i > 0; i--) { const j = rng.below(i + 1); const t = p[i]; p[i] = p[j]; p[j] = t; } s.node[1] = normProps(p); any = true; }
      return any ? "prop-order" : null;
    }
    case 2: { // a description
      const c = allSlots(env, holder).filter((s) => head(s.node) !== "opt");
      const s = rng.pick(c); s.set([A("desc"), rng.pick(["doc", "a */ b", "two\nlines"]), s.node]); return "desc";
    }
    case 3: { // an alias of a named type
      const c = allSlots(env, holder).filter((s) => head(s.node) === "ref");
      if (!c.length) return null;
      const s = rng.pick(c); const name = "Nal" + (fresh.n++);
      const target = s.node[1];
      env.push([name, rng.chance(1, 3) ? [A("desc"), "doc", [A("ref"), target]] : [A("ref"), target]]);
      // (often every reference to the target goes through the new name: an alias used more than once in one type)
      const all = rng.chance(1, 2);
      for (const o of c) if (o === s || (all && o.node[1] === target)) o.set([A("ref"), name]);
      return "alias";
    }
    case 4: { // extract a subtree into a named type
      const c = allSlots(env, holder).filter((s) => head(s.node) !== "opt");
      const s = rng.pick(c); const name = (head(s.node) === "object" ? "Oex" : "Nex") + (fresh.n++);
      env.push([name, s.node]); s.set([A("ref"), name]); return "extract";
    }
    case 5: { // member order of unions, intersections and literal sets (the 32-bit hash only: D108)
      let any = false;
      const shuffle = (x) => { for (let i = x.length - 1; i > 1; i--) { const j = 1 + rng.below(i); const t = x[i]; x[i] = x[j]; x[j] = t; } };
      for (const s of allSlots(env, holder)) if (["anyof", "allof", "consts"].includes(head(s.node)) && s.node.length > 2) { const before = JSON.stringify(s.node); shuffle(s.node); if (JSON.stringify(s.node) !== before) any = true; }
      return any ? "member-order" : null;
    }
    default: { // inline a reference to a type that does not reach itself
      const c = allSlots(env, holder).filter((s) => head(s.node) === "ref" && lookupEnv(env, s.node[1]) && !reaches(env, s.node[1], s.node[1]));
      if (!c.length) return null;
      const s = rng.pick(c); s.set(clone(lookupEnv(env, s.node[1]))); return "inline";
    }
  }
}

// mutually recursive environments (every body an object, references under properties)
function genMutualEnv(rng) {
  const n = 2 + rng.below(3);
  const names = Array.from({ length: n }, (_, i) => "O" + i);
  const env = names.map((name) => {
    const body = genObject(rng, 1, []);
    body[2] = [];
    const k = 1 + rng.below(2);
    for (let i = 0; i < k; i++) {
      const key = rng.pick(["f", "g", "next", "kids"]);
      if (body[1].some((p) => p[0] === key)) continue;
      const r = [A("ref"), rng.pick(names)];
      body[1].push([key, rng.pick([r, [A("anyof"), r, [A("nullish"), "null"]], [A("opt"), r], [A("array"), r], [A("object"), [[rng.pick(["q", "r"]), [A("anyof"), r, [A("nullish"), "null"]]]], []]])]);
    }
    body[1] = normProps(body[1]);
    return [name, body];
  });
  return { names, env };
}

// pairs of different property names that a collation (`localeCompare`) treats as equal: canonically equivalent spellings,
// ignorable characters, compatibility characters. The canonical order of names is the order of their code units
const COLLATION_TWINS = [["caf\u00e9", "cafe\u0301"], ["id", "id\u200b"], ["\u212b", "\u00c5"], ["a", "a\u00ad"]];
function genTwins(rng) {
  const [k1, k2] = rng.pick(COLLATION_TWINS);
  const t1 = genLeaf(rng), t2 = rng.chance(1, 2) ? genLeaf(rng) : [A("array"), genLeaf(rng)];
  const extra = rng.chance(1, 2) ? [["z", genLeaf(rng)]] : [];
  const mk = (order) => [A("object"), normProps(order), []];
  const rt = mk([[k1, t1], [k2, t2], ...extra]), rt2 = mk(rng.chance(1, 2) ? [[k2, t2], [k1, t1], ...extra] : [...extra, [k2, t2], [k1, t1]]);
  const wrap = rng.pick([(x) => x, (x) => [A("array"), x], (x) => [A("object"), [["p", x]], []]]);
  const a = wrap(rt), b = wrap(rt2);
  const vals = [];
  for (let i = 0; i < 6; i++) vals.push(member(rng, a, [], 3));
  for (let i = 0; i < 3; i++) vals.push(mutate(rng, vals[rng.below(6)], 3));
  vals.push(randomValue(rng, 2));
  return [A("h256"), A("same"), [A("prop-order")], [], a, [], b, vals.map(encVal)];
}

// two types that differ ONLY in the kind of a custom format of the same registered name(s)
function genFormatTwins(rng) {
  const names = Array.from({ length: 1 + rng.below(2) }, () => "f2");
  const wrap = rng.pick([(x) => x, (x) => [A("array"), x], (x) => [A("object"), [["p", x]], []], (x) => [A("tuple"), [x, genLeaf(rng)], A("none")], (x) => [A("anyof"), x, [A("nullish"), "null"]]]);
  let a = wrap([A("strfmt"), ...names]), b = clone(a);
  const swap = (x) => { if (!Array.isArray(x)) return; if (head(x) === "strfmt") { x[0] = A("numfmt"); return; } x.forEach(swap); };
  swap(b);
  if (rng.chance(1, 2)) [a, b] = [b, a];
  const vals = ["2", "a2", "z", 2, 6, 3, null, ["2"], [6], { p: "2" }, { p: 6 }, ["2", null], [6, null]];
  return [A("h256"), A("diff"), [A("format-kind")], [], a, [], b, vals.map(encVal)];
}

export function gen(rng, params, mode) {
  if (rng.chance(1, 15)) return genTwins(rng);
  if (rng.chance(1, 25)) return genFormatTwins(rng);
  const mutual = rng.chance(1, 2);
  const { names, env } = mutual ? genMutualEnv(rng) : genEnv(rng);
  const rt = mutual && rng.chance(2, 3) ? [A("ref"), rng.pick(names)] : genRT(rng, 1 + rng.below(3), names);
  const env2 = clone(env), holder = { rt: clone(rt) };
  const fresh = { n: 0 };
  const script = [];
  let kind = rng.chance(1, 3) ? "same" : "diff";
  if (kind === "diff") {
    const c = pointChange(rng, env2, holder, names, { mutual });
    if (c) script.push(c); else kind = "same";
  }
  const k = kind === "same" ? 1 + rng.below(3) : rng.below(2);
  for (let i = 0; i < k; i++) { const r = sameRewrite(rng, env2, holder, fresh); if (r) script.push(r); }
  syncDisc(env2); syncDisc(holder.rt);
  if (!contractive(env2)) return gen(rng, params, mode);
  // hash256 writes the members of a union in their order (member order is not in its list): only the 32-bit hash is owed
  if (script.includes("member-order")) { if (kind !== "same") return gen(rng, params, mode); kind = "same32"; }
  const vals = [];
  for (let i = 0; i < 4; i++) vals.push(member(rng, rt, env, 3));
  for (let i = 0; i < 4; i++) vals.push(member(rng, holder.rt, env2, 3));
  for (let i = 0; i < 3; i++) vals.push(mutate(rng, vals[rng.below(8)], 3));
  vals.push(randomValue(rng, 2));
  return [A("h256"), A(kind), script.map(A), env, rt, env2, holder.rt, vals.map(encVal)];
}

let namedCounter = 0, probeCounter = 0;
export function makeRunner(rt_, mode) {
  const cg = rt_.cg;
  registerFormats(cg);
  const buildEnv = makeBuilder(cg);
  return function run(req) {
    const [, kindA, , env1, rt1, env2, rt2, valsSx] = req;
    const bad = new Set();
    const side = (env, rt) => {
      const parser = cg.buildParserFromRuntype(buildEnv(env, rt).rt, "T", false);
      let d, h32 = null;
      try { d = parser.hash256(); } catch (e) { d = null; bad.add("c13.hash-throws"); }
      try { h32 = parser.hash(); } catch (e) { bad.add("c13.hash32-throws"); }
      let bits = "";
      for (const v of valsSx) { try { bits += parser.validate(decVal(v)) ? "1" : "0"; } catch (e) { bits += "T"; bad.add("c03.throw"); } }
      return { d, bits, h32 };
    };
    const a = side(env1, rt1), b = side(env2, rt2);
    // ONE parser object over a named root whose definition is replaced in between (createNamedType / overrideNamedType of
    // the real module): the digest is a function of the validator as it is NOW, not of what it was when first asked
    if (cg.createNamedType && cg.overrideNamedType && a.d != null && b.d != null) {
      try {
        const nm = "Root$" + (namedCounter++);
        const P = cg.createNamedType(nm, cg.buildParserFromRuntype(buildEnv(env1, rt1).rt, "T", false));
        const d1 = P.hash256(), h1 = P.hash();
        cg.overrideNamedType(nm, cg.buildParserFromRuntype(buildEnv(env2, rt2).rt, "T", false));
        const d2 = P.hash256(), h2 = P.hash();
        let bits2 = "";
        for (const v of valsSx) { try { bits2 += P.validate(decVal(v)) ? "1" : "0"; } catch (e) { bits2 += "T"; } }
        if (d1 !== a.d || h1 !== a.h32) bad.add("c13.named-root");
        if (d2 !== b.d || h2 !== b.h32) bad.add("c13.stale-digest");
        if (bits2 !== b.bits) bad.add("c13.stale-validate");
      } catch (e) { bad.add("c13.named-root-throws"); }
    }
    for (const x of [a, b]) if (x.d != null && !/^[0-9a-f]{64}$/.test(x.d)) bad.add("c13.format");
    if (a.d != null && a.d === b.d && a.bits !== b.bits) bad.add("c13.collision");
    // the 32-bit hash: equal for types that differ only in property order, alias boundaries or comments
    const script = req[2].map((x) => x.s);
    if (kindA.s === "same" && script.every((k) => ["prop-order", "desc", "alias", "inline", "extract"].includes(k)) && a.h32 !== b.h32) bad.add("c13.same32");
    if (kindA.s === "same32") {
      if (a.h32 !== b.h32) bad.add("c13.same32");
      if (a.bits !== b.bits) bad.add("c13.same-validate");
    }
    if (kindA.s === "same") {
      if (a.d !== b.d) bad.add("c13.same");
      if (a.bits !== b.bits) bad.add("c13.same-validate");
    }
    // strings that are not well-formed UTF-16 (the value model has none): an unpaired surrogate is not U+FFFD (D109)
    if ((probeCounter++) % 50 === 0) {
      try {
        const h = (v) => cg.buildParserFromRuntype(new cg.ConstRuntype(undefined, v), "T", false).hash256();
        const ds = ["\ud800", "\udc00", "\ufffd", "a\ud800b", "a\ufffdb"].map(h);
        if (new Set(ds).size !== ds.length) bad.add("c13.collision");
        // one NAME in two tables of named types (a compiled module's and another's): `T = { next: <the other table's T> }` with
        // that other `T = { v: string }` is not the recursive `R = { next: R }`
        const inner = buildEnv([["T", [A("object"), [["v", [A("typeof"), "string"]]], []]]], [A("ref"), "T"]);
        const outer = buildEnv([["T", [A("object"), [["next", A("any")]], []]]], [A("ref"), "T"]);
        Object.defineProperty(outer.table, "T", { value: new cg.ObjectRuntype(undefined, { next: inner.rt }, []), enumerable: true, writable: true, configurable: true });
        const rec = buildEnv([["R", [A("object"), [["next", [A("ref"), "R"]]], []]]], [A("ref"), "R"]);
        const dOuter = cg.buildParserFromRuntype(outer.rt, "T", false).hash256(), dRec = cg.buildParserFromRuntype(rec.rt, "T", false).hash256();
        if (dOuter === dRec) bad.add("c13.collision");
      } catch (e) { bad.add("c13.hash-throws"); }
    }
    const dig = (x) => [A("d"), x.d == null ? A("throw") : x.d];
    const reply = [A("h256"), dig(a), dig(b), a.bits, b.bits];
    return [reply, bad.size === 0 ? [A("oracle"), A("ok")] : [A("oracle"), A("fail"), ...Array.from(bad).sort().map(A)]];
  };
}
