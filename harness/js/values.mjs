// JS value <-> S-expression (DESIGN.md Appendix A) and RT S-expression -> real runtime class instances.
import { A, Atom, head, isAtom, show } from "./sx.mjs";

export function canonNum(n) {
  if (Number.isNaN(n)) return "NaN";
  if (Object.is(n, -0)) return "-0";
  return String(n);
}
export function numOfCanon(s) { return s === "-0" ? -0 : Number(s); }

const TYPED = ["Uint8Array", "Uint8ClampedArray", "Uint16Array", "Uint32Array", "Int8Array", "Int16Array", "Int32Array", "Float32Array", "Float64Array", "BigInt64Array", "BigUint64Array"];

const PROTO_KINDS = ["Object", "Array", "Date", "Map", "Set", ...TYPED];
export function encVal(v) {
  if (v === null) return A("null");
  if (v === undefined) return A("undef");
  switch (typeof v) {
    case "boolean": return [A("b"), A(v ? "true" : "false")];
    case "number": return [A("n"), canonNum(v)];
    case "string": return [A("s"), v];
    case "bigint": return [A("big"), v.toString()];
    case "function": return A("fn");
    case "symbol": return A("sym");
  }
  // a hole of a sparse array is written `hole` (the model reads it as undefined, as `input[i]` does; iteration helpers
  // of the runtime that skip holes then differ from the validator, which does not)
  if (Array.isArray(v)) return [A("arr"), ...Array.from({ length: v.length }, (_, i) => (i in v ? encVal(v[i]) : A("hole")))];
  if (v instanceof Date) return [A("date"), Number.isNaN(v.getTime()) ? "invalid" : String(v.getTime())];
  if (v instanceof Map) return [A("map"), ...Array.from(v, ([k, x]) => [encVal(k), encVal(x)])];
  if (v instanceof Set) return [A("set"), ...Array.from(v, encVal)];
  if (ArrayBuffer.isView(v)) return [A("typed"), v.constructor.name, ...Array.from(v, encVal)];
  for (const k of PROTO_KINDS) if (v === globalThis[k].prototype) return [A("proto"), k];
  const proto = Object.getPrototypeOf(v);
  const tag = proto === Object.prototype ? "obj" : proto === null ? "obj-nullproto" : "obj-otherproto";
  return [A(tag), ...Object.keys(v).map((k) => [k, encVal(v[k])])];
}

// results are compared with a model that has no holes: a hole that survives in an output (a value returned as it came
// in) is written as the `undefined` every read of it gives
export function encOut(v) {
  const fix = (x) => (x instanceof Atom ? (x.s === "hole" ? A("undef") : x) : Array.isArray(x) ? x.map(fix) : x);
  return fix(encVal(v));
}

export function decVal(x) {
  if (x instanceof Atom) {
    if (x.s === "null") return null;
    if (x.s === "undef") return undefined;
    if (x.s === "fn") return function f() {};
    if (x.s === "sym") return Symbol("s");
    throw new Error("bad value atom " + x.s);
  }
  const h = head(x);
  switch (h) {
    case "b": return x[1].s === "true";
    case "n": return numOfCanon(x[1]);
    case "s": return x[1];
    case "big": return BigInt(x[1]);
    case "date": return new Date(x[1] === "invalid" ? NaN : Number(x[1]));
    case "arr": { const items = x.slice(1); const a = new Array(items.length); items.forEach((it, i) => { if (!(it instanceof Atom && it.s === "hole")) a[i] = decVal(it); }); return a; }
    case "obj": {
      const o = {};
      for (const [k, v] of x.slice(1)) Object.defineProperty(o, k, { value: decVal(v), enumerable: true, writable: true, configurable: true });
      return o;
    }
    case "map": return new Map(x.slice(1).map(([k, v]) => [decVal(k), decVal(v)]));
    case "set": return new Set(x.slice(1).map(decVal));
    case "proto": return globalThis[x[1]].prototype;
    case "typed": {
      const C = globalThis[x[1]];
      return C.from(x.slice(2).map(decVal));
    }
  }
  throw new Error("bad value " + h);
}

// ---------- template -> regex source (port of TplLitTypeItem::regex_expr, ast/runtype.rs:129-170) ----------
function escapeRegex(lit) {
  let s = lit.replaceAll("\\", "\\\\");
  for (const c of ["(", ")", "[", "]", "{", "}", ".", "*", "+", "?", "|", "^", "$", "/"]) s = s.replaceAll(c, "\\" + c);
  return s;
}
export function tplRegex(item) {
  if (item instanceof Atom) {
    if (item.s === "str") return "(.*)";
    if (item.s === "num") return "(\\d+(\\.\\d+)?)";
    if (item.s === "bool") return "(true|false)";
  }
  const h = head(item);
  if (h === "lit") return item[1] === "" ? "" : "(" + escapeRegex(item[1]) + ")";
  if (h === "oneof") return "(" + item.slice(1).map(tplRegex).join("|") + ")";
  throw new Error("bad tpl item");
}

// ---------- RT S-expression -> real class instances ----------
export function makeBuilder(cg, opts = {}) {
  class HRef extends cg.BaseRefRuntype {
    constructor(meta, name, table) { super(meta, name); this.table = table; }
    getNamedRuntypes() { return this.table; }
  }
  // `share`: structurally equal runtypes (without a description of their own) are built once per table, as the compiler's
  // hoisting of shared sub-validators does in an emitted module
  function build(x, table, meta) {
    if (!opts.share || meta !== undefined) return build1(x, table, meta);
    let memo = memos.get(table);
    if (!memo) { memo = new Map(); memos.set(table, memo); }
    const k = show(x);
    if (!memo.has(k)) memo.set(k, build1(x, table, meta));
    return memo.get(k);
  }
  const memos = new WeakMap();
  function build1(x, table, meta) {
    if (x instanceof Atom) {
      switch (x.s) {
        case "any": return new cg.AnyRuntype(meta);
        case "never": return new cg.NeverRuntype(meta);
        case "date": return new cg.DateRuntype(meta);
        case "bigint": return new cg.BigIntRuntype(meta);
      }
      throw new Error("bad rt atom " + x.s);
    }
    const h = head(x);
    const b = (y) => build(y, table, undefined);
    switch (h) {
      case "typeof": return new cg.TypeofRuntype(meta, x[1]);
      case "nullish": return new cg.NullishRuntype(meta, x[1]);
      case "const": return new cg.ConstRuntype(meta, decVal(x[1]));
      case "consts": return new cg.AnyOfConstsRuntype(meta, x.slice(1).map(decVal));
      case "regex": return new cg.RegexRuntype(meta, new RegExp(x[1].slice(1).map(tplRegex).join("")), x[2]);
      case "typed": return new cg.TypedArrayRuntype(meta, x[1]);
      case "strfmt": return new cg.StringWithFormatRuntype(meta, x.slice(1));
      case "numfmt": return new cg.NumberWithFormatRuntype(meta, x.slice(1));
      case "tuple": return new cg.TupleRuntype(meta, x[1].map(b), isAtom(x[2], "none") ? null : b(x[2]));
      case "array": return new cg.ArrayRuntype(meta, b(x[1]));
      case "allof": return new cg.AllOfRuntype(meta, x.slice(1).map(b));
      case "anyof": return new cg.AnyOfRuntype(meta, x.slice(1).map(b));
      case "map": return new cg.MapRuntype(meta, b(x[1]), b(x[2]));
      case "set": return new cg.SetRuntype(meta, b(x[1]));
      case "opt": return new cg.OptionalFieldRuntype(b(x[1]));
      case "ref": return new HRef(meta, x[1], table);
      case "desc": return build(x[2], table, { description: x[1] });
      case "disc": {
        const rec = (pairs) => { const o = {}; for (const [k, v] of pairs) Object.defineProperty(o, k, { value: b(v), enumerable: true, writable: true, configurable: true }); return o; };
        return new cg.AnyOfDiscriminatedRuntype(meta, x[1].map(b), x[2], rec(x[3]), rec(x[4]));
      }
      case "object": {
        const props = {};
        for (const [k, v] of x[1]) Object.defineProperty(props, k, { value: b(v), enumerable: true, writable: true, configurable: true });
        return new cg.ObjectRuntype(meta, props, x[2].map(([k, v]) => ({ key: b(k), value: b(v) })));
      }
    }
    throw new Error("bad rt " + h);
  }
  return function buildEnv(envSx, rtSx) {
    const table = Object.create(null);
    for (const [name, r] of envSx) Object.defineProperty(table, name, { value: build(r, table, undefined), enumerable: true, writable: true, configurable: true });
    return { table, rt: build(rtSx, table, undefined) };
  };
}
export { TYPED };
