// host.mjs <mode> gen <seed> <count> [params…]   -> request lines
// host.mjs <mode> run                            -> "<reply>\t<oracle>" per request line (stdin)
// Runs the REAL client runtime type-stripped from /repo (see strip.mjs) in-process.
import fs from "node:fs";
import path from "node:path";
import { fileURLToPath, pathToFileURL } from "node:url";
import { A, show, parse, Rng, quote } from "./sx.mjs";

const here = path.dirname(fileURLToPath(import.meta.url));
const build = process.env.BEFF_JS_BUILD || path.join(here, "../../.build/js");
const [mode, cmd, ...rest] = process.argv.slice(2);
const modFile = { sha: "./mode_sha.mjs", rt: "./mode_rt.mjs", ctx: "./mode_ctx.mjs", prog: "./mode_prog.mjs", schema: "./mode_schema.mjs", sub: "./mode_sub.mjs", h256: "./mode_h256.mjs", rtd: "./mode_rtd.mjs" }[mode.split("-")[0]];
const M = await import(modFile);

async function loadRuntime() {
  const imp = (f) => import(pathToFileURL(path.join(build, "client", f)).href);
  return { hash: await imp("hash.js"), cg: await imp("codegen-v2.js"), err: await imp("err.js"), b: await imp("b.js"), pp: await imp("openapi-pp.js") };
}

if (cmd === "gen") {
  const seed = Number(rest[0]), count = Number(rest[1]);
  const params = rest.slice(2);
  const out = [];
  if (params[0] === "exhaustive") {
    for (const r of M.exhaustive(Number(params[1]))) out.push(show(r));
  } else {
    const rng = new Rng(seed);
    for (let i = 0; i < count; i++) out.push(show(M.gen(rng, params, mode)));
  }
  fs.writeSync(1, out.join("\n") + "\n");
} else if (cmd === "run") {
  const rt = await loadRuntime();
  const run = M.makeRunner(rt, mode, build);
  const lines = fs.readFileSync(0, "utf8").split("\n").filter((l) => l.trim() && !l.startsWith(";"));
  const out = [];
  for (const line of lines) {
    try {
      // two-stage modes: "<request>\t<result of the previous stage>"
      const parts = line.split("\t");
      const [reply, oracle] = M.asyncRunner ? await run(parse(parts[0]), parts[1] ? parse(parts[1]) : null, parts[2] ? parse(parts[2]) : null) : run(parse(parts[0]));
      out.push(show(reply) + "\t" + show(oracle));
    } catch (e) {
      out.push(`(host-throw ${quote(String(e && e.message))})\t(oracle fail host-throw)`);
    }
    if (out.length >= 2000) { fs.writeSync(1, out.join("\n") + "\n"); out.length = 0; }
  }
  if (out.length) fs.writeSync(1, out.join("\n") + "\n");
} else {
  console.error("usage: host.mjs <mode> gen|run");
  process.exit(2);
}
