// C05 / C07 generators: pairs of types for assignability, and semantic operators (Exclude, keyof, indexed access).
//   (sub <id> (<decl>*) <A> <B> "<ts source>")       source: `A extends B ? "yes" : "no"` exported as R
import { A, Atom, show, head, isAtom } from "./sx.mjs";
import { tsOf, tsOfDecl } from "./mode_prog.mjs";

const lit = (k, v) => [A("lit"), [A(k), v]];
const LITS = [lit("b", A("true")), lit("b", A("false")), lit("n", "1"), lit("n", "2"), lit("s", "a"), lit("s", "b")];
const KEYS = ["a", "b", "c"];
function genLeaf(rng) {
  const r = rng.below(10);
  if (r < 4) return A(rng.pick(["null", "boolean", "number", "string"]));
  if (r < 9) return rng.pick(LITS);
  return A(rng.pick(["number", "string"]));
}
function genObj(rng, d, sc) {
  const n = rng.below(4), seen = new Set(), ms = [];
  // TypeScript requires the declared properties of an object type to conform to its own index signature
  const idxT = rng.chance(1, 6) ? genSubTy(rng, d - 1, sc) : null;
  const narrow = (t) => (head(t) === "union" && rng.chance(1, 2) ? t[1 + rng.below(t.length - 1)] : t);
  for (let i = 0; i < n; i++) { const k = rng.pick(KEYS); if (seen.has(k)) continue; seen.add(k); ms.push([k, A(rng.chance(1, 3) ? "true" : "false"), idxT ? narrow(idxT) : genSubTy(rng, d - 1, sc)]); }
  return [A("obj"), ms, idxT ? [A("string"), idxT] : A("none")];
}
export function genSubTy(rng, d, sc) {
  if (d <= 0) return genLeaf(rng);
  switch (rng.below(12)) {
    case 0: case 1: case 2: return genObj(rng, d, sc);
    case 3: return [A("array"), genSubTy(rng, d - 1, sc)];
    case 4: case 5: return [A("tuple"), Array.from({ length: rng.below(3) }, () => genSubTy(rng, d - 1, sc)), rng.chance(1, 3) ? genSubTy(rng, d - 1, sc) : A("none")];
    case 6: case 7: return [A("union"), ...Array.from({ length: 2 + rng.below(2) }, () => genSubTy(rng, d - 1, sc))];
    case 8: return [A("inter"), genObj(rng, d - 1, sc), genObj(rng, d - 1, sc)];
    case 9: if (sc.names.length) return [A("ref"), rng.pick(sc.names)]; return genLeaf(rng);
    default: return genLeaf(rng);
  }
}
function genDecls(rng) {
  const decls = [], names = [];
  const n = rng.below(3);
  for (let i = 0; i < n; i++) {
    const name = "T" + i;
    const sc = { names: names.slice() };
    let body;
    const r = rng.below(4);
    if (r === 0) { // recursive object
      const self = [A("ref"), name];
      body = [A("obj"), [["v", A("false"), genSubTy(rng, 1, sc)], [rng.pick(["next", "kids"]), A(rng.chance(2, 3) ? "true" : "false"), rng.pick([self, [A("array"), self], [A("union"), self, A("null")]])]], A("none")];
    } else if (r === 1) { // recursive tuple
      const self = [A("ref"), name];
      body = [A("tuple"), [genSubTy(rng, 0, sc)], rng.pick([self, [A("union"), self, A("null")]])];
    } else body = rng.chance(1, 2) ? genObj(rng, 2, sc) : genSubTy(rng, 2, sc);
    decls.push([A("alias"), name, [], body]);
    names.push(name);
  }
  return { decls, names };
}
// B is often a small edit of A so that both answers occur
function mutateTy(rng, t, sc) {
  if (t instanceof Atom || typeof t === "string") return rng.chance(1, 2) ? genLeaf(rng) : [A("union"), t, genLeaf(rng)];
  switch (head(t)) {
    case "lit": return rng.pick([A(head(t[1]) === "s" ? "string" : head(t[1]) === "n" ? "number" : "boolean"), genLeaf(rng), [A("union"), t, genLeaf(rng)]]);
    case "array": return rng.pick([[A("array"), mutateTy(rng, t[1], sc)], [A("tuple"), [t[1]], t[1]], [A("tuple"), [], t[1]], [A("union"), t, A("null")]]);
    case "tuple": {
      const r = rng.below(5);
      if (r === 0 && t[1].length) return [t[0], t[1].slice(0, -1), t[2]];
      if (r === 1) return [t[0], [...t[1], genLeaf(rng)], t[2]];
      if (r === 2) return [t[0], t[1], isAtom(t[2], "none") ? genLeaf(rng) : A("none")];
      if (r === 3 && t[1].length) { const i = rng.below(t[1].length); return [t[0], t[1].map((x, j) => (j === i ? mutateTy(rng, x, sc) : x)), t[2]]; }
      return [A("array"), t[1].length ? [A("union"), ...t[1], ...(isAtom(t[2], "none") ? [] : [t[2]])] : A("number")];
    }
    case "obj": {
      if (!isAtom(t[2], "none")) return rng.pick([[t[0], t[1], A("none")], [t[0], [], t[2]], [A("union"), t, genLeaf(rng)], [t[0], t[1].slice(1), t[2]]]);
      const r = rng.below(6), ms = t[1];
      if (r === 0 && ms.length) return [t[0], ms.slice(1), t[2]];
      if (r === 1) return [t[0], [...ms.filter((m) => m[0] !== "c"), ["c", A(rng.chance(1, 2) ? "true" : "false"), genLeaf(rng)]], t[2]];
      if (r === 2 && ms.length) { const i = rng.below(ms.length); return [t[0], ms.map((m, j) => (j === i ? [m[0], A(m[1].s === "true" ? "false" : "true"), m[2]] : m)), t[2]]; }
      if (r === 3 && ms.length) { const i = rng.below(ms.length); return [t[0], ms.map((m, j) => (j === i ? [m[0], m[1], mutateTy(rng, m[2], sc)] : m)), t[2]]; }
      if (r === 4) return ms.length ? [t[0], ms, [A("string"), [A("union"), ...ms.map((m) => m[2])]]] : [t[0], ms, [A("string"), genLeaf(rng)]];
      return [A("union"), t, genLeaf(rng)];
    }
    case "union": { const r = rng.below(3); if (r === 0 && t.length > 3) return [t[0], ...t.slice(2)]; if (r === 1) return [t[0], ...t.slice(1), genLeaf(rng)]; const i = 1 + rng.below(t.length - 1); return t.map((x, j) => (j === i ? mutateTy(rng, x, sc) : x)); }
    case "inter": return rng.chance(1, 2) ? t[1] : [t[0], t[1], mutateTy(rng, t[2], sc)];
    case "ref": return rng.chance(1, 2) ? genSubTy(rng, 2, sc) : [A("union"), t, A("null")];
  }
  return genLeaf(rng);
}
let counter = 0;
export function gen(rng, params, mode) {
  const { decls, names } = genDecls(rng);
  const sc = { names };
  const a = genSubTy(rng, 1 + rng.below(3), sc);
  let b;
  const r = rng.below(6);
  if (r < 3) b = mutateTy(rng, a, sc);
  else if (r === 3) b = a;
  else if (r === 4) b = mutateTy(rng, mutateTy(rng, a, sc), sc);
  else b = genSubTy(rng, 1 + rng.below(3), sc);
  const [x, y] = rng.chance(1, 2) ? [a, b] : [b, a];
  const src = decls.map(tsOfDecl).join("\n") + `\nparse.buildParsers<{ R: (${tsOf(x)}) extends (${tsOf(y)}) ? "yes" : "no" }>();\n`;
  return [A("sub"), A(String(counter++)), decls, x, y, src];
}
export const asyncRunner = false;
export function makeRunner() { return () => [[A("unused")], [A("oracle"), A("ok")]]; }
