// C05 / C07 generators: pairs of types for assignability, and semantic operators (Exclude, keyof, indexed access).
//   (sub <id> (<decl>*) <A> <B> "<ts source>")       source: `A extends B ? "yes" : "no"` exported as R
import { A, Atom, show, head, isAtom } from "./sx.mjs";
import { tsOf, tsOfDecl, member } from "./mode_prog.mjs";
import { encVal } from "./values.mjs";

const lit = (k, v) => [A("lit"), [A(k), v]];
const LITS = [lit("b", A("true")), lit("b", A("false")), lit("n", "1"), lit("n", "2"), lit("s", "a"), lit("s", "b")];
const KEYS = ["a", "b", "c"];
function genLeaf(rng) {
  const r = rng.below(10);
  if (r < 4) return A(rng.pick(["null", "boolean", "number", "string"]));
  if (r < 9) return rng.pick(LITS);
  return A(rng.pick(["number", "string"]));
}
function genObj(rng, d, sc) {
  const n = rng.below(4), seen = new Set(), ms = [];
  // TypeScript requires the declared properties of an object type to conform to its own index signature
  const idxT = rng.chance(1, 6) ? genSubTy(rng, d - 1, sc) : null;
  const narrow = (t) => (head(t) === "union" && rng.chance(1, 2) ? t[1 + rng.below(t.length - 1)] : t);
  for (let i = 0; i < n; i++) { const k = rng.pick(KEYS); if (seen.has(k)) continue; seen.add(k); ms.push([k, A(rng.chance(1, 3) ? "true" : "false"), idxT ? narrow(idxT) : genSubTy(rng, d - 1, sc)]); }
  return [A("obj"), ms, idxT ? [A("string"), idxT] : A("none")];
}
export function genSubTy(rng, d, sc) {
  if (d <= 0) return genLeaf(rng);
  switch (rng.below(12)) {
    case 0: case 1: case 2: return genObj(rng, d, sc);
    case 3: return [A("array"), genSubTy(rng, d - 1, sc)];
    case 4: case 5: return [A("tuple"), Array.from({ length: rng.below(3) }, () => genSubTy(rng, d - 1, sc)), rng.chance(1, 3) ? genSubTy(rng, d - 1, sc) : A("none")];
    case 6: case 7: return [A("union"), ...Array.from({ length: 2 + rng.below(2) }, () => genSubTy(rng, d - 1, sc))];
    case 8: return [A("inter"), genObj(rng, d - 1, sc), genObj(rng, d - 1, sc)];
    case 9: if (sc.names.length) return [A("ref"), rng.pick(sc.names)]; return genLeaf(rng);
    default: return genLeaf(rng);
  }
}
function genDecls(rng) {
  const decls = [], names = [];
  const n = rng.below(3);
  for (let i = 0; i < n; i++) {
    const name = "T" + i;
    const sc = { names: names.slice() };
    let body;
    const r = rng.below(4);
    if (r === 0) { // recursive object
      const self = [A("ref"), name];
      body = [A("obj"), [["v", A("false"), genSubTy(rng, 1, sc)], [rng.pick(["next", "kids"]), A(rng.chance(2, 3) ? "true" : "false"), rng.pick([self, [A("array"), self], [A("union"), self, A("null")]])]], A("none")];
    } else if (r === 1) { // recursive tuple
      const self = [A("ref"), name];
      body = [A("tuple"), [genSubTy(rng, 0, sc)], rng.pick([self, [A("union"), self, A("null")]])];
    } else body = rng.chance(1, 2) ? genObj(rng, 2, sc) : genSubTy(rng, 2, sc);
    decls.push([A("alias"), name, [], body]);
    names.push(name);
  }
  return { decls, names };
}
// B is often a small edit of A so that both answers occur
function mutateTy(rng, t, sc) {
  if (t instanceof Atom || typeof t === "string") return rng.chance(1, 2) ? genLeaf(rng) : [A("union"), t, genLeaf(rng)];
  switch (head(t)) {
    case "lit": return rng.pick([A(head(t[1]) === "s" ? "string" : head(t[1]) === "n" ? "number" : "boolean"), genLeaf(rng), [A("union"), t, genLeaf(rng)]]);
    case "array": return rng.pick([[A("array"), mutateTy(rng, t[1], sc)], [A("tuple"), [t[1]], t[1]], [A("tuple"), [], t[1]], [A("union"), t, A("null")]]);
    case "tuple": {
      const r = rng.below(5);
      if (r === 0 && t[1].length) return [t[0], t[1].slice(0, -1), t[2]];
      if (r === 1) return [t[0], [...t[1], genLeaf(rng)], t[2]];
      if (r === 2) return [t[0], t[1], isAtom(t[2], "none") ? genLeaf(rng) : A("none")];
      if (r === 3 && t[1].length) { const i = rng.below(t[1].length); return [t[0], t[1].map((x, j) => (j === i ? mutateTy(rng, x, sc) : x)), t[2]]; }
      return [A("array"), t[1].length ? [A("union"), ...t[1], ...(isAtom(t[2], "none") ? [] : [t[2]])] : A("number")];
    }
    case "obj": {
      if (!isAtom(t[2], "none")) return rng.pick([[t[0], t[1], A("none")], [t[0], [], t[2]], [A("union"), t, genLeaf(rng)], [t[0], t[1].slice(1), t[2]]]);
      const r = rng.below(6), ms = t[1];
      if (r === 0 && ms.length) return [t[0], ms.slice(1), t[2]];
      if (r === 1) return [t[0], [...ms.filter((m) => m[0] !== "c"), ["c", A(rng.chance(1, 2) ? "true" : "false"), genLeaf(rng)]], t[2]];
      if (r === 2 && ms.length) { const i = rng.below(ms.length); return [t[0], ms.map((m, j) => (j === i ? [m[0], A(m[1].s === "true" ? "false" : "true"), m[2]] : m)), t[2]]; }
      if (r === 3 && ms.length) { const i = rng.below(ms.length); return [t[0], ms.map((m, j) => (j === i ? [m[0], m[1], mutateTy(rng, m[2], sc)] : m)), t[2]]; }
      if (r === 4) return ms.length ? [t[0], ms, [A("string"), [A("union"), ...ms.map((m) => m[2])]]] : [t[0], ms, [A("string"), genLeaf(rng)]];
      return [A("union"), t, genLeaf(rng)];
    }
    case "union": { const r = rng.below(3); if (r === 0 && t.length > 3) return [t[0], ...t.slice(2)]; if (r === 1) return [t[0], ...t.slice(1), genLeaf(rng)]; const i = 1 + rng.below(t.length - 1); return t.map((x, j) => (j === i ? mutateTy(rng, x, sc) : x)); }
    case "inter": return rng.chance(1, 2) ? t[1] : [t[0], t[1], mutateTy(rng, t[2], sc)];
    case "ref": return rng.chance(1, 2) ? genSubTy(rng, 2, sc) : [A("union"), t, A("null")];
  }
  return genLeaf(rng);
}
// ---------- C07: Exclude / keyof / indexed access ----------
const SEM_STRS = ["a", "b", "c", "v", "next", "zz", ""];
function semValues(rng, p, types, n) {
  const vals = [];
  for (let i = 0; i < n; i++) {
    const r = rng.below(10);
    if (r < 6) vals.push(member(rng, p, rng.pick(types), 2));
    else if (r < 8) vals.push(rng.pick(SEM_STRS));
    else vals.push(rng.pick([0, 1, 2, 7, true, false, null, undefined, [], {}, { a: 1 }, [1], ["a"]]));
  }
  return vals;
}
// a type assignable to the leaf `t` (declared properties must conform to the index signature)
function narrowLeaf(rng, t) {
  if (t instanceof Atom) { if (t.s === "string") return lit("s", rng.pick(["a", "b"])); if (t.s === "number") return lit("n", rng.pick(["1", "2"])); if (t.s === "boolean") return lit("b", A("true")); }
  return t;
}
function genSem(rng, params) {
  const { decls, names } = genDecls(rng);
  const sc = { names };
  const p = [A("prog"), decls, []];
  const kind = rng.below(3);
  let expr, text, types;
  if (rng.chance(1, 10)) {
    // Exclude over Map / Set whose element, key or value type is RECURSIVE: the materialisation introduces helper definitions
    // for the recursion, and the clause `Set<Tree> & Not<Set<Tree>>` is empty only for who can see those definitions
    const tree = [A("alias"), "Tree", [], [A("obj"), [["children", A("false"), [A("array"), [A("ref"), "Tree"]]]], A("none")]];
    const ds = [...decls.filter((d) => d[1] !== "Tree"), tree];
    const el = rng.pick([[A("ref"), "Tree"], [A("array"), [A("ref"), "Tree"]], [A("obj"), [["t", A("false"), [A("ref"), "Tree"]]], A("none")]]);
    const cont = rng.chance(1, 2) ? [A("bi"), "Set", el] : [A("bi"), "Map", A("string"), el];
    const other = rng.pick([A("string"), A("number"), [A("array"), A("string")]]);
    const a = [A("union"), cont, other];
    const wider = head(cont) === "bi" && cont[1] === "Set" ? [A("bi"), "Set", [A("union"), el, A("string")]] : [A("bi"), "Map", A("string"), [A("union"), el, A("string")]];
    let b = rng.pick([cont, cont, wider, other]);
    // two Maps / Sets on the left whose key (element) types differ, and a Map / Set with a NARROWER key on the right: the
    // clause `Map<K1, V> & not Map<K2, V>` is not empty when K1 is not within K2
    let extraTypes = [];
    if (rng.chance(1, 3)) {
      const k1 = [A("union"), A("string"), A("number")], k2 = A("boolean"), v1 = rng.pick([A("boolean"), el]);
      const mk = (k, v) => (rng.chance(1, 2) ? [A("bi"), "Map", k, v] : [A("bi"), "Set", k]);
      const c1 = [A("bi"), "Map", k1, v1], c2 = rng.chance(1, 2) ? [A("bi"), "Map", k2, A("string")] : [A("bi"), "Set", k1];
      a.splice(1, a.length - 1, c1, c2, ...(rng.chance(1, 2) ? [other] : []));
      b = rng.pick([[A("bi"), "Map", A("string"), v1], [A("bi"), "Map", A("number"), v1], [A("bi"), "Set", A("string")], c2]);
      extraTypes = [c1, c2, [A("bi"), "Map", A("number"), v1], [A("bi"), "Map", A("string"), v1], [A("bi"), "Set", A("number")]];
    }
    const p2 = [A("prog"), ds, []];
    const vals = semValues(rng, p2, [a, cont, other, el, ...extraTypes], Number(params[0] || 10));
    const src = ds.map(tsOfDecl).join("\n") + `\nparse.buildParsers<{ R: Exclude<${tsOf(a)}, ${tsOf(b)}> }>();\n`;
    return [A("sem"), A(String(counter++)), [A("prog"), ds, [["R", [A("exclude"), a, b]]]], [["entry.ts", src]], vals.map(encVal)];
  }
  if (rng.chance(1, 10)) {
    // a CLOSED tuple (no rest element) that reaches the operators BY NAME — `Exclude<Pr | null, null>`, `Pr[number]` — judged on
    // arrays one longer than the tuple and on values of none of its positions: a name must not open the tuple
    const leafs = [A("string"), A("number"), A("boolean"), lit("s", "a"), lit("n", "1")];
    const n = 1 + rng.below(3), elems = Array.from({ length: n }, () => rng.pick(leafs));
    const tup = [A("tuple"), elems, A("none")];
    const ds = [...decls.filter((d) => d[1] !== "Pr"), [A("alias"), "Pr", [], tup]];
    const r = [A("ref"), "Pr"];
    const other = rng.pick([A("null"), A("string"), [A("obj"), [["k", A("false"), A("string")]], A("none")]]);
    const form = rng.below(3);
    let e2, t2;
    if (form === 0) { const a = [A("union"), r, other]; e2 = [A("exclude"), a, other]; t2 = `Exclude<${tsOf(a)}, ${tsOf(other)}>`; }
    else if (form === 1) { e2 = [A("idx"), r, A("number")]; t2 = "Pr[number]"; }
    else { const a = [A("union"), r, other, [A("array"), A("null")]]; e2 = [A("exclude"), a, [A("array"), A("null")]]; t2 = `Exclude<${tsOf(a)}, ${tsOf([A("array"), A("null")])}>`; }
    const p2 = [A("prog"), ds, []];
    const base = member(rng, p2, tup, 2);
    const vals = [base, [...base, true], [...base, "zz", 7], base.slice(0, -1), [], true, {}, "zz", 42, null, ...semValues(rng, p2, [tup, other, ...elems], 4)];
    const src = ds.map(tsOfDecl).join("\n") + `\nparse.buildParsers<{ R: ${t2} }>();\n`;
    return [A("sem"), A(String(counter++)), [A("prog"), ds, [["R", e2]]], [["entry.ts", src]], vals.map(encVal)];
  }
  if (rng.chance(1, 8)) {
    // operators over an intersection of unions that SHARE named object types (`(Bird | Cat | Dog) & (Cat | Fish)`): both
    // diagrams hold the same atom (a name has one atom), the arm of the diagram meet that inline types never reach
    const pool4 = ["Bird", "Cat", "Dog", "Fish"];
    const mk = (n) => [A("alias"), n, [], [A("obj"), [["kind", A("false"), lit("s", n.toLowerCase())], [n[0].toLowerCase(), A("false"), A("string")]], A("none")]];
    const order = pool4.slice(); for (let i = order.length - 1; i > 0; i--) { const j = rng.below(i + 1); [order[i], order[j]] = [order[j], order[i]]; }
    const ds = [...decls.filter((d) => !pool4.includes(d[1])), ...order.map(mk)];
    const r = (n) => [A("ref"), n];
    const sub = (k) => { const s = pool4.filter(() => rng.chance(1, 2)); while (s.length < k) { const n = rng.pick(pool4); if (!s.includes(n)) s.push(n); } for (let i = s.length - 1; i > 0; i--) { const j = rng.below(i + 1); [s[i], s[j]] = [s[j], s[i]]; } return s; };
    const s1 = sub(2), s2 = sub(2);
    if (!s1.some((n) => s2.includes(n))) s2.push(s1[rng.below(s1.length)]);
    const u = (s) => (s.length === 1 ? r(s[0]) : [A("union"), ...s.map(r)]);
    const inter = [A("inter"), u(s1), u(s2)];
    const p2 = [A("prog"), ds, []];
    const op = rng.below(3);
    let e2, t2;
    if (op === 0) { const k = lit("s", "kind"); e2 = [A("idx"), inter, k]; t2 = `(${tsOf(inter)})[${tsOf(k)}]`; }
    else if (op === 1) { const b = rng.chance(1, 2) ? r(rng.pick(pool4)) : u(sub(1)); e2 = [A("exclude"), inter, b]; t2 = `Exclude<${tsOf(inter)}, ${tsOf(b)}>`; }
    else { const b = r(rng.pick(s1)); e2 = [A("exclude"), u(s1), [A("inter"), u(s2), b]]; t2 = `Exclude<${tsOf(u(s1))}, ${tsOf(e2[2])}>`; }
    const vals = semValues(rng, p2, [...pool4.map(r), A("string")], Number(params[0] || 10));
    const src = ds.map(tsOfDecl).join("\n") + `\nparse.buildParsers<{ R: ${t2} }>();\n`;
    return [A("sem"), A(String(counter++)), [A("prog"), ds, [["R", e2]]], [["entry.ts", src]], vals.map(encVal)];
  }
  if (kind === 0) { // Exclude<A, B>: A a union, B one of its members / a widening / a literal subset / unrelated
    // (sometimes a tuple whose rest is `unknown` / `any`: the `any[]` shortcut of the materialisation must keep the prefix)
    const anyRest = () => [A("tuple"), Array.from({ length: 1 + rng.below(2) }, () => genLeaf(rng)), A(rng.pick(["unknown", "any"]))];
    // (sometimes the meet of a fixed-length tuple with a SHORTER list type that has a rest: inhabited, by the tuple's values)
    const listMeet = () => { const t = genLeaf(rng), n = 2 + rng.below(2); const fixed = [A("tuple"), Array.from({ length: n }, () => t), A("none")];
      const shorter = rng.chance(1, 2) ? [A("array"), t] : [A("tuple"), Array.from({ length: rng.below(n) }, () => t), t]; return rng.chance(1, 2) ? [A("inter"), shorter, fixed] : [A("inter"), fixed, shorter]; };
    const ms = Array.from({ length: 2 + rng.below(3) }, () => (rng.chance(1, 8) ? anyRest() : rng.chance(1, 10) ? listMeet() : rng.chance(1, 2) ? genLeaf(rng) : genSubTy(rng, 1 + rng.below(2), sc)));
    // (sometimes the top type on the left: TypeScript answers `unknown`, and the negation that reaches the printer must not panic)
    const a = rng.chance(1, 10) ? A(rng.pick(["unknown", "any"])) : [A("union"), ...ms];
    const r = rng.below(5);
    const b = r === 0 ? rng.pick(ms) : r === 1 ? mutateTy(rng, rng.pick(ms), sc) : r === 2 ? [A("union"), rng.pick(ms), rng.pick(ms)] : r === 3 ? genLeaf(rng) : genSubTy(rng, 1, sc);
    expr = [A("exclude"), a, b]; text = `Exclude<${tsOf(a)}, ${tsOf(b)}>`; types = [a, b];
    if (rng.chance(1, 8)) {
      // an object type with a property over a small union against the union of the object types that split that property
      // (`{ ok: boolean }` against `{ ok: true } | { ok: false }`): covered only by all the members together
      const doms = [[lit("b", A("true")), lit("b", A("false"))], [lit("s", "a"), lit("s", "b")], [lit("n", "1"), lit("n", "2")]];
      const dom = rng.pick(doms), k = rng.pick(KEYS);
      const other = rng.chance(1, 2) ? [["n", A("false"), A("number")]] : [];
      const whole = dom === doms[0] && rng.chance(1, 2) ? A("boolean") : [A("union"), ...dom];
      const mkO = (t) => [A("obj"), [[k, A("false"), t], ...other], A("none")];
      const objWhole = mkO(whole), parts = dom.map(mkO);
      const a2 = rng.chance(1, 2) ? objWhole : [A("union"), objWhole, genLeaf(rng)];
      const b2 = rng.chance(2, 3) ? [A("union"), ...parts] : rng.chance(1, 2) ? parts[0] : [A("union"), parts[0], genLeaf(rng)];
      expr = [A("exclude"), a2, b2]; text = `Exclude<${tsOf(a2)}, ${tsOf(b2)}>`; types = [a2, b2, ...parts];
    }
  } else if (kind === 1) { // keyof
    const objNames = decls.filter((d) => head(d[3]) === "obj").map((d) => d[1]);
    const objs = Array.from({ length: 1 + rng.below(3) }, () => (objNames.length && rng.chance(1, 4) ? [A("ref"), rng.pick(objNames)] : genObj(rng, 1, sc)));
    const a = objs.length === 1 ? objs[0] : [A(rng.chance(1, 2) ? "union" : "inter"), ...objs];
    expr = [A("keyof"), a]; text = `keyof ${tsOf(a)}`; types = [A("string"), a];
  } else { // indexed access
    if (rng.chance(1, 4)) {
      // objects with a string index signature, indexed by a union of a declared and an UNDECLARED key: every member
      // contributes the declared property's type for the first and its index-signature type for the second
      const mk = () => { const iv = genLeaf(rng); const declared = rng.chance(2, 3) ? [["a", A("false"), rng.chance(1, 2) ? iv : narrowLeaf(rng, iv)]] : []; return [A("obj"), declared, [A("string"), rng.chance(1, 2) ? [A("union"), iv, genLeaf(rng)] : iv]]; };
      const o1 = mk(), o2 = mk();
      const a = rng.chance(1, 2) ? [A("union"), o1, o2] : o1;
      const keys = rng.pick([["a", "zzz"], ["zzz"], ["zzz", "a"], ["a", "zzz", "y"]]).map((k) => lit("s", k));
      const k = keys.length === 1 ? keys[0] : [A("union"), ...keys];
      expr = [A("idx"), a, k]; text = `(${tsOf(a)})[${tsOf(k)}]`; types = [a, o1[2][1], o2[2][1], ...o1[1].map((m) => m[2])];
    } else if (rng.chance(2, 3)) {
      const o = genObj(rng, 2, sc);
      const ks = o[1].map((m) => m[0]);
      if (!ks.length) { o[1].push(["a", A("false"), genLeaf(rng)]); ks.push("a"); }
      const a = rng.chance(1, 4) ? [A("union"), o, genObj(rng, 1, sc)] : o;
      const pick = ks.filter(() => rng.chance(1, 2));
      const keys = (pick.length ? pick : [ks[0]]).map((k) => lit("s", k));
      const k = keys.length === 1 ? keys[0] : [A("union"), ...keys];
      expr = [A("idx"), a, k]; text = `(${tsOf(a)})[${tsOf(k)}]`; types = [a, ...o[1].map((m) => m[2])];
    } else if (rng.chance(1, 4)) {
      // strings among the operands: a string indexed by a number is a string, next to what the lists contribute
      const strs = rng.pick([[lit("s", "ab")], [lit("s", "a"), lit("s", "b")], [A("string")]]);
      const lists = rng.pick([[[A("tuple"), [A("boolean")], A("none")]], [[A("array"), A("number")]], [[A("tuple"), [A("number"), A("boolean")], A("none")], [A("array"), A("null")]], []]);
      const ms = [...strs, ...lists];
      const a = ms.length === 1 ? ms[0] : [A("union"), ...ms];
      const k = rng.chance(1, 2) ? A("number") : lit("n", "0");
      expr = [A("idx"), a, k]; text = `(${tsOf(a)})[${tsOf(k)}]`; types = [A("string"), A("boolean"), A("number"), A("null")];
    } else {
      const a = rng.chance(1, 2) ? [A("array"), rng.chance(1, 8) ? A("unknown") : genSubTy(rng, 1, sc)] : [A("tuple"), Array.from({ length: 1 + rng.below(3) }, () => genSubTy(rng, 1, sc)), rng.chance(1, 2) ? (rng.chance(1, 3) ? A(rng.pick(["unknown", "any"])) : genLeaf(rng)) : A("none")];
      // (a literal index, a union of literal indices, or `number`; for a tuple the last fixed position is the interesting one)
      const kmax = head(a) === "tuple" ? a[1].length : 2;
      const k = rng.chance(1, 3) ? A("number") : rng.chance(1, 4) ? [A("union"), lit("n", "0"), lit("n", String(rng.below(kmax + 1)))] : lit("n", String(rng.chance(1, 2) ? Math.max(0, kmax - 1) : rng.below(kmax + 1)));
      expr = [A("idx"), a, k]; text = `(${tsOf(a)})[${tsOf(k)}]`; types = head(a) === "array" ? [a[1], a] : [...a[1], ...(isAtom(a[2], "none") ? [] : [a[2]]), a];
    }
  }
  const vals = semValues(rng, p, types, Number(params[0] || 10));
  const src = decls.map(tsOfDecl).join("\n") + `\nparse.buildParsers<{ R: ${text} }>();\n`;
  return [A("sem"), A(String(counter++)), [A("prog"), decls, [["R", expr]]], [["entry.ts", src]], vals.map(encVal)];
}
// `Exclude<A | B | C, X>` over object types, some of them open through `[k: string]: unknown` next to declared properties,
// with values that carry keys only the index signature admits (strict mode: C11 on materialised types)
function genSemStrict(rng, params) {
  const tag = (v) => lit("s", v);
  const key = rng.pick(["type", "kind"]);
  const open = () => [A("string"), rng.pick([A("unknown"), A("unknown"), A("string"), [A("union"), A("string"), A("number")]])];
  const mk = (v) => { const ms = [[key, A("false"), tag(v)], ...(rng.chance(2, 3) ? [["id", A("false"), A("string")]] : []), ...(rng.chance(1, 3) ? [["n", A("true"), A("string")]] : [])]; return [A("obj"), ms, rng.chance(1, 2) ? open() : A("none")]; };
  const tags = ["a", "b", "c"].slice(0, 2 + rng.below(2));
  let ms = tags.map(mk);
  // members that are intersections of object types (`Base & { kind: "a"; … }`): what survives the difference is still an
  // intersection, and strict mode counts the keys of ALL its members
  const interMembers = rng.chance(1, 3);
  let decls = [];
  if (interMembers) {
    const base = [A("obj"), [["base", A("false"), A("string")], ...(rng.chance(1, 2) ? [["opt", A("true"), A("number")]] : [])], A("none")];
    // (the common member by name, half of the time: a reference survives the semantic engine as a reference)
    const named = rng.chance(1, 2);
    if (named) decls = [[A("alias"), "Base", [], base]];
    ms = ms.map((m) => { const x = [A("inter"), named ? [A("ref"), "Base"] : base, [A("obj"), m[1], A("none")]]; x.baseShape = base; return x; });
  }
  const a = [A("union"), ...ms];
  const b = rng.pick([[A("obj"), [[key, A("false"), tag(tags[tags.length - 1])]], A("none")], ...(interMembers ? [] : [ms[ms.length - 1]]), [A("obj"), [[key, A("false"), tag("zz")]], A("none")]]);
  const expr = [A("exclude"), a, b];
  const vals = [];
  for (let i = 0; i < Number(params[0] || 10); i++) {
    const m0 = rng.pick(ms); const o = {};
    const put = (k, x) => Object.defineProperty(o, k, { value: x, enumerable: true, configurable: true, writable: true });
    const m = interMembers ? [A("obj"), [...m0.baseShape[1], ...m0[2][1]], A("none")] : m0;
    for (const [k, , t] of m[1]) { if ((k === "n" || k === "opt") && rng.chance(1, 2)) continue; put(k, k === key ? t[1][1] : k === "opt" ? i : "s" + i); }
    if (rng.chance(2, 3)) put(rng.pick(["color", "extra", "zz"]), rng.pick(["red", 7, "x"]));
    if (rng.chance(1, 6)) put("id", 5);
    vals.push(o);
  }
  const src = decls.map(tsOfDecl).join("\n") + `\nparse.buildParsers<{ R: Exclude<${tsOf(a)}, ${tsOf(b)}> }>();\n`;
  return [A("semstrict"), A(String(counter++)), [A("prog"), decls, [["R", expr]]], [["entry.ts", src]], vals.map(encVal)];
}
let counter = 0;
export function gen(rng, params, mode) {
  if (mode === "sub-sem") return genSem(rng, params);
  if (mode === "sub-sem-strict") return genSemStrict(rng, params);
  const { decls, names } = genDecls(rng);
  const sc = { names };
  if (rng.chance(1, 8)) {
    // a container of a union against the union of the containers: refuting it needs as many positions as there are
    // members on the right (each member is refuted at a different element)
    const k = 2 + rng.below(3);
    const pool = [A("string"), A("number"), A("boolean"), A("null"), lit("s", "a"), lit("n", "1"), [A("obj"), [["a", A("false"), A("string")]], A("none")], [A("array"), A("string")]];
    const ms = []; while (ms.length < k) { const m = rng.pick(pool); if (!ms.some((x) => show(x) === show(m))) ms.push(m); }
    const u = [A("union"), ...ms];
    const shape = rng.below(5);
    const wrap = (t) => shape === 0 ? [A("array"), t] : shape === 1 ? [A("tuple"), [t], t] : shape === 2 ? [A("tuple"), [A("string")], t] : shape === 3 ? [A("tuple"), Array.from({ length: k }, () => t), A("none")] : [A("obj"), [["a", A("false"), [A("array"), t]]], A("none")];
    let x = wrap(u), y = [A("union"), ...ms.map(wrap)];
    if (rng.chance(1, 4)) y = [A("union"), ...y.slice(1), wrap([A("union"), ms[0], ms[1]])];
    if (rng.chance(1, 5)) [x, y] = [y, x];
    const src = decls.map(tsOfDecl).join("\n") + `\nparse.buildParsers<{ R: (${tsOf(x)}) extends (${tsOf(y)}) ? "yes" : "no" }>();\n`;
    return [A("sub"), A(String(counter++)), decls, x, y, src];
  }
  if (rng.chance(1, 12)) {
    // an index signature over a union against the union of the index signatures (each member is refuted at its own key)
    const pool = [A("string"), A("number"), A("boolean"), A("null"), lit("s", "a"), lit("n", "1")];
    const k = 2 + rng.below(2), ms = [];
    while (ms.length < k) { const m = rng.pick(pool); if (!ms.some((x) => show(x) === show(m))) ms.push(m); }
    const declared = rng.chance(1, 3) ? [["a", A(rng.chance(1, 2) ? "true" : "false"), ms[0]]] : [];
    const ix = (t) => [A("obj"), declared, [A("string"), t]];
    let x = ix([A("union"), ...ms]), y = [A("union"), ...ms.map(ix), ...(rng.chance(1, 3) ? [genLeaf(rng)] : [])];
    if (rng.chance(1, 4)) y = [A("union"), ...y.slice(1), ix([A("union"), ms[0], ms[1]])];
    if (rng.chance(1, 5)) [x, y] = [y, x];
    const src = decls.map(tsOfDecl).join("\n") + `\nparse.buildParsers<{ R: (${tsOf(x)}) extends (${tsOf(y)}) ? "yes" : "no" }>();\n`;
    return [A("sub"), A(String(counter++)), decls, x, y, src];
  }
  if (rng.chance(1, 12)) {
    // an index signature on the LEFT against a union of object types that split a key the left does NOT declare, by value or by
    // presence (`{ [k: string]: number }` against `{ a: number } | { a?: null }`, `{ [k: string]: 1 | 2 }` against
    // `{ a?: 1 } | { a?: 2 }`): the narrowing of an undeclared key has to survive from one member of the right to the next
    const doms = [[lit("n", "1"), lit("n", "2"), lit("n", "3")], [lit("s", "a"), lit("s", "b"), lit("s", "c")], [lit("b", A("true")), lit("b", A("false"))]];
    const dom = rng.pick(doms), k = 2 + (dom.length > 2 ? rng.below(2) : 0), part = dom.slice(0, k);
    const whole = dom.length === 2 && rng.chance(1, 2) ? A("boolean") : [A("union"), ...part];
    const wide = rng.chance(1, 4) ? (dom === doms[0] ? A("number") : dom === doms[1] ? A("string") : A("boolean")) : whole;
    const declared = rng.chance(1, 3) ? [["b", A(rng.chance(1, 2) ? "true" : "false"), part[0]]] : [];
    const x = [A("obj"), declared, [A("string"), wide]];
    const key = rng.pick(["a", "zz"]);
    const ms = part.map((v, i) => [A("obj"), [[key, A(i > 0 && rng.chance(1, 4) ? "false" : "true"), v]], A("none")]);
    if (wide !== whole || rng.chance(1, 3)) { ms[0] = [A("obj"), [[key, A("false"), wide]], A("none")]; ms[1] = [A("obj"), [[key, A("true"), A("null")]], A("none")]; }
    if (rng.chance(1, 4)) ms.pop();
    let y = ms.length === 1 ? ms[0] : [A("union"), ...ms, ...(rng.chance(1, 4) ? [genLeaf(rng)] : [])];
    const [l, r] = rng.chance(5, 6) ? [x, y] : [y, x];
    const src = decls.map(tsOfDecl).join("\n") + `\nparse.buildParsers<{ R: (${tsOf(l)}) extends (${tsOf(r)}) ? "yes" : "no" }>();\n`;
    return [A("sub"), A(String(counter++)), decls, l, r, src];
  }
  if (rng.chance(1, 10)) {
    // intersections of unions that SHARE a named type (`(A | C) & (A | D)`): both diagrams then have the same root atom, the
    // one arm of the diagram operations that inline types (a fresh atom each) never reach; also at a property position
    const mkObj = (k, t) => [A("obj"), [[k, A("false"), t]], A("none")];
    const ds = [...decls.filter((d) => !["Sa", "Sc", "Sd"].includes(d[1])), [A("alias"), "Sa", [], mkObj("a", A("string"))], [A("alias"), "Sc", [], mkObj("c", A("string"))],
      [A("alias"), "Sd", [], rng.chance(1, 2) ? mkObj("d", A("string")) : [A("tuple"), [A("number")], A("none")]]];
    const r = (n) => [A("ref"), n];
    const shared = rng.pick(["Sa", "Sc", "Sd"]), others = ["Sa", "Sc", "Sd"].filter((n) => n !== shared);
    const u1 = rng.chance(1, 2) ? [A("union"), r(shared), r(others[0])] : [A("union"), r(others[0]), r(shared)];
    const u2 = rng.chance(1, 2) ? [A("union"), r(shared), r(others[1])] : [A("union"), r(others[1]), r(shared)];
    const wrap = rng.pick([(t) => t, (t) => t, (t) => mkObj("p", t)]);
    const inter = rng.chance(1, 3) ? [A("inter"), wrap(u1), wrap(u2)] : wrap([A("inter"), u1, u2]);
    const cands = [r(shared), r(others[0]), r(others[1]), u1, u2, [A("union"), r(others[0]), r(others[1])]].map(wrap);
    let x = inter, y = rng.pick(cands);
    if (rng.chance(1, 2)) [x, y] = [y, x];
    const src = ds.map(tsOfDecl).join("\n") + `\nparse.buildParsers<{ R: (${tsOf(x)}) extends (${tsOf(y)}) ? "yes" : "no" }>();\n`;
    return [A("sub"), A(String(counter++)), ds, x, y, src];
  }
  if (rng.chance(1, 12)) {
    // an intersection of object types that each carry a string index signature whose value types do not meet
    // (`{ [k: string]: string } & { [k: string]: number }`): not empty — the object without keys is a value of it
    const pool = [A("string"), A("number"), A("boolean"), A("null")];
    const t1 = rng.pick(pool), t2 = rng.pick(pool.filter((t) => t !== t1));
    const o1 = [A("obj"), [], [A("string"), t1]], o2 = [A("obj"), [], [A("string"), t2]];
    const third = rng.chance(1, 3) ? [[A("obj"), [], [A("string"), rng.pick(pool)]]] : [];
    const x = [A("inter"), o1, o2, ...third];
    const y = rng.pick([genLeaf(rng), [A("obj"), [], A("none")], o1, [A("obj"), [["a", A("false"), A("string")]], A("none")], [A("array"), A("string")], [A("union"), genLeaf(rng), A("null")]]);
    const [l, r] = rng.chance(4, 5) ? [x, y] : [y, x];
    const src = decls.map(tsOfDecl).join("\n") + `\nparse.buildParsers<{ R: (${tsOf(l)}) extends (${tsOf(r)}) ? "yes" : "no" }>();\n`;
    return [A("sub"), A(String(counter++)), decls, l, r, src];
  }
  if (rng.chance(1, 10)) {
    // a tuple whose positions are small unions of literals against a union of tuples of the same length that split those
    // positions differently (`[boolean, boolean]` against `[true, true] | [false, boolean]`): a value outside the right-hand
    // side may leave the first member at one position and the second member only at a LATER one (the search must backtrack)
    const doms = [[lit("b", A("true")), lit("b", A("false"))], [lit("s", "a"), lit("s", "b")], [lit("n", "1"), lit("n", "2")]];
    const len = 2 + rng.below(2);
    const ds0 = Array.from({ length: len }, () => rng.pick(doms));
    const whole = (d) => (d === doms[0] ? A("boolean") : [A("union"), ...d]);
    const withRest = rng.chance(1, 4);
    const tup = (ps) => [A("tuple"), ps, withRest ? A("string") : A("none")];
    const x = tup(ds0.map(whole));
    const member = () => tup(ds0.map((d) => (rng.chance(1, 2) ? whole(d) : rng.pick(d))));
    const k = 2 + rng.below(2);
    // (half of the time the members are built to cover the left side exactly at the first position)
    const ms = rng.chance(1, 2) ? ds0[0].map((v) => tup([v, ...ds0.slice(1).map((d) => (rng.chance(1, 2) ? whole(d) : rng.pick(d)))])) : Array.from({ length: k }, member);
    const y = [A("union"), ...ms, ...(rng.chance(1, 4) ? [member()] : [])];
    const src = decls.map(tsOfDecl).join("\n") + `\nparse.buildParsers<{ R: (${tsOf(x)}) extends (${tsOf(y)}) ? "yes" : "no" }>();\n`;
    return [A("sub"), A(String(counter++)), decls, x, y, src];
  }
  if (rng.chance(1, 10)) {
    // named unions of literals that overlap each other or a literal written next to them: the union of the operands then
    // meets the same literal on both sides (`type A = 1 | 2; 2 extends A | 2 | 3`)
    const pool = rng.chance(1, 2) ? [lit("n", "1"), lit("n", "2"), lit("n", "3")] : [lit("s", "a"), lit("s", "b"), lit("s", "c")];
    const sub = () => { const k = pool.filter(() => rng.chance(2, 3)); return k.length ? k : [pool[0]]; };
    const d1 = sub(), d2 = sub();
    const ds = [...decls, [A("alias"), "La", [], d1.length === 1 ? d1[0] : [A("union"), ...d1]], [A("alias"), "Lb", [], d2.length === 1 ? d2[0] : [A("union"), ...d2]]];
    const la = [A("ref"), "La"], lb = [A("ref"), "Lb"];
    const wrap = rng.pick([(t) => t, (t) => [A("obj"), [["k", A("false"), t]], A("none")], (t) => [A("array"), t]]);
    const x = wrap(rng.pick([rng.pick(pool), la, [A("union"), rng.pick(pool), rng.pick(pool)]]));
    const y = wrap(rng.pick([[A("union"), la, rng.pick(pool)], [A("union"), la, lb], [A("union"), la, rng.pick(pool), rng.pick(pool)], [A("union"), lb, la, rng.pick(pool)]]));
    const src = ds.map(tsOfDecl).join("\n") + `\nparse.buildParsers<{ R: (${tsOf(x)}) extends (${tsOf(y)}) ? "yes" : "no" }>();\n`;
    return [A("sub"), A(String(counter++)), ds, x, y, src];
  }
  if (names.length >= 2 && rng.chance(1, 8)) {
    // the right operand is a union of named types that are registered BEFORE the root of the left operand (the left one
    // mentions them in its members, so its own atom comes later): the `Greater` arms of the diagram operations
    const n1 = rng.pick(names), n2 = rng.pick(names.filter((n) => n !== n1));
    const r1 = [A("ref"), n1], r2 = [A("ref"), n2];
    const x = rng.pick([[A("obj"), [["a", A("false"), r1], ["b", A(rng.chance(1, 2) ? "true" : "false"), r2]], A("none")], [A("tuple"), [r1, r2], A("none")], [A("tuple"), [r1], r2], [A("array"), [A("union"), r1, r2]]]);
    const third = rng.below(4);
    const y = [A("union"), r1, r2, ...(third === 0 ? [x] : third === 1 ? [mutateTy(rng, x, sc)] : third === 2 ? [genLeaf(rng)] : [])];
    const [l, r] = rng.chance(4, 5) ? [x, y] : [y, x];
    const src = decls.map(tsOfDecl).join("\n") + `\nparse.buildParsers<{ R: (${tsOf(l)}) extends (${tsOf(r)}) ? "yes" : "no" }>();\n`;
    return [A("sub"), A(String(counter++)), decls, l, r, src];
  }
  const a = genSubTy(rng, 1 + rng.below(3), sc);
  let b;
  const r = rng.below(6);
  if (r < 3) b = mutateTy(rng, a, sc);
  else if (r === 3) b = a;
  else if (r === 4) b = mutateTy(rng, mutateTy(rng, a, sc), sc);
  else b = genSubTy(rng, 1 + rng.below(3), sc);
  const [x, y] = rng.chance(1, 2) ? [a, b] : [b, a];
  const src = decls.map(tsOfDecl).join("\n") + `\nparse.buildParsers<{ R: (${tsOf(x)}) extends (${tsOf(y)}) ? "yes" : "no" }>();\n`;
  return [A("sub"), A(String(counter++)), decls, x, y, src];
}
export const asyncRunner = false;
export function makeRunner() { return () => [[A("unused")], [A("oracle"), A("ok")]]; }
