// C03 / C11 / C12 (and the RT level of C01): random (env, Runtype, value, options) through the REAL runtime classes.
// Request:  (rt <env> <rt> <value> <strict:true|false>)
// Reply:    (res (v R) (sp-in R) (sp-sorted R) (msg "…"))   — the model produces the same line
// Oracle:   property relations evaluated directly on the JS results (no model involved)
import { A, Atom, show, head, isAtom, quote } from "./sx.mjs";
import { encVal, encOut, decVal, makeBuilder, TYPED, canonNum } from "./values.mjs";

// ---------------- generator ----------------
const KEYS = ["a", "b", "c", "t", "kind", "x"];
const HOSTILE_KEYS = ["__proto__", "constructor", "toString", "prototype", "hasOwnProperty", "valueOf", "length", "size", "0", "1", "a-b", ""];
const STRS = ["", "a", "b", "ab", "x1", "true", "12", "1.5", "ab12", "zza1zz", "é", "a\nb", "hello world", "__proto__", "constructor"];
const NUMS = [0, 1, -1, 2, 3, 4, 6, 1.5, 12, 100, -0, NaN, 1e21, Infinity];
// ("f2" is registered BOTH as a string format and as a number format: the two registries are separate name spaces)
const FMTS_S = ["fa", "fb", "fab", "f2"];
const FMTS_N = ["n2", "n3", "f2"];

function pickKey(rng) { return rng.chance(1, 10) ? rng.pick(HOSTILE_KEYS) : rng.pick(KEYS); }

export function genTplItem(rng, d) {
  switch (rng.below(d > 0 ? 6 : 5)) {
    case 0: return A("str");
    case 1: return A("num");
    case 2: return A("bool");
    case 3: case 4: return [A("lit"), rng.pick(["a", "b", "-", "x.y", "(", "$", "", "/", "a/b"])];
    default: return [A("oneof"), ...Array.from({ length: 1 + rng.below(3) }, () => genTplItem(rng, d - 1))];
  }
}
export function tplDescribe(items) {
  return "`" + items.map((it) => (it instanceof Atom ? "${" + { str: "string", num: "number", bool: "boolean" }[it.s] + "}" : head(it) === "lit" ? it[1].replace(/[`\\$]/g, (c) => "\\" + c) : "(" + it.slice(1).map((x) => tplDescribe([x])).join(" | ") + ")")).join("") + "`";
}
export function genConst(rng) {
  switch (rng.below(8)) {
    case 0: return A("null");
    case 1: return [A("b"), A(rng.chance(1, 2) ? "true" : "false")];
    case 2: case 3: return [A("n"), canonNum(rng.pick([0, 1, 2, -1, 1.5, 12]))];
    default: return [A("s"), rng.pick(["a", "b", "c", "ab", "x", "constructor", "toString", "__proto__", ""])];
  }
}
export function genLeaf(rng) {
  switch (rng.below(22)) {
    case 0: case 1: case 2: return [A("typeof"), "string"];
    case 3: case 4: return [A("typeof"), "number"];
    case 5: return [A("typeof"), "boolean"];
    case 6: return A("any");
    case 7: return [A("nullish"), rng.pick(["null", "undefined", "void"])];
    case 8: return rng.chance(1, 3) ? A("never") : [A("typeof"), "function"];
    case 9: case 10: return [A("const"), genConst(rng)];
    case 11: case 12: { const n = 1 + rng.below(4); const vs = []; for (let i = 0; i < n; i++) vs.push(genConst(rng)); return [A("consts"), ...vs]; }
    case 13: { const items = Array.from({ length: 1 + rng.below(3) }, () => genTplItem(rng, 1)); return [A("regex"), [A("tpl"), ...items], tplDescribe(items)]; }
    case 14: return A("date");
    case 15: return A("bigint");
    case 16: return [A("typed"), rng.pick(TYPED)];
    case 17: return [A("strfmt"), ...(rng.chance(1, 3) ? [rng.pick(FMTS_S), rng.pick(FMTS_S)] : [rng.chance(1, 8) ? "unregistered" : rng.pick(FMTS_S)])];
    case 18: return [A("numfmt"), ...(rng.chance(1, 3) ? ["n2", "n3"] : [rng.chance(1, 8) ? "unregistered" : rng.pick(FMTS_N)])];
    default: return [A("typeof"), rng.pick(["string", "number"])];
  }
}
export function genObject(rng, d, names, forceKey) {
  const n = rng.below(4);
  const props = new Map();
  if (forceKey) props.set(forceKey[0], forceKey[1]);
  for (let i = 0; i < n; i++) {
    const k = pickKey(rng);
    if (props.has(k)) continue;
    // a property declared as "__proto__" only gets leaf types: prototype objects are not inspected structurally
    let t = k === "__proto__" ? genLeaf(rng) : genRT(rng, d - 1, names);
    if (rng.chance(1, 3)) t = [A("opt"), t];
    props.set(k, t);
  }
  // Object.keys order of the real properties record (index-like keys first): build and re-read
  const o = {};
  for (const [k, v] of props) Object.defineProperty(o, k, { value: v, enumerable: true, configurable: true, writable: true });
  const plist = Object.keys(o).map((k) => [k, o[k]]);
  const indexed = [];
  if (!forceKey && rng.chance(1, 4)) {
    const key = rng.pick([[A("typeof"), "string"], [A("typeof"), "string"], [A("typeof"), "string"], [A("consts"), [A("s"), "a"], [A("s"), "b"]], [A("strfmt"), "fa"], [A("regex"), [A("tpl"), [A("lit"), "k"], A("num")], "`k${number}`"], [A("typeof"), "number"]]);
    let val;
    if (rng.chance(1, 2)) {
      // TypeScript-like: every declared property type is assignable to the index value type, which projects
      // differently (any / a wider object type with fewer members)
      if (rng.chance(1, 2)) val = A("any");
      else {
        const wide = genObject(rng, 1, names);
        val = wide;
        if (wide[2].length === 0) {
          for (let i = 0; i < plist.length; i++) {
            if (rng.chance(1, 2)) {
              const extra = new Map(wide[1].map(([k, t]) => [k, t]));
              extra.set(rng.pick(["y", "z"]), genLeaf(rng));
              const o = {};
              for (const [k, v] of extra) Object.defineProperty(o, k, { value: v, enumerable: true, configurable: true, writable: true });
              plist[i] = [plist[i][0], [A("object"), Object.keys(o).map((k) => [k, o[k]]), []]];
            }
          }
        }
      }
    } else val = genRT(rng, d - 1, names);
    if (rng.chance(1, 4)) val = [A("opt"), val];
    indexed.push([key, val]);
  }
  return [A("object"), plist, indexed];
}
export function genDisc(rng, d, names, force = null) {
  // force = {key, tags}: a second union over the same discriminator and the same tags (different bodies)
  // (now and then a discriminator NAME with punctuation: it goes through the same sanitizer as the tags, on every print)
  const key = force ? force.key : rng.chance(1, 6) ? rng.pick(["event_type", "x.kind", "k-1"]) : rng.pick(["t", "kind", "type"]);
  const nv = force ? force.tags.length : 2 + rng.below(2);
  // "A" / "a", "a-b" / "a b": tags that read the same once sanitized for a schema definition name
  const pool = ["a", "b", "c", "d", "constructor", "toString", "__proto__", "A", "a-b", "a b", "invoice.paid", "order/paid", "a__b"];
  const variants = [];
  const used = new Set();
  for (let i = 0; i < nv; i++) {
    let vals = force ? [force.tags[i]] : [];
    const cnt = force ? 1 : rng.chance(1, 5) ? 2 : 1;
    while (vals.length < cnt) { const s = rng.pick(pool); if (!used.has(s) || rng.chance(1, 10)) { used.add(s); vals.push(s); } }
    vals = [...new Set(vals)];
    const dt = vals.length === 1 ? [A("const"), [A("s"), vals[0]]] : [A("consts"), ...vals.map((s) => [A("s"), s])];
    variants.push({ vals, obj: genObject(rng, d, names, [key, dt]) });
  }
  const allVals = [...new Set(variants.flatMap((v) => v.vals))].sort();
  const mapping = allVals.map((s) => {
    const cases = variants.filter((v) => v.vals.includes(s)).map((v) => v.obj);
    return [s, cases.length === 1 ? cases[0] : [A("anyof"), ...cases]];
  });
  return [A("disc"), variants.map((v) => v.obj), key, mapping, mapping];
}
export function genRT(rng, d, names) {
  if (d <= 0) return genLeaf(rng);
  let r;
  switch (rng.below(16)) {
    case 0: case 1: case 2: r = genObject(rng, d, names); break;
    case 3: r = [A("array"), genRT(rng, d - 1, names)]; break;
    case 4: { const n = rng.below(3); r = [A("tuple"), Array.from({ length: n }, () => genRT(rng, d - 1, names)), rng.chance(1, 3) ? genRT(rng, d - 1, names) : A("none")]; break; }
    case 5: case 6: { const n = 2 + rng.below(2); r = [A("anyof"), ...Array.from({ length: n }, () => genRT(rng, d - 1, names))]; break; }
    case 7: { // intersection: mostly of objects / refs
      const n = 2 + rng.below(2);
      const objNames = names.filter((nm) => nm.startsWith("O"));
      r = [A("allof"), ...Array.from({ length: n }, () => (rng.chance(19, 20) ? (objNames.length && rng.chance(1, 3) ? [A("ref"), rng.pick(objNames)] : genObject(rng, d - 1, names)) : [A("array"), genLeaf(rng)]))];
      // intersections whose members are not object types (`string & StringFormat<…>`, `(string | number) & (string | boolean)`,
      // `unknown & string`): every member may accept a value the intersection itself rejects
      if (rng.chance(1, 5)) r = [A("allof"), ...Array.from({ length: n }, () => (rng.chance(1, 2) ? genLeaf(rng) : [A("anyof"), genLeaf(rng), genLeaf(rng)]))];
      // a plain union of object types BELOW an intersection that survives to run time (directly, or under a property of a member):
      // validation and the parse step must pick the same branches, whatever the options
      else if (rng.chance(1, 5)) {
        const u = [A("anyof"), genObject(rng, 1, names), genObject(rng, 1, names)];
        const other = objNames.length && rng.chance(1, 2) ? [A("ref"), rng.pick(objNames)] : genObject(rng, 1, names);
        r = rng.chance(1, 2) ? [A("allof"), u, other] : [A("allof"), [A("object"), [["pet", u]], []], other];
      }
      break;
    }
    case 8: r = genDisc(rng, d - 1, names); break;
    // (a Map keyed by an object type now and then: the parsed Map has parsed keys — declared parts only — as well as parsed values)
    case 9: r = [A("map"), rng.chance(1, 4) ? genObject(rng, 1, names) : genRT(rng, 0, names), genRT(rng, d - 1, names)]; break;
    case 10: r = [A("set"), genRT(rng, d - 1, names)]; break;
    case 11: r = names.length ? [A("ref"), rng.pick(names)] : genLeaf(rng); break;
    case 12: { // a union below the root whose deepest-failing branch fails inside a further union
      const inner = [A("anyof"), genLeaf(rng), genLeaf(rng)];
      const deep = rng.chance(1, 2) ? [A("object"), [[rng.pick(KEYS), inner]], []] : [A("tuple"), [inner], A("none")];
      const outer = [A("anyof"), genLeaf(rng), deep];
      r = rng.pick([[A("array"), outer], [A("tuple"), [genLeaf(rng)], outer], [A("object"), [[rng.pick(KEYS), outer]], []], [A("map"), [A("typeof"), "string"], outer]]);
      break;
    }
    default: r = genLeaf(rng);
  }
  if (rng.chance(1, 12)) r = [A("desc"), rng.pick(["doc", "a */ b", "two\nlines"]), r];
  return r;
}
export function genEnv(rng) {
  const n = rng.below(4);
  const names = Array.from({ length: n }, (_, i) => (rng.chance(3, 4) ? "O" : "N") + i);
  const env = names.map((name) => {
    // named types O<i> are objects (possibly recursive through optional / array / nullable positions), N<i> anything
    let body;
    if (name.startsWith("O")) {
      body = genObject(rng, 2, names);
      if (rng.chance(1, 2)) {
        const self = [A("ref"), rng.pick(names)];
        const wrapped = rng.pick([[A("opt"), self], [A("array"), self], [A("anyof"), self, [A("nullish"), "null"]], [A("opt"), [A("array"), self]]]);
        body[1].push([rng.pick(["next", "kids"]), wrapped]);
      }
    } else {
      // contractive environments only (TypeScript rejects `type A = B | number; type B = A | string`):
      // an unguarded body may mention object-typed names and later N-names only
      const idx = Number(name.slice(1));
      body = genRT(rng, 2, names.filter((x) => x.startsWith("O") || Number(x.slice(1)) > idx));
    }
    return [name, body];
  });
  return { names, env };
}

// ---- values ----
export function randomValue(rng, d) {
  switch (rng.below(d > 0 ? 19 : 12)) {
    // an own `constructor` / `toString` / `valueOf` key holding a non-function: anything that reads `v.constructor.name`
    // or coerces the object to a string throws on these
    case 18: { const o = {}; Object.defineProperty(o, rng.pick(["constructor", "constructor", "toString", "valueOf"]), { value: rng.pick([null, undefined, 1]), enumerable: true, configurable: true, writable: true }); if (rng.chance(1, 2)) Object.defineProperty(o, pickKey(rng), { value: randomValue(rng, 0), enumerable: true, configurable: true, writable: true }); return o; }
    case 0: return null;
    case 1: return undefined;
    case 2: return rng.chance(1, 2);
    case 3: case 4: return rng.pick(NUMS);
    case 5: case 6: return rng.pick(STRS);
    case 7: return 10n;
    case 8: return new Date(rng.chance(1, 5) ? NaN : 86400000 * rng.below(3));
    case 9: return rng.chance(1, 3) ? Symbol("s") : function f() {};
    case 10: return new (globalThis[rng.pick(TYPED.slice(0, 9))])(rng.below(3));
    case 11: return rng.pick(STRS);
    case 12: case 13: { const a = Array.from({ length: rng.below(4) }, () => randomValue(rng, d - 1)); if (a.length && rng.chance(1, 6)) delete a[rng.below(a.length)]; return a; } // sometimes sparse
    case 14: case 15: { const o = {}; const n = rng.below(4); for (let i = 0; i < n; i++) Object.defineProperty(o, pickKey(rng), { value: randomValue(rng, d - 1), enumerable: true, configurable: true, writable: true }); return o; }
    case 16: return new Map(Array.from({ length: rng.below(3) }, (_, i) => [rng.chance(1, 2) ? "k" + i : i, randomValue(rng, d - 1)]));
    default: return new Set(Array.from({ length: rng.below(3) }, (_, i) => (rng.chance(1, 2) ? "s" + i : randomValue(rng, 0))));
  }
}
function tplMember(rng, it) {
  if (it instanceof Atom) return it.s === "str" ? rng.pick(["", "a", "zz", "q r"]) : it.s === "num" ? rng.pick(["0", "12", "1.5", "007"]) : rng.pick(["true", "false"]);
  if (head(it) === "lit") return it[1];
  return tplMember(rng, rng.pick(it.slice(1)));
}
export function lookupEnv(env, name) { const e = env.find((p) => p[0] === name); return e ? e[1] : null; }
export function member(rng, rt, env, d) {
  if (d < -6) return null;
  if (rt instanceof Atom) {
    switch (rt.s) {
      case "any": return randomValue(rng, 2);
      case "never": return randomValue(rng, 1);
      case "date": return new Date(86400000 * rng.below(3));
      case "bigint": return BigInt(rng.below(5));
    }
  }
  const h = head(rt);
  switch (h) {
    case "typeof": return rt[1] === "string" ? rng.pick(STRS) : rt[1] === "number" ? rng.pick(NUMS) : rt[1] === "boolean" ? rng.chance(1, 2) : function g() {};
    case "nullish": return rng.chance(1, 2) ? null : undefined;
    case "const": { const v = decVal(rt[1]); return v === null && rng.chance(1, 2) ? undefined : v; }
    case "consts": return decVal(rng.pick(rt.slice(1)));
    case "regex": { const s = rt[1].slice(1).map((it) => tplMember(rng, it)).join(""); return rng.chance(1, 5) ? "zz" + s + "zz" : s; }
    case "typed": return new (globalThis[rt[1]])(rng.below(3));
    case "strfmt": return rt.slice(1).map((f) => f.slice(1)).join("") + rng.pick(["", "z"]);
    case "numfmt": return 6 * rng.below(4);
    case "tuple": { const out = rt[1].map((t) => member(rng, t, env, d - 1)); if (!isAtom(rt[2], "none")) for (let i = rng.below(3); i > 0; i--) out.push(member(rng, rt[2], env, d - 1)); return out; }
    case "array": return Array.from({ length: d < -2 ? 0 : rng.below(3) }, () => member(rng, rt[1], env, d - 1));
    case "allof": { let o = {}; for (const t of rt.slice(1)) { const m = member(rng, t, env, d - 1); if (m && typeof m === "object" && !Array.isArray(m)) for (const k of Object.keys(m)) Object.defineProperty(o, k, { value: m[k], enumerable: true, configurable: true, writable: true }); else if (rng.chance(1, 2)) return m; } return o; }
    case "anyof": return member(rng, rng.pick(rt.slice(1)), env, d - 1);
    case "disc": return member(rng, rng.pick(rt[1]), env, d - 1);
    case "map": return new Map(Array.from({ length: rng.below(3) }, () => [member(rng, rt[1], env, d - 1), member(rng, rt[2], env, d - 1)]));
    case "set": return new Set(Array.from({ length: rng.below(3) }, () => member(rng, rt[1], env, d - 1)));
    case "opt": return rng.chance(1, 4) ? (rng.chance(1, 2) ? null : undefined) : member(rng, rt[1], env, d - 1);
    case "ref": { const t = lookupEnv(env, rt[1]); return t ? member(rng, t, env, d - 1) : null; }
    case "desc": return member(rng, rt[2], env, d);
    case "object": {
      const o = {};
      for (const [k, t] of rt[1]) {
        if (head(t) === "opt" && (rng.chance(1, 3) || d < -2)) continue;
        Object.defineProperty(o, k, { value: member(rng, t, env, d - 1), enumerable: true, configurable: true, writable: true });
      }
      for (const [kt, vt] of rt[2]) {
        for (let i = rng.below(3); i > 0; i--) {
          let k = member(rng, kt, env, d - 1);
          if (typeof k !== "string") { try { k = String(k); } catch (e) { k = "k"; } }   // a key type may be anything at this level (null-prototype objects have no toString)
          if (!(k in o)) Object.defineProperty(o, k, { value: member(rng, vt, env, d - 1), enumerable: true, configurable: true, writable: true });
        }
      }
      if (rng.chance(1, 5)) Object.defineProperty(o, rng.chance(1, 3) ? rng.pick(HOSTILE_KEYS) : "extra", { value: randomValue(rng, 1), enumerable: true, configurable: true, writable: true });
      return o;
    }
  }
  return randomValue(rng, 1);
}
export function mutate(rng, v, d) {
  if (d <= 0 || rng.chance(1, 3)) return randomValue(rng, 1);
  if (Array.isArray(v)) {
    const c = v.slice();
    switch (rng.below(3)) {
      case 0: c.push(randomValue(rng, 1)); return c;
      case 1: if (c.length && rng.chance(1, 3)) { delete c[rng.below(c.length)]; return c; } c.pop(); return c; // a hole: read as undefined
      default: if (c.length) { const i = rng.below(c.length); c[i] = mutate(rng, c[i], d - 1); } return c;
    }
  }
  if (v && typeof v === "object" && Object.getPrototypeOf(v) === Object.prototype) {
    const keys = Object.keys(v);
    const o = {};
    const drop = rng.chance(1, 3) && keys.length ? rng.pick(keys) : null;
    const mut = !drop && keys.length ? rng.pick(keys) : null;
    for (const k of keys) { if (k === drop) continue; Object.defineProperty(o, k, { value: k === mut ? mutate(rng, v[k], d - 1) : v[k], enumerable: true, configurable: true, writable: true }); }
    if (!drop && !mut) Object.defineProperty(o, pickKey(rng), { value: randomValue(rng, 1), enumerable: true, configurable: true, writable: true });
    return o;
  }
  return randomValue(rng, 1);
}

export function gen(rng, params, mode) {
  const { names, env } = genEnv(rng);
  const rt = genRT(rng, 1 + rng.below(3), names);
  if (rng.chance(1, 30)) {
    // an intersection that survives to run time (one member has an index signature), and a value with an own `__proto__`
    // key that the signature admits: the parsed members are put together key by key
    const inner = [A("object"), [["a", [A("typeof"), "string"]]], []];
    const rt2 = [A("allof"), [A("object"), [["a", [A("opt"), [A("typeof"), "number"]]]], []], [A("object"), [], [[[A("typeof"), "string"], [A("anyof"), [A("typeof"), "number"], inner]]]]];
    const o = {};
    const put = (k, x) => Object.defineProperty(o, k, { value: x, enumerable: true, configurable: true, writable: true });
    if (rng.chance(1, 2)) put("x", 2);
    put("__proto__", rng.pick([7, { a: "s" }, { a: 1 }, "no"]));
    if (rng.chance(1, 2)) put("a", rng.pick([1, "x"]));
    return [A("rt"), env, rt2, encVal(o), A(rng.chance(1, 2) ? "true" : "false")];
  }
  if (rng.chance(1, 25)) {
    // a value that SEVERAL object members of a plain union accept (their parsed results are merged key by key), whose own
    // keys are named like the methods of Object.prototype
    const leaf = () => rng.pick([[A("typeof"), "number"], [A("typeof"), "string"], A("any")]);
    const m1 = [A("object"), [["id", [A("opt"), leaf()]], ["meta", A("any")]], []];
    const m2 = rng.chance(1, 2) ? [A("object"), [["meta", A("any")], ["at", [A("opt"), [A("typeof"), "string"]]]], []] : [A("object"), [], [[[A("typeof"), "string"], A("any")]]];
    const rt2 = [A("anyof"), m1, m2, ...(rng.chance(1, 3) ? [[A("typeof"), "string"]] : [])];
    const o = {};   // (objects without a prototype are not modelled: the seeded variant with `Object.create(null)` is left to the demo)
    const put = (k, x) => Object.defineProperty(o, k, { value: x, enumerable: true, configurable: true, writable: true });
    const odd = () => rng.pick(["hasOwnProperty", "hasOwnProperty", "propertyIsEnumerable", "isPrototypeOf", "toLocaleString", "valueOf", "toString", "constructor"]);
    if (rng.chance(2, 3)) put("id", rng.pick([1, "x"]));
    put("meta", rng.chance(1, 2) ? (() => { const q = {}; Object.defineProperty(q, odd(), { value: 1, enumerable: true, configurable: true, writable: true }); return q; })() : rng.pick([1, null, "m"]));
    if (rng.chance(1, 2)) put(odd(), rng.pick([7, "s", null]));
    return [A("rt"), env, rt2, encVal(o), A(rng.chance(1, 2) ? "true" : "false")];
  }
  const r = rng.below(10);
  let v = r < 6 ? member(rng, rt, env, 2) : r < 9 ? mutate(rng, member(rng, rt, env, 2), 3) : randomValue(rng, 2);
  return [A("rt"), env, rt, encVal(v), A(rng.chance(1, 2) ? "true" : "false")];
}

// ---------------- runner + oracles ----------------
export function registerFormats(cg) {
  for (const sub of ["a", "b", "ab"]) cg.registerStringFormatter("f" + sub, (s) => s.includes(sub));
  for (const k of [2, 3]) cg.registerNumberFormatter("n" + k, (n) => Number.isInteger(n) && Math.abs(n) < 1e15 && n % k === 0);
  cg.registerStringFormatter("f2", (s) => s.includes("2"));
  cg.registerNumberFormatter("f2", (n) => Number.isInteger(n) && Math.abs(n) < 1e15 && n % 2 === 0);
}
function encErr(e) {
  if ("isUnionError" in e) return [A("uerr"), e.path.slice(), encOut(e.received), e.errors.map(encErr)];
  return [A("err"), e.message, e.path.slice(), encOut(e.received)];
}
function errClass(e) { return e && e.constructor ? e.constructor.name : "unknown"; }

function sortKeysDeep(v) {
  if (Array.isArray(v)) return v.map(sortKeysDeep);
  if (v && typeof v === "object" && !(v instanceof Date) && !(v instanceof Map) && !(v instanceof Set) && !ArrayBuffer.isView(v)) {
    const o = {};
    for (const k of Object.keys(v).sort()) Object.defineProperty(o, k, { value: sortKeysDeep(v[k]), enumerable: true, configurable: true, writable: true });
    return o;
  }
  if (v instanceof Map) return new Map(Array.from(v, ([k, x]) => [sortKeysDeep(k), sortKeysDeep(x)]));
  if (v instanceof Set) return new Set(Array.from(v, sortKeysDeep));
  return v;
}
const same = (a, b) => show(encVal(a)) === show(encVal(b));

// data ⊑ input: only declared parts of the input, leaves preserved in kind and content
// no union, intersection or discriminated union anywhere in the type (through references)
function structuralOnly(rt, env, depth) {
  if (depth > 30) return true;
  if (rt instanceof Atom || typeof rt === "string") return true;
  switch (head(rt)) {
    case "anyof": case "allof": case "disc": return false;
    case "ref": { const t = lookupEnv(env, rt[1]); return t ? structuralOnly(t, env, depth + 1) : false; }
    case "desc": return structuralOnly(rt[2], env, depth);
    case "opt": case "array": case "set": return structuralOnly(rt[1], env, depth + 1);
    case "map": return structuralOnly(rt[1], env, depth + 1) && structuralOnly(rt[2], env, depth + 1);
    case "tuple": return rt[1].every((t) => structuralOnly(t, env, depth + 1)) && (isAtom(rt[2], "none") || structuralOnly(rt[2], env, depth + 1));
    case "object": return rt[1].every((p) => structuralOnly(p[1], env, depth + 1)) && rt[2].every(([k, v]) => structuralOnly(k, env, depth + 1) && structuralOnly(v, env, depth + 1));
  }
  return true;
}
// "consists only of declared parts of the input", for EVERY type: no key of the parsed value, at any depth (entries of a Map and
// items of a Set included), is a key that NO type at that position declares. Several members of a union or an intersection may
// describe one position (their parses are merged), so the candidates of a position are all of them; `any`, `unknown` and `object`
// keep what they are given. An over-approximation of "declared": it fails only for a key declared nowhere.
const ANYTHING = Symbol("anything");
function flattenCands(rts, env, depth, out) {
  for (const rt of rts) {
    if (depth > 40) return ANYTHING;
    if (rt instanceof Atom) { if (rt.s === "any") return ANYTHING; out.push(rt); continue; }
    if (typeof rt === "string") continue;
    let r = null;
    switch (head(rt)) {
      case "anyof": case "allof": r = flattenCands(rt.slice(1), env, depth + 1, out); break;
      case "disc": r = flattenCands(rt[1], env, depth + 1, out); break;
      case "ref": { const t = lookupEnv(env, rt[1]); if (!t) return ANYTHING; r = flattenCands([t], env, depth + 1, out); break; }
      case "desc": r = flattenCands([rt[2]], env, depth + 1, out); break;
      case "opt": r = flattenCands([rt[1]], env, depth + 1, out); break;
      case "typeof": if (rt[1] === "object") return ANYTHING; out.push(rt); break;
      default: out.push(rt);
    }
    if (r === ANYTHING) return ANYTHING;
  }
  return out;
}
function declaredSomewhere(rts, v, env, depth) {
  if (depth > 40 || v === null || typeof v !== "object" || v instanceof Date || ArrayBuffer.isView(v)) return true;
  const cs = flattenCands(rts, env, 0, []);
  if (cs === ANYTHING) return true;
  if (Array.isArray(v)) {
    return v.every((x, i) => {
      const subs = [];
      for (const c of cs) { if (head(c) === "array") subs.push(c[1]); else if (head(c) === "tuple") { if (i < c[1].length) subs.push(c[1][i]); else if (!isAtom(c[2], "none")) subs.push(c[2]); } }
      return subs.length === 0 || declaredSomewhere(subs, x, env, depth + 1);
    });
  }
  if (v instanceof Map) {
    const ms = cs.filter((c) => head(c) === "map");
    if (!ms.length) return true;
    for (const [k, x] of v) if (!declaredSomewhere(ms.map((c) => c[1]), k, env, depth + 1) || !declaredSomewhere(ms.map((c) => c[2]), x, env, depth + 1)) return false;
    return true;
  }
  if (v instanceof Set) {
    const ss = cs.filter((c) => head(c) === "set");
    if (!ss.length) return true;
    for (const x of v) if (!declaredSomewhere(ss.map((c) => c[1]), x, env, depth + 1)) return false;
    return true;
  }
  const os = cs.filter((c) => head(c) === "object");
  if (!os.length) return true;
  for (const k of Object.keys(v)) {
    const subs = [];
    for (const o of os) { const p = o[1].find((q) => q[0] === k); if (p) subs.push(p[1]); for (const [, iv] of o[2]) subs.push(iv); }
    if (!subs.length) return false;
    if (!declaredSomewhere(subs, v[k], env, depth + 1)) return false;
  }
  return true;
}
function projection(d, x) {
  if (d === null || d === undefined) return x === null || x === undefined;
  if (typeof d !== "object") return Object.is(d, x) || (typeof d === "number" && d === x);
  if (d instanceof Date) return x instanceof Date && Object.is(d.getTime(), x.getTime());
  if (ArrayBuffer.isView(d)) return ArrayBuffer.isView(x) && d.constructor === x.constructor && same(d, x);
  if (d instanceof Map) { if (!(x instanceof Map) || d.size !== x.size) return false; const xs = Array.from(x); return Array.from(d).every(([k, v], i) => projection(k, xs[i][0]) && projection(v, xs[i][1])); }
  if (d instanceof Set) { if (!(x instanceof Set) || d.size !== x.size) return false; const xs = Array.from(x); return Array.from(d).every((v, i) => projection(v, xs[i])); }
  // an index beyond the input's length may only hold undefined (beff reads a missing slot as undefined)
  if (Array.isArray(d)) return Array.isArray(x) && d.every((v, i) => (i < x.length ? projection(v, x[i]) : v === undefined));
  if (x === null || typeof x !== "object") return false;
  if (Object.getPrototypeOf(d) !== Object.prototype) return false;
  return Object.keys(d).every((k) => Object.prototype.hasOwnProperty.call(x, k) && projection(d[k], x[k]));
}

// C12: does an absolute error path address a position of the input (or a missing property of an existing object)?
function resolvePath(x, path) {
  let cur = x;
  for (let i = 0; i < path.length; i++) {
    const seg = path[i];
    if (/^(key|value|item)\(/.test(seg)) { if (cur instanceof Map || cur instanceof Set) return { ok: true, positional: true }; return { ok: false }; }
    const m = /^\[(\d+)\]$/.exec(seg);
    if (m && Array.isArray(cur)) { const idx = Number(m[1]); if (idx >= cur.length) return i === path.length - 1 ? { ok: true, missing: true, value: undefined } : { ok: false }; cur = cur[idx]; continue; }
    if (cur === null || typeof cur !== "object") return { ok: false };
    if (!(seg in cur)) return i === path.length - 1 ? { ok: true, missing: true, value: undefined } : { ok: false };
    cur = cur[seg];
  }
  return { ok: true, value: cur };
}
function checkErrors(x, errs, base, bad) {
  for (const e of errs) {
    const abs = [...base, ...e.path];
    const r = resolvePath(x, abs);
    if (!r.ok) bad.add("c12.path");
    // received is the value found at the path; for an index-signature KEY error it is the key itself
    else if (!r.positional && !same(r.value, e.received) && !(abs.length > 0 && e.received === abs[abs.length - 1])) bad.add("c12.recv");
    if ("isUnionError" in e) checkErrors(x, e.errors, abs, bad);
  }
}

// C11 reference: strict acceptance stated declaratively over the RT description (independent of the classes)
function makeStrictRef(env, validateDefault) {
  const lookup = (n) => lookupEnv(env, n);
  // keys an RT declares at its own object position; "ALL" when an index signature admits arbitrary keys
  function declared(rt, x, depth) {
    if (depth > 12) return new Set();
    if (rt instanceof Atom) return new Set();
    switch (head(rt)) {
      case "object": return rt[2].length > 0 ? "ALL" : new Set(rt[1].map((p) => p[0]));
      case "allof": { let acc = new Set(); for (const t of rt.slice(1)) { const d = declared(t, x, depth + 1); if (d === "ALL") return "ALL"; for (const k of d) acc.add(k); } return acc; }
      case "ref": { const t = lookup(rt[1]); return t ? declared(t, x, depth + 1) : new Set(); }
      case "desc": return declared(rt[2], x, depth);
      case "opt": return declared(rt[1], x, depth);
      case "anyof": { // the branch(es) that match
        let acc = new Set(); for (const t of rt.slice(1)) { if (S(t, x, "ALL", depth + 1)) { const d = declared(t, x, depth + 1); if (d === "ALL") return "ALL"; for (const k of d) acc.add(k); } } return acc; }
      case "disc": { const v = variant(rt, x); return v ? declared(v, x, depth + 1) : new Set(); }
    }
    return new Set();
  }
  function variant(rt, x) {
    if (x === null || typeof x !== "object") return null;
    const d = x[rt[2]];
    if (typeof d !== "string") return null;
    const e = rt[3].find((p) => p[0] === d);
    return e ? e[1] : null;
  }
  const union = (a, b) => { if (a === "ALL" || b === "ALL") return "ALL"; const s = new Set(a); for (const k of b) s.add(k); return s; };
  // S(rt, x, allow): x is accepted with no undeclared key at any object position; `allow` = keys admitted at THIS
  // position by enclosing intersection members
  function S(rt, x, allow, depth) {
    if (depth > 40) return true;
    if (rt instanceof Atom) return validateDefault(rt, x);
    switch (head(rt)) {
      case "object": {
        if (!validateDefault(rt, x)) return false;
        const declaredKeys = new Set(rt[1].map((p) => p[0]));
        for (const [k, t] of rt[1]) if (!S(t, x[k], new Set(), depth + 1)) return false;
        for (const k of Object.keys(x)) {
          if (declaredKeys.has(k)) continue;
          if (rt[2].length > 0) { if (!rt[2].some(([kt, vt]) => validateDefault(kt, k) && S(vt, x[k], new Set(), depth + 1))) return false; }
          else if (allow !== "ALL" && !allow.has(k)) return false;
        }
        return true;
      }
      case "allof": {
        const ts = rt.slice(1);
        if (ts.length > 0 && typeof x !== "object") return false;
        return ts.every((t, i) => { let others = allow; ts.forEach((u, j) => { if (j !== i) others = union(others, declared(u, x, 0)); }); return S(t, x, others, depth + 1); });
      }
      case "anyof": return rt.slice(1).some((t) => S(t, x, allow, depth + 1));
      case "disc": { const v = variant(rt, x); return v ? S(v, x, allow, depth + 1) : false; }
      case "opt": return x == null ? true : S(rt[1], x, allow, depth + 1);
      case "ref": { const t = lookup(rt[1]); return t ? S(t, x, allow, depth + 1) : false; }
      case "desc": return S(rt[2], x, allow, depth);
      case "array": return Array.isArray(x) && x.every((y) => S(rt[1], y, new Set(), depth + 1));
      case "tuple": {
        if (!validateDefault(rt, x)) return false;
        return rt[1].every((t, i) => S(t, x[i], new Set(), depth + 1)) && (isAtom(rt[2], "none") || x.slice(rt[1].length).every((y) => S(rt[2], y, new Set(), depth + 1)));
      }
      case "map": return x instanceof Map && Array.from(x).every(([k, v]) => S(rt[1], k, new Set(), depth + 1) && S(rt[2], v, new Set(), depth + 1));
      case "set": return x instanceof Set && Array.from(x).every((v) => S(rt[1], v, new Set(), depth + 1));
    }
    return validateDefault(rt, x);
  }
  return (rt, x) => S(rt, x, new Set(), 0);
}

export function makeRunner(rt_, mode) {
  const cg = rt_.cg, err = rt_.err;
  registerFormats(cg);
  const buildEnv = makeBuilder(cg);
  return function run(req) {
    const [, envSx, rtSx, valSx, strictA] = req;
    const rt0 = rtSx;
    const strict = strictA.s === "true";
    const { table, rt } = buildEnv(envSx, rtSx);
    const parser = cg.buildParserFromRuntype(rt, "T", false);
    const x = decVal(valSx);
    const before = show(encVal(x));
    const bad = new Set();
    const opt = (order) => ({ disallowExtraProperties: strict, objectKeyOrder: order });
    // validate
    let v, vOut;
    try { v = parser.validate(x, opt("input")); vOut = A(v ? "true" : "false"); } catch (e) { vOut = [A("throw"), errClass(e)]; bad.add("c03.throw"); }
    const sp = (order) => {
      try {
        const r = parser.safeParse(x, opt(order));
        return { r, out: r.success ? [A("ok"), encOut(r.data)] : [A("errors"), ...r.errors.map(encErr)] };
      } catch (e) { bad.add("c03.throw"); return { r: null, out: [A("throw"), errClass(e)] }; }
    };
    const si = sp("input"), ss = sp("sorted");
    // the report is a function of validator and value: the key-order option and an earlier report change nothing in it
    if (si.r && ss.r && !si.r.success && !ss.r.success) {
      const again = sp("input");
      if (show(si.out) !== show(ss.out) || show(again.out) !== show(si.out)) bad.add("c12.stable");
    }
    let msg;
    let parsed, parseReturned = false;
    try { parsed = parser.parse(x, opt("input")); parseReturned = true; msg = [A("returned")]; }
    catch (e) {
      if (e instanceof Error && e.constructor === Error && typeof e.message === "string" && e.message.startsWith("Failed to parse T - ")) msg = [A("fail"), e.message];
      else { msg = [A("throw"), errClass(e)]; bad.add("c03.throw"); }
    }
    if (show(encVal(x)) !== before) bad.add("c03.mut");
    if (typeof v === "boolean") {
      if (si.r && si.r.success !== v) bad.add("c03.agree");
      if (ss.r && ss.r.success !== v) bad.add("c03.agree");
      if (msg[0].s !== "throw" && parseReturned !== v) bad.add("c03.agree");
      if (v && si.r && si.r.success) {
        const data = si.r.data;
        try {
          if (parseReturned && !same(parsed, data)) bad.add("c03.agree");
          if (!parser.validate(data, opt("input"))) bad.add("c03.reval");
          // "consists only of declared parts of the input": on the structural fragment (no union / intersection, where several
          // members contribute keys) the parsed value has no undeclared key at any depth — Map keys included — i.e. the same
          // validator accepts it in strict mode
          if (structuralOnly(rt0, envSx, 0) && !parser.validate(data, { disallowExtraProperties: true })) bad.add("c03.undeclared");
          // … and for every type: no key that no type at its position declares
          if (!declaredSomewhere([rt0], data, envSx, 0)) bad.add("c03.undeclared");
          if (!projection(data, x)) bad.add("c03.proj");
          const again = parser.safeParse(data, opt("input"));
          if (!again.success || !same(again.data, data)) bad.add("c03.idem");
          if (ss.r && ss.r.success && !same(sortKeysDeep(data), sortKeysDeep(ss.r.data))) bad.add("c03.order");
        } catch (e) { bad.add("c03.throw2"); }
      }
      if (!v && si.r && !si.r.success) {
        const errs = si.r.errors;
        if (errs.length < 1 || errs.length > 10) bad.add("c12.count");
        checkErrors(x, errs, [], bad);
        try {
          const p1 = err.printErrors(errs, []), p2 = err.printErrors(errs, []);
          if (p1 !== p2 || typeof p1 !== "string") bad.add("c12.print");
          if (msg[0].s === "fail" && msg[1] !== "Failed to parse T - " + p1) bad.add("c12.print");
        } catch (e) { bad.add("c12.print"); }
      }
      // C11: strict acceptance vs the declarative reference
      try {
        const vd = (r, y) => { const b = buildEnv(envSx, r); return cg.buildParserFromRuntype(b.rt, "R", false).validate(y, { disallowExtraProperties: false }); };
        const vDefault = parser.validate(x, { disallowExtraProperties: false });
        const vStrict = parser.validate(x, { disallowExtraProperties: true });
        if (vStrict && !vDefault) bad.add("c11.mono");
        const ref = makeStrictRef(envSx, vd)(rtSx, x);
        if (vDefault && vStrict !== ref) bad.add(vStrict ? "c11.accepts-undeclared" : "c11.rejects-declared");
      } catch (e) { bad.add("c11.throw"); }
    }
    const reply = [A("res"), [A("v"), vOut], [A("sp-in"), si.out], [A("sp-sorted"), ss.out], [A("msg"), msg]];
    const oracle = bad.size === 0 ? [A("oracle"), A("ok")] : [A("oracle"), A("fail"), ...Array.from(bad).sort().map(A)];
    return [reply, oracle];
  };
}
