// C02 / C16: schema() and schemaWithContext() of the REAL classes.
//   (schema-ctx <env> (<rt>*) "<refTemplate>" "<containerKey>"|none ((<name> <rt idx>)*) (<call idx>*) (<doc>*))
// reply: (sc (flat <json|(throw)>*) (calls (<schema|(throw)> <exportDefinitions>)*))
// oracle channel: (oracle-data "<json>") — consumed by tools/schema_oracle.py (python jsonschema, Draft 2020-12)
import { A, Atom, show, head, isAtom } from "./sx.mjs";
import { encVal, decVal, makeBuilder, makeBuilder as makeBuilder0 } from "./values.mjs";
import { genRT, genEnv, genDisc, member, mutate, registerFormats } from "./mode_rt.mjs";

const TEMPLATES = [["#/$defs/{name}", "$defs"], ["#/components/schemas/{name}", "schemas"], ["#/definitions/{name}", null], ["urn:x:{name}:{name}", "defs"]];
function isJson(v) { try { return show(encVal(JSON.parse(JSON.stringify(v)))) === show(encVal(v)) && v !== undefined; } catch { return false; } }
function randomJson(rng, d) {
  switch (rng.below(d > 0 ? 8 : 5)) {
    case 0: return rng.pick(["", "a", "b", "ab", "x1", "a1", "true"]); case 1: return rng.pick([0, 1, 2, 1.5, 12, -1]); case 2: return rng.chance(1, 2);
    case 3: return null; case 4: return rng.pick(["c", "constructor", "toString"]);
    case 5: return Array.from({ length: rng.below(3) }, () => randomJson(rng, d - 1));
    default: { const o = {}; for (let i = rng.below(3); i > 0; i--) o[rng.pick(["a", "b", "c", "t", "kind", "x"])] = randomJson(rng, d - 1); return o; }
  }
}
export function gen(rng, params, mode) {
  // function types are outside JSON Schema and outside the 32-bit hash model (hash() of typeof "function" is undefined)
  for (;;) { const r = gen1(rng, params, mode); if (!show(r).includes('(typeof "function")')) return r; }
}
function gen1(rng, params, mode) {
  const multi = mode === "schema-ctx";
  const { names, env } = genEnv(rng);
  const nrt = multi ? 1 + rng.below(4) : 1;
  const rts = Array.from({ length: nrt }, () => (multi && names.length && rng.chance(1, 2) ? [A("object"), [[rng.pick(["p", "q"]), [A("ref"), rng.pick(names)]], [rng.pick(["r", "s"]), rng.chance(1, 2) && names.length ? [A("anyof"), [A("ref"), rng.pick(names)], [A("nullish"), "null"]] : genRT(rng, 1, names)]], []] : genRT(rng, 1 + rng.below(3), names)));
  if (multi && rng.chance(1, 4)) { // two different discriminated unions over the same discriminator and tags in one context
    const d1 = genDisc(rng, 1, names);
    const d2 = genDisc(rng, 1, names, { key: d1[2], tags: d1[3].map((m) => m[0]) });
    rts.splice(0, rts.length >= 2 ? 2 : rts.length, d1, d2);
  }
  // a discriminated union with inline variants on a cycle through two named types (`Tree = { node: Node }`,
  // `Node = { kind: "branch"; children: Tree[] } | { kind: "leaf" }`), reached from either end
  if (multi && rng.chance(1, 5)) {
    const tn = "Tree" + names.length, nn = "Node" + names.length;
    const branch = [A("object"), [["kind", [A("const"), [A("s"), "branch"]]], ["children", [A("array"), [A("ref"), tn]]]], []];
    const leaf = [A("object"), [["kind", [A("const"), [A("s"), "leaf"]]], ["value", [A("typeof"), "number"]]], []];
    const mapping = [["branch", branch], ["leaf", leaf]];
    env.push([tn, [A("object"), [["label", [A("typeof"), "string"]], ["node", [A("ref"), nn]]], []]]);
    env.push([nn, [A("disc"), [branch, leaf], "kind", mapping, mapping]]);
    names.push(tn, nn);
    const both = [[A("ref"), tn], [A("ref"), nn]];
    if (rng.chance(1, 2)) both.reverse();
    rts.splice(0, Math.min(2, rts.length), ...both);
  }
  // a cycle that passes through an ALIAS of a named type (`Comment = { replies: Thread }`, `Thread = CommentList`,
  // `CommentList = Comment[]`), entered from either end
  if (rng.chance(1, multi ? 5 : 10)) {
    const k = names.length, cn = "Cm" + k, tn = "Th" + k, ln = "Cl" + k;
    env.push([cn, [A("object"), [["id", [A("typeof"), "string"]], ["replies", rng.chance(1, 3) ? [A("opt"), [A("ref"), tn]] : [A("ref"), tn]]], []]]);
    env.push([tn, rng.chance(1, 4) ? [A("desc"), "a thread", [A("ref"), ln]] : [A("ref"), ln]]);
    env.push([ln, [A("array"), [A("ref"), cn]]]);
    names.push(cn, tn, ln);
    const ends = [[A("ref"), cn], [A("ref"), tn], [A("ref"), ln]].filter(() => rng.chance(2, 3));
    if (ends.length < 2) ends.push([A("ref"), tn], [A("ref"), cn]);
    for (let i = ends.length - 1; i > 0; i--) { const j = rng.below(i + 1); const t = ends[i]; ends[i] = ends[j]; ends[j] = t; }
    if (multi) rts.splice(0, Math.min(ends.length, rts.length), ...ends.slice(0, Math.max(2, Math.min(ends.length, rts.length))));
    else rts.splice(0, 1, rng.chance(1, 2) ? ends[0] : [A("object"), [["p", ends[0]], ["q", ends[1]]], []]);
  }
  // variants of a discriminated union that are NAMED types (what the compiler emits for `A | B` over declared object
  // types): their definitions are stored under the type's own name, and an override may target them
  if (multi && rng.chance(1, 2)) {
    let vn = 0;
    for (const rt of rts) {
      if (head(rt) !== "disc") continue;
      rt[1].forEach((obj, i) => {
        if (!rng.chance(1, 2)) return;
        const name = "V" + vn++ + "_" + rts.indexOf(rt);
        const txt = show(obj);
        env.push([name, obj]); names.push(name);
        const ref = () => [A("ref"), name];
        rt[1][i] = ref();
        for (const k of [3, 4]) rt[k] = rt[k].map(([tag, body]) => [tag, show(body) === txt ? ref() : head(body) === "anyof" ? [body[0], ...body.slice(1).map((c) => (show(c) === txt ? ref() : c))] : body]);
      });
    }
  }
  // two named types with EQUAL bodies, the body on a cycle through the first of them (`ListNode = { value; next?: ListNode }`,
  // `ListHead = { value; next?: ListNode }`): the compiler emits structurally equal runtypes as ONE shared object (the builder
  // of the harness shares them too), and what is being printed is a matter of NAMES, not of objects; often only the twin is printed
  if (rng.chance(1, multi ? 5 : 8)) {
    const k = names.length, nn = "Ln" + k, hn = "Lh" + k, an = "La" + k;
    const self = rng.pick([[A("opt"), [A("ref"), nn]], [A("array"), [A("ref"), nn]], [A("anyof"), [A("ref"), nn], [A("nullish"), "null"]]]);
    const body = () => [A("object"), [["value", [A("typeof"), "string"]], ["next", JSON.parse(JSON.stringify(self), (kk, v) => (v && typeof v === "object" && !Array.isArray(v) && "s" in v ? A(v.s) : v))]], []];
    env.push([nn, body()], [hn, body()]);
    names.push(nn, hn);
    if (rng.chance(1, 2)) { env.push([an, [A("ref"), nn]]); names.push(an); }
    const roots = rng.pick([[[A("ref"), hn]], [[A("ref"), hn], [A("ref"), nn]], [[A("ref"), nn], [A("ref"), hn]], [[A("object"), [["h", [A("ref"), hn]]], []]], ...(names.includes(an) ? [[[A("ref"), an], [A("ref"), hn]], [[A("ref"), hn], [A("ref"), an]]] : [])]);
    if (multi) rts.splice(0, Math.min(roots.length, rts.length), ...roots.slice(0, Math.max(1, Math.min(roots.length, rts.length))));
    else rts.splice(0, 1, roots[0]);
  }
  // run-time intersections whose members are ARRAYS, tuples or nullable object types (`string[] & (string | number)[]`,
  // `[string, number] & unknown[]`, `({ a: string } | null) & ({ b: number } | null)`): the schema is an `allOf`, the documents
  // are arrays and `null`
  let extraDocs = [];
  if (rng.chance(1, 10)) {
    const T = (t) => [A("typeof"), t];
    const nul = [A("nullish"), "null"];
    extraDocs = [["x"], [], [1], ["x", 1], ["x", "y"], null, { a: "s" }, { b: 1 }, { a: "s", b: 1 }];
    const form = rng.below(3);
    rts[0] = form === 0 ? [A("allof"), [A("array"), T("string")], [A("array"), [A("anyof"), T("string"), T("number")]]]
      : form === 1 ? [A("allof"), [A("tuple"), [T("string"), T("number")], A("none")], [A("array"), A("any")]]
      : [A("allof"), [A("anyof"), [A("object"), [["a", T("string")]], []], nul], [A("anyof"), [A("object"), [["b", T("number")]], []], nul]];
    if (rng.chance(1, 3)) { rts[0] = [A("object"), [["p", rts[0]]], []]; extraDocs = extraDocs.map((d) => ({ p: d })); }
  }
  // one named type referred to several times in one print, some of the references carrying a doc comment (a described
  // reference is a node of its own): the flat schema inlines the type at EVERY reference
  if (rng.chance(1, 8)) {
    const pn = "P" + names.length;
    env.push([pn, [A("object"), [["x", [A("typeof"), "number"]], ["y", rng.chance(1, 2) ? [A("typeof"), "string"] : [A("opt"), [A("typeof"), "number"]]]], []]]);
    names.push(pn);
    const ref = () => (rng.chance(1, 2) ? [A("desc"), rng.pick(["doc", "the origin"]), [A("ref"), pn]] : [A("ref"), pn]);
    const first = [A("desc"), "where it starts", [A("ref"), pn]];
    rts[0] = rng.chance(1, 2) ? [A("object"), [["from", first], ["mid", ref()], ["to", ref()]], []] : [A("tuple"), [first, ref(), ref()], A("none")];
  }
  // type names are arbitrary identifiers: names of Object.prototype members, names with `$` patterns
  if (multi && names.length && rng.chance(1, 6)) {
    const from = rng.pick(names), to = rng.pick(["toString", "constructor", "hasOwnProperty", "valueOf", "__proto__", "__proto__", "Money$$Amount", "A$&B", "Pre$`x", "Post$'x"]);
    const ren = (x) => { if (!Array.isArray(x)) return; if (head(x) === "ref" && x[1] === from) x[1] = to; x.forEach(ren); };
    env.forEach((e) => { if (e[0] === from) e[0] = to; ren(e[1]); }); rts.forEach(ren);
    names[names.indexOf(from)] = to;
  }
  const nrt2 = rts.length;
  const [tpl, key] = multi ? rng.pick(TEMPLATES) : TEMPLATES[0];
  // an override must be a self-contained schema source: a parser that does not mention any named type
  const selfContained = rts.map((r, i) => i).filter((i) => !show(rts[i]).includes("(ref "));
  const overrides = multi && names.length && selfContained.length && rng.chance(1, 5) ? [[rng.pick(names), A(String(rng.pick(selfContained)))]] : [];
  const calls = multi ? Array.from({ length: 1 + rng.below(6) }, () => A(String(rng.below(nrt2)))) : [A("0")];
  const docs = [];
  for (let i = 0; i < Number(params[0] || 10); i++) {
    let v = i % 3 === 2 ? mutate(rng, member(rng, rts[0], env, 2), 2) : i % 5 === 4 ? randomJson(rng, 2) : member(rng, rts[0], env, 2);
    if (!isJson(v)) v = randomJson(rng, 2);
    docs.push(encVal(v));
  }
  for (const d of extraDocs) docs.push(encVal(d));
  return [A("schema-ctx"), env, rts, tpl, key === null ? A("none") : key, overrides, calls, docs];
}
const jsonOrThrow = (f) => { try { return { ok: true, v: f() }; } catch (e) { return { ok: false, msg: String(e && e.message) }; } };
export function makeRunner(rt_, mode) {
  const cg = rt_.cg;
  registerFormats(cg);
  const buildEnv = makeBuilder(cg);
  return function run(req) {
    const [, envSx, rtsSx, tpl, keySx, ovSx, callsSx, docsSx] = req;
    // structurally equal runtypes are ONE object in a compiled module (the printer hoists them): the harness shares them too
    const makeBuilder = (c) => makeBuilder0(c, { share: true });
    const built = rtsSx.map((r) => buildEnv(envSx, r));
    // one shared table: the parsers of one request must resolve references in the same environment
    const table = built[0].table;
    // a parser is published under a key of the caller's choosing: here the name of one of the NAMED types (for a parser that is
    // a reference, usually not the type it refers to) — keys and type names are two namespaces
    const keyOf = (i) => (envSx.length ? envSx[(i + 1) % envSx.length][0] : "P" + i);
    const parsers = rtsSx.map((r, i) => cg.buildParserFromRuntype(makeBuilder(cg)(envSx, r).rt, keyOf(i), false));
    const flat = parsers.map((p) => jsonOrThrow(() => p.schema()));
    const overrides = {};
    // (own properties whatever the name: `overrides["__proto__"] = …` would set the prototype of the options object)
    for (const [name, idx] of ovSx) Object.defineProperty(overrides, name, { value: parsers[Number(idx.s)], enumerable: true, configurable: true, writable: true });
    const ctx = new cg.SchemaPrintingContext({ refPathTemplate: tpl, definitionContainerKey: isAtom(keySx, "none") ? null : keySx, namedTypeSchemaOverrides: overrides });
    const calls = [];
    const data = { calls: [] };
    for (const c of callsSx) {
      const r = jsonOrThrow(() => parsers[Number(c.s)].schemaWithContext(ctx));
      const exp = JSON.parse(JSON.stringify(ctx.exportDefinitions()));
      calls.push([r.ok ? encVal(JSON.parse(JSON.stringify(r.v))) : [A("throw")], encVal(exp)]);
      data.calls.push({ idx: Number(c.s), ok: r.ok, schema: r.ok ? r.v : null, msg: r.ok ? null : r.msg, defs: exp });
    }
    const docs = docsSx.map(decVal);
    const p0 = parsers[0];
    data.flat = flat.map((f) => (f.ok ? f.v : null));
    data.flatMsg = flat.map((f) => (f.ok ? null : f.msg));
    data.docs = docs;
    data.bits = docs.map((d) => { try { return [p0.validate(d), p0.validate(d, { disallowExtraProperties: true })]; } catch { return [null, null]; } });
    data.tpl = tpl; data.key = isAtom(keySx, "none") ? null : keySx;
    // fresh-context reference for every parser (C16: each definition equals the one a fresh context produces)
    data.fresh = parsers.map((p) => { const fc = new cg.SchemaPrintingContext({ refPathTemplate: tpl, definitionContainerKey: data.key, namedTypeSchemaOverrides: overrides }); const r = jsonOrThrow(() => p.schemaWithContext(fc)); return { ok: r.ok, schema: r.ok ? r.v : null, defs: JSON.parse(JSON.stringify(fc.exportDefinitions())) }; });
    // … and for every NAMED type: the definition a fresh context stores when that type itself is printed
    data.freshByName = {};
    for (const [name] of envSx) {
      const fc = new cg.SchemaPrintingContext({ refPathTemplate: tpl, definitionContainerKey: data.key, namedTypeSchemaOverrides: overrides });
      const pn = cg.buildParserFromRuntype(makeBuilder(cg)(envSx, [A("ref"), name]).rt, "N", false);
      const r = jsonOrThrow(() => pn.schemaWithContext(fc));
      data.freshByName[name] = { ok: r.ok, defs: JSON.parse(JSON.stringify(fc.exportDefinitions())) };
    }
    const reply = [A("sc"), [A("flat"), ...flat.map((f) => (f.ok ? encVal(JSON.parse(JSON.stringify(f.v))) : [A("throw")]))], [A("calls"), ...calls]];
    return [reply, [A("oracle-data"), JSON.stringify(data)]];
  };
}
