#!/bin/bash
# rebuild the type-stripped client runtime from /repo's working tree
# (checks may run side by side: the files are produced in a private directory and renamed into place one by one, so a
# reader never meets a missing or half-written file; all builders read the same tree, so the contents agree)
set -e
OUT="$(cd "$(dirname "$0")/../.." && pwd)/.build/js"
TMP="$OUT.tmp.$$"
rm -rf "$TMP"; mkdir -p "$TMP" "$OUT"
/root/.nvm/versions/node/v22.22.2/bin/node --no-warnings "$(dirname "$0")/strip.mjs" "$TMP"
(cd "$TMP" && find . -type f | sort > "$TMP.list")
# files of an earlier tree that this tree no longer produces
(cd "$OUT" && find . -type f | sort | comm -23 - "$TMP.list" | while read -r f; do rm -f "$f"; done)
(cd "$TMP" && find . -type d -exec mkdir -p "$OUT/{}" \; && while read -r f; do mv -f "$f" "$OUT/$f"; done < "$TMP.list")
rm -rf "$TMP" "$TMP.list"
