#!/bin/bash
# rebuild the type-stripped client runtime from /repo's working tree
set -e
OUT="$(cd "$(dirname "$0")/../.." && pwd)/.build/js"
rm -rf "$OUT"; mkdir -p "$OUT"
/root/.nvm/versions/node/v22.22.2/bin/node --no-warnings "$(dirname "$0")/strip.mjs" "$OUT"
