// C13 digest routine: write sequences through the REAL Hash256Writer vs node:crypto (oracle).
import { A, show, head, isAtom } from "./sx.mjs";
import crypto from "node:crypto";

const LENS = [0, 1, 3, 54, 55, 56, 57, 62, 63, 64, 65, 118, 119, 120, 121, 127, 128, 129, 191, 192, 300];
// (long non-ASCII strings: up to 128 UTF-16 code units but more UTF-8 bytes than that, and the other way round)
const STRS = ["", "a", "string", "é", "日本語", "😀", "x".repeat(55), "y".repeat(56), "z".repeat(64), "k\u0000k", "a\"b\\c\n",
  "é".repeat(64), "é".repeat(65), "é".repeat(128), "あ".repeat(42), "あ".repeat(43) + "_a", "あ".repeat(43) + "_b", "あ".repeat(128), "あ".repeat(129),
  "😀".repeat(32), "😀".repeat(33), "😀".repeat(64), "😀".repeat(65), "w".repeat(128), "w".repeat(129), "é".repeat(64) + "_a", "é".repeat(64) + "_b"];
const NUMS = ["0", "-0", "NaN", "1", "-1", "1.5", "1e+21", "Infinity", "-Infinity", "123456789012", "0.1"];

function hexOf(rng, n) {
  let s = "";
  for (let i = 0; i < n; i++) s += rng.below(256).toString(16).padStart(2, "0");
  return s;
}

export function gen(rng, params) {
  if (rng.chance(1, 2)) {
    const k = 1 + rng.below(6);
    const chunks = [];
    for (let i = 0; i < k; i++) {
      const n = rng.chance(2, 3) ? rng.pick(LENS) : rng.below(200);
      chunks.push(A("x" + hexOf(rng, n)));
    }
    return [A("sha-bytes"), ...chunks];
  }
  const k = 1 + rng.below(12);
  const toks = [];
  for (let i = 0; i < k; i++) {
    switch (rng.below(6)) {
      case 0: toks.push([A("tag"), rng.pick(STRS)]); break;
      case 1: toks.push([A("str"), rng.chance(1, 3) ? "s".repeat(rng.pick(LENS)) : rng.pick(STRS)]); break;
      case 2: toks.push([A("num"), rng.pick(NUMS)]); break;
      case 3: toks.push([A("bool"), A(rng.chance(1, 2) ? "true" : "false")]); break;
      case 4: toks.push(A("null")); break;
      default: toks.push([A("str"), hexOf(rng, rng.below(80))]);
    }
  }
  return [A("sha-toks"), ...toks];
}

// enumerate every split of messages up to maxLen into 1..2 chunks around boundaries (thorough tier)
export function* exhaustive(maxLen) {
  for (let n = 0; n <= maxLen; n++) {
    const msg = Array.from({ length: n }, (_, i) => ((i * 7 + n) & 255).toString(16).padStart(2, "0")).join("");
    for (let cut = 0; cut <= n; cut++) yield [A("sha-bytes"), A("x" + msg.slice(0, 2 * cut)), A("x" + msg.slice(2 * cut))];
  }
}

const fromHex = (h) => Uint8Array.from(h.match(/../g) ?? [], (b) => parseInt(b, 16));
const canonToNumber = (s) => (s === "-0" ? -0 : Number(s));

export function makeRunner(rt) {
  const { Hash256Writer } = rt.hash;
  return function run(req) {
    const h = head(req);
    const w = new Hash256Writer();
    const ref = crypto.createHash("sha256");
    if (h === "sha-bytes") {
      for (const c of req.slice(1)) {
        const bytes = fromHex(c.s.slice(1));
        w.updateBytes(bytes);
        ref.update(bytes);
      }
      const d = w.digestHex();
      const r = ref.digest("hex");
      return [[A("digest"), d], d === r ? [A("oracle"), A("ok")] : [A("oracle"), A("fail"), A("node-crypto"), r]];
    }
    if (h === "sha-toks") {
      const enc = new TextEncoder();
      const pushLen = (s) => { const b = enc.encode(s); const l = b.length; ref.update(Uint8Array.of((l >>> 24) & 255, (l >>> 16) & 255, (l >>> 8) & 255, l & 255)); ref.update(b); };
      for (const t of req.slice(1)) {
        const k = head(t);
        if (k === "tag") { w.updateTag(t[1]); ref.update(Uint8Array.of(1)); pushLen(t[1]); }
        else if (k === "str") { w.updateString(t[1]); ref.update(Uint8Array.of(2)); pushLen(t[1]); }
        else if (k === "num") { w.updateNumber(canonToNumber(t[1])); ref.update(Uint8Array.of(3)); pushLen(t[1]); }
        else if (k === "bool") { const b = t[1].s === "true"; w.updateBoolean(b); ref.update(Uint8Array.of(b ? 4 : 5)); }
        else if (k === "null") { w.updateNull(); ref.update(Uint8Array.of(6)); }
        else throw new Error("bad tok");
      }
      const d = w.digestHex();
      const r = ref.digest("hex");
      let after = "throws";
      try { w.updateNull(); after = "accepts"; } catch (e) {}
      return [[A("digest"), d, A(after)], d === r ? [A("oracle"), A("ok")] : [A("oracle"), A("fail"), A("node-crypto"), r]];
    }
    throw new Error("bad op");
  };
}
