// Type-strips /repo/packages/beff-client/src/*.ts into <out>/client/*.js using Node 22's own
// stripTypeScriptTypes (mode "transform"), elides named imports that became unused (they were types),
// and installs a stub for `zod` (only z.custom is referenced, by an entry point no check calls).
import { stripTypeScriptTypes } from "node:module";
import fs from "node:fs";
import path from "node:path";

const repo = process.env.BEFF_REPO || "/repo";
const out = process.argv[2];
const src = path.join(repo, "packages/beff-client/src");
fs.mkdirSync(path.join(out, "client"), { recursive: true });
fs.mkdirSync(path.join(out, "node_modules/zod"), { recursive: true });
fs.writeFileSync(path.join(out, "node_modules/zod/package.json"), JSON.stringify({ name: "zod", type: "module", main: "index.js" }));
fs.writeFileSync(path.join(out, "node_modules/zod/index.js"), "export const z = { custom: (f) => ({ __zodCustom: f }) };\n");
fs.writeFileSync(path.join(out, "package.json"), JSON.stringify({ type: "module" }));

for (const f of fs.readdirSync(src)) {
  if (!f.endsWith(".ts") || f === "index.ts") continue;
  let code = fs.readFileSync(path.join(src, f), "utf8");
  let js = stripTypeScriptTypes(code, { mode: "transform" });
  // elide unused named imports
  js = js.replace(/import\s*\{([^}]*)\}\s*from\s*("[^"]+");?/g, (m, names, from) => {
    const rest = js.replace(m, "");
    const kept = names
      .split(",")
      .map((s) => s.trim())
      .filter((s) => s.length > 0)
      .filter((s) => {
        const local = s.replace(/^type\s+/, "").split(/\s+as\s+/).pop().trim();
        return new RegExp("(^|[^A-Za-z0-9_$.])" + local.replace(/\$/g, "\\$") + "([^A-Za-z0-9_$]|$)").test(rest);
      })
      .map((s) => s.replace(/^type\s+/, ""));
    if (kept.length === 0) return "";
    return `import { ${kept.join(", ")} } from ${from};`;
  });
  fs.writeFileSync(path.join(out, "client", f.replace(/\.ts$/, ".js")), js);
}
// the bundled glue that turns emitted tables into parsers
let glue = fs.readFileSync(path.join(repo, "packages/beff-wasm/bundled-code/codegen-v2.js"), "utf8");
glue = glue.replace('"@beff/client/codegen-v2"', '"./client/codegen-v2.js"');
fs.writeFileSync(path.join(out, "glue-codegen-v2.js"), glue);
console.log("stripped client runtime into", out);
