// watch mode (C14): drives the REAL session API of beff-wasm (feature `beff_verif`: native host functions) through a
// history of file updates and rebuilds, and compares every rebuild with a fresh session on the same file contents.
//   request: (watch <id> (files (file "<name>" (var "<text>" <term>)…)…) (ops (u "<file>" <k>) | (r) | (rs <settings>) …) …)
//   reply:   (watch (r ok|diags "<fnv of code + diagnostics>")…)
//   oracle:  c14.history when a rebuild differs from the fresh session (with the index of the rebuild)
use crate::compilemode::resolve_known;
use crate::sx::*;
use std::cell::RefCell;
use std::collections::{BTreeMap, BTreeSet};
use std::rc::Rc;

fn fnv(s: &str) -> u64 {
    let mut h: u64 = 0xcbf29ce484222325;
    for b in s.as_bytes() {
        h ^= *b as u64;
        h = h.wrapping_mul(0x100000001b3);
    }
    h
}

type Fs = BTreeMap<String, String>;

fn install_host(fs: Rc<RefCell<Fs>>) {
    let fs2 = fs.clone();
    beff_wasm::verif::set_host(
        Box::new(move |name| fs.borrow().get(name).cloned()),
        Box::new(move |cur, spec| {
            let known: BTreeSet<String> = fs2.borrow().keys().cloned().collect();
            resolve_known(&known, cur, spec)
        }),
    );
}

/// what the watch loop observes after `exec()`: the code, or the emitted diagnostics
/// the settings a rebuild is asked under: `(r)` = variant 0; `(rs <k>)` registers custom formats (the generated code and the
/// diagnostics are a function of the file contents AND the settings)
fn settings_json(k: usize) -> &'static str {
    match k {
        1 => "{\"string_formats\":[\"password\"],\"number_formats\":[]}",
        2 => "{\"string_formats\":[\"password\"],\"number_formats\":[\"age\"]}",
        _ => "{\"string_formats\":[],\"number_formats\":[]}",
    }
}

fn rebuild(k: usize) -> (String, String) {
    let r = beff_wasm::verif::bundle_to_string("entry.ts", settings_json(k));
    let emitted = beff_wasm::verif::take_emitted().join("\n");
    match r {
        Ok(code) => ("ok".to_string(), format!("{}\n{}", code, emitted)),
        Err(e) => ("diags".to_string(), format!("{}\n{}", e, emitted)),
    }
}

fn fresh(fs: &Fs, k: usize) -> (String, String) {
    let fs = fs.clone();
    std::thread::Builder::new()
        .stack_size(64 << 20)
        .spawn(move || {
            install_host(Rc::new(RefCell::new(fs)));
            rebuild(k)
        })
        .unwrap()
        .join()
        .unwrap_or_else(|_| ("panic".to_string(), "panic in fresh session".to_string()))
}

pub fn run(req: &Sx) -> (Sx, Sx) {
    let l = req.as_list();
    let mut variants: BTreeMap<String, Vec<String>> = BTreeMap::new();
    for f in &l[2].as_list()[1..] {
        let fl = f.as_list();
        let name = fl[1].as_str().to_string();
        let vs = fl[2..].iter().map(|v| v.as_list()[1].as_str().to_string()).collect();
        variants.insert(name, vs);
    }
    let ops: Vec<(String, usize)> = l[3].as_list()[1..]
        .iter()
        .map(|o| {
            let ol = o.as_list();
            if ol[0].as_atom() == "u" {
                (ol[1].as_str().to_string(), ol[2].as_atom().parse().unwrap())
            } else if ol[0].as_atom() == "rs" {
                (String::new(), ol[1].as_atom().parse().unwrap())
            } else {
                (String::new(), 0)
            }
        })
        .collect();
    // a file whose first variant is the marker ABSENT does not exist until its first update
    let init: Fs = variants.iter().filter(|(_, vs)| vs[0] != "@@ABSENT@@").map(|(n, vs)| (n.clone(), vs[0].clone())).collect();
    let h = std::thread::Builder::new()
        .stack_size(64 << 20)
        .spawn(move || {
            let fs = Rc::new(RefCell::new(init));
            install_host(fs.clone());
            let mut replies = vec![atom("watch")];
            let mut fails: Vec<Sx> = vec![];
            let mut nr = 0;
            for (file, k) in ops {
                if file.is_empty() {
                    let s = rebuild(k);
                    let f = fresh(&fs.borrow(), k);
                    if s != f && fails.is_empty() {
                        fails.push(list(vec![atom("c14.history"), num(nr), st(&format!("session {} vs fresh {}: {}", s.0, f.0, crate::compilemode::diff_hint(&s.1, &f.1)))]));
                    }
                    replies.push(list(vec![atom("r"), atom(&s.0), st(&format!("{:016x}", fnv(&s.1)))]));
                    nr += 1;
                } else {
                    // the watch loop reads the changed file from disk and hands its content to update_file_content
                    let content = variants[&file][k].clone();
                    fs.borrow_mut().insert(file.clone(), content.clone());
                    beff_wasm::verif::update_file_content(&file, &content);
                }
            }
            (list(replies), fails)
        })
        .unwrap();
    match h.join() {
        Ok((reply, fails)) => {
            if fails.is_empty() {
                (reply, list(vec![atom("oracle"), atom("ok")]))
            } else {
                let mut v = vec![atom("oracle"), atom("fail")];
                v.extend(fails);
                (reply, list(v))
            }
        }
        Err(_) => (list(vec![atom("session-panic")]), list(vec![atom("oracle"), atom("fail"), atom("c04.panic@session")])),
    }
}
