// C06 (decision-diagram layer): op scripts over the real BddOps / bdd_to_dnf / dnf_to_bdd.
use crate::sx::*;
use beff_core::subtyping::bdd::{Atom, Bdd, BddOps};
use beff_core::subtyping::dnf::{bdd_to_dnf, dnf_to_bdd, Dnf};
use std::rc::Rc;

fn mk_atom(k: usize, i: usize) -> Atom {
    match k {
        0 => Atom::Mapping(i),
        1 => Atom::List(i),
        2 => Atom::Map(i),
        _ => Atom::Set(i),
    }
}

/// independent membership function: (a ∧ left) ∨ middle ∨ (¬a ∧ right)
fn eval(b: &Bdd, rho: &dyn Fn(&Atom) -> bool) -> bool {
    match b {
        Bdd::True => true,
        Bdd::False => false,
        Bdd::Node { atom, left, middle, right } => {
            (rho(atom) && eval(left, rho)) || eval(middle, rho) || (!rho(atom) && eval(right, rho))
        }
    }
}
fn eval_dnf(d: &Dnf, rho: &dyn Fn(&Atom) -> bool) -> bool {
    d.iter().any(|c| c.positive.iter().all(|a| rho(a)) && c.negative.iter().all(|a| !rho(a)))
}

fn table(atoms: &[Atom], f: &dyn Fn(&dyn Fn(&Atom) -> bool) -> bool) -> String {
    let n = atoms.len();
    let mut s = String::new();
    for asg in 0..(1usize << n) {
        let rho = |a: &Atom| -> bool {
            match atoms.iter().position(|x| x == a) {
                Some(j) => (asg >> j) & 1 == 1,
                None => false,
            }
        };
        s.push(if f(&rho) { '1' } else { '0' });
    }
    s
}

pub fn gen_script(rng: &mut Rng, max_atoms: usize, steps: usize) -> Sx {
    let natoms = 1 + rng.below(max_atoms);
    let mut atoms: Vec<(usize, usize)> = vec![];
    while atoms.len() < natoms {
        // mostly one kind (as in the real engine, where a diagram holds atoms of one kind)
        let k = if rng.chance(1, 5) { rng.below(4) } else { 1 };
        let i = rng.below(natoms + 1);
        if !atoms.contains(&(k, i)) {
            atoms.push((k, i));
        }
    }
    let mut ops: Vec<Sx> = vec![];
    for a in &atoms {
        ops.push(list(vec![atom("A"), num(a.0), num(a.1)]));
    }
    ops.push(atom("T"));
    ops.push(atom("F"));
    for _ in 0..steps {
        let n = ops.len();
        // bias towards recent results so that diagrams grow
        let pickidx = |rng: &mut Rng| if rng.chance(1, 2) { n - 1 - rng.below(n.min(4)) } else { rng.below(n) };
        let i = pickidx(rng);
        let j = pickidx(rng);
        let op = match rng.below(10) {
            0 | 1 | 2 => list(vec![atom("U"), num(i), num(j)]),
            3 | 4 | 5 => list(vec![atom("I"), num(i), num(j)]),
            6 | 7 => list(vec![atom("D"), num(i), num(j)]),
            8 => list(vec![atom("C"), num(i)]),
            _ => list(vec![atom("R"), num(i)]),
        };
        ops.push(op);
    }
    list(vec![
        atom("bdd-ops"),
        list(atoms.iter().map(|a| list(vec![num(a.0), num(a.1)])).collect()),
        list(ops),
    ])
}

/// returns (reply, oracle)
pub fn run(req: &Sx) -> (Sx, Sx) {
    let l = req.as_list();
    let atoms: Vec<Atom> = l[1].as_list().iter().map(|p| mk_atom(p.as_list()[0].as_usize(), p.as_list()[1].as_usize())).collect();
    let mut hist: Vec<Rc<Bdd>> = vec![];
    let mut tabs: Vec<String> = vec![];
    let mut out: Vec<Sx> = vec![atom("r")];
    let mut oracle_fail: Vec<Sx> = vec![];
    for (step, op) in l[2].as_list().iter().enumerate() {
        let h = op.head().to_string();
        let args: Vec<usize> = match op {
            Sx::List(v) => v[1..].iter().map(|x| x.as_usize()).collect(),
            _ => vec![],
        };
        let bits = |t: &str, f: &dyn Fn(bool, bool) -> bool, x: &str, y: &str| -> bool {
            t.chars().zip(x.chars().zip(y.chars())).all(|(r, (a, b))| (r == '1') == f(a == '1', b == '1'))
        };
        let (res, extra, ok): (Rc<Bdd>, Option<String>, bool) = match h.as_str() {
            "A" => (Rc::new(Bdd::from_atom(mk_atom(args[0], args[1]))), None, true),
            "T" => (Rc::new(Bdd::True), None, true),
            "F" => (Rc::new(Bdd::False), None, true),
            "U" | "I" | "D" => {
                let (a, b) = (&hist[args[0]], &hist[args[1]]);
                let r = match h.as_str() {
                    "U" => a.union(b),
                    "I" => a.intersect(b),
                    _ => a.diff(b),
                };
                let t = table(&atoms, &|rho| eval(&r, rho));
                let f: &dyn Fn(bool, bool) -> bool = match h.as_str() {
                    "U" => &|x, y| x || y,
                    "I" => &|x, y| x && y,
                    _ => &|x, y| x && !y,
                };
                let ok = bits(&t, f, &tabs[args[0]], &tabs[args[1]]);
                (r, None, ok)
            }
            "C" => {
                let r = hist[args[0]].complement();
                let t = table(&atoms, &|rho| eval(&r, rho));
                let ok = bits(&t, &|x, _| !x, &tabs[args[0]], &tabs[args[0]]);
                (r, None, ok)
            }
            "R" => {
                let d = bdd_to_dnf(&hist[args[0]]);
                let dt = table(&atoms, &|rho| eval_dnf(&d, rho));
                let r = dnf_to_bdd(&d);
                let t = table(&atoms, &|rho| eval(&r, rho));
                let ok = dt == tabs[args[0]] && t == tabs[args[0]];
                (r, Some(dt), ok)
            }
            _ => panic!("bad op {}", op),
        };
        let t = table(&atoms, &|rho| eval(&res, rho));
        if !ok {
            oracle_fail.push(num(step));
        }
        out.push(match extra {
            Some(dt) => atom(&format!("{}/{}", dt, t)),
            None => atom(&t),
        });
        tabs.push(t);
        hist.push(res);
    }
    let oracle = if oracle_fail.is_empty() {
        list(vec![atom("oracle"), atom("ok")])
    } else {
        let mut v = vec![atom("oracle"), atom("fail")];
        v.extend(oracle_fail);
        list(v)
    };
    (list(out), oracle)
}
