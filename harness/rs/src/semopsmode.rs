// C06 (type-vector layer): op scripts over the real SemTypeOps::{intersect, union, diff, complement} on scalar types
// (the per-tag merge `SubTypePairIterator` and the literal-set subtypes of subtype.rs).
//   request: (sem-ops (<atom>…) (<step>…))   atom: string|number|boolean|null|undefined|unknown|never|optional|(s "a")|(n 1)|(b true)
//            |(o k)|(l k)   — the k-th object / list atom (a one-node diagram; the operations never look inside an atom, so a
//            sample "object" is a truth assignment to the three object atoms, a sample "list" one to the two list atoms)
//            step: (A k) | (U i j) | (I i j) | (D i j) | (C i)
//   reply:   (r <canonical type vector>…)        one per step
//   oracle:  membership of 14 sample values in every result = the Boolean combination of the operands' memberships
use crate::sx::*;
use beff_core::ast::json::N;
use beff_core::ast::runtype::{TplLitType, TplLitTypeItem};
use beff_core::subtyping::bdd::{Atom, Bdd};
use beff_core::subtyping::semtype::{SemType, SemTypeContext, SemTypeOps};
use beff_core::subtyping::subtype::{
    NumberRepresentationOrFormat, ProperSubtype, StringLitOrFormat, SubTypeTag, VoidUndefinedSubtype,
};
use std::rc::Rc;

// number literals that only a coarse identity confuses: neighbours in the ninth decimal and beyond, integers beyond 2^63
// (written as f64's Display prints them, which is also the canonical text of the model)
const NF_LITS: &[&str] = &["0.3", "0.30000000000000004", "3.1415926535", "3.1415926536", "1000000000000000000000", "10000000000000000000000"];
const ATOMS: &[&str] = &["string", "number", "boolean", "null", "undefined", "unknown", "never", "optional"];

pub fn gen_script(rng: &mut Rng, steps: usize) -> Sx {
    let mut atoms: Vec<Sx> = vec![];
    let natoms = 2 + rng.below(6);
    for _ in 0..natoms {
        atoms.push(match rng.below(10) {
            0 | 1 => atom(*rng.pick(ATOMS)),
            2 => if rng.chance(1, 3) { list(vec![atom("l"), num(rng.below(2))]) } else if rng.chance(1, 2) { list(vec![atom("nf"), st(*rng.pick(NF_LITS))]) } else { list(vec![atom("o"), num(rng.below(3))]) },
            3 | 4 | 5 => list(vec![atom("s"), st(*rng.pick(&["a", "b", "c"]))]),
            6 | 7 | 8 => list(vec![atom("n"), num(rng.below(3))]),
            _ => list(vec![atom("b"), atom(if rng.chance(1, 2) { "true" } else { "false" })]),
        });
    }
    let mut ops: Vec<Sx> = (0..natoms).map(|k| list(vec![atom("A"), num(k)])).collect();
    // half of the scripts start from vectors that refine ONE tag and include others as a whole (the complement of a
    // literal, a literal next to a whole tag): pairs of them refine different tags, which is where the per-tag merge of two
    // vectors has nothing to pair
    if rng.chance(1, 2) {
        for _ in 0..(2 + rng.below(3)) {
            let i = rng.below(natoms);
            let j = rng.below(natoms);
            ops.push(if rng.chance(1, 2) { list(vec![atom("C"), num(i)]) } else { list(vec![atom("U"), num(i), num(j)]) });
        }
        let n = ops.len();
        for _ in 0..2 {
            let i = natoms + rng.below(n - natoms);
            let j = natoms + rng.below(n - natoms);
            ops.push(list(vec![atom(if rng.chance(2, 3) { "I" } else { "D" }), num(i), num(j)]));
        }
    }
    // one script in five carries object / list atoms through `(A | Not<A>) & (B | Not<B>)`-like steps: diagrams that collapse
    // to a leaf (everything / nothing of the tag) inside a vector that also has whole and absent tags
    if rng.chance(1, 5) {
        let base = atoms.len();
        let structural: Vec<Sx> = if rng.chance(1, 3) { vec![list(vec![atom("l"), num(0)]), list(vec![atom("l"), num(1)])] } else { vec![list(vec![atom("o"), num(rng.below(3))]), list(vec![atom("o"), num(rng.below(3))])] };
        for (k, a) in structural.into_iter().enumerate() {
            atoms.push(a);
            ops.push(list(vec![atom("A"), num(base + k)]));
        }
        let (ia, ib) = (ops.len() - 2, ops.len() - 1);
        ops.push(list(vec![atom("C"), num(ia)]));
        ops.push(list(vec![atom("C"), num(ib)]));
        let (na, nb) = (ops.len() - 2, ops.len() - 1);
        ops.push(list(vec![atom("U"), num(ia), num(na)]));
        ops.push(list(vec![atom("U"), num(ib), num(nb)]));
        let (ua, ub) = (ops.len() - 2, ops.len() - 1);
        ops.push(list(vec![atom(*rng.pick(&["I", "I", "D", "U"])), num(ua), num(ub)]));
        ops.push(list(vec![atom(*rng.pick(&["I", "D"])), num(ia), num(if rng.chance(1, 2) { ia } else { nb })]));
    }
    // one script in six combines two number literals that only a coarse identity confuses
    if rng.chance(1, 6) {
        let base = atoms.len();
        let pair = 2 * rng.below(NF_LITS.len() / 2);
        for k in 0..2 {
            atoms.push(list(vec![atom("nf"), st(NF_LITS[pair + k])]));
            ops.push(list(vec![atom("A"), num(base + k)]));
        }
        let (ia, ib) = (ops.len() - 2, ops.len() - 1);
        for o in ["U", "I", "D"] {
            ops.push(list(vec![atom(o), num(ia), num(ib)]));
        }
        ops.push(list(vec![atom("C"), num(ia)]));
        let na = ops.len() - 1;
        ops.push(list(vec![atom(*rng.pick(&["U", "I", "D"])), num(na), num(ib)]));
    }
    for _ in 0..steps {
        let n = ops.len();
        let pickidx = |rng: &mut Rng| if rng.chance(1, 2) { n - 1 - rng.below(n.min(4)) } else { rng.below(n) };
        let i = pickidx(rng);
        let j = pickidx(rng);
        ops.push(match rng.below(10) {
            0 | 1 | 2 | 3 => list(vec![atom("U"), num(i), num(j)]),
            4 | 5 | 6 => list(vec![atom("I"), num(i), num(j)]),
            7 | 8 => list(vec![atom("D"), num(i), num(j)]),
            _ => list(vec![atom("C"), num(i)]),
        });
    }
    list(vec![atom("sem-ops"), list(atoms), list(ops)])
}

fn mk(a: &Sx) -> SemType {
    match a {
        Sx::Atom(s) => match s.as_str() {
            "string" => SemTypeContext::string(),
            "number" => SemTypeContext::number(),
            "boolean" => SemTypeContext::boolean(),
            "null" => SemTypeContext::null(),
            "undefined" => SemTypeContext::undefined(),
            "unknown" => SemTypeContext::unknown(),
            "never" => SemTypeContext::never(),
            "optional" => SemTypeContext::optional_prop(),
            _ => panic!("bad atom"),
        },
        Sx::List(v) => match v[0].as_atom() {
            "s" => SemTypeContext::string_const(StringLitOrFormat::Tpl(TplLitType(vec![TplLitTypeItem::StringConst(v[1].as_str().to_string())]))),
            "n" => SemTypeContext::number_const(NumberRepresentationOrFormat::Lit(N::parse_int(v[1].as_usize() as i64))),
            "b" => SemTypeContext::boolean_const(v[1].as_atom() == "true"),
            "nf" => SemTypeContext::number_const(NumberRepresentationOrFormat::Lit(N::parse_f64(v[1].as_str().parse::<f64>().unwrap()))),
            "o" => SemTypeContext::mapping_definition_from_idx(v[1].as_usize()),
            "l" => SemTypeContext::list_definition_from_idx(v[1].as_usize()),
            _ => panic!("bad atom"),
        },
        _ => panic!("bad atom"),
    }
}

#[derive(Clone, Copy, PartialEq)]
enum V {
    B(bool),
    N(i64),
    S(&'static str),
    Null,
    Undef,
    Absent,
    Other,
    Obj(u8),
    Lst(u8),
    NF(&'static str),
}
const SAMPLES: &[V] = &[V::B(true), V::B(false), V::N(0), V::N(1), V::N(2), V::N(7), V::S("a"), V::S("b"), V::S("c"), V::S("zz"), V::Null, V::Undef, V::Absent, V::Other,
    V::Obj(0), V::Obj(1), V::Obj(2), V::Obj(3), V::Obj(4), V::Obj(5), V::Obj(6), V::Obj(7), V::Lst(0), V::Lst(1), V::Lst(2), V::Lst(3),
    V::NF("0.3"), V::NF("0.30000000000000004"), V::NF("3.1415926535"), V::NF("3.1415926536"), V::NF("1000000000000000000000"), V::NF("10000000000000000000000")];

fn tag_of(v: V) -> SubTypeTag {
    match v {
        V::B(_) => SubTypeTag::Boolean,
        V::N(_) | V::NF(_) => SubTypeTag::Number,
        V::S(_) => SubTypeTag::String,
        V::Null => SubTypeTag::Null,
        V::Undef => SubTypeTag::VoidUndefined,
        V::Absent => SubTypeTag::OptionalProp,
        V::Other => SubTypeTag::BigInt,
        V::Obj(_) => SubTypeTag::Mapping,
        V::Lst(_) => SubTypeTag::List,
    }
}

/// independent membership function over the type vector
fn mem(t: &SemType, v: V) -> bool {
    let tag = tag_of(v);
    if (t.all & tag.code()) != 0 {
        return true;
    }
    for st in t.subtype_data.iter() {
        if st.tag() != tag {
            continue;
        }
        return match (&**st, v) {
            (ProperSubtype::Boolean(b), V::B(x)) => *b == x,
            (ProperSubtype::Number { allowed, values }, V::N(x)) => {
                values.iter().any(|k| matches!(k, NumberRepresentationOrFormat::Lit(n) if *n == N::parse_int(x))) == *allowed
            }
            (ProperSubtype::String { allowed, values }, V::S(x)) => {
                values.iter().any(|k| matches!(k, StringLitOrFormat::Tpl(TplLitType(items)) if items.len() == 1 && items[0] == TplLitTypeItem::StringConst(x.to_string()))) == *allowed
            }
            // (a literal is itself by the value it denotes: the f64 it parses to)
            (ProperSubtype::Number { allowed, values }, V::NF(x)) => {
                let f: f64 = x.parse().unwrap();
                values.iter().any(|k| matches!(k, NumberRepresentationOrFormat::Lit(n) if n.to_f64() == f)) == *allowed
            }
            (ProperSubtype::Mapping(b), V::Obj(m)) => eval_bdd(b, &|a| matches!(a, Atom::Mapping(i) if (m >> i) & 1 == 1)),
            (ProperSubtype::List(b), V::Lst(m)) => eval_bdd(b, &|a| matches!(a, Atom::List(i) if (m >> i) & 1 == 1)),
            (ProperSubtype::VoidUndefined { allowed, values }, V::Undef) => values.iter().any(|k| matches!(k, VoidUndefinedSubtype::Undefined)) == *allowed,
            _ => false,
        };
    }
    false
}

fn eval_bdd(b: &Bdd, rho: &dyn Fn(&Atom) -> bool) -> bool {
    match b {
        Bdd::True => true,
        Bdd::False => false,
        Bdd::Node { atom, left, middle, right } => (rho(atom) && eval_bdd(left, rho)) || eval_bdd(middle, rho) || (!rho(atom) && eval_bdd(right, rho)),
    }
}

/// a structural tag as `all` / `none` / the truth table of its diagram over the atoms of the tag (a diagram that denotes
/// everything or nothing prints like the whole / absent tag: how a collapsed diagram is stored is not compared)
fn show_structural(t: &SemType, name: &str, tag: SubTypeTag, natoms: u8) -> Sx {
    if (t.all & tag.code()) != 0 {
        return list(vec![atom(name), atom("all")]);
    }
    for st_ in t.subtype_data.iter() {
        if st_.tag() != tag {
            continue;
        }
        let table: String = (0..(1u8 << natoms))
            .map(|m| {
                let ok = match &**st_ {
                    ProperSubtype::Mapping(b) => eval_bdd(b, &|a| matches!(a, Atom::Mapping(i) if (m >> i) & 1 == 1)),
                    ProperSubtype::List(b) => eval_bdd(b, &|a| matches!(a, Atom::List(i) if (m >> i) & 1 == 1)),
                    _ => false,
                };
                if ok { '1' } else { '0' }
            })
            .collect();
        if table.chars().all(|c| c == '1') {
            return list(vec![atom(name), atom("all")]);
        }
        if table.chars().all(|c| c == '0') {
            return list(vec![atom(name), atom("none")]);
        }
        return list(vec![atom(name), list(vec![atom("tt"), st(&table)])]);
    }
    list(vec![atom(name), atom("none")])
}

fn show(t: &SemType) -> Sx {
    let bit = |tag: SubTypeTag| (t.all & tag.code()) != 0;
    let others = [SubTypeTag::BigInt, SubTypeTag::Date, SubTypeTag::TypedArray, SubTypeTag::Map, SubTypeTag::Set];
    let n_other = others.iter().filter(|x| bit(**x)).count();
    let mut out = vec![atom("st")];
    let tri = |name: &str, tag: SubTypeTag, out: &mut Vec<Sx>| {
        if bit(tag) {
            out.push(list(vec![atom(name), atom("all")]));
            return;
        }
        for st in t.subtype_data.iter() {
            if st.tag() != tag {
                continue;
            }
            let (allowed, mut vals): (bool, Vec<String>) = match &**st {
                ProperSubtype::Boolean(b) => (true, vec![b.to_string()]),
                ProperSubtype::Number { allowed, values } => (*allowed, values.iter().map(|k| match k { NumberRepresentationOrFormat::Lit(n) => n.to_f64().to_string(), _ => "fmt".into() }).collect()),
                ProperSubtype::String { allowed, values } => (*allowed, values.iter().map(|k| match k { StringLitOrFormat::Tpl(TplLitType(items)) => match items.as_slice() { [TplLitTypeItem::StringConst(s)] => s.clone(), _ => "tpl".into() }, _ => "fmt".into() }).collect()),
                ProperSubtype::VoidUndefined { allowed, values } => (*allowed, values.iter().map(|k| match k { VoidUndefinedSubtype::Undefined => "undefined".to_string(), VoidUndefinedSubtype::Void => "void".to_string() }).collect()),
                _ => (true, vec!["?".into()]),
            };
            vals.sort();
            out.push(list(vec![atom(name), atom(if allowed { "only" } else { "except" }), list(vals.iter().map(|s| st_(s)).collect())]));
            return;
        }
        out.push(list(vec![atom(name), atom("none")]));
    };
    tri("bool", SubTypeTag::Boolean, &mut out);
    tri("num", SubTypeTag::Number, &mut out);
    tri("str", SubTypeTag::String, &mut out);
    tri("vu", SubTypeTag::VoidUndefined, &mut out);
    out.push(list(vec![atom("null"), atom(if bit(SubTypeTag::Null) { "all" } else { "none" })]));
    out.push(list(vec![atom("opt"), atom(if bit(SubTypeTag::OptionalProp) { "all" } else { "none" })]));
    out.push(show_structural(t, "mapping", SubTypeTag::Mapping, 3));
    out.push(show_structural(t, "list", SubTypeTag::List, 2));
    out.push(list(vec![atom("other"), atom(if n_other == others.len() { "all" } else if n_other == 0 { "none" } else { "mixed" })]));
    // entries of the vector must be sorted by tag and unique (the merge relies on it)
    let codes: Vec<u32> = t.subtype_data.iter().map(|s| s.to_code()).collect();
    if !codes.windows(2).all(|w| w[0] < w[1]) || codes.iter().any(|c| (t.all & c) != 0) {
        out.push(atom("unsorted-or-overlapping"));
    }
    list(out)
}
fn st_(s: &str) -> Sx {
    st(s)
}

pub fn run(req: &Sx) -> (Sx, Sx) {
    let l = req.as_list();
    let atoms: Vec<Rc<SemType>> = l[1].as_list().iter().map(|a| Rc::new(mk(a))).collect();
    let mut hist: Vec<Rc<SemType>> = vec![];
    let mut out = vec![atom("r")];
    let mut fails: Vec<Sx> = vec![];
    for (step, op) in l[2].as_list().iter().enumerate() {
        let v = op.as_list();
        let a = |k: usize| v[k].as_usize();
        let (res, expect): (Rc<SemType>, Box<dyn Fn(V) -> bool>) = match v[0].as_atom() {
            "A" => { let t = atoms[a(1)].clone(); let t2 = t.clone(); (t, Box::new(move |x| mem(&t2, x))) }
            "U" => { let (x, y) = (hist[a(1)].clone(), hist[a(2)].clone()); (x.union(&y).expect("union"), Box::new(move |s| mem(&x, s) || mem(&y, s))) }
            "I" => { let (x, y) = (hist[a(1)].clone(), hist[a(2)].clone()); (x.intersect(&y).expect("intersect"), Box::new(move |s| mem(&x, s) && mem(&y, s))) }
            "D" => { let (x, y) = (hist[a(1)].clone(), hist[a(2)].clone()); (x.diff(&y).expect("diff"), Box::new(move |s| mem(&x, s) && !mem(&y, s))) }
            "C" => { let x = hist[a(1)].clone(); (x.complement().expect("complement"), Box::new(move |s| !mem(&x, s))) }
            _ => panic!("bad step"),
        };
        if SAMPLES.iter().any(|s| mem(&res, *s) != expect(*s)) {
            fails.push(list(vec![atom("c06.sem-op"), num(step)]));
        }
        out.push(show(&res));
        hist.push(res);
    }
    let oracle = if fails.is_empty() { list(vec![atom("oracle"), atom("ok")]) } else { let mut v = vec![atom("oracle"), atom("fail")]; v.extend(fails); list(v) };
    (list(out), oracle)
}
