// Minimal S-expression codec shared by all harness modes (DESIGN.md Appendix A).
#[derive(Debug, Clone, PartialEq)]
pub enum Sx {
    Atom(String),
    Str(String),
    List(Vec<Sx>),
}

pub fn quote(s: &str) -> String {
    let mut out = String::from("\"");
    for c in s.chars() {
        match c {
            '"' => out.push_str("\\\""),
            '\\' => out.push_str("\\\\"),
            '\n' => out.push_str("\\n"),
            '\r' => out.push_str("\\r"),
            '\t' => out.push_str("\\t"),
            c if (c as u32) < 32 || (c as u32) == 127 => out.push_str(&format!("\\u{:04x}", c as u32)),
            c => out.push(c),
        }
    }
    out.push('"');
    out
}

impl std::fmt::Display for Sx {
    fn fmt(&self, f: &mut std::fmt::Formatter) -> std::fmt::Result {
        match self {
            Sx::Atom(s) => write!(f, "{}", s),
            Sx::Str(s) => write!(f, "{}", quote(s)),
            Sx::List(l) => {
                write!(f, "(")?;
                for (i, x) in l.iter().enumerate() {
                    if i > 0 {
                        write!(f, " ")?;
                    }
                    write!(f, "{}", x)?;
                }
                write!(f, ")")
            }
        }
    }
}

pub fn atom(s: &str) -> Sx {
    Sx::Atom(s.to_string())
}
pub fn st(s: &str) -> Sx {
    Sx::Str(s.to_string())
}
pub fn list(v: Vec<Sx>) -> Sx {
    Sx::List(v)
}
pub fn num(n: usize) -> Sx {
    Sx::Atom(n.to_string())
}

impl Sx {
    pub fn as_list(&self) -> &[Sx] {
        match self {
            Sx::List(l) => l,
            _ => panic!("expected list, got {}", self),
        }
    }
    pub fn as_atom(&self) -> &str {
        match self {
            Sx::Atom(s) => s,
            _ => panic!("expected atom, got {}", self),
        }
    }
    pub fn as_str(&self) -> &str {
        match self {
            Sx::Str(s) => s,
            _ => panic!("expected string, got {}", self),
        }
    }
    pub fn as_usize(&self) -> usize {
        self.as_atom().parse().expect("number")
    }
    pub fn head(&self) -> &str {
        match self {
            Sx::List(l) if !l.is_empty() => l[0].as_atom(),
            Sx::Atom(s) => s,
            _ => panic!("no head: {}", self),
        }
    }
}

pub fn parse(s: &str) -> Option<Sx> {
    let cs: Vec<char> = s.chars().collect();
    let mut i = 0;
    parse_one(&cs, &mut i)
}

fn skip_ws(cs: &[char], i: &mut usize) {
    while *i < cs.len() && cs[*i].is_whitespace() {
        *i += 1;
    }
}

fn parse_one(cs: &[char], i: &mut usize) -> Option<Sx> {
    skip_ws(cs, i);
    if *i >= cs.len() {
        return None;
    }
    match cs[*i] {
        '(' => {
            *i += 1;
            let mut v = vec![];
            loop {
                skip_ws(cs, i);
                if *i >= cs.len() {
                    return None;
                }
                if cs[*i] == ')' {
                    *i += 1;
                    return Some(Sx::List(v));
                }
                v.push(parse_one(cs, i)?);
            }
        }
        ')' => None,
        '"' => {
            *i += 1;
            let mut out = String::new();
            loop {
                if *i >= cs.len() {
                    return None;
                }
                let c = cs[*i];
                *i += 1;
                if c == '"' {
                    return Some(Sx::Str(out));
                }
                if c == '\\' {
                    let d = cs[*i];
                    *i += 1;
                    match d {
                        'n' => out.push('\n'),
                        'r' => out.push('\r'),
                        't' => out.push('\t'),
                        'b' => out.push('\u{8}'),
                        'f' => out.push('\u{c}'),
                        'u' => {
                            let h: String = cs[*i..*i + 4].iter().collect();
                            *i += 4;
                            out.push(char::from_u32(u32::from_str_radix(&h, 16).ok()?)?);
                        }
                        d => out.push(d),
                    }
                } else {
                    out.push(c);
                }
            }
        }
        _ => {
            let start = *i;
            while *i < cs.len() && !cs[*i].is_whitespace() && cs[*i] != '(' && cs[*i] != ')' && cs[*i] != '"' {
                *i += 1;
            }
            Some(Sx::Atom(cs[start..*i].iter().collect()))
        }
    }
}

/// xorshift64* — every random choice of every mode derives from one of these.
pub struct Rng(pub u64);
impl Rng {
    pub fn new(seed: u64) -> Rng {
        Rng(seed.wrapping_mul(0x9E3779B97F4A7C15) ^ 0xD1B54A32D192ED03 | 1)
    }
    pub fn next(&mut self) -> u64 {
        let mut x = self.0;
        x ^= x >> 12;
        x ^= x << 25;
        x ^= x >> 27;
        self.0 = x;
        x.wrapping_mul(0x2545F4914F6CDD1D)
    }
    pub fn below(&mut self, n: usize) -> usize {
        if n == 0 { 0 } else { (self.next() >> 11) as usize % n }
    }
    pub fn chance(&mut self, num: usize, den: usize) -> bool {
        self.below(den) < num
    }
    pub fn pick<'a, T>(&mut self, v: &'a [T]) -> &'a T {
        &v[self.below(v.len())]
    }
}
