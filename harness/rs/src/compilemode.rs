// compile mode: run the REAL parse_and_bind + extract + emit_code on in-memory project files.
//   request: any S-expression whose 4th element (index 3) is the file list (("entry.ts" "<src>") ("x.ts" "<src>") …)
//            optional 6th element: (settings (strfmts "a" …) (numfmts "b" …))
//   reply:   (js "<code>") | (diags (d "<file>" <lo> <hi> <line0> <col0> <line1> <col1> "<message>")…) | (panic "<file:line>")
use crate::sx::*;
use beff_core::diag::Location;
use beff_core::swc_tools::bind_exports::{parse_and_bind, FsModuleResolver};
use beff_core::{BeffUserSettings, BffFileName, EntryPoints, FileManager, ParsedModule};
use std::collections::{BTreeMap, BTreeSet};
use std::rc::Rc;
use swc_common::{Globals, GLOBALS};

fn resolve(known: &BTreeSet<String>, current: &str, spec: &str) -> Option<BffFileName> {
    // "./x" relative to the directory of `current`; tries x.ts, x.tsx, x.d.ts, x/index.ts
    if !spec.starts_with("./") && !spec.starts_with("../") {
        return None;
    }
    let mut parts: Vec<&str> = current.split('/').collect();
    parts.pop();
    for seg in spec.split('/') {
        match seg {
            "." | "" => {}
            ".." => {
                parts.pop();
            }
            s => parts.push(s),
        }
    }
    let base = parts.join("/");
    for cand in [base.clone(), format!("{}.ts", base), format!("{}.tsx", base), format!("{}.d.ts", base), format!("{}/index.ts", base)] {
        if known.contains(&cand) {
            return Some(BffFileName::new(cand));
        }
    }
    None
}

pub fn resolve_known(known: &BTreeSet<String>, current: &str, spec: &str) -> Option<String> {
    resolve(known, current, spec).map(|f| f.as_str().to_string())
}

struct Resolver<'a> {
    known: &'a BTreeSet<String>,
}
impl FsModuleResolver for Resolver<'_> {
    fn resolve_import(&mut self, current_file: BffFileName, module_specifier: &str) -> Option<BffFileName> {
        resolve(self.known, current_file.as_str(), module_specifier)
    }
}
pub struct Files {
    pub fs: BTreeMap<BffFileName, Rc<ParsedModule>>,
    pub known: BTreeSet<String>,
}
impl FileManager for Files {
    fn get_or_fetch_file(&mut self, name: &BffFileName) -> Option<Rc<ParsedModule>> {
        self.fs.get(name).cloned()
    }
    fn get_existing_file(&self, name: &BffFileName) -> Option<Rc<ParsedModule>> {
        self.fs.get(name).cloned()
    }
    fn resolve_import(&mut self, current_file: BffFileName, module_specifier: &str) -> Option<BffFileName> {
        resolve(&self.known, current_file.as_str(), module_specifier)
    }
}

/// the file manager of a long-lived session (beff-wasm `LazyFileManager`): a file is parsed when it is first fetched;
/// `get_existing_file` answers only for files loaded so far
pub struct LazyFiles {
    pub sources: BTreeMap<String, String>,
    pub fs: BTreeMap<BffFileName, Rc<ParsedModule>>,
    pub known: BTreeSet<String>,
}
impl LazyFiles {
    fn load(&mut self, name: &BffFileName) -> Option<Rc<ParsedModule>> {
        if let Some(m) = self.fs.get(name) {
            return Some(m.clone());
        }
        let content = self.sources.get(name.as_str())?.clone();
        let mut r = Resolver { known: &self.known };
        match parse_and_bind(&mut r, name, &content) {
            Ok(m) => {
                self.fs.insert(name.clone(), m.clone());
                Some(m)
            }
            Err(_) => None,
        }
    }
}
impl FileManager for LazyFiles {
    fn get_or_fetch_file(&mut self, name: &BffFileName) -> Option<Rc<ParsedModule>> {
        self.load(name)
    }
    fn get_existing_file(&self, name: &BffFileName) -> Option<Rc<ParsedModule>> {
        self.fs.get(name).cloned()
    }
    fn resolve_import(&mut self, current_file: BffFileName, module_specifier: &str) -> Option<BffFileName> {
        resolve(&self.known, current_file.as_str(), module_specifier)
    }
}

pub enum Outcome {
    Js(String),
    Diags(Vec<Sx>),
    ParseFail(String),
    EmitErr(String),
}

pub fn compile_files(files: &[(String, String)], strfmts: &[String], numfmts: &[String], order: Option<&[usize]>) -> Outcome {
    GLOBALS.set(&Globals::new(), || {
        let known: BTreeSet<String> = files.iter().map(|f| f.0.clone()).collect();
        let mut fs = BTreeMap::new();
        let idxs: Vec<usize> = match order {
            Some(o) => o.to_vec(),
            None => (0..files.len()).collect(),
        };
        for i in idxs {
            let (name, content) = &files[i];
            let fname = BffFileName::new(name.clone());
            let mut r = Resolver { known: &known };
            match parse_and_bind(&mut r, &fname, content) {
                Ok(m) => {
                    fs.insert(fname, m);
                }
                Err(e) => {
                    // like the real file manager: a file that does not parse is simply absent
                    if name == "entry.ts" {
                        return Outcome::ParseFail(format!("{}", e));
                    }
                }
            }
        }
        let mut man = Files { fs, known };
        extract_with(&mut man, strfmts, numfmts)
    })
}

/// the same project through a lazily loading session: `preload` files are registered up front (in that order), the rest
/// is parsed on demand; `runs` extractions on the same session, the outcome of the last one is returned
pub fn compile_files_lazy(files: &[(String, String)], strfmts: &[String], numfmts: &[String], preload: &[usize], runs: usize) -> Outcome {
    GLOBALS.set(&Globals::new(), || {
        let known: BTreeSet<String> = files.iter().map(|f| f.0.clone()).collect();
        let sources: BTreeMap<String, String> = files.iter().cloned().collect();
        let mut man = LazyFiles { sources, fs: BTreeMap::new(), known };
        for i in preload {
            man.load(&BffFileName::new(files[*i].0.clone()));
        }
        // like the eager manager: an entry file that does not parse is a parse failure
        if man.load(&BffFileName::new("entry.ts".into())).is_none() {
            let mut r = Resolver { known: &man.known };
            if let Some(src) = man.sources.get("entry.ts") {
                if let Err(e) = parse_and_bind(&mut r, &BffFileName::new("entry.ts".into()), src) {
                    return Outcome::ParseFail(format!("{}", e));
                }
            }
        }
        let mut last = extract_with(&mut man, strfmts, numfmts);
        for _ in 1..runs {
            last = extract_with(&mut man, strfmts, numfmts);
        }
        last
    })
}

fn extract_with<M: FileManager>(man: &mut M, strfmts: &[String], numfmts: &[String]) -> Outcome {
    {
        let entry = EntryPoints {
            parser_entry_point: BffFileName::new("entry.ts".into()),
            settings: BeffUserSettings {
                string_formats: strfmts.iter().cloned().collect(),
                number_formats: numfmts.iter().cloned().collect(),
            },
        };
        let res = beff_core::extract(man, entry);
        if !res.errors.is_empty() {
            let ds = res
                .errors
                .iter()
                .map(|d| match &d.loc {
                    // line and column as the SERIALISED diagnostic carries them (what `bundle_to_diagnostics` hands to the
                    // node side), the offsets from the location itself
                    Location::Full(f) => match beff_core::wasm_diag::WasmDiagnosticInformation::from_diagnostic_info(d) {
                        beff_core::wasm_diag::WasmDiagnosticInformation::KnownFile { file_name, line_lo, col_lo, line_hi, col_hi, .. } => list(vec![
                            atom("d"),
                            st(file_name.as_str()),
                            num(f.offset_lo),
                            num(f.offset_hi),
                            num(line_lo),
                            num(col_lo),
                            num(line_hi),
                            num(col_hi),
                            st(&format!("{:?}", d.message).chars().take(120).collect::<String>()),
                        ]),
                        beff_core::wasm_diag::WasmDiagnosticInformation::UnknownFile { current_file, .. } => list(vec![atom("d-unknown"), st(current_file.as_str()), st("serialised-without-location")]),
                    },
                    Location::Unknown(u) => list(vec![atom("d-unknown"), st(u.current_file.as_str()), st(&format!("{:?}", d.message).chars().take(120).collect::<String>())]),
                })
                .collect();
            return Outcome::Diags(ds);
        }
        match res.emit_code() {
            Ok(code) => Outcome::Js(code),
            Err(e) => Outcome::EmitErr(format!("{}", e)),
        }
    }
}

pub fn files_of(req: &Sx) -> Vec<(String, String)> {
    req.as_list()[3].as_list().iter().map(|f| (f.as_list()[0].as_str().to_string(), f.as_list()[1].as_str().to_string())).collect()
}
pub fn settings_of(req: &Sx) -> (Vec<String>, Vec<String>) {
    // the formats the harness registers on the JavaScript side (mode_rt.mjs registerFormats) are always known to the compiler
    let mut s: Vec<String> = ["fa", "fb", "fab"].iter().map(|x| x.to_string()).collect();
    let mut n: Vec<String> = ["n2", "n3"].iter().map(|x| x.to_string()).collect();
    if let Some(x) = req.as_list().get(5) {
        if !matches!(x, Sx::List(_)) {
            return (s, n);
        }
        for part in &x.as_list()[1..] {
            let l = part.as_list();
            let names: Vec<String> = l[1..].iter().map(|a| a.as_str().to_string()).collect();
            if l[0].as_atom() == "strfmts" { s = names } else { n = names }
        }
    }
    (s, n)
}

fn files_at(req: &Sx, idx: usize) -> Vec<(String, String)> {
    req.as_list()[idx].as_list().iter().map(|f| (f.as_list()[0].as_str().to_string(), f.as_list()[1].as_str().to_string())).collect()
}

fn outcome_sx(o: Outcome) -> Sx {
    match o {
        Outcome::Js(code) => list(vec![atom("js"), st(&code)]),
        Outcome::Diags(ds) => {
            let mut v = vec![atom("diags")];
            v.extend(ds);
            list(v)
        }
        Outcome::ParseFail(m) => list(vec![atom("parse-fail"), st(&m.chars().take(200).collect::<String>())]),
        Outcome::EmitErr(m) => list(vec![atom("emit-error"), st(&m)]),
    }
}

pub fn run(req: &Sx) -> (Sx, Sx) {
    if req.head() == "rewrite" || req.head() == "split" {
        // (rewrite id p files values p' files' script): compile both programs
        let a = compile_files(&files_at(req, 3), &[], &[], None);
        let b = compile_files(&files_at(req, 6), &[], &[], None);
        return (list(vec![atom("pair"), outcome_sx(a), outcome_sx(b)]), list(vec![atom("oracle"), atom("ok")]));
    }
    let files = files_of(req);
    let (s, n) = settings_of(req);
    let ok = list(vec![atom("oracle"), atom("ok")]);
    match compile_files(&files, &s, &n, None) {
        Outcome::Js(code) => (list(vec![atom("js"), st(&code)]), ok),
        Outcome::Diags(ds) => {
            let mut v = vec![atom("diags")];
            v.extend(ds);
            (list(v), ok)
        }
        Outcome::ParseFail(m) => (list(vec![atom("parse-fail"), st(&m.chars().take(200).collect::<String>())]), ok),
        Outcome::EmitErr(m) => (list(vec![atom("emit-error"), st(&m)]), ok),
    }
}

// ---------- det mode (C10): the outcome must not depend on hash seeds, threads or file registration order ----------
fn fnv(s: &str) -> u64 {
    let mut h: u64 = 0xcbf29ce484222325;
    for b in s.as_bytes() {
        h ^= *b as u64;
        h = h.wrapping_mul(0x100000001b3);
    }
    h
}
fn outcome_text(files: &[(String, String)], s: &[String], n: &[String], order: Option<&[usize]>) -> String {
    format!("{}", outcome_sx(compile_files(files, s, n, order)))
}
pub fn run_det(req: &Sx) -> (Sx, Sx) {
    // `split` requests: the multi-file project is the 7th element, no settings
    let is_split = req.head() == "split";
    let files = if is_split { files_at(req, 6) } else { files_of(req) };
    let (s, n) = if is_split { (vec![], vec![]) } else { settings_of(req) };
    let base = outcome_text(&files, &s, &n, None);
    let kind = base[1..].split(|c: char| c == ' ' || c == ')').next().unwrap_or("").to_string();
    let mut fails: Vec<Sx> = vec![];
    // same thread again (every std HashMap gets fresh keys), then fresh threads with permuted registration orders
    if outcome_text(&files, &s, &n, None) != base {
        fails.push(atom("c10.repeat"));
    }
    let mut rng = Rng::new(fnv(&base) ^ 0x9e37);
    let rounds = if files.len() > 1 { 4 } else { 2 };
    for k in 0..rounds {
        let mut order: Vec<usize> = (0..files.len()).collect();
        if k > 0 {
            for i in (1..order.len()).rev() {
                let j = rng.below(i + 1);
                order.swap(i, j);
            }
            if k == 1 {
                order = (0..files.len()).rev().collect();
            }
        }
        let (f2, s2, n2, o2) = (files.clone(), s.clone(), n.clone(), order.clone());
        let h = std::thread::Builder::new().stack_size(64 << 20).spawn(move || outcome_text(&f2, &s2, &n2, Some(&o2))).unwrap();
        let other = h.join().unwrap_or_else(|_| "(panic-in-thread)".to_string());
        if other != base {
            fails.push(list(vec![atom(if k == 0 { "c10.thread" } else { "c10.order" }), list(order.iter().map(|i| num(*i)).collect()), st(&diff_hint(&base, &other))]));
            break;
        }
    }
    // a long-lived session loads files lazily: nothing registered / everything registered / a random part registered,
    // first and second extraction of the session — the outcome is a function of the file contents only
    if fails.is_empty() {
        let all: Vec<usize> = (0..files.len()).collect();
        let part: Vec<usize> = all.iter().cloned().filter(|_| rng.below(2) == 0).collect();
        // (a single file has nothing to load lazily, but the second extraction of a session still reads the SAME parsed
        // module again: whatever the first one consumed is missing)
        let rounds: Vec<(&str, Vec<usize>, usize)> = if files.len() > 1 { vec![("none", vec![], 1usize), ("none-twice", vec![], 2), ("part", part, 1)] } else { vec![("none-twice", vec![], 2)] };
        for (label, pre, runs) in rounds {
            let (f2, s2, n2) = (files.clone(), s.clone(), n.clone());
            let pre2 = pre.clone();
            let h = std::thread::Builder::new().stack_size(64 << 20).spawn(move || format!("{}", outcome_sx(compile_files_lazy(&f2, &s2, &n2, &pre2, runs)))).unwrap();
            let other = h.join().unwrap_or_else(|_| "(panic-in-thread)".to_string());
            if other != base {
                fails.push(list(vec![atom("c10.lazy"), atom(label), list(pre.iter().map(|i| num(*i)).collect()), st(&diff_hint(&base, &other))]));
                break;
            }
        }
    }
    let reply = list(vec![atom("det"), atom(&kind), st(&format!("{:016x}", fnv(&base)))]);
    if fails.is_empty() {
        (reply, list(vec![atom("oracle"), atom("ok")]))
    } else {
        let mut v = vec![atom("oracle"), atom("fail")];
        v.extend(fails);
        (reply, list(v))
    }
}
pub fn diff_hint(a: &str, b: &str) -> String {
    let i = a.bytes().zip(b.bytes()).take_while(|(x, y)| x == y).count();
    let lo = i.saturating_sub(60);
    let cut = |s: &str| s.chars().skip(lo).take(160).collect::<String>();
    format!("at byte {}: {} <> {}", i, cut(a), cut(b))
}

// ---------- sub mode (C05): the branch chosen by `A extends B ? "yes" : "no"` in the REAL compiler ----------
pub fn run_sub(req: &Sx) -> (Sx, Sx) {
    let src = req.as_list()[5].as_str().to_string();
    let ok = list(vec![atom("oracle"), atom("ok")]);
    match compile_files(&[("entry.ts".to_string(), src)], &[], &[], None) {
        Outcome::Js(code) => {
            let yes = code.contains("\"yes\"");
            let no = code.contains("\"no\"");
            let ans = if yes && !no { "yes" } else if no && !yes { "no" } else { "unclear" };
            (list(vec![atom("sub"), atom(ans)]), ok)
        }
        Outcome::Diags(ds) => (list(vec![atom("sub"), atom("diags"), st(&ds.first().map(|d| format!("{}", d)).unwrap_or_default().chars().take(200).collect::<String>())]), ok),
        Outcome::ParseFail(m) => (list(vec![atom("sub"), atom("parse-fail"), st(&m.chars().take(100).collect::<String>())]), ok),
        Outcome::EmitErr(m) => (list(vec![atom("sub"), atom("emit-error"), st(&m)]), ok),
    }
}
