// beffh: correspondence / search harness driving the real beff-core in-process.
//   beffh <mode> gen <seed> <count> [params…]   -> request lines on stdout
//   beffh <mode> run                           -> reads request lines, prints "<reply>\t<oracle>" per line
mod bddmode;
mod compilemode;
mod semopsmode;
mod sx;
mod watchmode;
use std::io::{BufRead, Write};
use sx::*;

thread_local! { static LAST_PANIC: std::cell::RefCell<String> = std::cell::RefCell::new(String::new()); }

fn main() {
    let args: Vec<String> = std::env::args().collect();
    if args.len() < 3 {
        eprintln!("usage: beffh <mode> gen|run …");
        std::process::exit(2);
    }
    let mode = args[1].as_str();
    let cmd = args[2].as_str();
    let stdout = std::io::stdout();
    let mut out = std::io::BufWriter::new(stdout.lock());
    match cmd {
        "gen" => {
            let seed: u64 = args[3].parse().unwrap();
            let count: usize = args[4].parse().unwrap();
            let mut rng = Rng::new(seed);
            for _ in 0..count {
                let req = match mode {
                    "bdd" => {
                        let max_atoms = args.get(5).map(|s| s.parse().unwrap()).unwrap_or(5);
                        let steps = 4 + rng.below(args.get(6).map(|s| s.parse().unwrap()).unwrap_or(14));
                        bddmode::gen_script(&mut rng, max_atoms, steps)
                    }
                    "semops" => {
                        let steps = 3 + rng.below(args.get(5).map(|s| s.parse().unwrap()).unwrap_or(12));
                        semopsmode::gen_script(&mut rng, steps)
                    }
                    _ => panic!("unknown mode"),
                };
                writeln!(out, "{}", req).unwrap();
            }
        }
        "run" => {
            std::panic::set_hook(Box::new(|info| {
                let loc = info.location().map(|l| format!("{}:{}", l.file(), l.line())).unwrap_or_default();
                LAST_PANIC.with(|p| *p.borrow_mut() = loc);
            }));
            let stdin = std::io::stdin();
            for line in stdin.lock().lines() {
                let line = line.unwrap();
                if line.trim().is_empty() {
                    continue;
                }
                let req = parse(&line).expect("parse request");
                let res = std::panic::catch_unwind(|| match mode {
                    "bdd" => bddmode::run(&req),
                    "semops" => semopsmode::run(&req),
                    "compile" => compilemode::run(&req),
                    "det" => compilemode::run_det(&req),
                    "watch" => watchmode::run(&req),
                    "sub" => compilemode::run_sub(&req),
                    _ => panic!("unknown mode"),
                });
                match res {
                    Ok((reply, oracle)) => {
                        writeln!(out, "{}\t{}", reply, oracle).unwrap();
                        out.flush().unwrap(); // a later request may abort the process (stack overflow)
                    }
                    Err(e) => {
                        let msg = e.downcast_ref::<String>().cloned().or_else(|| e.downcast_ref::<&str>().map(|s| s.to_string())).unwrap_or_default();
                        let loc = LAST_PANIC.with(|p| p.borrow().clone());
                        let site = loc.rsplit('/').next().unwrap_or("").to_string();
                        writeln!(out, "(panic {} {})\t(oracle fail c04.panic@{})", quote(&loc), quote(&msg.chars().take(160).collect::<String>()), site).unwrap();
                        out.flush().unwrap();
                    }
                }
            }
        }
        _ => panic!("unknown command"),
    }
}
