import BeffVerif.Sexp
import BeffVerif.Model.Bdd
import BeffVerif.Lemmas.Bdd
import BeffVerif.Lemmas.Dnf
import BeffVerif.Driver.BddOps
