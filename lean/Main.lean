import BeffVerif.Sexp
import BeffVerif.Driver.BddOps
import BeffVerif.Driver.ShaOps
import BeffVerif.Driver.RtOps
import BeffVerif.Driver.ProgOps
import BeffVerif.Driver.SchemaOps
import BeffVerif.Driver.SplitOps
import BeffVerif.Driver.WatchOps
import BeffVerif.Driver.SubOps
import BeffVerif.Driver.SemOps
import BeffVerif.Driver.H256Ops
import BeffVerif.Driver.SemTypeOps
/-! Line-protocol driver: one request S-expression per line on stdin, one reply per line on stdout. -/
open BeffVerif

/-- second channel: hypotheses of partial theorems violated by the request (empty for most ops) -/
def hyps (req : Sexp) : Option Sexp :=
  match req with
  | .list [.atom "rt", env, rt, val, .atom _] => some (Driver.rtHyps env rt val)
  | .list [.atom "prog", _, prog, _, .list vals] => some (Driver.progSpec prog vals)
  | .list [.atom "strict", _, prog, _, .list vals] => some (Driver.strictSpec prog vals)
  | .list [.atom "rewrite", _, p, _, _, q, _, .list script] => some (Driver.rewriteHyps p q script)
  | .list [.atom "describe", _, prog, _, _] => some (Driver.describeHyps prog)
  | .list [.atom "sub", _, .list decls, a, b, _] => some (Driver.subSpec decls a b)
  | .list [.atom "sem", _, prog, _, .list vals] => some (Driver.semSpec prog vals)
  | .list [.atom "semstrict", _, prog, _, .list vals] => some (Driver.semStrictSpec prog vals)
  | .list [.atom "pschema", _, prog, _, _] => some (Driver.progSchemaHyps prog)
  | .list [.atom "h256", _, script, e1, _, e2, _, _] => some (Driver.h256Hyps script e1 e2)
  | .list [.atom "schema-ctx", env, .list rts, .str template, _, .list ovs, .list calls, _] => some (Driver.schemaHyps env rts template ovs calls)
  | _ => none

def handle (req : Sexp) : Sexp :=
  match req with
  | .list [.atom "bdd-ops", .list atoms, .list script] => Driver.bddOps atoms script
  | .list [.atom "sem-ops", .list atoms, .list script] => Driver.semTypeOps atoms script
  | .list (.atom "sha-bytes" :: chunks) => Driver.shaBytes chunks
  | .list (.atom "sha-toks" :: toks) => Driver.shaToks toks
  | .list [.atom "rt", env, rt, val, .atom strict] => Driver.rtOp env rt val (strict == "true")
  | .list [.atom "prog", _, prog, _, .list vals] => Driver.progOp prog vals
  | .list [.atom "strict", _, prog, _, .list vals] => Driver.strictOp prog vals
  | .list [.atom "rewrite", _, p, _, .list vals, q, _, _] => Driver.rewriteOp p q vals
  | .list [.atom "describe", _, prog, _, _] => Driver.describeOp prog
  | .list [.atom "total", _, prog, _, _] => Driver.totalOp prog
  | .list [.atom "split", _, _, _, _, _, _, _, .atom "enum"] => .atom "untied"
  | .list [.atom "split", _, p, _, .list vals, proj, _, _, _] => Driver.splitOp p proj vals
  | .list [.atom "watch", _, files, ops] => Driver.watchOp files ops
  | .list [.atom "sub", _, .list decls, a, b, _] => Driver.subOp decls a b
  | .list [.atom "sem", _, prog, _, .list vals] => Driver.semOp prog vals
  | .list [.atom "semstrict", _, prog, _, .list vals] => Driver.semStrictOp prog vals
  | .list [.atom "pschema", _, _, _, _] => .atom "untied"
  | .list [.atom "h256", _, _, e1, r1, e2, r2, .list vals] => Driver.h256Op e1 r1 e2 r2 vals
  | .list [.atom "rtd", _, e, r, _] => Driver.rtdOp e r
  | .list [.atom "loc", .str src, .atom lo, .atom hi] => Driver.locOp src (lo.toNat?.getD 0) (hi.toNat?.getD 0)
  | .list [.atom "schema-ctx", env, .list rts, .str template, container, .list ovs, .list calls, docs] =>
    Driver.schemaCtxOp env rts template (match container with | .str k => some k | _ => none) ovs calls
      (match docs with | .list ds => ds | _ => [])
  | _ => .list [.atom "bad-op"]

partial def loop (h : IO.FS.Stream) (out : IO.FS.Stream) : IO Unit := do
  let line ← h.getLine
  if line.isEmpty then return ()
  let t := line.trimAscii.toString
  if t.isEmpty then loop h out else
  match Sexp.parse t with
  | some req =>
    match hyps req with
    | some h => out.putStrLn (toString (handle req) ++ "\t" ++ toString h)
    | none => out.putStrLn (toString (handle req))
  | none => out.putStrLn "(bad-request)"
  loop h out

def main : IO Unit := do
  let out ← IO.getStdout
  loop (← IO.getStdin) out
  out.flush
