import BeffVerif.Sexp
import BeffVerif.Driver.BddOps
import BeffVerif.Driver.ShaOps
/-! Line-protocol driver: one request S-expression per line on stdin, one reply per line on stdout. -/
open BeffVerif

def handle (req : Sexp) : Sexp :=
  match req with
  | .list [.atom "bdd-ops", .list atoms, .list script] => Driver.bddOps atoms script
  | .list (.atom "sha-bytes" :: chunks) => Driver.shaBytes chunks
  | .list (.atom "sha-toks" :: toks) => Driver.shaToks toks
  | _ => .list [.atom "bad-op"]

partial def loop (h : IO.FS.Stream) (out : IO.FS.Stream) : IO Unit := do
  let line ← h.getLine
  if line.isEmpty then return ()
  let t := line.trimAscii.toString
  if t.isEmpty then loop h out else
  match Sexp.parse t with
  | some req => out.putStrLn (toString (handle req))
  | none => out.putStrLn "(bad-request)"
  loop h out

def main : IO Unit := do
  let out ← IO.getStdout
  loop (← IO.getStdin) out
  out.flush
