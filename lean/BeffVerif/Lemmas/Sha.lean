import BeffVerif.Model.Sha256
/-! Buffering / padding lemmas for the Hash256Writer (C13), parametric in the compression function. -/
namespace BeffVerif.Sha

variable (cmp : State → Bytes → State)

theorem absorb_short (s : State) (m : Bytes) (h : m.length < 64) : absorb cmp s m = (s, m) := by
  rw [absorb]; simp; omega

theorem absorb_long (s : State) (m : Bytes) (h : 64 ≤ m.length) :
    absorb cmp s m = absorb cmp (cmp s (m.take 64)) (m.drop 64) := by
  rw [absorb]; simp [h]

theorem absorb_tail_lt (s : State) (m : Bytes) : (absorb cmp s m).2.length < 64 := by
  induction s, m using absorb.induct cmp with
  | case1 s m h ih => rw [absorb_long cmp s m h]; exact ih
  | case2 s m h => rw [absorb_short cmp s m (by omega)]; simp; omega

theorem absorb_tail_len (s : State) (m : Bytes) : (absorb cmp s m).2.length = m.length % 64 := by
  induction s, m using absorb.induct cmp with
  | case1 s m h ih =>
    rw [absorb_long cmp s m h, ih]; simp [List.length_drop]; omega
  | case2 s m h => rw [absorb_short cmp s m (by omega)]; simp; omega

theorem absorb_append (s : State) (m1 m2 : Bytes) :
    absorb cmp s (m1 ++ m2) = absorb cmp (absorb cmp s m1).1 ((absorb cmp s m1).2 ++ m2) := by
  induction s, m1 using absorb.induct cmp with
  | case1 s m h ih =>
    rw [absorb_long cmp s m h, ← ih, absorb_long cmp s (m ++ m2) (by simp; omega)]
    have h1 : (m ++ m2).take 64 = m.take 64 := by
      rw [List.take_append_of_le_length h]
    have h2 : (m ++ m2).drop 64 = m.drop 64 ++ m2 := by
      rw [List.drop_append_of_le_length h]
    rw [h1, h2]
  | case2 s m h => rw [absorb_short cmp s m (by omega)]

theorem updLoop_eq_absorb (h : State) (buf data : Bytes) (hb : buf.length < 64) :
    updLoop cmp h buf data = absorb cmp h (buf ++ data) := by
  induction h, buf, data using updLoop.induct cmp with
  | case1 h buf => rw [updLoop]; simp; rw [absorb_short cmp h buf hb]
  | case2 h buf data hd hb' space buf' hfull ih =>
    rw [updLoop]; simp only [hd, hb', dite_true, dite_false]
    have hlen : buf'.length = 64 := hfull
    simp only [buf', space] at hlen hfull ⊢
    rw [if_pos hfull, ih (by simp)]
    have hge : 64 ≤ (buf ++ data).length := by
      simp [List.length_take] at hlen; simp; omega
    rw [absorb_long cmp h (buf ++ data) hge]
    have h1 : (buf ++ data).take 64 = buf ++ data.take (64 - buf.length) := by
      rw [List.take_append]; simp [List.take_of_length_le (Nat.le_of_lt hb)]
    have h2 : (buf ++ data).drop 64 = data.drop (64 - buf.length) := by
      rw [List.drop_append]; simp [List.drop_eq_nil_of_le (Nat.le_of_lt hb)]
    rw [h1, h2]; rfl
  | case3 h buf data hd hb' space buf' hnot ih =>
    rw [updLoop]; simp only [hd, hb', dite_true, dite_false]
    simp only [buf', space] at hnot ih ⊢
    rw [if_neg hnot]
    have hshort : data.length < 64 - buf.length := by
      simp [List.length_take] at hnot; omega
    have ht : data.take (64 - buf.length) = data := List.take_of_length_le (by omega)
    have hdrop : data.drop (64 - buf.length) = [] := List.drop_eq_nil_of_le (by omega)
    rw [ht, hdrop] at ih ⊢
    rw [ih (by simp; omega)]; simp
  | case4 h buf data hd hb' => exact absurd hb hb'

end BeffVerif.Sha

namespace BeffVerif.Sha
variable (cmp : State → Bytes → State)

theorem and255 (x : Nat) : x &&& 255 = x % 256 := by
  have := Nat.and_two_pow_sub_one_eq_mod x 8
  simpa using this

/-- the eight length bytes written by `digestHex` are the big-endian 64-bit bit length -/
theorem lenBytes_eq (N : Nat) :
    [UInt8.ofNat (((N / 0x100000000) >>> 24) &&& 255), UInt8.ofNat (((N / 0x100000000) >>> 16) &&& 255),
      UInt8.ofNat (((N / 0x100000000) >>> 8) &&& 255), UInt8.ofNat ((N / 0x100000000) &&& 255),
      UInt8.ofNat (((N % 0x100000000) >>> 24) &&& 255), UInt8.ofNat (((N % 0x100000000) >>> 16) &&& 255),
      UInt8.ofNat (((N % 0x100000000) >>> 8) &&& 255), UInt8.ofNat ((N % 0x100000000) &&& 255)] = be64 N := by
  simp only [be64, List.map, and255]
  have e1 : ((N / 0x100000000) >>> 24) % 256 = (N >>> 56) % 256 := by
    simp only [Nat.shiftRight_eq_div_pow]; omega
  have e2 : ((N / 0x100000000) >>> 16) % 256 = (N >>> 48) % 256 := by
    simp only [Nat.shiftRight_eq_div_pow]; omega
  have e3 : ((N / 0x100000000) >>> 8) % 256 = (N >>> 40) % 256 := by
    simp only [Nat.shiftRight_eq_div_pow]; omega
  have e4 : (N / 0x100000000) % 256 = (N >>> 32) % 256 := by
    simp only [Nat.shiftRight_eq_div_pow]
  have e5 : ((N % 0x100000000) >>> 24) % 256 = (N >>> 24) % 256 := by
    simp only [Nat.shiftRight_eq_div_pow]; omega
  have e6 : ((N % 0x100000000) >>> 16) % 256 = (N >>> 16) % 256 := by
    simp only [Nat.shiftRight_eq_div_pow]; omega
  have e7 : ((N % 0x100000000) >>> 8) % 256 = (N >>> 8) % 256 := by
    simp only [Nat.shiftRight_eq_div_pow]; omega
  have e8 : (N % 0x100000000) % 256 = (N >>> 0) % 256 := by
    simp only [Nat.shiftRight_zero]; omega
  rw [e1, e2, e3, e4, e5, e6, e7, e8]

/-- writer invariant: state and buffer are "all complete blocks of the message so far absorbed" -/
def Writer.Inv (iv : State) (w : Writer) (msg : Bytes) : Prop :=
  (w.h, w.buffer) = absorb cmp iv msg ∧ w.bytesHashed = msg.length ∧ w.finished = false

theorem Writer.inv_buffer_lt {iv : State} {w : Writer} {msg : Bytes} (h : Writer.Inv cmp iv w msg) :
    w.buffer.length < 64 := by
  have := absorb_tail_lt cmp iv msg
  rw [← h.1] at this; exact this

theorem Writer.inv_buffer_len {iv : State} {w : Writer} {msg : Bytes} (h : Writer.Inv cmp iv w msg) :
    w.buffer.length = msg.length % 64 := by
  have := absorb_tail_len cmp iv msg
  rw [← h.1] at this; exact this

theorem Writer.updateBytes_inv {iv : State} {w : Writer} {msg : Bytes} (h : Writer.Inv cmp iv w msg)
    (data : Bytes) :
    ∃ w', Writer.updateBytesWith cmp w data = some w' ∧ Writer.Inv cmp iv w' (msg ++ data) := by
  have hb := Writer.inv_buffer_lt cmp h
  obtain ⟨h1, h2, h3⟩ := h
  refine ⟨_, by simp only [Writer.updateBytesWith, h3]; rfl, ?_, ?_, ?_⟩
  · simp only []
    rw [updLoop_eq_absorb cmp w.h w.buffer data hb, absorb_append cmp iv msg data, ← h1]
  · simp [h2]
  · rfl

end BeffVerif.Sha

namespace BeffVerif.Sha
variable (cmp : State → Bytes → State)

theorem absorb_block (s : State) (blk rest : Bytes) (h : blk.length = 64) :
    absorb cmp s (blk ++ rest) = absorb cmp (cmp s blk) rest := by
  rw [absorb_long cmp s (blk ++ rest) (by simp; omega)]
  have h1 : (blk ++ rest).take 64 = blk := by
    rw [← h]; simp
  have h2 : (blk ++ rest).drop 64 = rest := by
    rw [← h]; simp
  rw [h1, h2]

theorem Writer.digest_spec {iv : State} {w : Writer} {msg : Bytes} (h : Writer.Inv cmp iv w msg) :
    Writer.digestWith cmp w = some (sha256With cmp iv msg) := by
  have hb := Writer.inv_buffer_lt cmp h
  have hl := Writer.inv_buffer_len cmp h
  obtain ⟨h1, h2, h3⟩ := h
  have hspec : sha256With cmp iv msg = (absorb cmp w.h (w.buffer ++ pad msg.length)).1 := by
    rw [sha256With, absorb_append cmp iv msg, ← h1]
  rw [hspec]
  simp only [Writer.digestWith, h3, Bool.false_eq_true, if_false, h2, lenBytes_eq]
  by_cases hc : (w.buffer ++ [0x80]).length > 56
  · rw [if_pos hc]
    have hz : zeroPad msg.length = (63 - w.buffer.length) + 56 := by
      simp at hc; unfold zeroPad; omega
    have e : w.buffer ++ pad msg.length =
        (w.buffer ++ [0x80] ++ List.replicate (64 - (w.buffer ++ [0x80]).length) 0) ++
          ((List.replicate 56 0 ++ be64 (msg.length * 8)) ++ []) := by
      simp only [pad, hz, ← List.replicate_append_replicate, List.length_append, List.length_cons,
        List.length_nil]
      have : 64 - (w.buffer.length + (0 + 1)) = 63 - w.buffer.length := by omega
      rw [this]; simp only [List.append_assoc, List.cons_append, List.nil_append, List.append_nil]
    rw [e, absorb_block cmp _ _ _ (by simp at hc ⊢; omega),
      absorb_block cmp _ _ _ (by simp [be64]), absorb_short cmp _ [] (by simp)]
  · rw [if_neg hc]
    have hz : zeroPad msg.length = 55 - w.buffer.length := by
      simp at hc; unfold zeroPad; omega
    have e : w.buffer ++ pad msg.length =
        (w.buffer ++ [0x80] ++ List.replicate (56 - (w.buffer ++ [0x80]).length) 0 ++
          be64 (msg.length * 8)) ++ [] := by
      simp only [pad, hz, List.length_append, List.length_cons, List.length_nil]
      have : 56 - (w.buffer.length + (0 + 1)) = 55 - w.buffer.length := by omega
      rw [this]; simp
    rw [e, absorb_block cmp _ _ _ (by simp [be64] at hc ⊢; omega), absorb_short cmp _ [] (by simp)]

theorem Writer.init_inv : Writer.Inv cmp IV Writer.init [] := by
  refine ⟨?_, rfl, rfl⟩
  rw [absorb_short cmp IV [] (by simp)]; rfl

/-- `updateBytes` called with any sequence of chunks -/
def Writer.updateChunksWith (w : Writer) : List Bytes → Option Writer
  | [] => some w
  | c :: cs => match Writer.updateBytesWith cmp w c with
    | some w' => Writer.updateChunksWith w' cs
    | none => none

theorem Writer.updateChunks_inv {iv : State} : ∀ (chunks : List Bytes) {w : Writer} {msg : Bytes},
    Writer.Inv cmp iv w msg →
    ∃ w', Writer.updateChunksWith cmp w chunks = some w' ∧ Writer.Inv cmp iv w' (msg ++ chunks.flatten) := by
  intro chunks
  induction chunks with
  | nil => intro w msg h; exact ⟨w, rfl, by simpa using h⟩
  | cons c cs ih =>
    intro w msg h
    obtain ⟨w1, e1, i1⟩ := Writer.updateBytes_inv cmp h c
    obtain ⟨w2, e2, i2⟩ := ih i1
    refine ⟨w2, by simp only [Writer.updateChunksWith, e1, e2], ?_⟩
    simpa [List.append_assoc] using i2

end BeffVerif.Sha
