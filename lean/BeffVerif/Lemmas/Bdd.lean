import BeffVerif.Model.Bdd
/-! Helper lemmas for the Boolean layer (C06). Property theorems live in `Props/C06.lean`. -/
namespace BeffVerif
namespace Bdd

theorem Atom.cmp_eq {a b : Atom} (h : Atom.cmp a b = .eq) : a = b := by
  unfold Atom.cmp at h
  split at h <;> try contradiction
  split at h <;> try contradiction
  split at h <;> try contradiction
  split at h <;> try contradiction
  cases a; cases b; simp at *; omega

def NodeSem (ρ : Atom → Bool) (a : Atom) (l m r : Bool) : Bool := (ρ a && l) || m || (!ρ a && r)

theorem fromNodeWith_sound {u : Bdd → Bdd → Option Bdd}
    (hu : ∀ x y r, u x y = some r → ∀ ρ, eval ρ r = (eval ρ x || eval ρ y))
    {a : Atom} {l m r res : Bdd} (h : fromNodeWith u a l m r = some res) (ρ : Atom → Bool) :
    eval ρ res = ((ρ a && eval ρ l) || eval ρ m || (!ρ a && eval ρ r)) := by
  unfold fromNodeWith at h
  split at h
  · cases h; subst_vars; simp [eval]
  · split at h
    · subst_vars
      rw [hu _ _ _ h ρ]
      cases ρ a <;> cases eval ρ r <;> cases eval ρ m <;> simp
    · cases h; rfl

theorem union_sound : ∀ (n : Nat) (b1 b2 r : Bdd), union n b1 b2 = some r →
    ∀ ρ, eval ρ r = (eval ρ b1 || eval ρ b2) := by
  intro n
  induction n with
  | zero => intro b1 b2 r h; simp [union] at h
  | succ n ih =>
    intro b1 b2 r h ρ
    by_cases hEq : b1 = b2
    · subst hEq; simp [union] at h; subst h; simp
    · cases b1 with
      | tt => simp [union, hEq] at h; subst h; simp [eval]
      | ff => simp [union, hEq] at h; subst h; simp [eval]
      | node a1 l1 m1 r1 =>
        cases b2 with
        | tt => simp [union] at h; subst h; simp [eval]
        | ff => simp [union] at h; subst h; simp [eval]
        | node a2 l2 m2 r2 =>
          simp only [union, hEq, if_false] at h
          cases hc : Atom.cmp a1 a2 <;> simp only [hc] at h
          · cases hm : union n m1 (node a2 l2 m2 r2) <;> simp only [hm] at h
            · contradiction
            · rw [fromNodeWith_sound ih h ρ, ih _ _ _ hm ρ]; simp only [eval]
              cases ρ a1 <;> cases eval ρ l1 <;> cases eval ρ m1 <;> cases eval ρ r1 <;> simp
          · have := Atom.cmp_eq hc; subst this
            cases hl : union n l1 l2 <;> cases hm : union n m1 m2 <;> cases hr : union n r1 r2 <;>
              simp only [hl, hm, hr] at h <;> try contradiction
            rw [fromNodeWith_sound ih h ρ, ih _ _ _ hl ρ, ih _ _ _ hm ρ, ih _ _ _ hr ρ]; simp only [eval]
            cases ρ a1 <;> cases eval ρ l1 <;> cases eval ρ m1 <;> cases eval ρ r1 <;>
              cases eval ρ l2 <;> cases eval ρ m2 <;> cases eval ρ r2 <;> rfl
          · cases hm : union n (node a1 l1 m1 r1) m2 <;> simp only [hm] at h
            · contradiction
            · rw [fromNodeWith_sound ih h ρ, ih _ _ _ hm ρ]; simp only [eval]
              cases ρ a2 <;> cases eval ρ l2 <;> cases eval ρ m2 <;> cases eval ρ r2 <;> simp

theorem fromNode_sound {n : Nat} {a : Atom} {l m r res : Bdd} (h : fromNode n a l m r = some res)
    (ρ : Atom → Bool) :
    eval ρ res = ((ρ a && eval ρ l) || eval ρ m || (!ρ a && eval ρ r)) :=
  fromNodeWith_sound (union_sound n) h ρ

theorem intersect_sound : ∀ (n : Nat) (b1 b2 r : Bdd), intersect n b1 b2 = some r →
    ∀ ρ, eval ρ r = (eval ρ b1 && eval ρ b2) := by
  intro n
  induction n with
  | zero => intro b1 b2 r h; simp [intersect] at h
  | succ n ih =>
    intro b1 b2 r h ρ
    by_cases hEq : b1 = b2
    · subst hEq; simp [intersect] at h; subst h; simp
    · cases b1 with
      | tt => simp [intersect, hEq] at h; subst h; simp [eval]
      | ff => simp [intersect, hEq] at h; subst h; simp [eval]
      | node a1 l1 m1 r1 =>
        cases b2 with
        | tt => simp [intersect] at h; subst h; simp [eval]
        | ff => simp [intersect] at h; subst h; simp [eval]
        | node a2 l2 m2 r2 =>
          simp only [intersect, hEq, if_false] at h
          cases hc : Atom.cmp a1 a2 <;> simp only [hc] at h
          · cases hl : intersect n l1 (node a2 l2 m2 r2) <;>
            cases hm : intersect n m1 (node a2 l2 m2 r2) <;>
            cases hr : intersect n r1 (node a2 l2 m2 r2) <;>
              simp only [hl, hm, hr] at h <;> try contradiction
            rw [fromNode_sound h ρ, ih _ _ _ hl ρ, ih _ _ _ hm ρ, ih _ _ _ hr ρ]
            generalize eval ρ (node a2 l2 m2 r2) = x
            simp only [eval]
            cases ρ a1 <;> cases eval ρ l1 <;> cases eval ρ m1 <;> cases eval ρ r1 <;> cases x <;> rfl
          · have := Atom.cmp_eq hc; subst this
            cases h1 : union n l1 m1 <;> cases h2 : union n l2 m2 <;> cases h3 : union n r1 m1 <;>
              cases h4 : union n r2 m2 <;> simp only [h1, h2, h3, h4] at h <;> try contradiction
            rename_i x1 x2 y1 y2
            cases hl : intersect n x1 x2 <;> cases hr : intersect n y1 y2 <;>
              simp only [hl, hr] at h <;> try contradiction
            rw [fromNode_sound h ρ, ih _ _ _ hl ρ, ih _ _ _ hr ρ, union_sound _ _ _ _ h1 ρ,
              union_sound _ _ _ _ h2 ρ, union_sound _ _ _ _ h3 ρ, union_sound _ _ _ _ h4 ρ]
            simp only [eval]
            cases ρ a1 <;> cases eval ρ l1 <;> cases eval ρ m1 <;> cases eval ρ r1 <;>
              cases eval ρ l2 <;> cases eval ρ m2 <;> cases eval ρ r2 <;> rfl
          · cases hl : intersect n (node a1 l1 m1 r1) l2 <;>
            cases hm : intersect n (node a1 l1 m1 r1) m2 <;>
            cases hr : intersect n (node a1 l1 m1 r1) r2 <;>
              simp only [hl, hm, hr] at h <;> try contradiction
            rw [fromNode_sound h ρ, ih _ _ _ hl ρ, ih _ _ _ hm ρ, ih _ _ _ hr ρ]
            generalize eval ρ (node a1 l1 m1 r1) = x
            simp only [eval]
            cases ρ a2 <;> cases eval ρ l2 <;> cases eval ρ m2 <;> cases eval ρ r2 <;> cases x <;> rfl

theorem complement_sound : ∀ (n : Nat) (b r : Bdd), complement n b = some r →
    ∀ ρ, eval ρ r = !eval ρ b := by
  intro n
  induction n with
  | zero => intro b r h; simp [complement] at h
  | succ n ih =>
    intro b r h ρ
    cases b with
    | tt => simp [complement] at h; subst h; simp [eval]
    | ff => simp [complement] at h; subst h; simp [eval]
    | node a l m rr =>
      simp only [complement] at h
      split at h
      · rename_i hr; subst hr
        cases h1 : union n l m <;> simp only [h1] at h <;> try contradiction
        rename_i lm
        cases hx : complement n lm <;> cases hy : complement n m <;> simp only [hx, hy] at h <;>
          try contradiction
        rw [fromNode_sound h ρ, ih _ _ hx ρ, ih _ _ hy ρ, union_sound _ _ _ _ h1 ρ]
        simp only [eval]
        cases ρ a <;> cases eval ρ l <;> cases eval ρ m <;> rfl
      · split at h
        · rename_i hl; subst hl
          cases h1 : union n rr m <;> simp only [h1] at h <;> try contradiction
          rename_i rm
          cases hx : complement n m <;> cases hy : complement n rm <;> simp only [hx, hy] at h <;>
            try contradiction
          rw [fromNode_sound h ρ, ih _ _ hx ρ, ih _ _ hy ρ, union_sound _ _ _ _ h1 ρ]
          simp only [eval]
          cases ρ a <;> cases eval ρ rr <;> cases eval ρ m <;> rfl
        · split at h
          · rename_i hm; subst hm
            cases h1 : union n l rr <;> simp only [h1] at h <;> try contradiction
            rename_i lr
            cases hx : complement n l <;> cases hy : complement n lr <;> cases hz : complement n rr <;>
              simp only [hx, hy, hz] at h <;> try contradiction
            rw [fromNode_sound h ρ, ih _ _ hx ρ, ih _ _ hy ρ, ih _ _ hz ρ, union_sound _ _ _ _ h1 ρ]
            simp only [eval]
            cases ρ a <;> cases eval ρ l <;> cases eval ρ rr <;> rfl
          · cases h1 : union n l m <;> cases h2 : union n rr m <;> simp only [h1, h2] at h <;>
              try contradiction
            rename_i lm rm
            cases hx : complement n lm <;> cases hy : complement n rm <;> simp only [hx, hy] at h <;>
              try contradiction
            rw [fromNode_sound h ρ, ih _ _ hx ρ, ih _ _ hy ρ, union_sound _ _ _ _ h1 ρ,
              union_sound _ _ _ _ h2 ρ]
            simp only [eval]
            cases ρ a <;> cases eval ρ l <;> cases eval ρ m <;> cases eval ρ rr <;> rfl

theorem diff_sound : ∀ (n : Nat) (b1 b2 r : Bdd), diff n b1 b2 = some r →
    ∀ ρ, eval ρ r = (eval ρ b1 && !eval ρ b2) := by
  intro n
  induction n with
  | zero => intro b1 b2 r h; simp [diff] at h
  | succ n ih =>
    intro b1 b2 r h ρ
    by_cases hEq : b1 = b2
    · subst hEq; simp [diff] at h; subst h; simp [eval]
    · cases b2 with
      | tt => simp [diff, hEq] at h; subst h; simp [eval]
      | ff => simp [diff, hEq] at h; subst h; simp [eval]
      | node a2 l2 m2 r2 =>
        cases b1 with
        | tt => simp [diff] at h; rw [complement_sound _ _ _ h ρ]; simp [eval]
        | ff => simp [diff] at h; subst h; simp [eval]
        | node a1 l1 m1 r1 =>
          simp only [diff, hEq, if_false] at h
          cases hc : Atom.cmp a1 a2 <;> simp only [hc] at h
          · cases h1 : union n l1 m1 <;> cases h2 : union n r1 m1 <;> simp only [h1, h2] at h <;>
              try contradiction
            rename_i x y
            cases hl : diff n x (node a2 l2 m2 r2) <;> cases hr : diff n y (node a2 l2 m2 r2) <;>
              simp only [hl, hr] at h <;> try contradiction
            rw [fromNode_sound h ρ, ih _ _ _ hl ρ, ih _ _ _ hr ρ, union_sound _ _ _ _ h1 ρ,
              union_sound _ _ _ _ h2 ρ]
            generalize eval ρ (node a2 l2 m2 r2) = z
            simp only [eval]
            cases ρ a1 <;> cases eval ρ l1 <;> cases eval ρ m1 <;> cases eval ρ r1 <;> cases z <;> rfl
          · have := Atom.cmp_eq hc; subst this
            cases h1 : union n l1 m1 <;> cases h2 : union n l2 m2 <;> cases h3 : union n r1 m1 <;>
              cases h4 : union n r2 m2 <;> simp only [h1, h2, h3, h4] at h <;> try contradiction
            rename_i x1 x2 y1 y2
            cases hl : diff n x1 x2 <;> cases hr : diff n y1 y2 <;>
              simp only [hl, hr] at h <;> try contradiction
            rw [fromNode_sound h ρ, ih _ _ _ hl ρ, ih _ _ _ hr ρ, union_sound _ _ _ _ h1 ρ,
              union_sound _ _ _ _ h2 ρ, union_sound _ _ _ _ h3 ρ, union_sound _ _ _ _ h4 ρ]
            simp only [eval]
            cases ρ a1 <;> cases eval ρ l1 <;> cases eval ρ m1 <;> cases eval ρ r1 <;>
              cases eval ρ l2 <;> cases eval ρ m2 <;> cases eval ρ r2 <;> rfl
          · cases h1 : union n l2 m2 <;> cases h2 : union n r2 m2 <;> simp only [h1, h2] at h <;>
              try contradiction
            rename_i x y
            cases hl : diff n (node a1 l1 m1 r1) x <;> cases hr : diff n (node a1 l1 m1 r1) y <;>
              simp only [hl, hr] at h <;> try contradiction
            rw [fromNode_sound h ρ, ih _ _ _ hl ρ, ih _ _ _ hr ρ, union_sound _ _ _ _ h1 ρ,
              union_sound _ _ _ _ h2 ρ]
            generalize eval ρ (node a1 l1 m1 r1) = z
            simp only [eval]
            cases ρ a2 <;> cases eval ρ l2 <;> cases eval ρ m2 <;> cases eval ρ r2 <;> cases z <;> rfl

end Bdd
end BeffVerif
