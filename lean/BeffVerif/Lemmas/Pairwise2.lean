/-!
Element-wise relation of two lists (core Lean has no `List.Forall₂`): used by the C13 and C01 proofs to relate the
children of two nodes position by position.
-/
namespace BeffVerif

/-- element-wise relation of two lists of the same length -/
def Pairwise2 {α β : Type} (P : α → β → Prop) : List α → List β → Prop
  | [], [] => True
  | x :: xs, y :: ys => P x y ∧ Pairwise2 P xs ys
  | _, _ => False


theorem pairwise2_length {α β : Type} {P : α → β → Prop} : ∀ {xs : List α} {ys : List β},
    Pairwise2 P xs ys → xs.length = ys.length := by
  intro xs
  induction xs with
  | nil => intro ys h; cases ys with
    | nil => rfl
    | cons y ys => exact absurd h (by simp [Pairwise2])
  | cons x xs ih => intro ys h; cases ys with
    | nil => exact absurd h (by simp [Pairwise2])
    | cons y ys => simp only [Pairwise2] at h; simp [ih h.2]

theorem pairwise2_left {α β : Type} {P : α → β → Prop} : ∀ {xs : List α} {ys : List β},
    Pairwise2 P xs ys → ∀ x ∈ xs, ∃ y ∈ ys, P x y := by
  intro xs
  induction xs with
  | nil => intro ys _ x hx; cases hx
  | cons a xs ih => intro ys h x hx; cases ys with
    | nil => exact absurd h (by simp [Pairwise2])
    | cons b ys =>
      simp only [Pairwise2] at h
      rcases List.mem_cons.1 hx with e | hx
      · subst e; exact ⟨b, by simp, h.1⟩
      · obtain ⟨y, hy, hp⟩ := ih h.2 x hx
        exact ⟨y, List.mem_cons_of_mem _ hy, hp⟩

theorem pairwise2_right {α β : Type} {P : α → β → Prop} : ∀ {xs : List α} {ys : List β},
    Pairwise2 P xs ys → ∀ y ∈ ys, ∃ x ∈ xs, P x y := by
  intro xs
  induction xs with
  | nil => intro ys h y hy; cases ys with
    | nil => cases hy
    | cons b ys => exact absurd h (by simp [Pairwise2])
  | cons a xs ih => intro ys h y hy; cases ys with
    | nil => cases hy
    | cons b ys =>
      simp only [Pairwise2] at h
      rcases List.mem_cons.1 hy with e | hy
      · subst e; exact ⟨a, by simp, h.1⟩
      · obtain ⟨x, hx, hp⟩ := ih h.2 y hy
        exact ⟨x, List.mem_cons_of_mem _ hx, hp⟩

theorem pairwise2_zip {α β γ : Type} {P : α → β → Prop} : ∀ (xs : List α) (ys : List β) (r : List γ),
    Pairwise2 P xs ys → Pairwise2 (fun (a : α × γ) (b : β × γ) => P a.1 b.1 ∧ a.2 = b.2) (xs.zip r) (ys.zip r) := by
  intro xs
  induction xs with
  | nil => intro ys r h; cases ys with
    | nil => simp [Pairwise2]
    | cons y ys => exact absurd h (by simp [Pairwise2])
  | cons x xs ih => intro ys r h; cases ys with
    | nil => exact absurd h (by simp [Pairwise2])
    | cons y ys =>
      simp only [Pairwise2] at h
      cases r with
      | nil => simp [Pairwise2]
      | cons c r => simp only [List.zip_cons_cons]; exact ⟨⟨h.1, rfl⟩, ih ys r h.2⟩

theorem pairwise2_mono {α β : Type} {P Q : α → β → Prop} (hpq : ∀ a b, P a b → Q a b) : ∀ {xs : List α} {ys : List β},
    Pairwise2 P xs ys → Pairwise2 Q xs ys := by
  intro xs
  induction xs with
  | nil => intro ys h; cases ys with
    | nil => trivial
    | cons y ys => exact absurd h (by simp [Pairwise2])
  | cons x xs ih => intro ys h; cases ys with
    | nil => exact absurd h (by simp [Pairwise2])
    | cons y ys => simp only [Pairwise2] at h ⊢; exact ⟨hpq _ _ h.1, ih h.2⟩


end BeffVerif
