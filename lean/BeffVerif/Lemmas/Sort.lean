import BeffVerif.Model.JsVal
/-!
Sorting lemmas shared by C10 (emission order) and C13 (canonical order of properties / constants): `sortBy` only
reorders, its result is sorted for a total preorder, and a sorted list is determined by its elements when the order is
antisymmetric on them. Kept in namespace `BeffVerif.C10` (their first user).
-/
namespace BeffVerif.C10
open BeffVerif JsVal

section sorting
variable {α : Type} (le : α → α → Bool)

theorem insertBy_perm (x : α) (l : List α) : (insertBy le x l).Perm (x :: l) := by
  induction l with
  | nil => exact List.Perm.refl _
  | cons y ys ih =>
    simp only [insertBy]
    split
    · exact List.Perm.refl _
    · exact (List.Perm.cons y ih).trans (List.Perm.swap x y ys)

/-- the sort used for emission only reorders -/
theorem sortBy_perm (l : List α) : (sortBy le l).Perm l := by
  induction l with
  | nil => exact List.Perm.refl _
  | cons x xs ih =>
    simp only [sortBy, List.foldr_cons]
    exact (insertBy_perm le x _).trans (List.Perm.cons x ih)

def Sorted (l : List α) : Prop := l.Pairwise (fun a b => le a b = true)

theorem insertBy_sorted (htot : ∀ a b, le a b = true ∨ le b a = true)
    (htrans : ∀ a b c, le a b = true → le b c = true → le a c = true)
    (x : α) (l : List α) (h : Sorted le l) : Sorted le (insertBy le x l) := by
  induction l with
  | nil => simp [insertBy, Sorted]
  | cons y ys ih =>
    simp only [insertBy]
    unfold Sorted at h ih ⊢
    rw [List.pairwise_cons] at h
    split
    · rename_i hxy
      rw [List.pairwise_cons]
      refine ⟨?_, List.pairwise_cons.2 h⟩
      intro b hb
      rcases List.mem_cons.1 hb with e | hb
      · subst e; exact hxy
      · exact htrans _ _ _ hxy (h.1 b hb)
    · rename_i hxy
      have hyx : le y x = true := by
        rcases htot x y with h' | h'
        · exact absurd h' hxy
        · exact h'
      rw [List.pairwise_cons]
      refine ⟨?_, ih h.2⟩
      intro b hb
      have := (insertBy_perm le x ys).mem_iff.1 hb
      rcases List.mem_cons.1 this with e | hb'
      · subst e; exact hyx
      · exact h.1 b hb'

theorem sortBy_sorted (htot : ∀ a b, le a b = true ∨ le b a = true)
    (htrans : ∀ a b c, le a b = true → le b c = true → le a c = true) (l : List α) : Sorted le (sortBy le l) := by
  induction l with
  | nil => simp [sortBy, Sorted]
  | cons x xs ih =>
    simp only [sortBy, List.foldr_cons]
    exact insertBy_sorted le htot htrans x _ ih

/-- a sorted list is determined by its elements when the order is antisymmetric on them (distinct keys) -/
theorem sorted_perm_eq (hanti : ∀ a b, le a b = true → le b a = true → a = b) :
    ∀ (l1 l2 : List α), l1.Perm l2 → Sorted le l1 → Sorted le l2 → l1 = l2 := by
  intro l1
  induction l1 with
  | nil => intro l2 hp _ _; exact (List.Perm.nil_eq hp)
  | cons x xs ih =>
    intro l2 hp h1 h2
    cases l2 with
    | nil => exact absurd hp.symm (by simp)
    | cons y ys =>
      unfold Sorted at h1 h2
      rw [List.pairwise_cons] at h1 h2
      have hx : x ∈ y :: ys := hp.mem_iff.1 (by simp)
      have hy : y ∈ x :: xs := hp.mem_iff.2 (by simp)
      have hxy : x = y := by
        rcases List.mem_cons.1 hx with e | hx'
        · exact e
        · rcases List.mem_cons.1 hy with e | hy'
          · exact e.symm
          · exact hanti _ _ (h1.1 y hy') (h2.1 x hx')
      subst hxy
      rw [ih ys (List.Perm.cons_inv hp) h1.2 h2.2]

/-- Emission order is independent of registration order: sorting any permutation of the registered items (file
registration order, hash-iteration order, import order) yields the same sequence. -/
theorem emit_order_independent (htot : ∀ a b, le a b = true ∨ le b a = true)
    (htrans : ∀ a b c, le a b = true → le b c = true → le a c = true)
    (hanti : ∀ a b, le a b = true → le b a = true → a = b)
    (l1 l2 : List α) (h : l1.Perm l2) : sortBy le l1 = sortBy le l2 :=
  sorted_perm_eq le hanti _ _ (((sortBy_perm le l1).trans h).trans (sortBy_perm le l2).symm)
    (sortBy_sorted le htot htrans l1) (sortBy_sorted le htot htrans l2)

end sorting

end BeffVerif.C10
