import BeffVerif.Model.Report
/-! Helper lemmas for the runtime layer (C03, C11, C12). -/
namespace BeffVerif
namespace RT

/-- `b₁ ⟶ b₂` lifted to results: same outcome class, and `true` is preserved -/
def ResLe (r s : Res Bool) : Prop :=
  match r with
  | .ok b => ∃ b', s = .ok b' ∧ (b = true → b' = true)
  | .throw c => s = .throw c
  | .nofuel => s = .nofuel

theorem ResLe.refl (r : Res Bool) : ResLe r r := by
  cases r <;> simp [ResLe]

theorem allShort_le {α : Type} (f g : α → Res Bool) (l : List α)
    (h : ∀ x ∈ l, ResLe (f x) (g x)) (hf : ∀ x ∈ l, ∀ b, f x = .ok b → b = false → g x = .ok false ∨ g x = .ok true) :
    allShort f l = .ok true → allShort g l = .ok true := by
  induction l with
  | nil => intro _; rfl
  | cons x xs ih =>
    intro hx
    simp only [allShort] at hx ⊢
    have hle := h x (by simp)
    cases hfx : f x with
    | ok b =>
      cases b with
      | true =>
        rw [hfx] at hle hx
        obtain ⟨b', e, hb⟩ := hle
        rw [e, hb rfl]
        exact ih (fun y hy => h y (by simp [hy])) (fun y hy => hf y (by simp [hy])) hx
      | false => rw [hfx] at hx; simp at hx
    | throw c => rw [hfx] at hx; simp at hx
    | nofuel => rw [hfx] at hx; simp at hx

theorem anyShort_le {α : Type} (f g : α → Res Bool) (l : List α)
    (h : ∀ x ∈ l, ResLe (f x) (g x)) :
    anyShort f l = .ok true → anyShort g l = .ok true := by
  induction l with
  | nil => intro hx; simp [anyShort] at hx
  | cons x xs ih =>
    intro hx
    simp only [anyShort] at hx ⊢
    have hle := h x (by simp)
    cases hfx : f x with
    | ok b =>
      rw [hfx] at hle hx
      obtain ⟨b', e, hb⟩ := hle
      cases b with
      | true => rw [e, hb rfl]
      | false =>
        rw [e]
        cases b' with
        | true => rfl
        | false => exact ih (fun y hy => h y (by simp [hy])) hx
    | throw c => rw [hfx] at hx; simp at hx
    | nofuel => rw [hfx] at hx; simp at hx

end RT
end BeffVerif

namespace BeffVerif
namespace RT

theorem allShort_true_iff {α : Type} (f : α → Res Bool) (l : List α) :
    allShort f l = .ok true ↔ ∀ x ∈ l, f x = .ok true := by
  induction l with
  | nil => simp [allShort]
  | cons x xs ih =>
    simp only [allShort, List.mem_cons, forall_eq_or_imp]
    cases hfx : f x with
    | ok b => cases b <;> simp [ih]
    | throw c => simp
    | nofuel => simp

theorem allShort_false {α : Type} (f : α → Res Bool) (l : List α) :
    allShort f l = .ok false → ∃ x ∈ l, f x = .ok false := by
  induction l with
  | nil => simp [allShort]
  | cons x xs ih =>
    simp only [allShort, List.mem_cons]
    cases hfx : f x with
    | ok b =>
      cases b with
      | true => intro h; obtain ⟨y, hy, e⟩ := ih h; exact ⟨y, Or.inr hy, e⟩
      | false => intro _; exact ⟨x, Or.inl rfl, hfx⟩
    | throw c => simp
    | nofuel => simp

theorem anyShort_false_iff {α : Type} (f : α → Res Bool) (l : List α) :
    anyShort f l = .ok false ↔ ∀ x ∈ l, f x = .ok false := by
  induction l with
  | nil => simp [anyShort]
  | cons x xs ih =>
    simp only [anyShort, List.mem_cons, forall_eq_or_imp]
    cases hfx : f x with
    | ok b => cases b <;> simp [ih]
    | throw c => simp
    | nofuel => simp

theorem anyShort_true {α : Type} (f : α → Res Bool) (l : List α) :
    anyShort f l = .ok true → ∃ x ∈ l, f x = .ok true := by
  induction l with
  | nil => simp [anyShort]
  | cons x xs ih =>
    simp only [anyShort, List.mem_cons]
    cases hfx : f x with
    | ok b =>
      cases b with
      | false => intro h; obtain ⟨y, hy, e⟩ := ih h; exact ⟨y, Or.inr hy, e⟩
      | true => intro _; exact ⟨x, Or.inl rfl, hfx⟩
    | throw c => simp
    | nofuel => simp

/-- if every element accepted by `f` is not rejected by `g`, a list accepted by `f` is not rejected by `g` -/
theorem allShort_mono {α : Type} (f g : α → Res Bool) (l : List α)
    (h : ∀ x ∈ l, f x = .ok true → g x ≠ .ok false) :
    allShort f l = .ok true → allShort g l ≠ .ok false := by
  intro hf hg
  obtain ⟨x, hx, e⟩ := allShort_false g l hg
  exact h x hx ((allShort_true_iff f l).1 hf x hx) e

theorem anyShort_mono {α : Type} (f g : α → Res Bool) (l : List α)
    (h : ∀ x ∈ l, f x = .ok true → g x ≠ .ok false) :
    anyShort f l = .ok true → anyShort g l ≠ .ok false := by
  intro hf hg
  obtain ⟨x, hx, e⟩ := anyShort_true f l hf
  exact h x hx e ((anyShort_false_iff g l).1 hg x hx)

end RT
end BeffVerif

namespace BeffVerif
namespace RT
open JsVal

/-- strict acceptance is never contradicted by default-mode rejection (same fuel) -/
theorem validate_strict_mono (env : Env) : ∀ (n : Nat) (rt : RT) (v : JsVal),
    validate env true n rt v = .ok true → validate env false n rt v ≠ .ok false := by
  intro n
  induction n with
  | zero => intro rt v h; simp [validate] at h
  | succ n ih =>
    intro rt v h
    cases rt with
    | typeof t => simp only [validate] at h ⊢; rw [h]; simp
    | any => simp [validate]
    | nullish d => simp only [validate] at h ⊢; rw [h]; simp
    | never => simp [validate] at h
    | const c => simp only [validate] at h ⊢; rw [h]; simp
    | regex tpl d => simp only [validate] at h ⊢; rw [h]; simp
    | date => simp only [validate] at h ⊢; rw [h]; simp
    | bigint => simp only [validate] at h ⊢; rw [h]; simp
    | typed c => simp only [validate] at h ⊢; rw [h]; simp
    | strfmt fs => simp only [validate] at h ⊢; rw [h]; simp
    | numfmt fs => simp only [validate] at h ⊢; rw [h]; simp
    | consts vs => simp only [validate] at h ⊢; rw [h]; simp
    | tuple pre rest =>
      simp only [validate] at h ⊢
      cases v with
      | arr items =>
        simp only at h ⊢
        cases hp : allShort (fun (p : RT × Nat) => validate env true n p.1 (items.getD p.2 .undef))
            (pre.zip (List.range pre.length)) with
        | ok b =>
          cases b with
          | true =>
            rw [hp] at h
            have hp' := allShort_mono _ (fun (p : RT × Nat) => validate env false n p.1 (items.getD p.2 .undef)) _
              (fun x _ hx => ih x.1 _ hx) hp
            cases hq : allShort (fun (p : RT × Nat) => validate env false n p.1 (items.getD p.2 .undef))
                (pre.zip (List.range pre.length)) with
            | ok b' =>
              cases b' with
              | true =>
                cases rest with
                | some r => exact allShort_mono _ _ _ (fun x _ hx => ih r x hx) h
                | none => simp only at h ⊢; rw [h]; simp
              | false => exact absurd hq hp'
            | throw c => simp
            | nofuel => simp
          | false => rw [hp] at h; simp at h
        | throw c => rw [hp] at h; simp at h
        | nofuel => rw [hp] at h; simp at h
      | _ => simp at h
    | allOf ts =>
      simp only [validate] at h ⊢
      exact allShort_mono _ _ _ (fun t _ ht => by
        by_cases ho : v.typeOf = "object"
        · simp only [ho, if_true] at ht ⊢; exact ih t v ht
        · simp [ho] at ht) h
    | anyOf ts =>
      simp only [validate] at h ⊢
      exact anyShort_mono _ _ _ (fun t _ ht => ih t v ht) h
    | array t =>
      simp only [validate] at h ⊢
      cases v with
      | arr items => exact allShort_mono _ _ _ (fun x _ hx => ih t x hx) h
      | _ => simp at h
    | map kt vt =>
      simp only [validate] at h ⊢
      cases v with
      | map es =>
        refine allShort_mono _ _ _ (fun e _ he => ?_) h
        cases hk : validate env true n kt e.1 with
        | ok b =>
          cases b with
          | true =>
            rw [hk] at he
            have := ih kt e.1 hk
            cases hk' : validate env false n kt e.1 with
            | ok b' =>
              cases b' with
              | true => exact ih vt e.2 he
              | false => exact absurd hk' this
            | throw c => simp
            | nofuel => simp
          | false => rw [hk] at he; simp at he
        | throw c => rw [hk] at he; simp at he
        | nofuel => rw [hk] at he; simp at he
      | _ => simp at h
    | set t =>
      simp only [validate] at h ⊢
      cases v with
      | set xs => exact allShort_mono _ _ _ (fun x _ hx => ih t x hx) h
      | _ => simp at h
    | disc schemas key mapping sm =>
      simp only [validate] at h ⊢
      by_cases ho : v.isObjectLike
      · simp only [ho, Bool.not_true, Bool.false_eq_true, if_false] at h ⊢
        by_cases hd : (v.getProp key).isNullish
        · simp [hd] at h
        · simp only [hd, Bool.false_eq_true, if_false] at h ⊢
          cases hm : lookupMapping mapping (v.getProp key) with
          | none => rw [hm] at h; simp at h
          | some t => rw [hm] at h; exact ih t v h
      · simp [ho] at h
    | optional t =>
      simp only [validate] at h ⊢
      by_cases hn : v.isNullish
      · simp [hn]
      · simp only [hn, Bool.false_eq_true, if_false] at h ⊢; exact ih t v h
    | object props indexed =>
      simp only [validate] at h ⊢
      by_cases ho : (v.isObjectLike && !v.isArray) = true
      · simp only [ho, Bool.not_true, Bool.false_eq_true, if_false] at h ⊢
        cases hp : allShort (fun (p : String × RT) => validate env true n p.2 (v.getProp p.1)) props with
        | ok b =>
          cases b with
          | true =>
            rw [hp] at h
            have hp' := allShort_mono _ (fun (p : String × RT) => validate env false n p.2 (v.getProp p.1)) _
              (fun x _ hx => ih x.2 _ hx) hp
            cases hq : allShort (fun (p : String × RT) => validate env false n p.2 (v.getProp p.1)) props with
            | ok b' =>
              cases b' with
              | true =>
                simp only at h ⊢
                by_cases hi : indexed.length > 0
                · simp only [hi, if_true] at h ⊢
                  refine allShort_mono _ _ _ (fun k _ hk => ?_) h
                  simp only [indexedAccepts] at hk ⊢
                  refine anyShort_mono _ _ _ (fun p _ hpk => ?_) hk
                  cases hk1 : validate env true n p.1 (.str k) with
                  | ok b1 =>
                    cases b1 with
                    | true =>
                      rw [hk1] at hpk
                      have := ih p.1 (.str k) hk1
                      cases hk2 : validate env false n p.1 (.str k) with
                      | ok b2 =>
                        cases b2 with
                        | true => exact ih p.2 _ hpk
                        | false => exact absurd hk2 this
                      | throw c => simp
                      | nofuel => simp
                    | false => rw [hk1] at hpk; simp at hpk
                  | throw c => rw [hk1] at hpk; simp at hpk
                  | nofuel => rw [hk1] at hpk; simp at hpk
                · simp [hi]
              | false => exact absurd hq hp'
            | throw c => simp
            | nofuel => simp
          | false => rw [hp] at h; simp at h
        | throw c => rw [hp] at h; simp at h
        | nofuel => rw [hp] at h; simp at h
      · simp [ho] at h
    | ref name =>
      simp only [validate] at h ⊢
      cases hl : env.lookup name with
      | none => simp
      | some t => rw [hl] at h; exact ih t v h
    | described d t =>
      simp only [validate] at h ⊢
      exact ih t v h

end RT
end BeffVerif
