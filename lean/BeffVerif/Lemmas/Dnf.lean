import BeffVerif.Lemmas.Bdd
namespace BeffVerif
namespace Dnf
open Bdd

theorem eval_append (ρ : Atom → Bool) (d1 d2 : Dnf) : eval ρ (d1 ++ d2) = (eval ρ d1 || eval ρ d2) := by
  simp [eval, List.any_append]

theorem eval_ofBddAcc (ρ : Atom → Bool) : ∀ (b : Bdd) (pos neg : List Atom) (acc : Dnf),
    eval ρ (ofBddAcc b pos neg acc) =
      (eval ρ acc || (pos.all ρ && neg.all (fun a => !ρ a) && Bdd.eval ρ b)) := by
  intro b
  induction b with
  | tt => intro pos neg acc; simp [ofBddAcc, eval, Conj.eval, Bdd.eval]
  | ff => intro pos neg acc; simp [ofBddAcc, Bdd.eval]
  | node a l m r ihl ihm ihr =>
    intro pos neg acc
    simp only [ofBddAcc, ihl, ihm, ihr, Bdd.eval, List.all_append, List.all_cons, List.all_nil]
    cases eval ρ acc <;> cases pos.all ρ <;> cases neg.all (fun a => !ρ a) <;> cases ρ a <;>
      cases Bdd.eval ρ l <;> cases Bdd.eval ρ m <;> cases Bdd.eval ρ r <;> rfl

theorem conjPos_sound (n : Nat) (ρ : Atom → Bool) : ∀ (as : List Atom) (b r : Bdd),
    conjPos n as b = some r → Bdd.eval ρ r = (Bdd.eval ρ b && as.all ρ) := by
  intro as
  induction as with
  | nil => intro b r h; simp [conjPos] at h; subst h; simp
  | cons a as ih =>
    intro b r h
    simp only [conjPos] at h
    cases h1 : Bdd.intersect n b (Bdd.fromAtom a) <;> simp only [h1] at h <;> try contradiction
    rw [ih _ _ h, intersect_sound _ _ _ _ h1 ρ]
    simp [Bdd.fromAtom, Bdd.eval, Bool.and_assoc]

theorem conjNeg_sound (n : Nat) (ρ : Atom → Bool) : ∀ (as : List Atom) (b r : Bdd),
    conjNeg n as b = some r → Bdd.eval ρ r = (Bdd.eval ρ b && as.all (fun a => !ρ a)) := by
  intro as
  induction as with
  | nil => intro b r h; simp [conjNeg] at h; subst h; simp
  | cons a as ih =>
    intro b r h
    simp only [conjNeg] at h
    cases h0 : Bdd.complement n (Bdd.fromAtom a) <;> simp only [h0] at h <;> try contradiction
    rename_i na
    cases h1 : Bdd.intersect n b na <;> simp only [h1] at h <;> try contradiction
    rw [ih _ _ h, intersect_sound _ _ _ _ h1 ρ, complement_sound _ _ _ h0 ρ]
    simp [Bdd.fromAtom, Bdd.eval, Bool.and_assoc]

theorem toBddAcc_sound (n : Nat) (ρ : Atom → Bool) : ∀ (d : Dnf) (b r : Bdd),
    toBddAcc n d b = some r → Bdd.eval ρ r = (Bdd.eval ρ b || eval ρ d) := by
  intro d
  induction d with
  | nil => intro b r h; simp [toBddAcc] at h; subst h; simp [eval]
  | cons c cs ih =>
    intro b r h
    simp only [toBddAcc] at h
    cases h0 : conjPos n c.pos .tt <;> simp only [h0] at h <;> try contradiction
    rename_i p
    cases h1 : conjNeg n c.neg p <;> simp only [h1] at h <;> try contradiction
    rename_i cb
    cases h2 : Bdd.union n b cb <;> simp only [h2] at h <;> try contradiction
    rw [ih _ _ h, union_sound _ _ _ _ h2 ρ, conjNeg_sound n ρ _ _ _ h1, conjPos_sound n ρ _ _ _ h0]
    simp [eval, Conj.eval, Bdd.eval, Bool.or_assoc]

end Dnf
end BeffVerif
