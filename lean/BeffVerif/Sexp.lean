/-
S-expression codec used by the line protocol (DESIGN.md Appendix A).
Terms: atoms (bare words), JSON-quoted strings, lists `( … )`.
Core-only; no imports so that the driver links as a `lean_exe`.
-/
namespace BeffVerif

inductive Sexp where
  | atom (s : String)
  | str (s : String)
  | list (l : List Sexp)
  deriving Repr, Inhabited, BEq

namespace Sexp

def hexDigit (n : Nat) : Char :=
  if n < 10 then Char.ofNat (48 + n) else Char.ofNat (87 + n)

def quoteString (s : String) : String := Id.run do
  let mut out := "\""
  for c in s.toList do
    if c == '"' then out := out ++ "\\\""
    else if c == '\\' then out := out ++ "\\\\"
    else if c == '\n' then out := out ++ "\\n"
    else if c == '\r' then out := out ++ "\\r"
    else if c == '\t' then out := out ++ "\\t"
    else if c.toNat < 32 || c.toNat == 127 then
      let n := c.toNat
      out := out ++ "\\u00" ++ String.singleton (hexDigit (n / 16)) ++ String.singleton (hexDigit (n % 16))
    else out := out.push c
  return out.push '"'

partial def toString : Sexp → String
  | atom s => s
  | str s => quoteString s
  | list l => "(" ++ " ".intercalate (l.map toString) ++ ")"

instance : ToString Sexp := ⟨Sexp.toString⟩

def hexVal (c : Char) : Option Nat :=
  if '0' ≤ c && c ≤ '9' then some (c.toNat - 48)
  else if 'a' ≤ c && c ≤ 'f' then some (c.toNat - 87)
  else if 'A' ≤ c && c ≤ 'F' then some (c.toNat - 55)
  else none

/-- parse a JSON-style string body (after the opening quote); returns the string and the rest -/
partial def parseStr : List Char → String → Option (String × List Char)
  | [], _ => none
  | '"' :: rest, acc => some (acc, rest)
  | '\\' :: 'n' :: rest, acc => parseStr rest (acc.push '\n')
  | '\\' :: 'r' :: rest, acc => parseStr rest (acc.push '\r')
  | '\\' :: 't' :: rest, acc => parseStr rest (acc.push '\t')
  | '\\' :: 'b' :: rest, acc => parseStr rest (acc.push (Char.ofNat 8))
  | '\\' :: 'f' :: rest, acc => parseStr rest (acc.push (Char.ofNat 12))
  | '\\' :: 'u' :: a :: b :: c :: d :: rest, acc =>
    match hexVal a, hexVal b, hexVal c, hexVal d with
    | some a, some b, some c, some d => parseStr rest (acc.push (Char.ofNat (a * 4096 + b * 256 + c * 16 + d)))
    | _, _, _, _ => none
  | '\\' :: c :: rest, acc => parseStr rest (acc.push c)
  | c :: rest, acc => parseStr rest (acc.push c)

def isDelim (c : Char) : Bool := c == ' ' || c == '(' || c == ')' || c == '"' || c == '\n' || c == '\t' || c == '\r'

mutual
partial def parseOne : List Char → Option (Sexp × List Char)
  | [] => none
  | c :: rest =>
    if c == ' ' || c == '\n' || c == '\t' || c == '\r' then parseOne rest
    else if c == '(' then
      match parseMany rest [] with
      | some (l, rest') => some (list l, rest')
      | none => none
    else if c == ')' then none
    else if c == '"' then
      match parseStr rest "" with
      | some (s, rest') => some (str s, rest')
      | none => none
    else
      let tok := (c :: rest).takeWhile (fun c => !isDelim c)
      some (atom (String.ofList tok), (c :: rest).dropWhile (fun c => !isDelim c))
partial def parseMany : List Char → List Sexp → Option (List Sexp × List Char)
  | [], _ => none
  | c :: rest, acc =>
    if c == ' ' || c == '\n' || c == '\t' || c == '\r' then parseMany rest acc
    else if c == ')' then some (acc.reverse, rest)
    else match parseOne (c :: rest) with
      | some (s, rest') => parseMany rest' (s :: acc)
      | none => none
end

def parse (s : String) : Option Sexp :=
  match parseOne s.toList with
  | some (e, _) => some e
  | none => none

def natOf : Sexp → Option Nat
  | atom s => s.toNat?
  | _ => none

def ofBool (b : Bool) : Sexp := atom (if b then "true" else "false")

end Sexp
end BeffVerif
