import BeffVerif.Gen.NondetSites
import BeffVerif.Model.JsVal
/-!
C10 — layer E: where could the output depend on something other than the sources?
`knownSites` is the hand-maintained, justified list of every iteration over a hash container (and of every
process-dependent source) found by tools/translate/hash_iter.py. The compiler orders what it emits by explicit sorts
(`kvs.sort_by` on RuntypeUUID in parser_extractor.rs:139-146, BTreeMap/BTreeSet everywhere else); `sortBy` below is
the model of those sorts.
-/
namespace BeffVerif.Emit

def knownSites : List (String × String × String) := [
  ("packages/beff-core/src/frontend/mod.rs", "for it in &s.exprs {",
    "not a hash container: `s` is a swc `Tpl`, `exprs` a Vec (name coincides with ParsedModuleLocals.exprs)"),
  ("packages/beff-core/src/frontend/mod.rs", "let mut named_values: Vec<_> = module.symbol_exports.named_values.iter().collect();",
    "collected and SORTED by name on the next line before any use (fix D18)"),
  ("packages/beff-core/src/frontend/mod.rs", "for (name, sym) in named_values {",
    "iterates the sorted Vec, not the map"),
  ("packages/beff-core/src/frontend/mod.rs", "let mut named_unknown: Vec<_> = module.symbol_exports.named_unknown.iter().collect();",
    "collected and SORTED by name on the next line before any use (fix D18)"),
  ("packages/beff-core/src/frontend/mod.rs", "for (name, sym) in named_unknown {",
    "iterates the sorted Vec, not the map")]

def sitesOk : Bool :=
  Gen.nondetSites.all fun s => knownSites.any fun k => k.1 == s.1 && k.2.1 == s.2.1

end BeffVerif.Emit
