/-!
Layer V — JavaScript values as the client runtime observes them (DESIGN.md §2.1).
Numbers travel as their canonical JS string (`String(n)`, with "NaN", "-0", "Infinity", "-Infinity").
Objects are plain objects (own enumerable string keys in `Object.keys` order).
-/
namespace BeffVerif

inductive JsVal where
  | null
  | undef
  | bool (b : Bool)
  | num (canon : String)
  | str (s : String)
  | bigint (digits : String)
  | date (ms : String)
  | arr (items : List JsVal)
  | obj (props : List (String × JsVal))
  | map (entries : List (JsVal × JsVal))
  | set (items : List JsVal)
  | typed (ctor : String) (items : List JsVal)
  | func
  | sym
  /-- the object `<Kind>.prototype` (reachable as `v.__proto__`) -/
  | protoObj (kind : String)
  deriving Repr, Inhabited

namespace JsVal

/-- `typeof v` -/
def typeOf : JsVal → String
  | null => "object"
  | undef => "undefined"
  | bool _ => "boolean"
  | num _ => "number"
  | str _ => "string"
  | bigint _ => "bigint"
  | func => "function"
  | sym => "symbol"
  | _ => "object"

/-- `v == null` -/
def isNullish : JsVal → Bool
  | null => true
  | undef => true
  | _ => false

def isArray : JsVal → Bool
  | arr _ => true
  | protoObj k => k == "Array"
  | _ => false

/-- typeof v === "object" && v !== null -/
def isObjectLike (v : JsVal) : Bool :=
  v.typeOf == "object" && !(match v with | null => true | _ => false)

/-- numeric `===` on canonical strings: NaN ≠ NaN, -0 = 0 -/
def numStrictEq (a b : String) : Bool :=
  if a == "NaN" || b == "NaN" then false
  else (if a == "-0" then "0" else a) == (if b == "-0" then "0" else b)

/-- SameValueZero on canonical strings (Array.prototype.includes): NaN = NaN, -0 = 0 -/
def numSameValueZero (a b : String) : Bool :=
  (if a == "-0" then "0" else a) == (if b == "-0" then "0" else b)

/-- `a === b` for a primitive right operand (only primitives are ever compared by the runtime) -/
def strictEqPrim : JsVal → JsVal → Bool
  | null, null => true
  | undef, undef => true
  | bool a, bool b => a == b
  | num a, num b => numStrictEq a b
  | str a, str b => a == b
  | bigint a, bigint b => a == b
  | _, _ => false

def sameValueZeroPrim : JsVal → JsVal → Bool
  | num a, num b => numSameValueZero a b
  | a, b => strictEqPrim a b

/-- canonical array index: "0", "1", … without leading zeros, below 2^32-1 -/
def arrayIndex? (s : String) : Option Nat :=
  if s.isEmpty then none
  else if s.toList.all Char.isDigit && (s == "0" || s.toList.head? != some '0') then
    let n := s.toList.foldl (fun acc c => 10 * acc + (c.toNat - 48)) 0
    if n < 4294967295 then some n else none
  else none

/-- members every object inherits from Object.prototype (all functions) -/
def objectProtoFns : List String :=
  ["constructor", "toString", "valueOf", "hasOwnProperty", "isPrototypeOf", "propertyIsEnumerable",
   "toLocaleString", "__defineGetter__", "__defineSetter__", "__lookupGetter__", "__lookupSetter__"]

def natToCanon (n : Nat) : String := toString n

def lookupProp (props : List (String × JsVal)) (k : String) : Option JsVal :=
  match props.find? (fun p => p.1 == k) with
  | some p => some p.2
  | none => none

/-- own property lookup (no prototype chain) -/
def getOwn? : JsVal → String → Option JsVal
  | obj props, k => lookupProp props k
  | arr items, k =>
    if k == "length" then some (num (natToCanon items.length))
    else match arrayIndex? k with
      | some i => items[i]?
      | none => none
  | typed _ items, k =>
    match arrayIndex? k with
    | some i => items[i]?
    | none => none
  | protoObj "Array", "length" => some (num "0")
  | _, _ => none

/-- inherited lookup for the modelled vocabulary of property names -/
def protoOf : JsVal → JsVal
  | arr _ => protoObj "Array"
  | date _ => protoObj "Date"
  | map _ => protoObj "Map"
  | set _ => protoObj "Set"
  | typed c _ => protoObj c
  | protoObj "Object" => null
  | _ => protoObj "Object"

def getInherited (v : JsVal) (k : String) : JsVal :=
  if k == "__proto__" then protoOf v
  else if objectProtoFns.contains k then func
  else match v, k with
    | typed _ items, "length" => num (natToCanon items.length)
    | map es, "size" => num (natToCanon es.length)
    | set xs, "size" => num (natToCanon xs.length)
    | _, _ => undef

/-- `v[k]` for an object-like `v` -/
def getProp (v : JsVal) (k : String) : JsVal :=
  match getOwn? v k with
  | some x => x
  | none => getInherited v k

/-- `k in v` -/
def hasIn (v : JsVal) (k : String) : Bool :=
  (getOwn? v k).isSome || k == "__proto__" || objectProtoFns.contains k ||
    (match v, k with
      | typed _ _, "length" => true
      | map _, "size" => true
      | set _, "size" => true
      | _, _ => false)

/-- `Object.prototype.hasOwnProperty.call(v, k)` -/
def hasOwn (v : JsVal) (k : String) : Bool := (getOwn? v k).isSome

/-- `Object.keys(v)` -/
def ownKeys : JsVal → List String
  | obj props => props.map (·.1)
  | arr items => (List.range items.length).map natToCanon
  | typed _ items => (List.range items.length).map natToCanon
  | _ => []

/-- ordinary property definition on a plain object: replaces in place, otherwise array-index keys go
to their numeric position among the index keys and other keys are appended (OrdinaryOwnPropertyKeys) -/
def setProp (props : List (String × JsVal)) (k : String) (v : JsVal) : List (String × JsVal) :=
  if props.any (fun p => p.1 == k) then props.map (fun p => if p.1 == k then (k, v) else p)
  else match arrayIndex? k with
    | some i =>
      let before := props.takeWhile (fun p => match arrayIndex? p.1 with | some j => j < i | none => false)
      let after := props.dropWhile (fun p => match arrayIndex? p.1 with | some j => j < i | none => false)
      before ++ [(k, v)] ++ after
    | none => props ++ [(k, v)]

def setProps (props : List (String × JsVal)) (kvs : List (String × JsVal)) : List (String × JsVal) :=
  kvs.foldl (fun acc kv => setProp acc kv.1 kv.2) props

/-- `String(v)` / property-key coercion for the values a discriminator can hold -/
def toPropertyKey : JsVal → String
  | str s => s
  | num c => if c == "-0" then "0" else c
  | bool b => if b then "true" else "false"
  | bigint d => d
  | null => "null"
  | undef => "undefined"
  | arr items => ",".intercalate (items.map fun
      | str s => s
      | num c => if c == "-0" then "0" else c
      | bool b => if b then "true" else "false"
      | bigint d => d
      | null => ""
      | undef => ""
      | _ => "\u0000<object>")
  | _ => "\u0000<object>"

/-- insertion sort by a key, stable (used for JS `.sort()` on strings) -/
def insertBy {α : Type} (le : α → α → Bool) (x : α) : List α → List α
  | [] => [x]
  | y :: ys => if le x y then x :: y :: ys else y :: insertBy le x ys

def sortBy {α : Type} (le : α → α → Bool) (l : List α) : List α :=
  l.foldr (insertBy le) []

/-- default JS string order (UTF-16 code units; equal to code-point order for the BMP-below-surrogates
alphabet the generators use) -/
def strLe (a b : String) : Bool := a ≤ b

def sortStrings (l : List String) : List String := sortBy strLe l

end JsVal
end BeffVerif
