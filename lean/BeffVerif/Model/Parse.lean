import BeffVerif.Model.Validate
/-!
`parseAfterValidation` of every class, `deepmerge` (codegen-v2.ts:34-231, after the Map/Set fix),
and ParserFromRuntype.safeParse/parse (2396-2430).
-/
namespace BeffVerif
namespace RT
open JsVal

structure ParseOpts where
  strict : Bool
  sorted : Bool
  deriving Repr, Inhabited

/-! ### deepmerge -/

def isNotPrototypeKey (k : String) : Bool := k != "constructor" && k != "prototype" && k != "__proto__"

/-- `isMergeableObject` (after the fix: Map and Set are leaves) -/
def isMergeable : JsVal → Bool
  | .arr _ => true
  | .obj _ => true
  | _ => false

def isPrimitive (v : JsVal) : Bool := !(v.typeOf == "object") || (match v with | .null => true | _ => false)

/-- `clone` -/
def clone : Nat → JsVal → JsVal
  | 0, v => v
  | n+1, .arr items => .arr (items.map (clone n))
  | n+1, .obj props =>
    .obj ((props.filter (fun p => isNotPrototypeKey p.1)).foldl (fun acc p => setProp acc p.1 (clone n p.2)) [])
  | _, v => v

/-- `_deepmerge(target, source)` with `mergeArray = deepmergeArray` -/
def deepmerge2 : Nat → JsVal → JsVal → JsVal
  | 0, _, s => s
  | n+1, target, source =>
    if !(isMergeable source) then source                   -- isPrimitiveOrBuiltIn(source)
    else if !(isMergeable target) then clone n source      -- isPrimitiveOrBuiltIn(target)
    else match target, source with
      | .arr ts, .arr ss =>
        let il := max ts.length ss.length
        .arr ((List.range il).map fun i =>
          if i < ss.length then deepmerge2 n (ts.getD i .undef) (ss.getD i .undef)
          else clone n (ts.getD i .undef))
      | .obj tp, src =>
        if src.isArray then clone n src
        else
          -- mergeObject(target, source); `source` may be any non-array object (Date/Map/Set have no keys)
          let tkeys := tp.map (·.1)
          let skeys := src.ownKeys
          let r1 := (tp.filter (fun p => isNotPrototypeKey p.1 && !skeys.contains p.1)).foldl
            (fun acc p => setProp acc p.1 (clone n p.2)) []
          .obj (skeys.foldl (fun acc k =>
            if !isNotPrototypeKey k then acc
            else if (JsVal.obj tp).hasIn k then
              (if tkeys.contains k then setProp acc k (deepmerge2 n ((JsVal.obj tp).getProp k) (src.getProp k)) else acc)
            else setProp acc k (clone n (src.getProp k))) r1)
      | _, src =>
        -- target is an array and source is not: clone(source)
        if isMergeable src then clone n src else src

/-- `deepmerge(...items)` -/
def deepmergeAll (n : Nat) : List JsVal → JsVal
  | [] => .obj []
  | [a] => clone n a
  | [a, b] => deepmerge2 n a b
  | items => items.foldl (fun acc x => deepmerge2 n acc x) .undef

/-! ### parseAfterValidation -/

def mapM' {α β : Type} (f : α → Res β) : List α → Res (List β)
  | [] => .ok []
  | x :: xs => match f x with
    | .ok y => match mapM' f xs with
      | .ok ys => .ok (y :: ys)
      | .throw c => .throw c
      | .nofuel => .nofuel
    | .throw c => .throw c
    | .nofuel => .nofuel

/-- object spread `{...acc, ...parsed}`; `none` when `typeof parsed !== "object"` -/
def spreadInto (acc : List (String × JsVal)) (parsed : JsVal) : Option (List (String × JsVal)) :=
  if parsed.typeOf != "object" then none
  else some (parsed.ownKeys.foldl (fun a k => setProp a k (parsed.getProp k)) acc)

/-- the indexed-property part of ObjectRuntype.parseAfterValidation for one key -/
def parseIndexedKey (vf : RT → JsVal → Res Bool) (pf : RT → JsVal → Res JsVal)
    (indexed : List (RT × RT)) (input : JsVal) (k : String) (acc : List (String × JsVal)) :
    Res (List (String × JsVal)) :=
  match indexed with
  | [] => .ok acc
  | p :: ps =>
    let v := input.getProp k
    let valid : Res Bool := match vf p.1 (.str k) with
      | .ok true => vf p.2 v
      | r => r
    match valid with
    | .ok true =>
      match pf p.2 v with
      | .ok itemParsed =>
        match pf p.1 (.str k) with
        | .ok keyParsed => parseIndexedKey vf pf ps input k (setProp acc keyParsed.toPropertyKey itemParsed)
        | .throw c => .throw c
        | .nofuel => .nofuel
      | .throw c => .throw c
      | .nofuel => .nofuel
    | .ok false => parseIndexedKey vf pf ps input k acc
    | .throw c => .throw c
    | .nofuel => .nofuel

def foldRes {α β : Type} (f : β → α → Res β) : β → List α → Res β
  | b, [] => .ok b
  | b, x :: xs => match f b x with
    | .ok b' => foldRes f b' xs
    | r => r

def parseAV (env : Env) (o : ParseOpts) : Nat → RT → JsVal → Res JsVal
  | 0, _, _ => .nofuel
  | n+1, rt, input =>
    let pf := parseAV env o n
    let vf := validate env o.strict n
    match rt with
    | .never => .throw "Error:unreachable"
    | .tuple pre rest =>
      match input with
      | .arr items =>
        match mapM' (fun (p : RT × Nat) => pf p.1 (items.getD p.2 .undef)) (pre.zip (List.range pre.length)) with
        | .ok ps =>
          match rest with
          | some r => match mapM' (fun x => pf r x) (items.drop pre.length) with
            | .ok rs => .ok (.arr (ps ++ rs))
            | .throw c => .throw c
            | .nofuel => .nofuel
          | none => .ok (.arr ps)
        | .throw c => .throw c
        | .nofuel => .nofuel
      | _ => .throw "TypeError"
    | .allOf ts =>
      match foldRes (fun (acc : List (String × JsVal)) t =>
        match pf t input with
        | .ok parsed => match spreadInto acc parsed with
          | some a => .ok a
          | none => .throw "Error:AllOfParser"
        | .throw c => .throw c
        | .nofuel => .nofuel) [] ts with
      | .ok acc => .ok (.obj acc)
      | .throw c => .throw c
      | .nofuel => .nofuel
    | .anyOf ts =>
      match foldRes (fun (items : List JsVal) t =>
        match vf t input with
        | .ok true => match pf t input with
          | .ok p => .ok (items ++ [p])
          | .throw c => .throw c
          | .nofuel => .nofuel
        | .ok false => .ok items
        | .throw c => .throw c
        | .nofuel => .nofuel) [] ts with
      | .ok items => .ok (deepmergeAll 1000 items)
      | .throw c => .throw c
      | .nofuel => .nofuel
    | .array t =>
      match input with
      | .arr items => match mapM' (fun x => pf t x) items with
        | .ok rs => .ok (.arr rs)
        | .throw c => .throw c
        | .nofuel => .nofuel
      | _ => .throw "TypeError"
    | .map kt vt =>
      match input with
      | .map es =>
        match mapM' (fun (e : JsVal × JsVal) => match pf kt e.1 with
          | .ok k => match pf vt e.2 with
            | .ok v => .ok (k, v)
            | .throw c => .throw c
            | .nofuel => .nofuel
          | .throw c => .throw c
          | .nofuel => .nofuel) es with
        | .ok es' => .ok (.map es')   -- NB: `res.set` collapses equal keys; keys are parsed values of validated keys
        | .throw c => .throw c
        | .nofuel => .nofuel
      | _ => .throw "TypeError"
    | .set t =>
      match input with
      | .set xs => match mapM' (fun x => pf t x) xs with
        | .ok rs => .ok (.set rs)
        | .throw c => .throw c
        | .nofuel => .nofuel
      | _ => .throw "TypeError"
    | .disc _ key mapping _ =>
      match lookupMapping mapping (input.getProp key) with
      | none => .throw "Error:MissingParser"
      | some p =>
        match pf p input with
        | .ok parsed =>
          match spreadInto [] parsed with
          | some a => .ok (.obj (setProp a key (input.getProp key)))
          | none => .ok (.obj (setProp [] key (input.getProp key)))  -- spread of a primitive contributes nothing
        | .throw c => .throw c
        | .nofuel => .nofuel
    | .optional t => if input.isNullish then .ok input else pf t input
    | .object props indexed =>
      let inputKeys := input.ownKeys
      if !o.sorted then
        match foldRes (fun (acc : List (String × JsVal)) k =>
          match lookupProp' props k with
          | some t => match pf t (input.getProp k) with
            | .ok v => .ok (setProp acc k v)
            | .throw c => .throw c
            | .nofuel => .nofuel
          | none => parseIndexedKey vf pf indexed input k acc) [] inputKeys with
        | .ok acc => .ok (.obj acc)
        | .throw c => .throw c
        | .nofuel => .nofuel
      else
        let configKeys := sortStrings (props.map (·.1))
        match foldRes (fun (acc : List (String × JsVal)) k =>
          if !input.hasOwn k then .ok acc else
          match lookupProp' props k with
          | some t => match pf t (input.getProp k) with
            | .ok v => .ok (setProp acc k v)
            | .throw c => .throw c
            | .nofuel => .nofuel
          | none => .ok acc) [] configKeys with
        | .ok acc =>
          if indexed.length > 0 then
            let extraKeys := sortStrings (inputKeys.filter (fun k => !((props.map (·.1)).contains k)))
            match foldRes (fun (acc : List (String × JsVal)) k => parseIndexedKey vf pf indexed input k acc) acc extraKeys with
            | .ok acc => .ok (.obj acc)
            | .throw c => .throw c
            | .nofuel => .nofuel
          else .ok (.obj acc)
        | .throw c => .throw c
        | .nofuel => .nofuel
    | .ref name =>
      match env.lookup name with
      | some t => pf t input
      | none => .throw "TypeError"
    | .described _ t => pf t input
    | _ => .ok input
where
  lookupProp' (props : List (String × RT)) (k : String) : Option RT :=
    match props.find? (fun p => p.1 == k) with
    | some p => some p.2
    | none => none

end RT
end BeffVerif
