import BeffVerif.Gen.PanicSites
/-!
C04 — inventory of panic-capable and looping sites (layer "totality").
`classified` is the hand-maintained classification of every site of the regenerated inventory
`Gen.panicSites` (tools/translate/panic_sites.py). Classes:
  invariant  — excluded by an internal invariant named in the justification (not proved in Lean);
  reachable  — reachable from source text: a recorded finding;
  loop       — a loop with the termination argument named in the justification;
  host       — wasm host glue.
The obligation `inventory_classified` fails as soon as a site is added or rewritten without being classified.
-/
namespace BeffVerif.Totality

def classified : List (String × String × String × String) := [
  ("packages/beff-core/src/ast/json.rs", ".expect(\"should be possible to convert f64 to json number\")", "invariant", "match arm excluded by the tag / kind dispatch of the caller"),
  ("packages/beff-core/src/ast/json.rs", ".expect(\"should be possible to serialize json\")", "invariant", "match arm excluded by the tag / kind dispatch of the caller"),
  ("packages/beff-core/src/ast/json.rs", "unreachable!(\"should be possible to convert serde_json::Number to Json::Number\")", "invariant", "match arm excluded by the tag / kind dispatch of the caller"),
  ("packages/beff-core/src/ast/runtype.rs", ".expect(\"we just checked len\"),", "invariant", "guarded by an explicit check a few lines above"),
  ("packages/beff-core/src/ast/runtype.rs", "1 => vs.into_iter().next().expect(\"we just checked len\"),", "invariant", "guarded by an explicit check a few lines above"),
  ("packages/beff-core/src/ast/runtype.rs", "vs.into_iter().next().expect(\"we just checked len\")", "invariant", "guarded by an explicit check a few lines above"),
  ("packages/beff-core/src/frontend/mod.rs", "RuntypeName::SemtypeRecursiveGenerated(_) => unreachable!(", "invariant", "match arm excluded by the tag / kind dispatch of the caller"),
  ("packages/beff-core/src/frontend/mod.rs", "assert_eq!(v, &schema);", "invariant", "C07: a generated name is defined once (insert_definition); re-definition happens with the same schema only"),
  ("packages/beff-core/src/frontend/mod.rs", "let key_type = values.into_iter().next().unwrap();", "invariant", "match arm excluded by the tag / kind dispatch of the caller"),
  ("packages/beff-core/src/frontend/mod.rs", "while let RuntypeKind::Ref(r) = &key.kind {", "loop", "bounded: consumes a finite list / strictly decreasing index / follows finished definitions only (fix D1)"),
  ("packages/beff-core/src/frontend/mod.rs", "while lines.first().is_some_and(|line| line.trim().is_empty()) {", "loop", "bounded: consumes a finite list / strictly decreasing index / follows finished definitions only (fix D1)"),
  ("packages/beff-core/src/frontend/mod.rs", "while lines.last().is_some_and(|line| line.trim().is_empty()) {", "loop", "bounded: consumes a finite list / strictly decreasing index / follows finished definitions only (fix D1)"),
  ("packages/beff-core/src/frontend/mod.rs", "while low < high {", "loop", "bounded: consumes a finite list / strictly decreasing index / follows finished definitions only (fix D1)"),
  ("packages/beff-core/src/lib.rs", "while ctx", "loop", "bounded: the candidate name carries a counter that grows each round, the set of taken names is finite (fix D87)"),
  ("packages/beff-core/src/lib.rs", "while Self::is_declared_name(all_names, &name) {", "loop", "bounded: every round appends one character to the made-up name, the set of declared names is finite, so some extension is free (fix D107)"),
  ("packages/beff-core/src/lib.rs", "while is_taken(&mangled) {", "loop", "bounded: every round appends one character to the candidate, the set of type names is finite, so some extension is free (fix D90)"),
  ("packages/beff-core/src/lib.rs", "while index < this_parts.len()", "loop", "bounded: consumes a finite list / strictly decreasing index / follows finished definitions only (fix D1)"),
  ("packages/beff-core/src/print/printer.rs", ".expect(\"everything should be resolved by now\");", "invariant", "named schemas are closed under references after extraction"),
  ("packages/beff-core/src/print/printer.rs", ".expect(\"we already checked the discriminator exists\")", "invariant", "guarded by an explicit check a few lines above"),
  ("packages/beff-core/src/print/printer.rs", ".expect(\"we already checked\")", "invariant", "guarded by an explicit check a few lines above"),
  ("packages/beff-core/src/print/printer.rs", ".map(|it| it.get(&discriminator).unwrap().clone())", "invariant", "match arm excluded by the tag / kind dispatch of the caller"),
  ("packages/beff-core/src/print/printer.rs", "_ => unreachable!(),", "invariant", "match arm excluded by the tag / kind dispatch of the caller"),
  ("packages/beff-core/src/print/printer.rs", "panic!(\"empty anyOf is not allowed\")", "invariant", "any_of never builds an AnyOf with zero members (0 members => Never)"),
  ("packages/beff-core/src/print/printer.rs", "unreachable!(\"should not create decoders for semantic types\")", "reachable", "D2: `Exclude<number,1>` materialises Not<1> (known finding)"),
  ("packages/beff-core/src/subtyping/bdd.rs", ".expect(\"bdd should be cached by now\")", "invariant", "index produced by the same context (definitions are append-only)"),
  ("packages/beff-core/src/subtyping/bdd.rs", "_ => unreachable!(\"should be string\"),", "invariant", "match arm excluded by the tag / kind dispatch of the caller"),
  ("packages/beff-core/src/subtyping/bdd.rs", "_ => unreachable!(),", "invariant", "match arm excluded by the tag / kind dispatch of the caller"),
  ("packages/beff-core/src/subtyping/bdd.rs", "while let Some(ref some_p) = p {", "loop", "bounded: consumes a finite list / strictly decreasing index / follows finished definitions only (fix D1)"),
  ("packages/beff-core/src/subtyping/dnf.rs", ".expect(\"bdd should be cached by now\")", "invariant", "index produced by the same context (definitions are append-only)"),
  ("packages/beff-core/src/subtyping/mapping.rs", "_ => unreachable!(),", "invariant", "match arm excluded by the tag / kind dispatch of the caller"),
  ("packages/beff-core/src/subtyping/semtype.rs", ".expect(\"should exist\")", "invariant", "index produced by the same context (definitions are append-only)"),
  ("packages/beff-core/src/subtyping/semtype.rs", "let data1 = self.t1.subtype_data.get(self.i1).expect(\"should exist\");", "invariant", "index produced by the same context (definitions are append-only)"),
  ("packages/beff-core/src/subtyping/semtype.rs", "let data2 = self.t2.subtype_data.get(self.i2).expect(\"should exist\");", "invariant", "index produced by the same context (definitions are append-only)"),
  ("packages/beff-core/src/subtyping/semtype.rs", "loop {", "loop", "bounded: consumes a finite list / strictly decreasing index / follows finished definitions only (fix D1)"),
  ("packages/beff-core/src/subtyping/bdd.rs", "while let Some(n) = cur {", "loop", "bounded: walks the finite linked list of negated atoms once (fix D5/D20)"),
  ("packages/beff-core/src/subtyping/bdd.rs", "while s.len() < len {", "loop", "bounded: pads a vector up to a fixed length (fix D5/D20)"),
  ("packages/beff-core/src/subtyping/semtype.rs", "unreachable!(\"should have found a tag\")", "invariant", "match arm excluded by the tag / kind dispatch of the caller"),
  ("packages/beff-core/src/subtyping/subtype.rs", "_ => unreachable!(\"intersect should not compare types of different tags\"),", "invariant", "match arm excluded by the tag / kind dispatch of the caller"),
  ("packages/beff-core/src/subtyping/subtype.rs", "_ => unreachable!(\"union should not compare types of different tags\"),", "invariant", "match arm excluded by the tag / kind dispatch of the caller"),
  ("packages/beff-core/src/subtyping/to_schema.rs", "_ => unreachable!(),", "invariant", "match arm excluded by the tag / kind dispatch of the caller"),
  ("packages/beff-core/src/swc_tools/bind_exports.rs", "unreachable!(\"cannot be namespace without source\")", "invariant", "match arm excluded by the tag / kind dispatch of the caller"),
  ("packages/beff-wasm/src/lib.rs", "console_log::init_with_level(log_level).expect(\"should be able to log\");", "host", "host glue: serialisation of plain data / logger initialisation"),
  ("packages/beff-wasm/src/lib.rs", "let json_str = serde_json::to_string(&v).expect(\"should be able to serialize diagnostics\");", "host", "host glue: serialisation of plain data / logger initialisation"),
  ("packages/beff-wasm/src/lib.rs", "let v = serde_json::to_string(&v).expect(\"should be able to serialize diagnostics\");", "host", "host glue: serialisation of plain data / logger initialisation"),
  ("packages/beff-wasm/src/verif.rs", "serde_json::to_string(&v).expect(\"should be able to serialize diagnostics\")", "host", "verification hook (feature beff_verif only): serialisation of plain data"),
  ("packages/beff-wasm/src/lib.rs", "serde_json::from_str(settings).expect(\"should be able to parse settings\");", "host", "host glue: serialisation of plain data / logger initialisation")
]

/-- every site of the regenerated inventory is classified -/
def inventoryOk : Bool :=
  Gen.panicSites.all fun s => classified.any fun c => c.1 == s.1 && c.2.1 == s.2.1

/-- no stale classification: every classified site still exists -/
def noStale : Bool :=
  classified.all fun c => Gen.panicSites.any fun s => c.1 == s.1 && c.2.1 == s.2.1

/-! ### `span_to_loc` / `lookup_char_pos` (diag.rs:613-657): byte position (1-based) ↦ (line 1-based, column 0-based).
The column counts UTF-16 code units, as swc does (`MultiByteChar::byte_to_char_diff`: a character of 1–3 UTF-8 bytes is one
unit, one of 4 bytes — outside the basic plane: an emoji — is two) and as editors do. -/

def isContinuation (b : UInt8) : Bool := b.toNat / 64 == 2

/-- the lead byte of a 4-byte UTF-8 sequence -/
def isLead4 (b : UInt8) : Bool := decide (240 ≤ b.toNat)

/-- UTF-16 code units of a run of UTF-8 bytes: one per character, one more per character outside the basic plane -/
def units (bs : List UInt8) : Nat :=
  (bs.filter (fun b => !isContinuation b)).length + (bs.filter isLead4).length

/-- line and column of byte position `pos` (1 ≤ pos ≤ len + 1) in `src` -/
def charPos (src : String) (pos : Nat) : Nat × Nat :=
  let pre := src.toUTF8.toList.take (pos - 1)
  let line := 1 + (pre.filter (· == 10)).length
  let lastLine := (pre.reverse.takeWhile (· != 10))
  (line, units lastLine)

/-- `span_to_loc`: a dummy span (lo = 0 or hi = 0) covers the whole file -/
def spanToLoc (src : String) (lo hi : Nat) : (Nat × Nat) × (Nat × Nat) :=
  if lo == 0 || hi == 0 then (charPos src 1, charPos src (src.toUTF8.size + 1))
  else (charPos src lo, charPos src hi)

end BeffVerif.Totality
