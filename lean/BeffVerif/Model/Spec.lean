import BeffVerif.Model.TsCore
/-!
The declarative reference semantics ⟦·⟧ᵀˢ of `TsCore` types over JavaScript values (C01): TypeScript membership
read under beff's stated runtime conventions
  (S1) `null` and `undefined` are interchangeable;
  (S2) an optional property may be absent or nullish; a required property is read as `v[k]` (absent = undefined);
  (S3) undeclared properties are ignored (default mode);
and two readings fixed here and documented in DESIGN.md:
  (S4) object types / interfaces / records denote non-array, non-null `typeof "object"` values;
  (S5) a template literal denotes the strings that match it ENTIRELY, with `${number}` = digits with an optional
       fraction, `${string}` = any string without line terminators (what beff documents; TypeScript is wider);
  (S6) a tuple element missing from a shorter array is read as `undefined` (the tuple analogue of S2).
It is written independently of the compiler model: no IR, no printer, generics by syntactic substitution.
-/
namespace BeffVerif
namespace Spec
open JsVal

mutual
def subst (σ : List (String × Ty)) : Ty → Ty
  | .kw k => .kw k
  | .lit v => .lit v
  | .array t => .array (subst σ t)
  | .tuple pre rest => .tuple (substL σ pre) (substO σ rest)
  | .obj ms ix => .obj (substM σ ms) (substI σ ix)
  | .union ts => .union (substL σ ts)
  | .inter ts => .inter (substL σ ts)
  | .ref n args =>
    match args with
    | [] => (match σ.find? (fun p => p.1 == n) with
      | some p => p.2
      | none => .ref n [])
    | _ => .ref n (substL σ args)
  | .bi n args => .bi n (substL σ args)
  | .tpl items => .tpl items
  | .paren t => .paren (subst σ t)
  | .readonly t => .readonly (subst σ t)
def substL (σ : List (String × Ty)) : List Ty → List Ty
  | [] => []
  | t :: ts => subst σ t :: substL σ ts
def substO (σ : List (String × Ty)) : Option Ty → Option Ty
  | none => none
  | some t => some (subst σ t)
def substM (σ : List (String × Ty)) : List (String × Bool × Ty) → List (String × Bool × Ty)
  | [] => []
  | (k, o, t) :: ms => (k, o, subst σ t) :: substM σ ms
def substI (σ : List (String × Ty)) : Option (Ty × Ty) → Option (Ty × Ty)
  | none => none
  | some (k, v) => some (subst σ k, subst σ v)
end

/-- property list with "later declaration wins" -/
def putMember (ms : List (String × Bool × Ty)) (m : String × Bool × Ty) : List (String × Bool × Ty) :=
  if ms.any (fun p => p.1 == m.1) then ms.map (fun p => if p.1 == m.1 then m else p) else ms ++ [m]

/-- the literal keys denoted by a key type (`"a" | "b"`, possibly through aliases); `none` if not a finite set of
string literals -/
def litKeys (decls : List Decl) : Nat → Ty → Option (List String)
  | 0, _ => none
  | n+1, t => match t with
    | .lit (.str s) => some [s]
    | .tpl [.lit s] => some [s]
    | .union ts => (ts.mapM (litKeys decls n)).map List.flatten
    | .paren t => litKeys decls n t
    | .kw "never" => some []
    | .ref name args => match decls.find? (fun d => d.name == name) with
      | some (.alias _ ps body) => litKeys decls n (subst (ps.zip args) body)
      | _ => none
    | _ => none

/-- the object shape (declared members, index signature) of an object-like type expression -/
def shape (decls : List Decl) : Nat → Ty → Option (List (String × Bool × Ty) × Option (Ty × Ty))
  | 0, _ => none
  | n+1, t => match t with
    | .obj ms ix => some (ms.foldl putMember [], ix)
    | .paren t => shape decls n t
    | .readonly t => shape decls n t
    | .ref name args => match decls.find? (fun d => d.name == name) with
      | some (.alias _ ps body) => shape decls n (subst (ps.zip args) body)
      | some (.iface _ ps ext ms) =>
        let σ := ps.zip args
        let base := ext.foldl (fun (acc : Option (List (String × Bool × Ty))) e =>
          match acc, shape decls n (subst σ e) with          -- `extends Base<T>`: the interface's own `T`
          | some a, some (ems, none) => some (ems.foldl putMember a)
          | _, _ => none) (some [])
        base.map fun b => ((substM σ ms).foldl putMember b, none)
      | none => none
    | .inter ts =>
      ts.foldl (fun (acc : Option (List (String × Bool × Ty) × Option (Ty × Ty))) m =>
        match acc, shape decls n m with
        | some (a, ai), some (ms, mi) => some (ms.foldl putMember a, if ai.isSome then ai else mi)
        | _, _ => none) (some ([], none))
    -- `Partial` of an index signature: TypeScript makes the value type `V | undefined`
    | .bi "Partial" [x] => (shape decls n x).map fun s =>
        (s.1.map (fun m => (m.1, true, m.2.2)), s.2.map (fun i => (i.1, Ty.union [i.2, .kw "undefined"])))
    | .bi "Required" [x] => (shape decls n x).map fun s => (s.1.map (fun m => (m.1, false, m.2.2)), none)
    | .bi "Readonly" [x] => shape decls n x
    | .bi "Pick" [x, ks] => match shape decls n x, litKeys decls n ks with
      | some s, some keys => some (s.1.filter (fun m => keys.contains m.1), none)
      | _, _ => none
    | .bi "Omit" [x, ks] => match shape decls n x, litKeys decls n ks with
      | some s, some keys => some (s.1.filter (fun m => !keys.contains m.1), none)
      | _, _ => none
    | .bi "Record" [k, v] => match litKeys decls n k with
      | some keys => some (keys.map (fun key => (key, false, v)), none)
      | none => some ([], some (k, v))
    | _ => none

/-- whole-string match of a template (S5) -/
def tplFull (tpl : Tpl) (s : String) : Bool :=
  let rec go (fuel : Nat) : List TplItem → List Char → Bool
    | [], cs => cs.isEmpty
    | it :: rest, cs => match fuel with
      | 0 => false
      | f+1 => (Tpl.itemLens 64 it cs).any fun n => go f rest (cs.drop n)
  go 64 tpl s.toList

def isNumericKey (k : String) : Bool :=
  -- keys that are the canonical string of a number (enough for the generators: non-negative integers)
  !k.toList.isEmpty && k.toList.all Char.isDigit && (k == "0" || k.toList.head? != some '0')

/-- membership in an object shape (S2, S3, S4), given the membership function for the component types -/
def memShapeWith (m : Ty → JsVal → Option Bool) (sh : Option (List (String × Bool × Ty) × Option (Ty × Ty)))
    (v : JsVal) : Option Bool :=
  match sh with
  | none => none
  | some (ms, ix) =>
    if !(v.isObjectLike && !v.isArray) then some false else
    let declared := ms.foldl (fun acc mb =>
      let x := v.getProp mb.1
      match acc, (if mb.2.1 && x.isNullish then some true else m mb.2.2 x) with
      | some a, some b => some (a && b)
      | _, _ => none) (some true)
    match ix with
    | none => declared
    | some (kt, vt) =>
      let extra := v.ownKeys.filter (fun k => !(ms.any (fun mb => mb.1 == k)))
      extra.foldl (fun acc k =>
        let keyOk : Option Bool := match kt with
          | .kw "number" => some (isNumericKey k)
          | _ => m kt (.str k)
        match acc, keyOk, m vt (v.getProp k) with
        | some a, some b, some c => some (a && b && c)
        | _, _, _ => none) declared

/-- ⟦t⟧ᵀˢ ∋ v -/
def mem (decls : List Decl) : Nat → Ty → JsVal → Option Bool
  | 0, _, _ => none
  | n+1, t, v =>
    let all (f : JsVal → Option Bool) (xs : List JsVal) : Option Bool :=
      xs.foldl (fun acc x => match acc, f x with
        | some a, some b => some (a && b)
        | _, _ => none) (some true)
    match t with
    | .kw "string" => some (v.typeOf == "string")
    | .kw "number" => some (v.typeOf == "number")
    | .kw "boolean" => some (v.typeOf == "boolean")
    | .kw "bigint" => some (v.typeOf == "bigint")
    | .kw "null" => some v.isNullish
    | .kw "undefined" => some v.isNullish
    | .kw "void" => some v.isNullish
    | .kw "any" => some true
    | .kw "unknown" => some true
    | .kw "never" => some false
    | .kw "object" => some (v.isObjectLike || v.typeOf == "function")
    | .kw _ => none
    | .lit c => some (strictEqPrim v c)
    | .paren t => mem decls n t v
    | .readonly t => mem decls n t v
    | .array t => match v with
      | .arr items => all (mem decls n t) items
      | _ => some false
    | .tuple pre rest => match v with
      | .arr items =>
        -- (S6) a missing slot is read as `undefined`, like a missing property
        if rest.isNone && items.length > pre.length then some false
        else
          let heads := (pre.zip (List.range pre.length)).foldl (fun acc p =>
            match acc, mem decls n p.1 (items.getD p.2 .undef) with
            | some a, some b => some (a && b)
            | _, _ => none) (some true)
          match heads, rest with
          | some h, some r => (all (mem decls n r) (items.drop pre.length)).map (h && ·)
          | h, none => h
          | none, _ => none
      | _ => some false
    | .union ts => ts.foldl (fun acc t => match acc, mem decls n t v with
        | some a, some b => some (a || b)
        | _, _ => none) (some false)
    | .inter ts => ts.foldl (fun acc t => match acc, mem decls n t v with
        | some a, some b => some (a && b)
        | _, _ => none) (some true)
    | .tpl items => some (match v with | .str s => tplFull items s | _ => false)
    | .bi "Date" _ => some (match v with | .date _ => true | _ => false)
    | .bi "Array" [t] => mem decls n (.array t) v
    | .bi "ReadonlyArray" [t] => mem decls n (.array t) v
    | .bi "Map" [k, x] => match v with
      | .map es => es.foldl (fun acc e => match acc, mem decls n k e.1, mem decls n x e.2 with
          | some a, some b, some c => some (a && b && c)
          | _, _, _ => none) (some true)
      | _ => some false
    | .bi "Set" [x] => match v with
      | .set xs => all (mem decls n x) xs
      | _ => some false
    | .ref name args =>
      match decls.find? (fun d => d.name == name) with
      | some (.alias _ ps body) => mem decls n (subst (ps.zip args) body) v
      | some (.iface _ _ _ _) => memShapeWith (mem decls n) (shape decls 50 t) v
      | none => none
    | .obj _ _ => memShapeWith (mem decls n) (shape decls 50 t) v
    | .bi nm _ =>
      if Lower.typedArrayNames.contains nm then some (match v with | .typed c _ => c == nm | _ => false)
      else memShapeWith (mem decls n) (shape decls 50 t) v

/-! ### named hypotheses of the partial C01 theorem (known deviations of the current code from ⟦·⟧ᵀˢ) -/

mutual
def anyTy (p : Ty → Bool) : Ty → Bool
  | .array t => p (.array t) || anyTy p t
  | .tuple pre rest => p (.tuple pre rest) || anyTyL p pre || anyTyO p rest
  | .obj ms ix => p (.obj ms ix) || anyTyM p ms || anyTyI p ix
  | .union ts => p (.union ts) || anyTyL p ts
  | .inter ts => p (.inter ts) || anyTyL p ts
  | .ref n args => p (.ref n args) || anyTyL p args
  | .bi n args => p (.bi n args) || anyTyL p args
  | .paren t => p (.paren t) || anyTy p t
  | .readonly t => p (.readonly t) || anyTy p t
  | t => p t
def anyTyL (p : Ty → Bool) : List Ty → Bool
  | [] => false
  | t :: ts => anyTy p t || anyTyL p ts
def anyTyO (p : Ty → Bool) : Option Ty → Bool
  | none => false
  | some t => anyTy p t
def anyTyM (p : Ty → Bool) : List (String × Bool × Ty) → Bool
  | [] => false
  | (_, _, t) :: ms => anyTy p t || anyTyM p ms
def anyTyI (p : Ty → Bool) : Option (Ty × Ty) → Bool
  | none => false
  | some (k, v) => anyTy p k || anyTy p v
end

def anyInProg (p : Ty → Bool) (prog : Prog) : Bool :=
  prog.exports.any (fun e => anyTy p e.2) || prog.decls.any fun d => match d with
    | .alias _ _ b => anyTy p b
    | .iface _ _ ext ms => anyTyL p ext || anyTyM p ms

/-- hypothesis `NoNumberKey` (D21): no index signature / Record keyed by `number` -/
def noNumberKey (prog : Prog) : Bool :=
  !anyInProg (fun t => match t with
    | .obj _ (some (.kw "number", _)) => true
    | .bi "Record" [.kw "number", _] => true
    | _ => false) prog

/-- hypothesis `IntersectionsOfObjects` (D22): every intersection member has an object shape -/
def intersectionsOfObjects (prog : Prog) : Bool :=
  !anyInProg (fun t => match t with
    | .inter ts => ts.any (fun m => (shape prog.decls 50 m).isNone)
    | _ => false) prog

end Spec
end BeffVerif

namespace BeffVerif
namespace Spec

/-- does some union (resp. intersection) of the program have a member that is a named reference? (D11 / D39:
the emitted structure, hence hash256, then depends on the NAME resp. on whether the member is named at all) -/
def stripParens : Ty → Ty
  | .paren t => stripParens t
  | .readonly t => stripParens t
  | t => t

def hasRefInUnion (prog : Prog) : Bool :=
  anyInProg (fun t => match t with
    | .union ts => ts.any (fun m => match stripParens m with | .ref _ _ => true | _ => false)
    | _ => false) prog

def hasRefInInter (prog : Prog) : Bool :=
  anyInProg (fun t => match t with
    | .inter ts => ts.any (fun m => match stripParens m with | .ref _ _ => true | _ => false)
    | _ => false) prog

def hasUnion (prog : Prog) : Bool :=
  anyInProg (fun t => match t with | .union (_ :: _ :: _) => true | _ => false) prog

mutual
/-- names referenced by a type -/
def refsOf : Ty → List String
  | .array t => refsOf t
  | .tuple pre rest => refsOfL pre ++ refsOfO rest
  | .obj ms ix => refsOfM ms ++ refsOfI ix
  | .union ts => refsOfL ts
  | .inter ts => refsOfL ts
  | .ref n args => n :: refsOfL args
  | .bi _ args => refsOfL args
  | .paren t => refsOf t
  | .readonly t => refsOf t
  | _ => []
def refsOfL : List Ty → List String
  | [] => []
  | t :: ts => refsOf t ++ refsOfL ts
def refsOfO : Option Ty → List String
  | none => []
  | some t => refsOf t
def refsOfM : List (String × Bool × Ty) → List String
  | [] => []
  | (_, _, t) :: ms => refsOf t ++ refsOfM ms
def refsOfI : Option (Ty × Ty) → List String
  | none => []
  | some (k, v) => refsOf k ++ refsOf v
end

/-- names referenced by a declaration -/
def declRefs (d : Decl) : List String :=
  match d with
  | .alias _ _ b => refsOf b
  | .iface _ _ ext ms => refsOfL ext ++ refsOfM ms

/-- is some declaration reachable from itself (within four reference steps)? -/
def hasRecursion (prog : Prog) : Bool :=
  let step (reach : List (String × String)) : List (String × String) :=
    reach ++ (reach.flatMap fun p => (prog.decls.filter (fun d => d.name == p.2)).flatMap fun d => (declRefs d).map fun r => (p.1, r))
  let init := prog.decls.flatMap fun d => (declRefs d).map fun r => (d.name, r)
  let closure := step (step (step (step init)))
  closure.any fun p => p.1 == p.2

/-- hypothesis `NoTemplateAlternation` (C15/D24c): no template literal with a union hole -/
def noTemplateAlternation (prog : Prog) : Bool :=
  !anyInProg (fun t => match t with
    | .tpl items => items.any (fun i => match i with | .oneOf _ => true | _ => false)
    | _ => false) prog

/-- hypothesis `NoMixedIndexObject` (C15/D43): no object type with declared properties AND an index signature
(incl. `Record<"a" | string, T>`-like keys) — describe() prints those as a mapped-type member next to properties -/
def noMixedIndexObject (prog : Prog) : Bool :=
  !anyInProg (fun t => match t with
    | .obj (_ :: _) (some _) => true
    | _ => false) prog

/-- (D39b) some intersection has two object-literal members sharing a key, and the type under that key mentions a
named type in one of them: the compile-time merge of `all_of` compares the two property types SYNTACTICALLY, so whether
the members are merged into one object (and what hash256 sees) depends on whether that type is named -/
def hasRefUnderSharedKey (prog : Prog) : Bool :=
  anyInProg (fun t => match t with
    | .inter ts =>
      let objs := ts.filterMap (fun m => match stripParens m with | .obj ms _ => some ms | _ => none)
      let keysOf (ms : List (String × Bool × Ty)) : List String := ms.map (·.1)
      let count (k : String) : Nat := (objs.filter (fun ms => (keysOf ms).contains k)).length
      objs.any (fun ms => ms.any (fun m => decide (count m.1 ≥ 2) && !(refsOf m.2.2).isEmpty))
    | _ => false) prog

def namingRewrites : List String := ["intro-alias", "inline-alias", "rename", "wrap-id", "iface-alias"]

end Spec
end BeffVerif
