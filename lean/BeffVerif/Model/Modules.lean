import BeffVerif.Model.TsCore
/-!
Layer M — modules (C09). A project is a list of files; every file is a list of module-level statements.
`bind` mirrors `parse_and_bind` (swc_tools/bind_exports.rs: ImportsVisitor + the post-pass over the export lists,
bind_locals.rs), `getType` mirrors `SymbolsExportsModule::get_type_visiting` (swc_tools/mod.rs), `resolveType` /
`resolveQual` mirror `TypeModuleWalker::get_addressed_item` for `TypeWalker` / `QualifiedTypeWalker`
(frontend/mod.rs), `resolveName` mirrors `get_runtype_name_from_ts_entity_name`. `flatten` turns the part of a project
reachable from the entry exports into a single-file TsCore program over file-qualified names, which is then handed to
the compiler model of layer F.

Import targets are file names already resolved by the host (module resolution is delegated to TypeScript's
`resolveModuleName` by the real tool and to `resolve()` of the harness here); `none` = the specifier does not resolve.
Only type-level declarations are modelled (aliases, interfaces); enums and values are not.
-/
namespace BeffVerif.Modules

inductive Stmt where
  | decl (exported : Bool) (d : Decl)
  | importNamed (loc orig : String) (target : Option String)
  | importStar (loc : String) (target : Option String)
  | importDefault (loc : String) (target : Option String)
  | exportLocal (name renamed : String)                          -- export { name as renamed }
  | exportFrom (orig renamed : String) (target : Option String)  -- export { orig as renamed } from "…"
  | exportNs (name : String) (target : Option String)            -- export * as name from "…"
  | exportAll (target : Option String)                           -- export * from "…"
  | exportDefault (name : String)                                -- export default name
  | exportDefaultIface (d : Decl)                                -- export default interface X { … }
  deriving Repr, Inhabited

structure SrcFile where
  name : String
  stmts : List Stmt
  deriving Repr, Inhabited

/-- `ImportReference` -/
inductive Imp where
  | named (orig file : String)
  | star (file : String)
  | dflt (file : String)
  deriving Repr, Inhabited, DecidableEq

/-- `SymbolExport` (type-level part) -/
inductive Exp where
  | decl (file name : String)        -- TsType / TsInterfaceDecl { original_file, name }
  | something (name file : String)   -- SomethingOfOtherFile
  | starOf (file : String)           -- StarOfOtherFile { Star { file } }
  deriving Repr, Inhabited, DecidableEq

inductive Dflt where
  | ident (name : String)            -- SymbolExportDefault::Expr (an identifier)
  | renamed (e : Exp)                -- SymbolExportDefault::Renamed
  deriving Repr, Inhabited, DecidableEq

/-- `ParsedModule` (locals, imports, symbol_exports) -/
structure Mod where
  name : String
  locals : List (String × Decl) := []
  imports : List (String × Imp) := []
  types : List (String × Exp) := []
  unknown : List (String × Exp) := []
  stars : List String := []
  dflt : Option Dflt := none
  deriving Repr, Inhabited

/-- HashMap::insert -/
def put {α : Type} (m : List (String × α)) (k : String) (v : α) : List (String × α) :=
  if m.any (fun p => p.1 == k) then m.map (fun p => if p.1 == k then (k, v) else p) else m ++ [(k, v)]

def get {α : Type} (m : List (String × α)) (k : String) : Option α :=
  (m.find? (fun p => p.1 == k)).map (·.2)

def Mod.setDefault (m : Mod) (d : Dflt) : Mod :=
  match m.dflt with
  | some _ => m            -- set_default_export keeps the first one
  | none => { m with dflt := some d }

def Mod.insertType (m : Mod) (name : String) (e : Exp) : Mod :=
  if name == "default" then m.setDefault (.renamed e) else { m with types := put m.types name e }

def Mod.insertUnknown (m : Mod) (name : String) (e : Exp) : Mod :=
  if name == "default" then m.setDefault (.renamed e) else { m with unknown := put m.unknown name e }

/-- first pass: `ImportsVisitor` and `ParserOfModuleLocals` in statement order -/
def bindStmt (m : Mod) : Stmt → Mod
  | .decl exported d =>
    let m := { m with locals := put m.locals d.name d }
    if exported then m.insertType d.name (.decl m.name d.name) else m
  | .importNamed loc orig (some f) => { m with imports := put m.imports loc (.named orig f) }
  | .importStar loc (some f) => { m with imports := put m.imports loc (.star f) }
  | .importDefault loc (some f) => { m with imports := put m.imports loc (.dflt f) }
  | .importNamed _ _ none | .importStar _ none | .importDefault _ none => m   -- unresolvable specifier: no import recorded
  | .exportLocal _ _ => m                                                     -- resolved in the second pass
  | .exportFrom orig renamed (some f) => m.insertUnknown renamed (.something orig f)
  | .exportNs name (some f) => m.insertUnknown name (.starOf f)
  | .exportAll (some f) => { m with stars := m.stars ++ [f] }
  | .exportFrom _ _ none | .exportNs _ none | .exportAll none => m
  | .exportDefault n => m.setDefault (.ident n)
  | .exportDefaultIface d =>
    let m := { m with locals := put m.locals d.name d }
    m.setDefault (.renamed (.decl m.name d.name))

/-- second pass: the `unresolved_exports` of `export { a as b }` lists, against the complete locals / imports -/
def bindExportList (m : Mod) : Stmt → Mod
  | .exportLocal name renamed =>
    match get m.locals name with
    | some _ => m.insertType renamed (.decl m.name name)
    | none =>
      match get m.imports name with
      | some (.named orig f) => m.insertUnknown renamed (.something orig f)
      | some (.star f) => m.insertUnknown renamed (.starOf f)
      | some (.dflt f) => m.insertUnknown renamed (.something "default" f)
      | none => m
  | _ => m

def bind (f : SrcFile) : Mod :=
  f.stmts.foldl bindExportList (f.stmts.foldl bindStmt { name := f.name })

abbrev Project := List Mod

def Project.file (p : Project) (name : String) : Option Mod := p.find? (fun m => m.name == name)

/- `get_type_visiting`: explicit exports, then the `export *` chain depth-first with a shared visited list.
A missing file in the chain ends the search (`?` inside the closure). -/
mutual
def getType (p : Project) : Nat → List String → Mod → String → Option Exp × List String
  | 0, visited, _, _ => (none, visited)
  | fuel+1, visited, m, name =>
    match (get m.types name).orElse (fun _ => get m.unknown name) with   -- = explicitOf m name
    | some e => (some e, visited)
    | none => getStars p fuel visited m.stars name
def getStars (p : Project) : Nat → List String → List String → String → Option Exp × List String
  | 0, visited, _, _ => (none, visited)
  | _, visited, [], _ => (none, visited)
  | fuel+1, visited, it :: rest, name =>
    if visited.contains it then getStars p fuel visited rest name
    else
      match p.file it with
      | none => (none, it :: visited)
      | some f =>
        match getType p fuel (it :: visited) f name with
        | (some e, v) => (some e, v)
        | (none, v) => getStars p fuel v rest name
end

inductive Vis where
  | loc
  | exp
  deriving Repr, DecidableEq

def explicitOf (m : Mod) (name : String) : Option Exp :=
  (get m.types name).orElse (fun _ => get m.unknown name)

/-- `get_addressed_item_from_symbol_export` of `TypeWalker` (`rec` = the walker itself with less fuel) -/
def fromExpT (rec : String → String → Vis → Option (String × String)) : Exp → Option (String × String)
  | .decl f n => some (f, n)
  | .starOf _ => none                                      -- CannotUseStarImportInTypePosition
  | .something n f => rec f n .exp

/-- `get_addressed_item_from_default_import` -/
def fromDefaultT (p : Project) (rec : String → String → Vis → Option (String × String)) (f : String) :
    Option (String × String) :=
  match p.file f with
  | none => none
  | some fm =>
    match fm.dflt with
    | some (.ident n) => rec f n .loc
    | some (.renamed e) => fromExpT rec e
    | none => none

/-- `TypeWalker::get_addressed_item`: the declaration (file, local name) a type name denotes; `none` = diagnostic -/
def resolveType (p : Project) : Nat → String → String → Vis → Option (String × String)
  | 0, _, _, _ => none
  | fuel+1, file, name, vis =>
    match p.file file with
    | none => none
    | some m =>
      match vis with
      | .loc =>
        match get m.locals name with
        | some _ => some (file, name)
        | none =>
          match get m.imports name with
          | some (.named orig f) => resolveType p fuel f orig .exp
          | some (.star _) => none
          | some (.dflt f) => fromDefaultT p (resolveType p fuel) f
          | none => none
      | .exp =>
        if name == "default" then fromDefaultT p (resolveType p fuel) file
        else
          match (getType p fuel [] m name).1 with
          | some e => fromExpT (resolveType p fuel) e
          | none => none

def fromExpQ (rec : String → String → Vis → Option String) : Exp → Option String
  | .decl _ _ => none                                      -- CannotUseTypeInQualifiedTypePosition
  | .starOf f => some f
  | .something n f => rec f n .exp

def fromDefaultQ (p : Project) (rec : String → String → Vis → Option String) (f : String) : Option String :=
  match p.file f with
  | none => none
  | some fm =>
    match fm.dflt with
    | some (.ident n) => rec f n .loc
    | some (.renamed e) => fromExpQ rec e
    | none => none

/-- `QualifiedTypeWalker::get_addressed_item`: the file a namespace name denotes (`StarImport`) -/
def resolveQual (p : Project) : Nat → String → String → Vis → Option String
  | 0, _, _, _ => none
  | fuel+1, file, name, vis =>
    match p.file file with
    | none => none
    | some m =>
      match vis with
      | .loc =>
        match get m.locals name with
        | some _ => none
        | none =>
          match get m.imports name with
          | some (.named orig f) => resolveQual p fuel f orig .exp
          | some (.star f) => some f
          | some (.dflt f) => fromDefaultQ p (resolveQual p fuel) f
          | none => none
      | .exp =>
        if name == "default" then fromDefaultQ p (resolveQual p fuel) file
        else
          match (getType p fuel [] m name).1 with
          | some e => fromExpQ (resolveQual p fuel) e
          | none => none

/-- a written type name: `N`, `A.B.N`, or `import("f").A.N` (target file already resolved) -/
inductive Name where
  | plain (segs : List String)
  | imp (file : Option String) (segs : List String)
  deriving Repr, DecidableEq

def splitDots (cs : List Char) : List String :=
  let r := cs.foldl (fun (acc : List String × List Char) c =>
    if c == '.' then (acc.1 ++ [String.ofList acc.2], []) else (acc.1, acc.2 ++ [c])) ([], [])
  r.1 ++ [String.ofList r.2]

/-- concrete syntax of names inside TsCore terms: `import(<file>).A.N`, `import(?).N` (unresolvable) or `A.B.N` -/
def parseName (s : String) : Name :=
  let cs := s.toList
  if cs.take 7 == "import(".toList then
    let rest := cs.drop 7
    let f := rest.takeWhile (· != ')')
    let after := (rest.dropWhile (· != ')')).drop 2      -- `).`
    .imp (if f == ['?'] then none else some (String.ofList f)) (splitDots after)
  else .plain (splitDots cs)

/-- left part of a qualified name: `get_adressed_qualified_type_from_entity_name` -/
def qualPath (p : Project) (fuel : Nat) (file : String) (vis : Vis) : List String → Option String
  | [] => some file
  | s :: rest =>
    match resolveQual p fuel file s vis with
    | some f => qualPath p fuel f .exp rest
    | none => none

/-- `get_runtype_name_from_ts_entity_name` + `extract_ts_import_type`: the declaration a written name denotes -/
def resolveName (p : Project) (fuel : Nat) (file : String) : Name → Option (String × String)
  | .plain [] => none
  | .plain [n] => resolveType p fuel file n .loc
  | .plain (s :: rest) =>
    match resolveQual p fuel file s .loc with
    | some f => match qualPath p fuel f .exp rest.dropLast with
      | some f' => (rest.getLast?).bind fun n => resolveType p fuel f' n .exp
      | none => none
    | none => none
  | .imp none _ => none                                   -- CannotResolveImport
  | .imp (some _) [] => none
  | .imp (some f) segs =>
    match qualPath p fuel f .exp segs.dropLast with
    | some f' => (segs.getLast?).bind fun n => resolveType p fuel f' n .exp
    | none => none

def gname (fn : String × String) : String := fn.1 ++ "::" ++ fn.2

mutual
/-- rewrite every reference of a type written in `file` (type parameters `params` in scope) to the file-qualified
name of the declaration it denotes; `none` = some reference does not resolve -/
def flatTy (p : Project) (fuel : Nat) (file : String) (params : List String) : Ty → Option Ty
  | .kw k => some (.kw k)
  | .lit v => some (.lit v)
  | .array t => (flatTy p fuel file params t).map .array
  | .tuple pre rest => do some (.tuple (← flatL p fuel file params pre) (← flatO p fuel file params rest))
  | .obj ms ix => do some (.obj (← flatM p fuel file params ms) (← flatI p fuel file params ix))
  | .union ts => (flatL p fuel file params ts).map .union
  | .inter ts => (flatL p fuel file params ts).map .inter
  | .ref n args =>
    if params.contains n then some (.ref n [])             -- type_application_stack lookup comes first
    else do
      let args' ← flatL p fuel file params args
      let d ← resolveName p fuel file (parseName n)
      some (.ref (gname d) args')
  | .bi n args => (flatL p fuel file params args).map (.bi n)
  | .tpl items => some (.tpl items)
  | .paren t => (flatTy p fuel file params t).map .paren
  | .readonly t => (flatTy p fuel file params t).map .readonly
def flatL (p : Project) (fuel : Nat) (file : String) (params : List String) : List Ty → Option (List Ty)
  | [] => some []
  | t :: ts => do some ((← flatTy p fuel file params t) :: (← flatL p fuel file params ts))
def flatO (p : Project) (fuel : Nat) (file : String) (params : List String) : Option Ty → Option (Option Ty)
  | none => some none
  | some t => (flatTy p fuel file params t).map some
def flatM (p : Project) (fuel : Nat) (file : String) (params : List String) :
    List (String × Bool × Ty) → Option (List (String × Bool × Ty))
  | [] => some []
  | (k, o, t) :: ms => do some ((k, o, ← flatTy p fuel file params t) :: (← flatM p fuel file params ms))
def flatI (p : Project) (fuel : Nat) (file : String) (params : List String) : Option (Ty × Ty) → Option (Option (Ty × Ty))
  | none => some none
  | some (k, v) => do some (some (← flatTy p fuel file params k, ← flatTy p fuel file params v))
end

mutual
/-- the declarations (file, name) referenced by a flattened type -/
def refsOf : Ty → List String
  | .array t | .paren t | .readonly t => refsOf t
  | .tuple pre rest => refsL pre ++ (match rest with | some t => refsOf t | none => [])
  | .obj ms ix => refsM ms ++ (match ix with | some (k, v) => refsOf k ++ refsOf v | none => [])
  | .union ts | .inter ts | .bi _ ts => refsL ts
  | .ref n args => n :: refsL args
  | _ => []
def refsL : List Ty → List String
  | [] => []
  | t :: ts => refsOf t ++ refsL ts
def refsM : List (String × Bool × Ty) → List String
  | [] => []
  | (_, _, t) :: ms => refsOf t ++ refsM ms
end

def flatDecl (p : Project) (fuel : Nat) (file : String) : Decl → Option Decl
  | .alias n ps body => do some (.alias (gname (file, n)) ps (← flatTy p fuel file ps body))
  | .iface n ps ext ms => do
    some (.iface (gname (file, n)) ps (← flatL p fuel file ps ext) (← flatM p fuel file ps ms))

def declRefs : Decl → List String
  | .alias _ _ body => refsOf body
  | .iface _ _ ext ms => refsL ext ++ refsM ms

/-- every declaration of every file under its file-qualified name, lazily: a declaration whose references do not
resolve only matters when it is reached -/
def allDecls (p : Project) : List (String × String × Decl) :=
  p.flatMap fun m => m.locals.map fun (n, d) => (gname (m.name, n), m.name, d)

/-- worklist closure from the references of the entry exports -/
def close (p : Project) (fuel : Nat) : Nat → List String → List Decl → Option (List Decl)
  | 0, _, _ => none
  | _+1, [], acc => some acc
  | n+1, g :: todo, acc =>
    if acc.any (fun d => d.name == g) then close p fuel n todo acc
    else
      match (allDecls p).find? (fun x => x.1 == g) with
      | none => close p fuel n todo acc               -- a type parameter or an unknown name: left to the compiler model
      | some (_, file, d) =>
        match flatDecl p fuel file d with
        | none => none
        | some d' => close p fuel n (declRefs d' ++ todo) (acc ++ [d'])

/-- the single-file TsCore program denoted by a project (`entry.ts` holds the `buildParsers` call) -/
def flatten (files : List SrcFile) (exports : List (String × Ty)) (fuel : Nat := 60) : Option Prog := do
  let p : Project := files.map bind
  let exps ← exports.mapM fun (n, t) => (flatTy p fuel "entry.ts" [] t).map fun t' => (n, t')
  let decls ← close p fuel 400 (exps.flatMap fun e => refsOf e.2) []
  some ⟨decls, exps⟩

end BeffVerif.Modules
