import BeffVerif.Gen.ShaConsts
/-!
Model of packages/beff-client/src/hash.ts:51-234: SHA-256 compression (`processChunk`), the buffering
`Hash256Writer.updateBytes` loop, `digestHex` padding, and the token-level `update*` methods.
The round constants and initial state come from the REGENERATED `Gen/ShaConsts.lean`.
Words are `UInt32` (JS `>>> 0` arithmetic), bytes are `UInt8`.
-/
namespace BeffVerif.Sha

abbrev Bytes := List UInt8

structure State where
  h0 : UInt32
  h1 : UInt32
  h2 : UInt32
  h3 : UInt32
  h4 : UInt32
  h5 : UInt32
  h6 : UInt32
  h7 : UInt32
  deriving DecidableEq, Repr, Inhabited

def K : Array UInt32 := (Gen.shaK.map UInt32.ofNat).toArray

def IV : State :=
  match Gen.shaIV.map UInt32.ofNat with
  | [a, b, c, d, e, f, g, h] => ⟨a, b, c, d, e, f, g, h⟩
  | _ => ⟨0, 0, 0, 0, 0, 0, 0, 0⟩

/-- `rotateRight` (hash.ts:76-78) -/
def rotr (x : UInt32) (n : UInt32) : UInt32 := (x >>> n) ||| (x <<< (32 - n))

/-- big-endian word `i` of a 64-byte chunk (hash.ts:162-165) -/
def wordAt (chunk : Bytes) (i : Nat) : UInt32 :=
  let b (k : Nat) : UInt32 := (chunk.getD (4 * i + k) 0).toUInt32
  (b 0 <<< 24) ||| (b 1 <<< 16) ||| (b 2 <<< 8) ||| b 3

/-- message schedule (hash.ts:166-170) -/
def schedule (chunk : Bytes) : Array UInt32 := Id.run do
  let mut w : Array UInt32 := Array.ofFn (n := 16) (fun i => wordAt chunk i.val)
  for i in [16:64] do
    let w15 := w.getD (i - 15) 0
    let w2 := w.getD (i - 2) 0
    let s0 := rotr w15 7 ^^^ rotr w15 18 ^^^ (w15 >>> 3)
    let s1 := rotr w2 17 ^^^ rotr w2 19 ^^^ (w2 >>> 10)
    w := w.push (w.getD (i - 16) 0 + s0 + w.getD (i - 7) 0 + s1)
  return w

/-- `processChunk` (hash.ts:160-206) -/
def compress (s : State) (chunk : Bytes) : State := Id.run do
  let w := schedule chunk
  let mut a := s.h0
  let mut b := s.h1
  let mut c := s.h2
  let mut d := s.h3
  let mut e := s.h4
  let mut f := s.h5
  let mut g := s.h6
  let mut h := s.h7
  for i in [0:64] do
    let s1 := rotr e 6 ^^^ rotr e 11 ^^^ rotr e 25
    let ch := (e &&& f) ^^^ (~~~e &&& g)
    let temp1 := h + s1 + ch + K.getD i 0 + w.getD i 0
    let s0 := rotr a 2 ^^^ rotr a 13 ^^^ rotr a 22
    let maj := (a &&& b) ^^^ (a &&& c) ^^^ (b &&& c)
    let temp2 := s0 + maj
    h := g
    g := f
    f := e
    e := d + temp1
    d := c
    c := b
    b := a
    a := temp1 + temp2
  return ⟨s.h0 + a, s.h1 + b, s.h2 + c, s.h3 + d, s.h4 + e, s.h5 + f, s.h6 + g, s.h7 + h⟩

/-! ### Specification: FIPS 180-4 padding and block iteration, parametric in the compression function -/

/-- 8-byte big-endian encoding of `n` (mod 2^64) -/
def be64 (n : Nat) : Bytes :=
  [56, 48, 40, 32, 24, 16, 8, 0].map fun sh => UInt8.ofNat ((n >>> sh) % 256)

/-- number of zero bytes after 0x80 so that the padded length is ≡ 0 (mod 64) -/
def zeroPad (len : Nat) : Nat := (119 - len % 64) % 64

def pad (len : Nat) : Bytes := (0x80 : UInt8) :: List.replicate (zeroPad len) 0 ++ be64 (len * 8)

/-- absorb all complete 64-byte blocks of `msg`, return the state and the unabsorbed tail -/
def absorb (cmp : State → Bytes → State) (s : State) (msg : Bytes) : State × Bytes :=
  if h : 64 ≤ msg.length then absorb cmp (cmp s (msg.take 64)) (msg.drop 64) else (s, msg)
termination_by msg.length
decreasing_by simp [List.length_drop]; omega

def sha256With (cmp : State → Bytes → State) (iv : State) (msg : Bytes) : State :=
  (absorb cmp iv (msg ++ pad msg.length)).1

def sha256 (msg : Bytes) : State := sha256With compress IV msg

/-! ### Hash256Writer -/

structure Writer where
  h : State
  /-- the first `bufferLength` bytes of the JS `buffer` (bytes beyond are stale and always overwritten) -/
  buffer : Bytes
  bytesHashed : Nat
  finished : Bool
  deriving Repr, Inhabited

def Writer.init : Writer := ⟨IV, [], 0, false⟩

/-- the `while (position < data.length)` loop of `updateBytes` (hash.ts:140-157) -/
def updLoop (cmp : State → Bytes → State) (h : State) (buf : Bytes) (data : Bytes) : State × Bytes :=
  if hd : data = [] then (h, buf)
  else if hb : buf.length < 64 then
    let space := 64 - buf.length
    let buf' := buf ++ data.take space
    if buf'.length = 64 then updLoop cmp (cmp h buf') [] (data.drop space)
    else updLoop cmp h buf' (data.drop space)
  else (h, buf)  -- unreachable: bufferLength < 64 is an invariant
termination_by data.length
decreasing_by
  all_goals (simp [List.length_drop]; cases data with | nil => contradiction | cons x xs => simp; omega)

def Writer.updateBytesWith (cmp : State → Bytes → State) (w : Writer) (data : Bytes) : Option Writer :=
  if w.finished then none  -- throws "digest already called"
  else
    let (h, buf) := updLoop cmp w.h w.buffer data
    some { w with h := h, buffer := buf, bytesHashed := w.bytesHashed + data.length }

def Writer.updateBytes := Writer.updateBytesWith compress

/-- `digestHex` up to the hex rendering (hash.ts:208-233): returns the final state -/
def Writer.digestWith (cmp : State → Bytes → State) (w : Writer) : Option State :=
  if w.finished then none
  else
    let bits := w.bytesHashed * 8
    let high := bits / 0x100000000
    let low := bits % 0x100000000
    let lenBytes : Bytes := [UInt8.ofNat ((high >>> 24) &&& 255), UInt8.ofNat ((high >>> 16) &&& 255),
      UInt8.ofNat ((high >>> 8) &&& 255), UInt8.ofNat (high &&& 255),
      UInt8.ofNat ((low >>> 24) &&& 255), UInt8.ofNat ((low >>> 16) &&& 255),
      UInt8.ofNat ((low >>> 8) &&& 255), UInt8.ofNat (low &&& 255)]
    let buf := w.buffer ++ [0x80]
    if buf.length > 56 then
      let h1 := cmp w.h (buf ++ List.replicate (64 - buf.length) 0)
      some (cmp h1 (List.replicate 56 0 ++ lenBytes))
    else
      some (cmp w.h (buf ++ List.replicate (56 - buf.length) 0 ++ lenBytes))

def Writer.digest := Writer.digestWith compress

def hexDigit (n : Nat) : Char := "0123456789abcdef".toList.getD n '?'

def wordHex (w : UInt32) : String :=
  String.ofList ([28, 24, 20, 16, 12, 8, 4, 0].map fun sh => hexDigit ((w.toNat >>> sh) % 16))

def State.hex (s : State) : String :=
  wordHex s.h0 ++ wordHex s.h1 ++ wordHex s.h2 ++ wordHex s.h3 ++ wordHex s.h4 ++ wordHex s.h5 ++
    wordHex s.h6 ++ wordHex s.h7

/-! ### token-level writes (hash.ts:99-138) -/

def u32be (n : Nat) : Bytes :=
  [UInt8.ofNat ((n >>> 24) &&& 255), UInt8.ofNat ((n >>> 16) &&& 255), UInt8.ofNat ((n >>> 8) &&& 255),
    UInt8.ofNat (n &&& 255)]

def utf8 (s : String) : Bytes := s.toUTF8.toList

/-- a token of the canonical encoding -/
inductive Tok where
  | tag (s : String)
  | str (s : String)
  | num (canon : String)   -- canonicalNumber(value): "NaN", "-0" or String(value)
  | bool (b : Bool)
  | null
  deriving DecidableEq, Repr, Inhabited

def withLen (s : String) : Bytes := u32be (utf8 s).length ++ utf8 s

def Tok.bytes : Tok → Bytes
  | .tag s => UInt8.ofNat Gen.tagTag :: withLen s
  | .str s => UInt8.ofNat Gen.tagString :: withLen s
  | .num s => UInt8.ofNat Gen.tagNumber :: withLen s
  | .bool true => [UInt8.ofNat Gen.tagTrue]
  | .bool false => [UInt8.ofNat Gen.tagFalse]
  | .null => [UInt8.ofNat Gen.tagNull]

def encodeToks (ts : List Tok) : Bytes := (ts.map Tok.bytes).flatten

/-- the chunks `updateBytes` is called with for one token (byte, then u32 length, then payload) -/
def Tok.chunks : Tok → List Bytes
  | .tag s => [[UInt8.ofNat Gen.tagTag], u32be (utf8 s).length, utf8 s]
  | .str s => [[UInt8.ofNat Gen.tagString], u32be (utf8 s).length, utf8 s]
  | .num s => [[UInt8.ofNat Gen.tagNumber], u32be (utf8 s).length, utf8 s]
  | .bool true => [[UInt8.ofNat Gen.tagTrue]]
  | .bool false => [[UInt8.ofNat Gen.tagFalse]]
  | .null => [[UInt8.ofNat Gen.tagNull]]

def Writer.updateChunks (w : Writer) : List Bytes → Option Writer
  | [] => some w
  | c :: cs => match w.updateBytes c with
    | some w' => w'.updateChunks cs
    | none => none

def hashToks (ts : List Tok) : Option String :=
  match Writer.init.updateChunks (ts.map Tok.chunks).flatten with
  | some w => (w.digest).map State.hex
  | none => none

end BeffVerif.Sha
