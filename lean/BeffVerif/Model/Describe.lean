import BeffVerif.Model.Report
/-!
`describe()` (codegen-v2.ts: describeTypeExpr of every class, describeObjectMember, collectDescribeRefs,
BaseRefRuntype.describe, ParserFromRuntype.describe) as a text-producing model.
-/
namespace BeffVerif
namespace RT
open JsVal

structure TypeDesc where
  typeExpr : String
  docText : Option String
  deriving Repr, Inhabited

structure DescCtx where
  activeRefs : List String
  definitions : List (String × TypeDesc)
  refCounts : List (String × Nat)
  visitedRefs : List String
  deriving Repr, Inhabited

def DescCtx.count (c : DescCtx) (n : String) : Nat :=
  match c.refCounts.find? (fun p => p.1 == n) with
  | some p => p.2
  | none => 0

def DescCtx.bump (c : DescCtx) (n : String) : DescCtx :=
  if c.refCounts.any (fun p => p.1 == n) then
    { c with refCounts := c.refCounts.map (fun p => if p.1 == n then (n, p.2 + 1) else p) }
  else { c with refCounts := c.refCounts ++ [(n, 1)] }

def DescCtx.define (c : DescCtx) (n : String) (d : TypeDesc) : DescCtx :=
  if c.definitions.any (fun p => p.1 == n) then c else { c with definitions := c.definitions ++ [(n, d)] }

/-- `describeChildren()` -/
def describeChildren : RT → List RT
  | .tuple pre rest => pre ++ (match rest with | some r => [r] | none => [])
  | .allOf ts => ts
  | .anyOf ts => ts
  | .array t => [t]
  | .map k v => [k, v]
  | .set t => [t]
  | .disc schemas _ _ _ => schemas
  | .optional t => [t]
  | .object props ix => props.map (·.2) ++ ix.flatMap (fun p => [p.1, p.2])
  | .described _ t => describeChildren t
  | _ => []

/-- `collectDescribeRefs` -/
def collectRefs (env : Env) : Nat → RT → DescCtx → DescCtx
  | 0, _, c => c
  | n+1, rt, c =>
    match stripDesc rt with
    | .ref name =>
      let c := c.bump name
      if c.activeRefs.contains name then c
      else if c.visitedRefs.contains name then c
      else
        let c := { c with visitedRefs := c.visitedRefs ++ [name], activeRefs := c.activeRefs ++ [name] }
        let c := match env.lookup name with
          | some t => collectRefs env n t c
          | none => c
        { c with activeRefs := c.activeRefs.filter (· != name) }
    | t => (describeChildren t).foldl (fun c ch => collectRefs env n ch c) c

def jsdocDescription (d : String) : String :=
  let sanitized := "* /".intercalate (d.splitOn "*/")
  match sanitized.splitOn "\n" with
  | [l] => "/** " ++ l ++ " */"
  | ls => "\n".intercalate (["/**"] ++ ls.map (fun l => " * " ++ l) ++ [" */"])

def identLike (k : String) : Bool :=
  match k.toList with
  | [] => false
  | c :: cs => (c.isAlpha || c == '_' || c == '$') && cs.all (fun x => x.isAlphanum || x == '_' || x == '$')

def describePropertyKey (k : String) : String := if identLike k then k else jsonEscape k

def fmtExpr (base ext : String) (fs : List String) : String :=
  match fs with
  | [] => "INTERNAL ERROR"
  | f :: rest => rest.foldl (fun acc r => ext ++ "<" ++ acc ++ ", \"" ++ r ++ "\">") (base ++ "<\"" ++ f ++ "\">")

def isOptional : RT → Bool
  | .optional _ => true
  | _ => false

/-- `describe(ctx)`: returns the description and the updated context (definitions are collected in the context) -/
def describeRT (env : Env) : Nat → RT → DescCtx → (TypeDesc × DescCtx)
  | 0, _, c => (⟨"<nofuel>", none⟩, c)
  | n+1, rt, c =>
    let go := describeRT env n
    let exprs (ts : List RT) (c : DescCtx) : List String × DescCtx :=
      ts.foldl (fun (acc : List String × DescCtx) t => let (d, c') := go t acc.2; (acc.1 ++ [d.typeExpr], c')) ([], c)
    match rt with
    | .described doc t =>
      match t with
      | .ref name =>
        -- BaseRefRuntype.describe with own metadata
        let (d, c') := go (.ref name) c
        (⟨d.typeExpr, some doc⟩, c')
      | _ =>
        let (d, c') := go t c
        (⟨d.typeExpr, some doc⟩, c')
    | .optional t => go t c
    | .ref name =>
      match env.lookup name with
      | none => (⟨name, none⟩, c)
      | some to =>
        if c.count name > 1 then
          if c.activeRefs.contains name then (⟨name, none⟩, c)
          else if c.definitions.any (fun p => p.1 == name) then (⟨name, none⟩, c)
          else
            let c1 := { c with activeRefs := c.activeRefs ++ [name] }
            let (d, c2) := go to c1
            let c3 := { c2 with activeRefs := c2.activeRefs.filter (· != name) }
            (⟨name, none⟩, c3.define name d)
        else go to c
    | .typeof t => (⟨t, none⟩, c)
    | .any => (⟨"any", none⟩, c)
    | .nullish d => (⟨d, none⟩, c)
    | .never => (⟨"never", none⟩, c)
    | .const v => (⟨(jsonStringify 10 v).getD "undefined", none⟩, c)
    | .regex _ d => (⟨d, none⟩, c)
    | .date => (⟨"Date", none⟩, c)
    | .bigint => (⟨"bigint", none⟩, c)
    | .typed k => (⟨k, none⟩, c)
    | .strfmt fs => (⟨fmtExpr "StringFormat" "StringFormatExtends" fs, none⟩, c)
    | .numfmt fs => (⟨fmtExpr "NumberFormat" "NumberFormatExtends" fs, none⟩, c)
    | .consts vs => (⟨"(" ++ " | ".intercalate (vs.map fun v => (jsonStringify 10 v).getD "undefined") ++ ")", none⟩, c)
    | .tuple pre rest =>
      let (ps, c1) := exprs pre c
      let (r, c2) : Option String × DescCtx := match rest with
        | some r => let (d, c') := go r c1; (some ("...Array<" ++ d.typeExpr ++ ">"), c')
        | none => (none, c1)
      let parts := ([", ".intercalate ps] ++ (match r with | some s => [s] | none => [])).filter (fun s => s.length > 0)
      (⟨"[" ++ ", ".intercalate parts ++ "]", none⟩, c2)
    | .allOf ts => let (es, c') := exprs ts c; (⟨"(" ++ " & ".intercalate es ++ ")", none⟩, c')
    | .anyOf ts => let (es, c') := exprs ts c; (⟨"(" ++ " | ".intercalate es ++ ")", none⟩, c')
    | .disc schemas _ _ _ => let (es, c') := exprs schemas c; (⟨"(" ++ " | ".intercalate es ++ ")", none⟩, c')
    | .array t => let (d, c') := go t c; (⟨"Array<" ++ d.typeExpr ++ ">", none⟩, c')
    | .map k v =>
      let (dk, c1) := go k c
      let (dv, c2) := go v c1
      (⟨"Map<" ++ dk.typeExpr ++ ", " ++ dv.typeExpr ++ ">", none⟩, c2)
    | .set t => let (d, c') := go t c; (⟨"Set<" ++ d.typeExpr ++ ">", none⟩, c')
    | .object props ix =>
      let sorted := sortBy (fun (a b : String × RT) => strLe a.1 b.1) props
      let (ms, c1) := sorted.foldl (fun (acc : List (Option String × String) × DescCtx) p =>
        let (d, c') := go p.2 acc.2
        (acc.1 ++ [(d.docText, describePropertyKey p.1 ++ (if isOptional p.2 then "?" else "") ++ ": " ++ d.typeExpr)], c')) ([], c)
      let (is, c2) := ix.foldl (fun (acc : List (Option String × String) × DescCtx) p =>
        let (dk, c') := go p.1 acc.2
        let (dv, c'') := go p.2 c'
        -- the key variable avoids the names the description refers to (fix D97): K, K_, K__, …
        let keyVar := (List.range 8).foldl (fun (k : String) _ => if c''.refCounts.any (fun q => q.1 == k) then k ++ "_" else k) "K"
        (acc.1 ++ [(dv.docText, "[" ++ keyVar ++ " in " ++ dk.typeExpr ++ "]" ++ (if isOptional p.2 then "?" else "") ++ ": " ++ dv.typeExpr)], c'')) ([], c1)
      let members := ms ++ is
      if members.any (fun m => m.1.isSome) then
        if members.isEmpty then (⟨"{}", none⟩, c2)
        else
          let content := "\n".intercalate (members.map fun m =>
            match m.1 with
            | some doc => jsdocDescription doc ++ "\n" ++ m.2 ++ ";"
            | none => m.2 ++ ";")
          (⟨"{\n" ++ content ++ "\n}", none⟩, c2)
      else (⟨"{ " ++ ", ".intercalate (members.map (·.2)) ++ " }", none⟩, c2)

def renderTypeAlias (name : String) (d : TypeDesc) : String :=
  let decl := "type " ++ name ++ " = " ++ d.typeExpr ++ ";"
  match d.docText with
  | some doc => jsdocDescription doc ++ "\n" ++ decl
  | none => decl

/-- `ParserFromRuntype.describe()` with `hideTypeNameInDescribe = false` -/
def describe (env : Env) (name : String) (rt : RT) (fuel : Nat := 200) : String :=
  let c0 : DescCtx := ⟨[], [], [], []⟩
  let c1 := collectRefs env fuel rt c0
  let (out, c2) := describeRT env fuel rt c1
  let deps := sortBy (fun (a b : String × TypeDesc) => strLe a.1 b.1) c2.definitions
  let depsPart := "\n\n".intercalate (deps.map fun p => renderTypeAlias p.1 p.2)
  let outPart := renderTypeAlias ("Codec" ++ name) out
  "\n\n".intercalate ([depsPart, outPart].filter (fun s => s.length > 0))

end RT
end BeffVerif
