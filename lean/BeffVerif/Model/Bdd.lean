/-
Model of packages/beff-core/src/subtyping/bdd.rs:50-295 (three-way decision diagrams and the
four Boolean operations) and of subtyping/dnf.rs:56-119 (bdd_to_dnf / dnf_to_bdd).
Recursion of the Rust code is not structural (operands of recursive calls are results of other
operations), so every operation takes a `fuel` argument and returns `Option`.
-/
namespace BeffVerif

/-- `Atom::{Mapping,List,Map,Set}(usize)`; `kind` is the declaration order of the variant, which is
what the derived `Ord` compares first (bdd.rs:50-60). -/
structure Atom where
  kind : Nat
  idx : Nat
  deriving DecidableEq, Repr, Inhabited

inductive Ord3 | lt | eq | gt deriving DecidableEq, Repr

def Atom.cmp (a b : Atom) : Ord3 :=
  if a.kind < b.kind then .lt
  else if b.kind < a.kind then .gt
  else if a.idx < b.idx then .lt
  else if b.idx < a.idx then .gt
  else .eq

inductive Bdd where
  | tt
  | ff
  | node (a : Atom) (l m r : Bdd)
  deriving DecidableEq, Repr, Inhabited

namespace Bdd

def fromAtom (a : Atom) : Bdd := node a tt ff ff

/-- `Bdd::from_node` (bdd.rs:84-97) with the union it calls passed in. -/
def fromNodeWith (u : Bdd → Bdd → Option Bdd) (a : Atom) (l m r : Bdd) : Option Bdd :=
  if m = tt then some tt
  else if l = r then u l m
  else some (node a l m r)

/-- `BddOps::union` (bdd.rs:160-205). -/
def union : Nat → Bdd → Bdd → Option Bdd
  | 0, _, _ => none
  | n+1, b1, b2 =>
    if b1 = b2 then some b1 else
    match b1, b2 with
    | tt, _ => some tt
    | ff, _ => some b2
    | _, tt => some tt
    | _, ff => some b1
    | node a1 l1 m1 r1, node a2 l2 m2 r2 =>
      match Atom.cmp a1 a2 with
      | .lt =>
        match union n m1 (node a2 l2 m2 r2) with
        | some m => fromNodeWith (union n) a1 l1 m r1
        | none => none
      | .gt =>
        match union n (node a1 l1 m1 r1) m2 with
        | some m => fromNodeWith (union n) a2 l2 m r2
        | none => none
      | .eq =>
        match union n l1 l2, union n m1 m2, union n r1 r2 with
        | some l, some m, some r => fromNodeWith (union n) a1 l m r
        | _, _, _ => none

def fromNode (n : Nat) := fromNodeWith (union n)

/-- `BddOps::intersect` (bdd.rs:108-158). -/
def intersect : Nat → Bdd → Bdd → Option Bdd
  | 0, _, _ => none
  | n+1, b1, b2 =>
    if b1 = b2 then some b1 else
    match b1, b2 with
    | tt, _ => some b2
    | ff, _ => some ff
    | _, tt => some b1
    | _, ff => some ff
    | node a1 l1 m1 r1, node a2 l2 m2 r2 =>
      match Atom.cmp a1 a2 with
      | .lt =>
        match intersect n l1 (node a2 l2 m2 r2), intersect n m1 (node a2 l2 m2 r2),
              intersect n r1 (node a2 l2 m2 r2) with
        | some l, some m, some r => fromNode n a1 l m r
        | _, _, _ => none
      | .gt =>
        match intersect n (node a1 l1 m1 r1) l2, intersect n (node a1 l1 m1 r1) m2,
              intersect n (node a1 l1 m1 r1) r2 with
        | some l, some m, some r => fromNode n a2 l m r
        | _, _, _ => none
      | .eq =>
        match union n l1 m1, union n l2 m2, union n r1 m1, union n r2 m2 with
        | some x1, some x2, some y1, some y2 =>
          match intersect n x1 x2, intersect n y1 y2 with
          | some l, some r => fromNode n a1 l ff r
          | _, _ => none
        | _, _, _, _ => none

/-- `BddOps::complement` (bdd.rs:254-294). -/
def complement : Nat → Bdd → Option Bdd
  | 0, _ => none
  | n+1, b =>
    match b with
    | tt => some ff
    | ff => some tt
    | node a l m r =>
      if r = ff then
        match union n l m with
        | some lm =>
          match complement n lm, complement n m with
          | some x, some y => fromNode n a ff x y
          | _, _ => none
        | none => none
      else if l = ff then
        match union n r m with
        | some rm =>
          match complement n m, complement n rm with
          | some x, some y => fromNode n a x y ff
          | _, _ => none
        | none => none
      else if m = ff then
        match union n l r with
        | some lr =>
          match complement n l, complement n lr, complement n r with
          | some x, some y, some z => fromNode n a x y z
          | _, _, _ => none
        | none => none
      else
        match union n l m, union n r m with
        | some lm, some rm =>
          match complement n lm, complement n rm with
          | some x, some y => fromNode n a x ff y
          | _, _ => none
        | _, _ => none

/-- `BddOps::diff` (bdd.rs:207-252). -/
def diff : Nat → Bdd → Bdd → Option Bdd
  | 0, _, _ => none
  | n+1, b1, b2 =>
    if b1 = b2 then some ff else
    match b1, b2 with
    | _, tt => some ff
    | _, ff => some b1
    | tt, _ => complement n b2
    | ff, _ => some ff
    | node a1 l1 m1 r1, node a2 l2 m2 r2 =>
      match Atom.cmp a1 a2 with
      | .lt =>
        match union n l1 m1, union n r1 m1 with
        | some x, some y =>
          match diff n x (node a2 l2 m2 r2), diff n y (node a2 l2 m2 r2) with
          | some l, some r => fromNode n a1 l ff r
          | _, _ => none
        | _, _ => none
      | .gt =>
        match union n l2 m2, union n r2 m2 with
        | some x, some y =>
          match diff n (node a1 l1 m1 r1) x, diff n (node a1 l1 m1 r1) y with
          | some l, some r => fromNode n a2 l ff r
          | _, _ => none
        | _, _ => none
      | .eq =>
        match union n l1 m1, union n l2 m2, union n r1 m1, union n r2 m2 with
        | some x1, some x2, some y1, some y2 =>
          match diff n x1 x2, diff n y1 y2 with
          | some l, some r => fromNode n a1 l ff r
          | _, _ => none
        | _, _, _, _ => none

/-- Boolean reading of a diagram under an assignment of the atoms:
`(a ∧ left) ∨ middle ∨ (¬a ∧ right)`. -/
def eval (ρ : Atom → Bool) : Bdd → Bool
  | tt => true
  | ff => false
  | node a l m r => (ρ a && eval ρ l) || eval ρ m || (!ρ a && eval ρ r)

end Bdd

/-! ### DNF (dnf.rs) -/

/-- One clause: positive atoms and negative atoms (dnf.rs `Conj`). -/
structure Conj where
  pos : List Atom
  neg : List Atom
  deriving DecidableEq, Repr, Inhabited

abbrev Dnf := List Conj

namespace Dnf

def Conj.eval (ρ : Atom → Bool) (c : Conj) : Bool :=
  c.pos.all ρ && c.neg.all (fun a => !ρ a)

def eval (ρ : Atom → Bool) (d : Dnf) : Bool := d.any (Conj.eval ρ)

/-- `bdd_to_dnf_recursive` (dnf.rs:66-100): middle first (constraints unchanged), then left with the
atom positive, then right with the atom negative; clauses are appended to `acc`. -/
def ofBddAcc : Bdd → List Atom → List Atom → Dnf → Dnf
  | .tt, pos, neg, acc => acc ++ [⟨pos, neg⟩]
  | .ff, _, _, acc => acc
  | .node a l m r, pos, neg, acc =>
    let acc1 := ofBddAcc m pos neg acc
    let acc2 := ofBddAcc l (pos ++ [a]) neg acc1
    ofBddAcc r pos (neg ++ [a]) acc2

def ofBdd (b : Bdd) : Dnf := ofBddAcc b [] [] []

/-- inner loops of `dnf_to_bdd` (dnf.rs:102-119) -/
def conjPos (n : Nat) : List Atom → Bdd → Option Bdd
  | [], b => some b
  | a :: as, b =>
    match Bdd.intersect n b (Bdd.fromAtom a) with
    | some b' => conjPos n as b'
    | none => none

def conjNeg (n : Nat) : List Atom → Bdd → Option Bdd
  | [], b => some b
  | a :: as, b =>
    match Bdd.complement n (Bdd.fromAtom a) with
    | some na =>
      match Bdd.intersect n b na with
      | some b' => conjNeg n as b'
      | none => none
    | none => none

def toBddAcc (n : Nat) : Dnf → Bdd → Option Bdd
  | [], b => some b
  | c :: cs, b =>
    match conjPos n c.pos .tt with
    | some p =>
      match conjNeg n c.neg p with
      | some cb =>
        match Bdd.union n b cb with
        | some b' => toBddAcc n cs b'
        | none => none
      | none => none
    | none => none

def toBdd (n : Nat) (d : Dnf) : Option Bdd := toBddAcc n d .ff

end Dnf
end BeffVerif
