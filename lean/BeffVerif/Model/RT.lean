import BeffVerif.Model.JsVal
/-!
Layer R — the `*Runtype` classes of packages/beff-client/src/codegen-v2.ts as one inductive type,
plus the template matcher standing for the `RegExp` a `RegexRuntype` holds.
-/
namespace BeffVerif

/-- items of a template literal type (ast/runtype.rs `TplLitTypeItem`) -/
inductive TplItem where
  | string
  | number
  | boolean
  | lit (s : String)
  | oneOf (alts : List TplItem)
  deriving Repr, Inhabited

abbrev Tpl := List TplItem

inductive RT where
  | typeof (t : String)
  | any
  | nullish (d : String)
  | never
  | const (v : JsVal)
  | regex (tpl : Tpl) (desc : String)
  | date
  | bigint
  | typed (ctor : String)
  | strfmt (fs : List String)
  | numfmt (fs : List String)
  | consts (vs : List JsVal)
  | tuple (pre : List RT) (rest : Option RT)
  | allOf (ts : List RT)
  | anyOf (ts : List RT)
  | array (t : RT)
  | map (k v : RT)
  | set (t : RT)
  | disc (schemas : List RT) (key : String) (mapping : List (String × RT)) (schemaMapping : List (String × RT))
  | optional (t : RT)
  | object (props : List (String × RT)) (indexed : List (RT × RT))
  | ref (name : String)
  | described (desc : String) (t : RT)   -- BaseRuntype.metadata.description
  deriving Repr, Inhabited

abbrev Env := List (String × RT)

def Env.lookup (env : Env) (n : String) : Option RT :=
  match env.find? (fun p => p.1 == n) with
  | some p => some p.2
  | none => none

/-- results of running runtime code: a value, a thrown exception (by class), or fuel exhaustion of the model -/
inductive Res (α : Type) where
  | ok (a : α)
  | throw (cls : String)
  | nofuel
  deriving Repr, Inhabited, DecidableEq

namespace Res
@[inline] def bind {α β : Type} (r : Res α) (f : α → Res β) : Res β :=
  match r with
  | ok a => f a
  | throw c => throw c
  | nofuel => nofuel
instance : Monad Res where
  pure := ok
  bind := bind
end Res

/-! ### template matcher (search semantics of `RegExp.prototype.test` without anchors) -/
namespace Tpl

def isLineTerminator (c : Char) : Bool := c == '\n' || c == '\r' || c.toNat == 0x2028 || c.toNat == 0x2029

/-- all `n` such that the first `n` chars of `s` are digits, n ≥ 1, longest first is not needed: all lengths -/
def digitPrefixLens (s : List Char) : List Nat :=
  let k := (s.takeWhile Char.isDigit).length
  (List.range k).map (· + 1)

mutual
/-- all lengths `n` such that `s.take n` matches the item -/
def itemLens : Nat → TplItem → List Char → List Nat
  | 0, _, _ => []
  | fuel+1, it, s =>
    match it with
    | .string => (List.range ((s.takeWhile (fun c => !isLineTerminator c)).length + 1))
    | .number =>
      -- (\d+(\.\d+)?)
      (digitPrefixLens s).flatMap fun n =>
        n :: (match s.drop n with
          | '.' :: rest => (digitPrefixLens rest).map (fun m => n + 1 + m)
          | _ => [])
    | .boolean =>
      (if "true".toList.isPrefixOf s then [4] else []) ++ (if "false".toList.isPrefixOf s then [5] else [])
    | .lit l => if l.toList.isPrefixOf s then [l.length] else []
    | .oneOf alts =>
      -- an empty string constant is an alternative like any other (`(|(a))`, fix D80); `()` matches the empty string
      if alts.isEmpty then [0] else altLens fuel alts s
def altLens : Nat → List TplItem → List Char → List Nat
  | 0, _, _ => []
  | _, [], _ => []
  | fuel+1, a :: as, s => itemLens fuel a s ++ altLens fuel as s
end

/-- does the WHOLE of `s` match the item sequence? -/
def seqMatchesAll (fuel : Nat) : List TplItem → List Char → Bool
  | [], s => s.isEmpty
  | it :: rest, s => (itemLens fuel it s).any fun n => seqMatchesAll fuel rest (s.drop n)

/-- `new RegExp("^(?:" + regex_expr(tpl) + ")$").test(s)` (RegexRuntype anchors the emitted expression) -/
def test (tpl : Tpl) (s : String) : Bool := seqMatchesAll 64 tpl s.toList

end Tpl
end BeffVerif
