import BeffVerif.Model.Bdd
import BeffVerif.Model.IR
/-!
Layer S — the semantic subtyping engine (C05): subtyping/semtype.rs (per-tag type vectors and their Boolean
operations), subtype.rs (literal-set subtypes), mapping.rs (`intersect_mapping`, `get_value_exact` / `get_value_open`,
`check_mapping_empty`), bdd.rs (`bdd_every_result`, `list_formula_is_empty`, `list_inhabited` as of fix D5/D20,
`list_is_empty` with its memo), dnf.rs (`dnf_mapping_is_empty` with its memo) and mod.rs (`convert_to_sem_type`).

Restricted to the fragment of property C05: null, boolean, number, string and their literals, `unknown`/`never`,
objects with a `string` index signature, arrays, tuples with rest, unions, intersections, named references. All
other tags (bigint, date, void/undefined, typed arrays, Map, Set) are one opaque bit that is only ever "all" or
"nothing". Recursion in the Rust code goes through the definition tables and the memo tables, so every function
takes fuel and threads the context.
-/
namespace BeffVerif.Sem

/-- `ProperSubtype::{Number,String}{allowed, values}` over literals (canonical text) -/
structure LitSet where
  allowed : Bool
  values : List String
  deriving DecidableEq, Repr, Inhabited

/-- `SubType::{False, True, Proper}` -/
inductive Sub (α : Type) where
  | none
  | all
  | some (a : α)
  deriving DecidableEq, Repr, Inhabited

structure SemType where
  bool : Sub Bool
  num : Sub LitSet
  str : Sub LitSet
  null : Bool
  opt : Bool            -- SubTypeTag::OptionalProp ("the property is absent")
  mapping : Sub Bdd
  list : Sub Bdd
  /-- `VoidUndefined`: a literal set over {"undefined", "void"} (only "undefined" occurs in the fragment, so the
  `undefined ⊆ void` relation of subtype.rs never matters) -/
  vu : Sub LitSet
  other : Bool          -- every other tag (bigint, date, typed arrays, Map, Set), as a whole
  deriving DecidableEq, Repr, Inhabited

def never : SemType := ⟨.none, .none, .none, false, false, .none, .none, .none, false⟩
def unknown : SemType := ⟨.all, .all, .all, true, true, .all, .all, .all, true⟩
def optionalProp : SemType := { never with opt := true }

/-- `SemType::is_never`: structurally nothing (a diagram that happens to be empty does not count) -/
def SemType.isNever (t : SemType) : Bool := t == never

-- ---------- literal sets (subtype.rs: sub_vec_* with equality as the only subtype relation) ----------
def lsInter (a b : List String) : List String := a.filter (b.contains ·)
def lsUnion (a b : List String) : List String := a ++ b.filter (fun x => !a.contains x)
def lsDiff (a b : List String) : List String := a.filter (fun x => !b.contains x)

def mkLit (allowed : Bool) (values : List String) : Sub LitSet :=
  if values.isEmpty then (if allowed then .none else .all) else .some ⟨allowed, values⟩

def litInter (x y : LitSet) : Sub LitSet :=
  match x.allowed, y.allowed with
  | true, true => mkLit true (lsInter x.values y.values)
  | false, false => mkLit false (lsUnion x.values y.values)
  | true, false => mkLit true (lsDiff x.values y.values)
  | false, true => mkLit true (lsDiff y.values x.values)

def litUnion (x y : LitSet) : Sub LitSet :=
  match x.allowed, y.allowed with
  | true, true => mkLit true (lsUnion x.values y.values)
  | false, false => mkLit false (lsInter x.values y.values)
  | true, false => mkLit false (lsDiff y.values x.values)
  | false, true => mkLit false (lsDiff x.values y.values)

def litCompl (x : LitSet) : LitSet := ⟨!x.allowed, x.values⟩
def litDiff (x y : LitSet) : Sub LitSet := litInter x (litCompl y)

-- ---------- per-tag combination (semtype.rs: intersect / union / diff over the tag vector) ----------
def subInter {α : Type} (f : α → α → Option (Sub α)) : Sub α → Sub α → Option (Sub α)
  | .none, _ | _, .none => some .none
  | .all, x | x, .all => some x
  | .some a, .some b => f a b

def subUnion {α : Type} (f : α → α → Option (Sub α)) : Sub α → Sub α → Option (Sub α)
  | .all, _ | _, .all => some .all
  | .none, x | x, .none => some x
  | .some a, .some b => f a b

def subDiff {α : Type} (compl : α → Option α) (f : α → α → Option (Sub α)) : Sub α → Sub α → Option (Sub α)
  | .none, _ => some .none
  | _, .all => some .none
  | x, .none => some x
  | .all, .some b => (compl b).map .some
  | .some a, .some b => f a b

def boolInter (a b : Bool) : Option (Sub Bool) := some (if a == b then .some a else .none)
def boolUnion (a b : Bool) : Option (Sub Bool) := some (if a == b then .some a else .all)
def boolDiff (a b : Bool) : Option (Sub Bool) := some (if a == b then .none else .some a)

def fuelB : Nat := 200

def bddInter (a b : Bdd) : Option (Sub Bdd) := (Bdd.intersect fuelB a b).map .some
def bddUnion (a b : Bdd) : Option (Sub Bdd) := (Bdd.union fuelB a b).map .some
def bddDiff (a b : Bdd) : Option (Sub Bdd) := (Bdd.diff fuelB a b).map .some

def inter (a b : SemType) : Option SemType := do
  some { bool := ← subInter boolInter a.bool b.bool
         num := ← subInter (fun x y => some (litInter x y)) a.num b.num
         str := ← subInter (fun x y => some (litInter x y)) a.str b.str
         null := a.null && b.null
         opt := a.opt && b.opt
         mapping := ← subInter bddInter a.mapping b.mapping
         list := ← subInter bddInter a.list b.list
         vu := ← subInter (fun x y => some (litInter x y)) a.vu b.vu
         other := a.other && b.other }

def union (a b : SemType) : Option SemType := do
  some { bool := ← subUnion boolUnion a.bool b.bool
         num := ← subUnion (fun x y => some (litUnion x y)) a.num b.num
         str := ← subUnion (fun x y => some (litUnion x y)) a.str b.str
         null := a.null || b.null
         opt := a.opt || b.opt
         mapping := ← subUnion bddUnion a.mapping b.mapping
         list := ← subUnion bddUnion a.list b.list
         vu := ← subUnion (fun x y => some (litUnion x y)) a.vu b.vu
         other := a.other || b.other }

def diff (a b : SemType) : Option SemType := do
  some { bool := ← subDiff (fun x => some (!x)) boolDiff a.bool b.bool
         num := ← subDiff (fun x => some (litCompl x)) (fun x y => some (litDiff x y)) a.num b.num
         str := ← subDiff (fun x => some (litCompl x)) (fun x y => some (litDiff x y)) a.str b.str
         null := a.null && !b.null
         opt := a.opt && !b.opt
         mapping := ← subDiff (Bdd.complement fuelB) bddDiff a.mapping b.mapping
         list := ← subDiff (Bdd.complement fuelB) bddDiff a.list b.list
         vu := ← subDiff (fun x => some (litCompl x)) (fun x y => some (litDiff x y)) a.vu b.vu
         other := a.other && !b.other }

def complement (a : SemType) : Option SemType := diff unknown a

def makeOptional (a : SemType) : SemType := { a with opt := true }

-- ---------- definitions and memo tables (SemTypeContext) ----------
/-- `MappingAtomicType` with a `string` index signature (its value type) -/
structure MappingAtomic where
  vs : List (String × SemType)
  index : Option SemType
  deriving Repr, Inhabited

structure ListAtomic where
  pre : List SemType
  items : SemType
  deriving Repr, Inhabited

structure Ctx where
  mappings : List (Option MappingAtomic) := []
  lists : List (Option ListAtomic) := []
  /-- `mapping_memo_dnf`: `none` = `MemoEmpty::Undefined` (being computed: assumed empty) -/
  memoM : List (Dnf × Option Bool) := []
  /-- `list_memo` -/
  memoL : List (Bdd × Option Bool) := []
  /-- `mapping_runtype_ref_memo` / `list_runtype_ref_memo` -/
  refM : List (String × Nat) := []
  refL : List (String × Nat) := []
  deriving Inhabited

/-- state + failure (out of fuel, or one of the Rust `bail!` / `expect` paths) -/
abbrev SM (α : Type) := Ctx → Option (α × Ctx)

instance : Monad SM where
  pure a := fun c => some (a, c)
  bind m f := fun c => match m c with
    | some (a, c') => f a c'
    | none => none

def SM.fail {α : Type} : SM α := fun _ => none
def SM.get : SM Ctx := fun c => some (c, c)
def SM.modify (f : Ctx → Ctx) : SM Unit := fun c => some ((), f c)
def SM.lift {α : Type} : Option α → SM α
  | some a => pure a
  | none => SM.fail

def mappingKind : Nat := 0   -- Atom::Mapping
def listKind : Nat := 1      -- Atom::List

def getMapping (i : Nat) : SM MappingAtomic := fun c => match c.mappings[i]? with
  | some (some m) => some (m, c)
  | _ => none

def getList (i : Nat) : SM ListAtomic := fun c => match c.lists[i]? with
  | some (some m) => some (m, c)
  | _ => none

def mappingFromIdx (i : Nat) : SemType := { never with mapping := .some (Bdd.fromAtom ⟨mappingKind, i⟩) }
def listFromIdx (i : Nat) : SemType := { never with list := .some (Bdd.fromAtom ⟨listKind, i⟩) }

def vsGet (vs : List (String × SemType)) (k : String) : Option SemType := (vs.find? (·.1 == k)).map (·.2)
def vsPut (vs : List (String × SemType)) (k : String) (v : SemType) : List (String × SemType) :=
  if vs.any (·.1 == k) then vs.map (fun p => if p.1 == k then (k, v) else p) else vs ++ [(k, v)]

/-- `get_value_open`: what a (negative / other-side) object type says about key `k` -/
def valueOpen (m : MappingAtomic) (k : String) : SemType :=
  match vsGet m.vs k with
  | some v => v
  | none => match m.index with
    | some v => makeOptional v          -- `string` is not a finite key set
    | none => unknown

/-- `get_value_exact`: the value of key `k` in the positive object type: absent unless declared / indexed -/
def valueExact (m : MappingAtomic) (k : String) : SemType :=
  match vsGet m.vs k with
  | some v => v
  | none => match m.index with
    | some v => makeOptional v
    | none => optionalProp

def dedup (xs : List String) : List String := xs.foldl (fun a s => if a.contains s then a else a ++ [s]) []

/-- `intersect_mapping` (after fix D69) -/
def intersectMapping (m1 m2 : MappingAtomic) : Option (Option MappingAtomic) := do
  let names := JsVal.sortStrings (dedup (m1.vs.map (·.1) ++ m2.vs.map (·.1)))
  let acc ← names.foldlM (fun (acc : Option (List (String × SemType))) name =>
    match acc with
    | none => some none
    | some vs => do
      let t ← inter (valueOpen m1 name) (valueOpen m2 name)
      if t.isNever then some none else some (some (vs ++ [(name, t)]))) (some [])
  match acc with
  | none => some none
  | some vs =>
    let ix ← match m1.index, m2.index with
      | some a, some b => (inter a b).map some
      | some a, none | none, some a => some (some a)
      | none, none => some none
    some (some ⟨vs, ix⟩)

mutual
/-- `is_empty_status` of a type vector -/
def isEmpty : Nat → SemType → SM Bool
  | 0, _ => SM.fail
  | n+1, t =>
    if t.bool != .none || t.num != .none || t.str != .none || t.null || t.opt || t.vu != .none || t.other then pure false
    else if t.mapping == .all || t.list == .all then pure false
    else do
      -- subtype_data is ordered by tag code: Mapping (1<<5) before List (1<<7)
      let me ← match t.mapping with
        | .some b => mappingIsEmpty n b
        | _ => pure true
      if !me then pure false
      else match t.list with
        | .some b => listIsEmpty n b
        | _ => pure true

/-- `dnf_mapping_is_empty` + `mapping_is_empty_handle_recusrsion` + `mapping_is_empty_impl` -/
def mappingIsEmpty : Nat → Bdd → SM Bool
  | 0, _ => SM.fail
  | n+1, b => do
    let dnf := Dnf.ofBdd b
    let c ← SM.get
    match c.memoM.find? (fun p => p.1 == dnf) with
    | some (_, some r) => pure r
    | some (_, none) => pure true                       -- a loop: assumed empty
    | none =>
      SM.modify fun c => { c with memoM := c.memoM ++ [(dnf, none)] }
      let rs ← dnf.mapM fun conj => do
        match ← posIntersection n conj.pos with
        | none => pure true
        | some a =>
          let negs ← conj.neg.mapM fun at' => getMapping at'.idx
          checkMappingEmpty n a negs
      let r := rs.all id
      SM.modify fun c => { c with memoM := c.memoM.map fun p => if p.1 == dnf then (dnf, some r) else p }
      pure r

/-- `non_empty_map_literals_intersection` -/
def posIntersection : Nat → List Atom → SM (Option MappingAtomic)
  | 0, _ => SM.fail
  | n+1, pos => do
    let rec go (acc : MappingAtomic) : List Atom → SM (Option MappingAtomic)
      | [] => pure (some acc)
      | a :: rest => do
        let m ← getMapping a.idx
        match ← SM.lift (intersectMapping acc m) with
        | none => pure none
        | some acc' => go acc' rest
    let _ := n
    -- (after fix D104) a clause without positive atoms is every object, not the closed `{}`
    match pos with
    | [] => pure (some ⟨[], some unknown⟩)
    | _ => go ⟨[], none⟩ pos

/-- `check_mapping_empty` (not a Map; after fix D70) -/
def checkMappingEmpty : Nat → MappingAtomic → List MappingAtomic → SM Bool
  | 0, _, _ => SM.fail
  | n+1, pos, negs => do
    -- 1. a declared property with an empty type makes the object type empty
    let anyEmpty ← pos.vs.foldlM (fun (acc : Bool) p => if acc then pure true else isEmpty n p.2) false
    if anyEmpty then pure true
    else match negs with
    | [] => pure false
    | cur :: rest => do
      let keys := JsVal.sortStrings (dedup (pos.vs.map (·.1) ++ cur.vs.map (·.1)))
      -- 4. every key dimension
      let covered ← keys.foldlM (fun (ok : Bool) k =>
        if !ok then pure false else do
          let d ← SM.lift (diff (valueExact pos k) (valueOpen cur k))
          if ← isEmpty n d then pure true
          else do
            let r ← checkMappingEmpty n { pos with vs := vsPut pos.vs k d } rest
            pure r) true
      if !covered then pure false
      else do
        -- 5. the index signature dimension
        let vp := match pos.index with | some v => v | none => optionalProp
        -- pos key type (⊆ string) is always covered by the key type of `cur` (its own `string`, or `string` when absent)
        let vn := makeOptional (match cur.index with | some v => v | none => unknown)
        let d ← SM.lift (diff vp vn)
        if ← isEmpty n d then pure true
        else checkMappingEmpty n { pos with index := some d } rest

/-- `list_is_empty` + `bdd_every_result` -/
def listIsEmpty : Nat → Bdd → SM Bool
  | 0, _ => SM.fail
  | n+1, b => do
    let c ← SM.get
    match c.memoL.find? (fun p => p.1 == b) with
    | some (_, some r) => pure r
    | some (_, none) => pure true
    | none =>
      SM.modify fun c => { c with memoL := c.memoL ++ [(b, none)] }
      let r ← listEvery n b [] []
      SM.modify fun c => { c with memoL := c.memoL.map fun p => if p.1 == b then (b, some r) else p }
      pure r

/-- `bdd_every_result`: right, middle, left are ALL evaluated (the Rust arguments are computed before
`and_empty_status` looks at them) -/
def listEvery : Nat → Bdd → List Atom → List Atom → SM Bool
  | 0, _, _, _ => SM.fail
  | n+1, b, pos, neg =>
    match b with
    | .ff => pure true
    | .tt => listFormulaIsEmpty n pos neg
    | .node a l m r => do
      let rr ← listEvery n r pos (a :: neg)
      let rm ← listEvery n m pos neg
      let rl ← listEvery n l (a :: pos) neg
      pure (rr && rm && rl)

/-- `list_formula_is_empty` -/
def listFormulaIsEmpty : Nat → List Atom → List Atom → SM Bool
  | 0, _, _ => SM.fail
  | n+1, pos, neg => do
    let negs ← neg.mapM fun a => getList a.idx
    match pos with
    | [] => listInhabitedNot n [] unknown negs
    | p0 :: ps => do
      let l0 ← getList p0.idx
      -- combine all the positive lists by intersection
      let combined ← ps.foldlM (fun (acc : Option (List SemType × SemType)) a =>
        match acc with
        | none => pure none
        | some (pre, items) => do
          let lt ← getList a.idx
          let newLen := max pre.length lt.pre.length
          -- fix D77: the lists accumulated so far continue with their OWN rest type
          if pre.length < newLen && items.isNever then pure none
          else
            let pre1 := pre ++ List.replicate (newLen - pre.length) items
            let pre2 ← SM.lift ((pre1.zipIdx).mapM fun (x, i) =>
              if i < lt.pre.length then inter x (lt.pre.getD i never) else some x)
            if lt.pre.length < newLen && lt.items.isNever then pure none
            else do
              let pre3 ← SM.lift ((pre2.zipIdx).mapM fun (x, i) =>
                if i ≥ lt.pre.length then inter x lt.items else some x)
              let items' ← SM.lift (inter items lt.items)
              pure (some (pre3, items'))) (some (l0.pre, l0.items))
      match combined with
      | none => pure true
      | some (pre, items) => do
        let anyEmpty ← pre.foldlM (fun (acc : Bool) m => if acc then pure true else isEmpty n m) false
        if anyEmpty then pure true
        else listInhabitedNot n pre items negs

/-- `!list_inhabited` (fix D5/D20): every length separately -/
def listInhabitedNot : Nat → List SemType → SemType → List ListAtomic → SM Bool
  | 0, _, _, _ => SM.fail
  | n+1, pre, items, negs =>
    if negs.isEmpty then pure false
    else do
      let minLen := pre.length
      let longest := negs.foldl (fun a ng => max a ng.pre.length) minLen
      let itemsEmpty ← if items.isNever then pure true else isEmpty n items
      let maxLen := if itemsEmpty then minLen else longest + negs.length
      let lens := (List.range (maxLen + 1)).drop minLen
      let found ← lens.foldlM (fun (acc : Bool) len =>
        if acc then pure true else do
          let s := pre ++ List.replicate (len - pre.length) items
          let applicable := (negs.filter fun ng => ng.pre.length == len || (ng.pre.length < len && !ng.items.isNever)).map fun ng =>
            (List.range len).map fun i => if i < ng.pre.length then ng.pre.getD i never else ng.items
          fixedLenInhabited n s applicable) false
      pure (!found)

/-- `fixed_length_list_inhabited` -/
def fixedLenInhabited : Nat → List SemType → List (List SemType) → SM Bool
  | 0, _, _ => SM.fail
  | n+1, s, negs =>
    match negs with
    | [] => pure true
    | nt :: rest =>
      (List.range s.length).foldlM (fun (acc : Bool) i =>
        if acc then pure true else do
          let d ← SM.lift (diff (s.getD i never) (nt.getD i never))
          if ← isEmpty n d then pure false
          else fixedLenInhabited n (s.set i d) rest) false
end

/-- `is_subtype` = emptiness of the difference -/
def isSubtype (fuel : Nat) (a b : SemType) : SM Bool := do
  let d ← SM.lift (diff a b)
  isEmpty fuel d

-- ---------- Runtype → SemType (`convert_to_sem_type`) ----------
def litOfConst : JsVal → Option SemType
  | .bool b => some { never with bool := .some b }
  | .num c => some { never with num := .some ⟨true, [c]⟩ }
  | _ => none

mutual
def convert (named : Named) : Nat → List String → IR → SM SemType
  | 0, _, _ => SM.fail
  | n+1, seen, t =>
    match t with
    | .ref name =>
      match named.find? (·.1 == name) with
      | none => SM.fail                                   -- "reference not found"
      | some (_, schema) =>
        match schema with
        | .tuple pre rest => do
          let c ← SM.get
          match c.refL.find? (·.1 == name) with
          | some (_, idx) => pure (listFromIdx idx)
          | none =>
            let idx := c.lists.length
            SM.modify fun c => { c with refL := c.refL ++ [(name, idx)], lists := c.lists ++ [none] }
            let items ← match rest with
              | some r => convert named n seen r
              | none => pure never
            let pre' ← convertL named n seen pre
            SM.modify fun c => { c with lists := c.lists.set idx (some ⟨pre', items⟩) }
            pure (listFromIdx idx)
        | .object vs none | .object vs (some (.string, _, _)) => do
          let c ← SM.get
          match c.refM.find? (·.1 == name) with
          | some (_, idx) => pure (mappingFromIdx idx)
          | none =>
            let idx := c.mappings.length
            SM.modify fun c => { c with refM := c.refM ++ [(name, idx)], mappings := c.mappings ++ [none] }
            let vs' ← convertVs named n seen vs
            let ix ← match schema with
              | .object _ (some (_, req, v)) => do
                let v' ← convert named n seen v
                pure (some (if req then v' else makeOptional v'))
              | _ => pure none
            SM.modify fun c => { c with mappings := c.mappings.set idx (some ⟨vs', ix⟩) }
            pure (mappingFromIdx idx)
        | _ =>
          if seen.contains name then SM.fail              -- bail!("recursive type")
          else convert named n (name :: seen) schema
    | .anyOf ts => do
      let parts ← convertL named n seen ts
      SM.lift (parts.foldlM union never)
    | .allOf ts => do
      let parts ← convertL named n seen ts
      SM.lift (parts.foldlM inter unknown)
    | .null => pure { never with null := true }
    | .boolean => pure { never with bool := .all }
    | .string => pure { never with str := .all }
    | .number => pure { never with num := .all }
    | .any => pure unknown
    | .never => pure never
    | .undefined => pure { never with vu := .some ⟨true, ["undefined"]⟩ }
    | .tpl [.lit s] => pure { never with str := .some ⟨true, [s]⟩ }
    | .const c => SM.lift (litOfConst c)
    | .object vs ix => do
      let vs' ← convertVs named n seen vs
      let ix' ← match ix with
        | some (.string, req, v) => do
          let v' ← convert named n seen v
          pure (some (if req then v' else makeOptional v'))
        | some _ => SM.fail                               -- other index key types: outside the fragment
        | none => pure none
      let c ← SM.get
      let idx := c.mappings.length
      SM.modify fun c => { c with mappings := c.mappings ++ [some ⟨vs', ix'⟩] }
      pure (mappingFromIdx idx)
    | .array items => do
      let it ← convert named n seen items
      let c ← SM.get
      let idx := c.lists.length
      SM.modify fun c => { c with lists := c.lists ++ [some ⟨[], it⟩] }
      pure (listFromIdx idx)
    | .tuple pre rest => do
      let items ← match rest with
        | some r => convert named n seen r
        | none => pure never
      let pre' ← convertL named n seen pre
      let c ← SM.get
      let idx := c.lists.length
      SM.modify fun c => { c with lists := c.lists ++ [some ⟨pre', items⟩] }
      pure (listFromIdx idx)
    | .stNot x => do
      let c ← convert named n seen x
      SM.lift (complement c)
    | _ => SM.fail
def convertL (named : Named) : Nat → List String → List IR → SM (List SemType)
  | 0, _, _ => SM.fail
  | _+1, _, [] => pure []
  | n+1, seen, t :: ts => do
    let x ← convert named n seen t
    let xs ← convertL named n seen ts
    pure (x :: xs)
def convertVs (named : Named) : Nat → List String → List (String × Bool × IR) → SM (List (String × SemType))
  | 0, _, _ => SM.fail
  | _+1, _, [] => pure []
  | n+1, seen, (k, req, t) :: vs => do
    let x ← convert named n seen t
    let xs ← convertVs named n seen vs
    pure ((k, if req then x else makeOptional x) :: xs)
end

/-- integer value of a canonical number text (non-negative integers) -/
def natOfCanonS (s : String) : Option Nat :=
  s.toList.foldl (fun acc ch => match acc with
    | none => none
    | some n => if ch.isDigit then some (n * 10 + (ch.toNat - 48)) else none) (some 0)

end BeffVerif.Sem
