import BeffVerif.Model.IR
/-!
Layer F — the modelled source calculus `TsCore` (DESIGN.md §2.2) and its lowering to the Runtype IR,
following frontend/mod.rs: `extract_type_inner` (3338-3450), `extract_type_from_ts_entity_name` (2059-2115,
named definitions / `partial_validators` / type-application stack), `extract_ts_type_lit_members` (2782-2848),
`extract_interface_decl` (1312-1360), `extract_addressed_type` built-ins (1513-1790: Array, Record, Pick, Omit,
Partial, Required, Readonly, Date, Map, Set, typed arrays), `convert_ts_tpl_lit_type` (2898-2985).
-/
namespace BeffVerif

inductive Ty where
  | kw (k : String)
  | lit (v : JsVal)
  | array (t : Ty)
  | tuple (pre : List Ty) (rest : Option Ty)
  | obj (members : List (String × Bool × Ty)) (index : Option (Ty × Ty))    -- Bool = optional (`?`)
  | union (ts : List Ty)
  | inter (ts : List Ty)
  | ref (name : String) (args : List Ty)
  | bi (name : String) (args : List Ty)
  | tpl (items : Tpl)
  | paren (t : Ty)
  | readonly (t : Ty)
  deriving Repr, Inhabited

inductive Decl where
  | alias (name : String) (params : List String) (body : Ty)
  | iface (name : String) (params : List String) (ext : List Ty) (members : List (String × Bool × Ty))
  deriving Repr, Inhabited

def Decl.name : Decl → String
  | .alias n _ _ => n
  | .iface n _ _ _ => n

structure Prog where
  decls : List Decl
  exports : List (String × Ty)
  deriving Repr, Inhabited

namespace Lower
open IR

/-- `partial_validators`: name ↦ definition (`none` while the definition is being computed) -/
abbrev Defs := List (String × Option IR)

def Defs.get (d : Defs) (n : String) : Option (Option IR) :=
  match d.find? (fun p => p.1 == n) with
  | some p => some p.2
  | none => none

def Defs.set (d : Defs) (n : String) (v : Option IR) : Defs :=
  if d.any (fun p => p.1 == n) then d.map (fun p => if p.1 == n then (n, v) else p) else d ++ [(n, v)]

/-- outcome of lowering: a value, or a diagnostic (by message class) -/
inductive LRes (α : Type) where
  | ok (a : α) (defs : Defs)
  | diag (msg : String) (defs : Defs)
  | nofuel
  deriving Inhabited

/-- printed name of a named type instance (`RuntypeUUID`): the declaration name plus the keys of its arguments -/
def uuidName (name : String) (args : List IR) : String :=
  if args.isEmpty then name else name ++ "<" ++ ",".intercalate (args.map IR.key) ++ ">"

def builtinNames : List String :=
  ["Date", "Array", "ReadonlyArray", "StringFormat", "StringFormatExtends", "NumberFormat", "NumberFormatExtends",
   "Record", "Omit", "Object", "Readonly", "Required", "Partial", "Pick", "Exclude", "Map", "Set", "Uint8Array",
   "Uint8ClampedArray", "Uint16Array", "Uint32Array", "Int8Array", "Int16Array", "Int32Array", "Float32Array",
   "Float64Array", "BigInt64Array", "BigUint64Array"]

def typedArrayNames : List String := builtinNames.drop 17

/-- `extract_union` of the frontend (2986-3008): through references (must be resolved) -/
def feExtractUnion (defs : Defs) : Nat → IR → Option (List IR)
  | 0, _ => none
  | n+1, t => match t with
    | .anyOf vs => (vs.mapM (feExtractUnion defs n)).map List.flatten
    | .ref r => match defs.get r with
      | some (some v) => feExtractUnion defs n v
      | _ => none
    | .never => some []
    | t => some [t]

/-- `extract_object_from_runtype` (1222-1278) -/
def extractObject (defs : Defs) : Nat → IR → Option (List (String × Bool × IR))
  | 0, _ => none
  | n+1, t => match t with
    | .object vs none => some vs
    | .object _ (some _) => none
    | .ref r => match defs.get r with
      | some (some s) => extractObject defs n s
      | _ => none
    | .allOf vs =>
      vs.foldl (fun (acc : Option (List (String × Bool × IR))) v =>
        match acc, extractObject defs n v with
        | some acc, some ex =>
          if ex.any (fun p => match vsGet acc p.1 with
              | some existing => !(optEq existing p.2)
              | none => false) then none
          else some (ex.foldl (fun a p => vsInsert a p.1 p.2.1 p.2.2) acc)
        | _, _ => none) (some [])
    | _ => none

def tplItemOfIR (defs : Defs) : Nat → IR → Option TplItem
  | 0, _ => none
  | n+1, t => match t with
    | .boolean => some .boolean
    | .string => some .string
    | .number => some .number
    | .anyOf vs => match vs.mapM (tplItemOfIR defs n) with
      | some [x] => some x
      | some xs => some (.oneOf xs)
      | none => none
    | .ref r => match defs.get r with
      | some (some v) => tplItemOfIR defs n v
      | _ => none
    | .tpl [single] => some single
    | _ => none

/-- a template literal is a strict alternation quasi, hole, quasi, …, quasi (`convert_ts_tpl_lit_type_non_trivial`):
empty quasis are explicit `StringConst("")` items -/
def alternate : Tpl → Bool → Tpl
  | [], expectQuasi => if expectQuasi then [.lit ""] else []
  | .lit s :: rest, true => .lit s :: alternate rest false
  | .lit s :: rest, false => .lit s :: alternate rest false   -- (adjacent quasis do not occur in source)
  | h :: rest, true => .lit "" :: h :: alternate rest true
  | h :: rest, false => h :: alternate rest true

mutual
/-- `extract_type` -/
def lower (decls : List Decl) : Nat → List (String × IR) → Defs → Ty → LRes IR
  | 0, _, _, _ => .nofuel
  | n+1, stack, defs, ty =>
    match ty with
    | .kw k =>
      match k with
      | "string" => .ok .string defs | "number" => .ok .number defs | "boolean" => .ok .boolean defs
      | "null" => .ok .null defs | "undefined" => .ok .undefined defs | "void" => .ok .void defs
      | "any" => .ok .any defs | "unknown" => .ok .any defs | "never" => .ok .never defs
      | "bigint" => .ok .bigint defs | "object" => .ok anyObject defs
      | _ => .diag "KeywordNonSerializable" defs
    | .lit (.str s) => .ok (strConst s) defs
    | .lit v => .ok (.const v) defs
    | .array t => match lower decls n stack defs t with
      | .ok x d => .ok (.array x) d
      | r => r
    | .paren t => lower decls n stack defs t
    | .readonly t => lower decls n stack defs t
    | .tuple pre rest =>
      match lowerList decls n stack defs pre with
      | .ok ps d =>
        match rest with
        | none => .ok (.tuple ps none) d
        | some r => match lower decls n stack d r with
          | .ok x d' => .ok (.tuple ps (some x)) d'
          | .diag m d' => .diag m d'
          | .nofuel => .nofuel
      | .diag m d => .diag m d
      | .nofuel => .nofuel
    | .obj members index => lowerMembers decls n stack defs members index
    | .union ts => match lowerList decls n stack defs ts with
      | .ok xs d => .ok (anyOf' xs) d
      | .diag m d => .diag m d
      | .nofuel => .nofuel
    | .inter ts => match lowerList decls n stack defs ts with
      | .ok xs d => .ok (allOf' xs) d
      | .diag m d => .diag m d
      | .nofuel => .nofuel
    | .tpl items =>
      match items with
      | [.lit s] => .ok (strConst s) defs
      | _ => .ok (.tpl (alternate items true)) defs
    | .ref name args => lowerRef decls n stack defs name args
    | .bi name args => lowerRef decls n stack defs name args

def lowerList (decls : List Decl) : Nat → List (String × IR) → Defs → List Ty → LRes (List IR)
  | 0, _, _, _ => .nofuel
  | _+1, _, defs, [] => .ok [] defs
  | n+1, stack, defs, t :: ts =>
    match lower decls n stack defs t with
    | .ok x d => match lowerList decls n stack d ts with
      | .ok xs d' => .ok (x :: xs) d'
      | r => r
    | .diag m d => .diag m d
    | .nofuel => .nofuel

/-- `extract_ts_type_lit_members` -/
def lowerMembers (decls : List Decl) : Nat → List (String × IR) → Defs → List (String × Bool × Ty) →
    Option (Ty × Ty) → LRes IR
  | 0, _, _, _, _ => .nofuel
  | n+1, stack, defs, members, index =>
    match lowerList decls n stack defs (members.map (·.2.2)) with
    | .ok xs d =>
      let vs := vsOfList ((members.zip xs).map fun p => (p.1.1, !p.1.2.1, p.2))
      match index with
      | none => .ok (.object vs none) d
      | some (k, v) => match lower decls n stack d k with
        | .ok kx d1 => match lower decls n stack d1 v with
          | .ok vx d2 => .ok (.object vs (some (kx, true, vx))) d2
          | r => r
        | r => r
    | .diag m d => .diag m d
    | .nofuel => .nofuel

/-- `extract_type_from_ts_entity_name` + `extract_addressed_type` -/
def lowerRef (decls : List Decl) : Nat → List (String × IR) → Defs → String → List Ty → LRes IR
  | 0, _, _, _, _ => .nofuel
  | n+1, stack, defs, name, args =>
    -- a type parameter on the application stack wins (innermost first)
    match (if args.isEmpty then stack.reverse.find? (fun p => p.1 == name) else none) with
    | some p => .ok p.2 defs
    | none =>
    match lowerList decls n stack defs args with
    | .diag m d => .diag m d
    | .nofuel => .nofuel
    | .ok xs d =>
      if builtinNames.contains name then
        -- built-ins are never named and never recursive
        match name, xs with
        | "Date", _ => .ok .date d
        | "Array", [t] => .ok (.array t) d
        | "ReadonlyArray", [t] => .ok (.array t) d
        | "Object", _ => .ok anyObject d
        | "Readonly", [t] => .ok t d
        | "Map", [k, v] => .ok (.map k v) d
        | "Set", [v] => .ok (.set v) d
        | "Record", [k, v] =>
          -- resolve a reference key; split the key union into literal keys (required properties) and the rest
          let rec resolveKey (fuel : Nat) (key : IR) : IR :=
            match fuel, key with
            | f+1, .ref r => (match d.get r with | some (some s) => resolveKey f s | _ => key)
            | _, key => key
          let key := resolveKey 50 k
          (match feExtractUnion d 50 key with
            | some parts =>
              let consts := parts.filterMap singleStringConst
              let others := parts.filter (fun p => (singleStringConst p).isNone)
              .ok (.object (vsOfList (consts.map fun c => (c, true, v)))
                (if others.isEmpty then none else some (anyOf' others, true, v))) d
            | none => .ok (.object [] (some (key, true, v))) d)
        | "Partial", [t] =>
          (match t with
            | .object vs ix => .ok (.object (vs.map fun p => (p.1, false, p.2.2)) (ix.map fun i => (i.1, false, i.2.2))) d
            | _ => match extractObject d 50 t with
              | some vs => .ok (.object (vs.map fun p => (p.1, false, p.2.2)) none) d
              | none => .diag "ShouldHaveObjectAsTypeArgument" d)
        | "Required", [t] =>
          (match extractObject d 50 t with
            | some vs => .ok (.object (vs.map fun p => (p.1, true, p.2.2)) none) d
            | none => .diag "ShouldHaveObjectAsTypeArgument" d)
        | "Pick", [t, ks] =>
          (match extractObject d 50 t with
            | some vs =>
              let keys : Option (List String) :=
                (feExtractUnion d 50 ks).bind (fun parts => parts.mapM singleStringConst)
              (match keys with
                | some keys => .ok (.object (vs.filter fun p => keys.contains p.1) none) d
                | none => .diag "PickNeedsString" d)
            | none => .diag "ShouldHaveObjectAsTypeArgument" d)
        | "Omit", [t, ks] =>
          (match extractObject d 50 t with
            | some vs =>
              (match (feExtractUnion d 50 ks).bind (fun parts => parts.mapM singleStringConst) with
                | some keys => .ok (.object (vs.filter fun p => !keys.contains p.1) none) d
                | none => .diag "OmitShouldHaveStringAsTypeArgument" d)
            | none => .diag "ShouldHaveObjectAsTypeArgument" d)
        | nm, _ =>
          if typedArrayNames.contains nm then .ok (.typedArray nm) d
          else .diag "UnmodelledBuiltin" d
      else
        match decls.find? (fun dc => dc.name == name) with
        | none => .diag "CannotResolveType" d
        | some decl =>
          let uuid := uuidName name xs
          match d.get uuid with
          | some _ => .ok (.ref uuid) d          -- already defined or in progress (recursion)
          | none =>
            let d0 := d.set uuid none
            let body : LRes IR := match decl with
              | .alias _ params b =>
                if params.length != xs.length then .diag "TypeArgumentCountMismatch" d0
                else lower decls n (params.zip xs) d0 b       -- lexical scope (fix D83): own parameters only
              | .iface _ params ext members =>
                if params.length != xs.length then .diag "TypeArgumentCountMismatch" d0
                else match lowerMembers decls n (params.zip xs) d0 members none with
                  | .ok r d1 =>
                    if ext.isEmpty then .ok r d1
                    -- the heritage clause is read in the scope of the interface's own parameters too (fix D115)
                    else match lowerList decls n (params.zip xs) d1 ext with
                      | .ok es d2 =>
                        let merged := allOf' (es ++ [r])
                        (match extractObject d2 50 merged with
                          | some vs => .ok (.object vs none) d2
                          | none => .ok merged d2)
                      | .diag m d2 => .diag m d2
                      | .nofuel => .nofuel
                  | r => r
            match body with
            | .ok b d1 => .ok (.ref uuid) (d1.set uuid (some b))
            | .diag m d1 => .diag m (d1.set uuid (some .any))
            | .nofuel => .nofuel
end

/-- the named schemas handed to the printer: every finished definition -/
def namedOf (defs : Defs) : Named := defs.filterMap fun p => p.2.map (fun s => (p.1, s))

/-- `extract_built_decoders_from_call_v2`: lower every export in order, sharing the definitions -/
def lowerExports (decls : List Decl) (fuel : Nat) : Defs → List (String × Ty) → LRes (List (String × IR))
  | defs, [] => .ok [] defs
  | defs, (n, t) :: rest =>
    match lower decls fuel [] defs t with
    | .ok x d => match lowerExports decls fuel d rest with
      | .ok xs d' => .ok ((n, x) :: xs) d'
      | r => r
    | .diag m d => .diag m d
    | .nofuel => .nofuel

end Lower

/-- the whole compiler on the modelled fragment: exported name ↦ runtime tree, plus the runtime environment -/
inductive Compiled where
  | ok (env : Env) (parsers : List (String × RT))
  | diags (msg : String)
  | nofuel
  deriving Inhabited

def compile (p : Prog) (fuel : Nat := 200) : Compiled :=
  match Lower.lowerExports p.decls fuel [] p.exports with
  | .ok xs defs =>
    let named := Lower.namedOf defs
    .ok (IR.printEnv named) (xs.map fun e => (e.1, IR.print named 200 e.2))
  | .diag m _ => .diags m
  | .nofuel => .nofuel

end BeffVerif
