import BeffVerif.Model.Parse
/-!
`reportDecodeError` of every class, union-error shaping (codegen-v2.ts:233-273), safeParse/parse
(2396-2430) and err.ts `printErrors`.
-/
namespace BeffVerif
namespace RT
open JsVal

inductive DErr where
  | regular (msg : String) (path : List String) (received : JsVal)
  | union (path : List String) (received : JsVal) (errors : List DErr)
  deriving Repr, Inhabited

/-! ### JSON.stringify (with the bigint replacer of `stringifyWithBigInt`) -/

def jsonEscape (s : String) : String := Id.run do
  let mut out := "\""
  for c in s.toList do
    if c == '"' then out := out ++ "\\\""
    else if c == '\\' then out := out ++ "\\\\"
    else if c == '\n' then out := out ++ "\\n"
    else if c == '\r' then out := out ++ "\\r"
    else if c == '\t' then out := out ++ "\\t"
    else if c.toNat == 8 then out := out ++ "\\b"
    else if c.toNat == 12 then out := out ++ "\\f"
    else if c.toNat < 32 then
      let n := c.toNat
      let hex := "0123456789abcdef".toList
      out := out ++ "\\u00" ++ String.singleton (hex.getD (n / 16) '0') ++ String.singleton (hex.getD (n % 16) '0')
    else out := out.push c
  return out.push '"'

def pad (n width : Nat) : String :=
  let s := toString n
  String.ofList (List.replicate (width - s.length) '0') ++ s

/-- `Date.prototype.toISOString` for years 0..9999 (civil-from-days); other years fall back to a marker -/
def isoOfMs (ms : Int) : String :=
  let days := ms / 86400000   -- Int division rounds toward zero; generators use ms ≥ 0
  let rem := (ms % 86400000).toNat
  if ms < 0 then "date:" ++ toString ms else
  let z := days + 719468
  let era := z / 146097
  let doe := (z - era * 146097).toNat
  let yoe := (doe - doe / 1460 + doe / 36524 - doe / 146096) / 365
  let y := (yoe : Int) + era * 400
  let doy := doe - (365 * yoe + yoe / 4 - yoe / 100)
  let mp := (5 * doy + 2) / 153
  let d := doy - (153 * mp + 2) / 5 + 1
  let m := if mp < 10 then mp + 3 else mp - 9
  let y := if m ≤ 2 then y + 1 else y
  if y < 0 || y > 9999 then "date:" ++ toString ms else
  pad y.toNat 4 ++ "-" ++ pad m 2 ++ "-" ++ pad d 2 ++ "T" ++ pad (rem / 3600000) 2 ++ ":" ++
    pad (rem / 60000 % 60) 2 ++ ":" ++ pad (rem / 1000 % 60) 2 ++ "." ++ pad (rem % 1000) 3 ++ "Z"

def numJson (c : String) : String :=
  if c == "NaN" || c == "Infinity" || c == "-Infinity" then "null" else if c == "-0" then "0" else c

/-- `JSON.stringify(v, bigintReplacer)`; `none` = `undefined` (value not serialisable: undefined, function, symbol).
Dates are rendered by `isoOfMs`. -/
def jsonStringify : Nat → JsVal → Option String
  | 0, _ => some "null"
  | _+1, .null => some "null"
  | _+1, .undef => none
  | _+1, .func => none
  | _+1, .sym => none
  | _+1, .bool b => some (if b then "true" else "false")
  | _+1, .num c => some (numJson c)
  | _+1, .str s => some (jsonEscape s)
  | _+1, .bigint d => some (jsonEscape (d ++ "n"))
  | _+1, .date ms => some (if ms == "invalid" then "null" else
      match ms.toInt? with
      | some i => jsonEscape (isoOfMs i)
      | none => jsonEscape ("date:" ++ ms))
  | n+1, .arr items => some ("[" ++ ",".intercalate (items.map fun x => (jsonStringify n x).getD "null") ++ "]")
  | n+1, .obj props =>
    some ("{" ++ ",".intercalate (props.filterMap fun p =>
      match jsonStringify n p.2 with
      | some s => some (jsonEscape p.1 ++ ":" ++ s)
      | none => none) ++ "}")
  | _+1, .map _ => some "{}"
  | _+1, .protoObj k => some (if k == "Array" then "[]" else "{}")
  | _+1, .set _ => some "{}"
  | n+1, .typed _ items =>
    some ("{" ++ ",".intercalate ((items.zip (List.range items.length)).map fun p =>
      jsonEscape (natToCanon p.2) ++ ":" ++ (jsonStringify n p.1).getD "null") ++ "}")

/-- does `JSON.stringify(v)` throw? (`Date.prototype.toJSON` on a non-Date) -/
def jsonThrows : Nat → JsVal → Bool
  | 0, _ => false
  | _+1, .protoObj k => k == "Date"
  | n+1, .arr items => items.any (jsonThrows n)
  | n+1, .obj props => props.any (fun p => jsonThrows n p.2)
  | n+1, .typed _ items => items.any (jsonThrows n)
  | _+1, _ => false

def pathJson (p : List String) : String := "[" ++ ",".intercalate (p.map jsonEscape) ++ "]"

/-- `JSON.stringify(err)` — keys in insertion order of the error object literals -/
def errKey : Nat → DErr → String
  | 0, _ => ""
  | n+1, .regular msg path received =>
    "{\"message\":" ++ jsonEscape msg ++ ",\"path\":" ++ pathJson path ++
      (match jsonStringify 100 received with | some s => ",\"received\":" ++ s | none => "") ++ "}"
  | n+1, .union path received errors =>
    "{\"path\":" ++ pathJson path ++
      (match jsonStringify 100 received with | some s => ",\"received\":" ++ s | none => "") ++
      ",\"errors\":[" ++ ",".intercalate (errors.map (errKey n)) ++ "],\"isUnionError\":true}"

def errThrows : Nat → DErr → Bool
  | 0, _ => false
  | _+1, .regular _ _ received => jsonThrows 100 received
  | n+1, .union _ received errors => jsonThrows 100 received || errors.any (errThrows n)

/-- `deduplicateErrors`: an error whose serialisation throws is kept as is -/
def dedupErrors (errors : List DErr) : List DErr :=
  (errors.foldl (fun (acc : List String × List DErr) e =>
    if errThrows 100 e then (acc.1, acc.2 ++ [e]) else
    let k := errKey 100 e
    if acc.1.contains k then acc else (k :: acc.1, acc.2 ++ [e])) ([], [])).2

def maxErrorDepth : Nat → List DErr → Nat
  | 0, _ => 0
  | n+1, errors => errors.foldl (fun m e =>
      let d := match e with
        | .regular _ path _ => path.length
        | .union path _ es => path.length + maxErrorDepth n es
      if d > m then d else m) 0

def prependPath (parent : List String) : DErr → DErr
  | .regular m p r => .regular m (parent ++ p) r
  | .union p r es => .union (parent ++ p) r es

def buildUnionError (path : List String) (errors : List DErr) (received : JsVal) : List DErr :=
  let d := dedupErrors errors
  match d with
  | [e] => [prependPath path e]
  | _ => [.union path received d]

def buildError (path : List String) (msg : String) (received : JsVal) : List DErr :=
  [.regular msg path received]

def limitedCommaJoinJson (vs : List JsVal) : String :=
  let js := fun (v : JsVal) => (jsonStringify 10 v).getD "undefined"
  if vs.length < 3 then ", ".intercalate (vs.map js)
  else ", ".intercalate ((vs.take 3).map js) ++ "..."

def concatRes {α : Type} (f : α → Res (List DErr)) : List α → Res (List DErr)
  | [] => .ok []
  | x :: xs => match f x with
    | .ok e => match concatRes f xs with
      | .ok es => .ok (e ++ es)
      | r => r
    | r => r

def mapRes {α β : Type} (f : α → Res β) : List α → Res (List β)
  | [] => .ok []
  | x :: xs => match f x with
    | .ok e => match mapRes f xs with
      | .ok es => .ok (e :: es)
      | .throw c => .throw c
      | .nofuel => .nofuel
    | .throw c => .throw c
    | .nofuel => .nofuel

def fmtNames (fs : List String) : String := " and ".intercalate fs

/-- `if (!ok) acc.push(...reportDecodeError(ctx, x))` for one child position -/
def reportItem (vf : RT → JsVal → Res Bool) (rf : RT → List String → JsVal → Res (List DErr)) (path : List String)
    (t : RT) (seg : String) (x : JsVal) : Res (List DErr) :=
  match vf t x with
  | .ok true => .ok []
  | .ok false => rf t (path ++ [seg]) x
  | .throw c => .throw c
  | .nofuel => .nofuel

/-- ObjectRuntype.reportDecodeError, one (key type, value type) pair of the index signature for one extra key -/
def reportIndexed (vf : RT → JsVal → Res Bool) (rf : RT → List String → JsVal → Res (List DErr)) (path : List String)
    (input : JsVal) (k : String) (p : RT × RT) : Res (List DErr) :=
  match vf p.1 (.str k), vf p.2 (input.getProp k) with
  | .ok keyOk, .ok valueOk =>
    if keyOk && valueOk then .ok [] else
    match (if !keyOk then rf p.1 (path ++ [k]) (.str k) else .ok []) with
    | .ok e1 => match (if !valueOk then rf p.2 (path ++ [k]) (input.getProp k) else .ok []) with
      | .ok e2 => .ok (e1 ++ e2)
      | r => r
    | r => r
  | .throw c, _ => .throw c
  | .nofuel, _ => .nofuel
  | _, .throw c => .throw c
  | _, .nofuel => .nofuel

def report (env : Env) (strict : Bool) : Nat → RT → List String → JsVal → Res (List DErr)
  | 0, _, _, _ => .nofuel
  | n+1, rt, path, input =>
    let rf := report env strict n
    let vf := validate env strict n
    let item := reportItem vf rf path
    match rt with
    | .typeof t => .ok (buildError path ("expected " ++ t) input)
    | .any => .ok (buildError path "expected any" input)
    | .nullish _ => .ok (buildError path "expected nullish value" input)
    | .never => .ok (buildError path "expected never" input)
    | .const v => .ok (buildError path ("expected " ++ (jsonStringify 10 v).getD "undefined") input)
    | .regex _ desc => .ok (buildError path ("expected string matching " ++ desc) input)
    | .date => .ok (buildError path "expected Date" input)
    | .bigint => .ok (buildError path "expected BigInt" input)
    | .typed c => .ok (buildError path ("expected " ++ c) input)
    | .strfmt fs => .ok (buildError path ("expected string with format \"" ++ fmtNames fs ++ "\"") input)
    | .numfmt fs => .ok (buildError path ("expected number with format \"" ++ fmtNames fs ++ "\"") input)
    | .consts vs => .ok (buildError path ("expected one of " ++ limitedCommaJoinJson vs) input)
    | .tuple pre rest =>
      match input with
      | .arr items =>
        match concatRes (fun (p : RT × Nat) => item p.1 ("[" ++ natToCanon p.2 ++ "]") (items.getD p.2 .undef))
            (pre.zip (List.range pre.length)) with
        | .ok e1 =>
          let restItems := (items.zip (List.range items.length)).drop pre.length
          match rest with
          | some r =>
            match concatRes (fun (p : JsVal × Nat) => item r ("[" ++ natToCanon p.2 ++ "]") p.1) restItems with
            | .ok e2 => .ok (e1 ++ e2)
            | r => r
          | none =>
            .ok (e1 ++ restItems.flatMap (fun p =>
              buildError (path ++ ["[" ++ natToCanon p.2 ++ "]"]) "unexpected extra tuple item" p.1))
        | r => r
      | _ => .ok (buildError path "expected tuple" input)
    | .allOf ts => concatRes (fun t => rf t path input) ts
    | .anyOf ts =>
      match mapRes (fun t => rf t [] input) ts with
      | .ok branchErrors =>
        let depths := branchErrors.map (maxErrorDepth 100)
        let best := depths.foldl max 0
        let filtered :=
          if best > 0 then ((branchErrors.zip depths).filter (fun p => p.2 == best)).flatMap (·.1)
          else branchErrors.flatten
        .ok (buildUnionError path filtered input)
      | .throw c => .throw c
      | .nofuel => .nofuel
    | .array t =>
      match input with
      | .arr items =>
        concatRes (fun (p : JsVal × Nat) => item t ("[" ++ natToCanon p.2 ++ "]") p.1) (items.zip (List.range items.length))
      | _ => .ok (buildError path "expected array" input)
    | .map kt vt =>
      match input with
      | .map es =>
        concatRes (fun (e : JsVal × JsVal) =>
          let ks := (jsonStringify 100 e.1).getD "undefined"
          match item kt ("key(" ++ ks ++ ")") e.1 with
          | .ok a => match item vt ("value(" ++ ks ++ ")") e.2 with
            | .ok b => .ok (a ++ b)
            | r => r
          | r => r) es
      | _ => .ok (buildError path "expected Map" input)
    | .set t =>
      match input with
      | .set xs => concatRes (fun x => item t ("item(" ++ (jsonStringify 100 x).getD "undefined" ++ ")") x) xs
      | _ => .ok (buildError path "expected Set" input)
    | .disc _ key mapping _ =>
      if !input.isObjectLike then .ok (buildError path "expected object" input) else
      let d := input.getProp key
      if d.isNullish then .ok (buildError path ("expected discriminator key " ++ jsonEscape key) input) else
      match lookupMapping mapping d with
      | none => .ok (buildError (path ++ [key])
          ("expected one of " ++ ", ".intercalate (mapping.map (fun p => jsonEscape p.1))) d)
      | some v => rf v path input
    | .optional t => rf t path input
    | .object props indexed =>
      if !(input.isObjectLike && !input.isArray) then .ok (buildError path "expected object" input) else
      match concatRes (fun (p : String × RT) => item p.2 p.1 (input.getProp p.1)) props with
      | .ok acc =>
        let configKeys := props.map (·.1)
        let extraKeys := input.ownKeys.filter (fun k => !configKeys.contains k)
        if indexed.length > 0 then
          match concatRes (fun k => concatRes (reportIndexed vf rf path input k) indexed) extraKeys with
          | .ok e2 => .ok (acc ++ e2)
          | r => r
        else if strict && extraKeys.length > 0 then
          .ok (extraKeys.flatMap (fun k => buildError (path ++ [k]) "extra property" (input.getProp k)))
        else .ok acc
      | r => r
    | .ref name =>
      match env.lookup name with
      | some t => rf t path input
      | none => .throw "TypeError"
    | .described _ t => rf t path input

/-! ### err.ts -/

def prettyPrintValue : JsVal → String
  | .str s => "\"" ++ s ++ "\""
  | .num c => if c == "-0" then "0" else c
  | .bool b => if b then "true" else "false"
  | .null => "null"
  | .bigint d => d ++ "n"
  | .arr _ => "Array"
  | .protoObj k => if k == "Array" then "Array" else "Object"
  | .undef => "undefined"
  | .func => "undefined"
  | .sym => "undefined"
  | _ => "Object"

def joinWithDot : List String → String
  | [] => ""
  | x :: xs => xs.foldl (fun acc item => if item.startsWith "[" then acc ++ item else acc ++ "." ++ item) x

def printPath (parent path : List String) : String :=
  let m := parent ++ path
  if m.length > 0 then "(" ++ joinWithDot m ++ ")" else ""

def joinFiltered (xs : List String) : String := " ".intercalate (xs.filter (fun s => s.length > 0))

def printErrorsPart : Nat → List DErr → List String → Bool → List String
  | 0, _, _, _ => []
  | n+1, errs, parent, showReceived =>
    errs.map fun e =>
      match e with
      | .regular msg path received =>
        let p := printPath parent path
        let m := ", ".intercalate ([msg, if showReceived then "received: " ++ prettyPrintValue received else ""].filter (fun s => s.length > 0))
        joinFiltered [p, m]
      | .union path received errors =>
        let p := printPath parent path
        let printed := printErrorsPart n errors [] false
        let inner := if printed.length > 5 then " OR ".intercalate (printed.take 5) ++ " and more..."
          else " | ".intercalate printed
        let m := ", ".intercalate (["Failed to decode one of (" ++ inner ++ ")", "received: " ++ prettyPrintValue received].filter (fun s => s.length > 0))
        joinFiltered [p, m]

def printErrors (errs : List DErr) (parent : List String := []) : String :=
  let parts := printErrorsPart 100 errs parent true
  " | ".intercalate ((parts.zip (List.range parts.length)).map fun p =>
    if parts.length == 1 then joinFiltered [p.1] else joinFiltered ["#" ++ natToCanon p.2, p.1])

/-! ### ParserFromRuntype -/

inductive SafeParse where
  | success (data : JsVal)
  | failure (errors : List DErr)
  deriving Repr, Inhabited

def safeParse (env : Env) (o : ParseOpts) (fuel : Nat) (rt : RT) (input : JsVal) : Res SafeParse :=
  match validate env o.strict fuel rt input with
  | .ok true => match parseAV env o fuel rt input with
    | .ok d => .ok (.success d)
    | .throw c => .throw c
    | .nofuel => .nofuel
  | .ok false => match report env o.strict fuel rt [] input with
    | .ok es => .ok (.failure (es.take 10))
    | .throw c => .throw c
    | .nofuel => .nofuel
  | .throw c => .throw c
  | .nofuel => .nofuel

/-- `parse`: the value, or the documented failure `Error("Failed to parse <name> - <explained>")` -/
inductive ParseOut where
  | value (v : JsVal)
  | failed (message : String)
  deriving Repr, Inhabited

def parse (env : Env) (o : ParseOpts) (fuel : Nat) (name : String) (rt : RT) (input : JsVal) : Res ParseOut :=
  match safeParse env o fuel rt input with
  | .ok (.success d) => .ok (.value d)
  | .ok (.failure es) => .ok (.failed ("Failed to parse " ++ name ++ " - " ++ printErrors es))
  | .throw c => .throw c
  | .nofuel => .nofuel

end RT
end BeffVerif
