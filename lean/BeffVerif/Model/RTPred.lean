import BeffVerif.Model.Report
/-!
Decidable predicates over Runtype trees and values: the named hypotheses of the `…_partial` theorems
(DESIGN.md §6). The driver evaluates them on every request so that a property-oracle failure can be
classified as "outside hypothesis H" (a recorded known finding) or "inside" (a new violation).
-/
namespace BeffVerif
namespace RT

mutual
/-- does some node of the tree satisfy `p`? (structural recursion through the nested lists) -/
def anyNode (p : RT → Bool) : RT → Bool
  | .tuple pre rest => p (.tuple pre rest) || anyL p pre || anyO p rest
  | .allOf ts => p (.allOf ts) || anyL p ts
  | .anyOf ts => p (.anyOf ts) || anyL p ts
  | .array t => p (.array t) || anyNode p t
  | .map k v => p (.map k v) || anyNode p k || anyNode p v
  | .set t => p (.set t) || anyNode p t
  | .disc ss key m sm => p (.disc ss key m sm) || anyL p ss || anySL p m || anySL p sm
  | .optional t => p (.optional t) || anyNode p t
  | .object props ix => p (.object props ix) || anySL p props || anyPL p ix
  | .described d t => p (.described d t) || anyNode p t
  | t => p t
def anyL (p : RT → Bool) : List RT → Bool
  | [] => false
  | t :: ts => anyNode p t || anyL p ts
def anyO (p : RT → Bool) : Option RT → Bool
  | none => false
  | some t => anyNode p t
def anySL (p : RT → Bool) : List (String × RT) → Bool
  | [] => false
  | (_, t) :: ts => anyNode p t || anySL p ts
def anyPL (p : RT → Bool) : List (RT × RT) → Bool
  | [] => false
  | (k, v) :: ts => anyNode p k || anyNode p v || anyPL p ts
end

def anyInEnv (p : RT → Bool) (env : Env) (rt : RT) : Bool :=
  anyNode p rt || env.any (fun e => anyNode p e.2)

/-- hypothesis `NoSplitIntersection` (C11/D9): no intersection with two or more members survives to run time -/
def noSplitIntersection (env : Env) (rt : RT) : Bool :=
  !anyInEnv (fun t => match t with | .allOf (_ :: _ :: _) => true | _ => false) env rt

def protoNamed (k : String) : Bool :=
  k == "constructor" || k == "prototype" || k == "__proto__" || JsVal.objectProtoFns.contains k

/-- hypothesis `NoProtoNamedKeyInUnion` (C03/D28): no declared property is called constructor / prototype /
__proto__ (deepmerge, used for unions, silently drops such keys) -/
def noProtoNamedProps (env : Env) (rt : RT) : Bool :=
  !anyInEnv (fun t => match t with
    | .object props _ => props.any (fun p => protoNamed p.1)
    | _ => false) env rt

mutual
def JsVal.anyKey (p : String → Bool) : JsVal → Bool
  | .arr xs => anyKeyL p xs
  | .obj ps => anyKeyP p ps
  | .map es => anyKeyE p es
  | .set xs => anyKeyL p xs
  | _ => false
def anyKeyL (p : String → Bool) : List JsVal → Bool
  | [] => false
  | x :: xs => JsVal.anyKey p x || anyKeyL p xs
def anyKeyP (p : String → Bool) : List (String × JsVal) → Bool
  | [] => false
  | (k, v) :: ps => p k || JsVal.anyKey p v || anyKeyP p ps
def anyKeyE (p : String → Bool) : List (JsVal × JsVal) → Bool
  | [] => false
  | (k, v) :: es => JsVal.anyKey p k || JsVal.anyKey p v || anyKeyE p es
end

/-- value-side half of the D28 hypothesis: the input carries no own key named like a prototype member -/
def noProtoNamedKeys (v : JsVal) : Bool := !JsVal.anyKey protoNamed v

/-- is the (stripped) node an object-shaped runtype? -/
def objectLikeRT (env : Env) : Nat → RT → Bool
  | 0, _ => false
  | n+1, t => match t with
    | .object _ _ => true
    | .disc _ _ _ _ => true
    | .allOf ts => ts.all (objectLikeRT env n)
    | .anyOf ts => ts.all (objectLikeRT env n)
    | .ref name => match env.lookup name with
      | some t => objectLikeRT env n t
      | none => false
    | .described _ t => objectLikeRT env n t
    | _ => false

/-- hypothesis `IntersectionsOfObjects` (C03/D29): every intersection member is an object type -/
def intersectionsOfObjects (env : Env) (rt : RT) : Bool :=
  !anyInEnv (fun t => match t with
    | .allOf ts => !(ts.all (objectLikeRT env 8))
    | _ => false) env rt

/-- a type all of whose values are `typeof "object"` (objects, arrays, `null`, the built-in object kinds) -/
def typeofObjectRT (env : Env) : Nat → RT → Bool
  | 0, _ => false
  | n+1, t => match t with
    | .object _ _ | .disc _ _ _ _ | .array _ | .tuple _ _ | .map _ _ | .set _ | .date | .typed _ => true
    | .nullish d => d == "null"
    | .const v => (match v with | .null => true | _ => false)
    | .allOf ts => ts.all (typeofObjectRT env n)
    | .anyOf ts => ts.all (typeofObjectRT env n)
    | .ref name => match env.lookup name with
      | some t => typeofObjectRT env n t
      | none => false
    | .described _ t => typeofObjectRT env n t
    | _ => false

/-- hypothesis `IntersectionsOfTypeofObject` (C02 face of D22): no member of a run-time intersection has a value that is not
`typeof "object"` — `AllOfRuntype.validate` rejects every such value outright -/
def intersectionsOfTypeofObject (env : Env) (rt : RT) : Bool :=
  !anyInEnv (fun t => match t with
    | .allOf ts => !(ts.all (typeofObjectRT env 8))
    | _ => false) env rt

/-- hypothesis `NoAccessorNamedProps` (C03/D33): no declared property is called `size` or `length`, names that
Map/Set/array/typed-array inputs answer through an accessor so that an object type structurally accepts them -/
def noAccessorNamedProps (env : Env) (rt : RT) : Bool :=
  !anyInEnv (fun t => match t with
    | .object props _ => props.any (fun p => p.1 == "size" || p.1 == "length")
    | _ => false) env rt

mutual
/-- the value holds a built-in instance somewhere (a Map, a Set, a Date, a typed array) -/
def JsVal.hasBuiltin : JsVal → Bool
  | .map _ | .set _ | .date _ | .typed _ _ => true
  | .arr xs => hasBuiltinL xs
  | .obj ps => hasBuiltinP ps
  | _ => false
def hasBuiltinL : List JsVal → Bool
  | [] => false
  | x :: xs => JsVal.hasBuiltin x || hasBuiltinL xs
def hasBuiltinP : List (String × JsVal) → Bool
  | [] => false
  | (_, v) :: ps => JsVal.hasBuiltin v || hasBuiltinP ps
end

/-- hypothesis `NoLaxObjectBesideBuiltin` (C03/D33b): not all three of — the value holds a built-in instance, the type has a
union, and the type has a "lax" object type (no index signature, every declared property accepts `undefined`: such a type
structurally accepts ANY object, built-in instances included, and its parse step answers with the projection `{}`) -/
def noLaxObjectBesideBuiltin (env : Env) (rt : RT) (x : JsVal) : Bool :=
  !(JsVal.hasBuiltin x &&
    anyInEnv (fun t => match t with | .anyOf _ => true | .disc _ _ _ _ => true | _ => false) env rt &&
    anyInEnv (fun t => match t with
      | .object props [] => props.all (fun p => match validate env false 60 p.2 .undef with | .ok true => true | _ => false)
      | _ => false) env rt)

/-- hypothesis `NoRequiredUndefinedAcceptingProp` (C02/D48): no REQUIRED property whose type accepts `undefined`
(the validator then accepts an absent key, the schema lists the key as required) -/
def noRequiredUndefAccepting (env : Env) (rt : RT) : Bool :=
  !anyInEnv (fun t => match t with
    | .object props _ => props.any (fun p => !(isOptionalRT p.2) &&
        (match validate env false 60 p.2 .undef with | .ok true => true | _ => false))
    -- the tuple analogue: a prefix element that accepts `undefined` lets a shorter array through (S6)
    | .tuple pre _ => pre.any (fun t => match validate env false 60 t .undef with | .ok true => true | _ => false)
    | _ => false) env rt
where
  isOptionalRT : RT → Bool
    | .optional _ => true
    | _ => false

/-- hypothesis `NoMultiValuedDiscriminator` (C02/D49): no discriminated union maps two discriminator values to the
same variant (contextual printing then lists that variant twice under `oneOf`) -/
def noMultiValuedDiscriminator (env : Env) (rt : RT) : Bool :=
  !anyInEnv (fun t => match t with
    | .disc schemas key mapping _ => mapping.length > schemas.length ||
        schemas.any (fun s => match stripDesc s with
          | .object props _ => (match props.find? (fun p => p.1 == key) with
            | some (_, .consts (_ :: _ :: _)) => true
            | _ => false)
          | _ => false)
    | _ => false) env rt

/-- hypothesis `NoMixedIndexRT` (C02/D50): no object with declared properties AND an index signature -/
def noMixedIndexRT (env : Env) (rt : RT) : Bool :=
  !anyInEnv (fun t => match t with
    | .object (_ :: _) (_ :: _) => true
    | _ => false) env rt

/-- hypothesis `NoEmptyIntersection` (C12): `allOf []` accepts everything and reports nothing -/
def isEmptyAllOf : RT → Bool
  | .allOf [] => true
  | _ => false

def noEmptyIntersection (env : Env) (rt : RT) : Bool :=
  !anyInEnv isEmptyAllOf env rt

end RT
end BeffVerif
