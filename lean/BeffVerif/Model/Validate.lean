import BeffVerif.Model.RT
/-!
`validate` of every `*Runtype` class (codegen-v2.ts:614-2370), with the ValidateContext flag
`disallowExtraProperties` (= `strict`). Recursion goes through named references, so it is fuel-indexed.
Custom formats: the harness registers formats by a naming convention that the model mirrors
(`Fmt.str`/`Fmt.num` below); names outside the convention are unregistered.
-/
namespace BeffVerif

namespace Fmt
/-- string format `f<sub>` accepts strings containing `<sub>`; other names are not registered -/
def str (name : String) (s : String) : Option Bool :=
  if name.startsWith "f" then
    let sub := (name.drop 1).toString
    some ((s.splitOn sub).length > 1 || sub.isEmpty)
  else none

def canonInt? (c : String) : Option Int :=
  if c == "-0" then some 0 else c.toInt?

/-- number format `n<k>` accepts integers divisible by k (k ≥ 1); `f<k>` is the same predicate under a name that is ALSO a
string format (the two registries are separate name spaces) -/
def num (name : String) (canon : String) : Option Bool :=
  if name.startsWith "n" || name.startsWith "f" then
    match (name.drop 1).toString.toNat? with
    | some k => if k == 0 then none else
      match canonInt? canon with
      | some i => some (i % (k : Int) == 0)
      | none => some false
    | none => none
  else none
end Fmt

namespace RT
open JsVal

/-- first `false`/exception wins, as in a `for … if (!ok) return false` loop -/
def allShort {α : Type} (f : α → Res Bool) : List α → Res Bool
  | [] => .ok true
  | x :: xs => match f x with
    | .ok true => allShort f xs
    | r => r

/-- first `true`/exception wins -/
def anyShort {α : Type} (f : α → Res Bool) : List α → Res Bool
  | [] => .ok false
  | x :: xs => match f x with
    | .ok false => anyShort f xs
    | r => r

def fmtAll (f : String → Option Bool) : List String → Bool
  | [] => true
  | n :: ns => match f n with
    | some true => fmtAll f ns
    | _ => false

def stripDesc : RT → RT
  | .described _ t => stripDesc t
  | t => t

/-- `lookupOwn(mapping, d)`: own-property lookup; only string discriminator values select a variant -/
def lookupMapping (mapping : List (String × RT)) (d : JsVal) : Option RT :=
  match d with
  | .str k =>
    match mapping.find? (fun p => p.1 == k) with
    | some p => some p.2
    | none => none
  | _ => none

/-- ObjectRuntype.validate, index-signature part, for one extra key -/
def indexedAccepts (vf : RT → JsVal → Res Bool) (indexed : List (RT × RT)) (input : JsVal) (k : String) : Res Bool :=
  anyShort (fun (p : RT × RT) =>
    match vf p.1 (.str k) with
    | .ok true => vf p.2 (input.getProp k)
    | r => r) indexed

def validate (env : Env) (strict : Bool) : Nat → RT → JsVal → Res Bool
  | 0, _, _ => .nofuel
  | n+1, rt, input =>
    let vf := validate env strict n
    match rt with
    | .typeof t => .ok (input.typeOf == t)
    | .any => .ok true
    | .nullish _ => .ok input.isNullish
    | .never => .ok false
    | .const v => .ok (if v.isNullish then input.isNullish else strictEqPrim input v)
    | .regex tpl _ => .ok (match input with | .str s => Tpl.test tpl s | _ => false)
    | .date => .ok (match input with | .date _ => true | _ => false)
    | .bigint => .ok (match input with | .bigint _ => true | _ => false)
    | .typed c => .ok (match input with | .typed c' _ => c == c' | _ => false)
    | .strfmt fs => .ok (match input with | .str s => fmtAll (fun f => Fmt.str f s) fs | _ => false)
    | .numfmt fs => .ok (match input with | .num c => fmtAll (fun f => Fmt.num f c) fs | _ => false)
    | .consts vs =>
      .ok ((input.isNullish && vs.any (fun v => match v with | .null => true | _ => false)) ||
        vs.any (fun v => sameValueZeroPrim v input))
    | .tuple pre rest =>
      match input with
      | .arr items =>
        match allShort (fun (p : RT × Nat) => vf p.1 (items.getD p.2 .undef)) (pre.zip (List.range pre.length)) with
        | .ok true =>
          match rest with
          | some r => allShort (fun x => vf r x) (items.drop pre.length)
          | none => .ok (!(items.length > pre.length))
        | r => r
      | _ => .ok false
    | .allOf ts => allShort (fun t => if input.typeOf == "object" then vf t input else .ok false) ts
    | .anyOf ts => anyShort (fun t => vf t input) ts
    | .array t =>
      match input with
      | .arr items => allShort (fun x => vf t x) items
      | _ => .ok false
    | .map kt vt =>
      match input with
      | .map es => allShort (fun (e : JsVal × JsVal) =>
          match vf kt e.1 with
          | .ok true => vf vt e.2
          | r => r) es
      | _ => .ok false
    | .set t =>
      match input with
      | .set xs => allShort (fun x => vf t x) xs
      | _ => .ok false
    | .disc _ key mapping _ =>
      if !input.isObjectLike then .ok false else
      let d := input.getProp key
      if d.isNullish then .ok false else
      match lookupMapping mapping d with
      | none => .ok false
      | some v => vf v input
    | .optional t => if input.isNullish then .ok true else vf t input
    | .object props indexed =>
      if !(input.isObjectLike && !input.isArray) then .ok false else
      match allShort (fun (p : String × RT) => vf p.2 (input.getProp p.1)) props with
      | .ok true =>
        let configKeys := props.map (·.1)
        let extraKeys := input.ownKeys.filter (fun k => !configKeys.contains k)
        if indexed.length > 0 then
          allShort (fun k => indexedAccepts vf indexed input k) extraKeys
        else if strict then .ok (extraKeys.length == 0)
        else .ok true
      | r => r
    | .ref name =>
      match env.lookup name with
      | some t => vf t input
      | none => .throw "TypeError"
    | .described _ t => vf t input

end RT
end BeffVerif
