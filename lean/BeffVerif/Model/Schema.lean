import BeffVerif.Model.Hash
/-!
`schema()` of every `*Runtype` class in both printing modes, `SchemaPrintingContext` (codegen-v2.ts:399-466),
`tryMergeAllOfObjectSchemas` (1393-1463), openapi-pp.ts `removeNullUnionBranch`, the contextual branch of
`BaseRefRuntype.schema` (2308-2331) and the synthetic variant definitions of `AnyOfDiscriminatedRuntype`
(1757-1832). JSON values are `JsVal`s (objects keep insertion order, which is what the emitted text shows).
-/
namespace BeffVerif
namespace RT
open JsVal

/-- printing context state: collected definitions (insertion order) and the names in progress -/
structure SCtx where
  collected : List (String × JsVal)
  inProgress : List String
  deriving Repr, Inhabited

structure SOpts where
  contextual : Bool
  refTemplate : String
  overrides : List (String × RT)
  deriving Repr, Inhabited

def SCtx.has (c : SCtx) (n : String) : Bool := c.collected.any (fun p => p.1 == n)
def SCtx.store (c : SCtx) (n : String) (s : JsVal) : SCtx :=
  { collected := setProp c.collected n s, inProgress := c.inProgress.filter (· != n) }

def getRef (template name : String) : String :=
  -- String.prototype.replace with a string pattern: first occurrence only
  match template.splitOn "{name}" with
  | [] => template
  | [x] => x
  | x :: y :: rest => x ++ name ++ "{name}".intercalate (y :: rest)

def jobj (kvs : List (String × JsVal)) : JsVal := .obj (kvs.foldl (fun acc kv => setProp acc kv.1 kv.2) [])

/-- `annotateSchema` -/
def annotate (desc : Option String) (s : JsVal) : JsVal :=
  match desc, s with
  | some d, .obj kvs => .obj (setProp kvs "description" (.str d))
  | _, s => s

/-! regex source of a template (`TplLitTypeItem::regex_expr`, `escape_regex`) -/
def escapeRegex (lit : String) : String :=
  String.join (lit.toList.map fun c =>
    if "\\()[]{}.*+?|^$/".toList.contains c then "\\" ++ String.singleton c else String.singleton c)

def regexItem : Nat → TplItem → String
  | 0, _ => ""
  | _+1, .string => "(.*)"
  | _+1, .number => "(\\d+(\\.\\d+)?)"
  | _+1, .boolean => "(true|false)"
  | _+1, .lit l => if l.isEmpty then "" else "(" ++ escapeRegex l ++ ")"
  | n+1, .oneOf vs => "(" ++ "|".intercalate (vs.map (regexItem n)) ++ ")"

def regexSource (tpl : Tpl) : String :=
  let inner := String.join (tpl.map (regexItem 20))
  -- `new RegExp("").source` is "(?:)"
  "^(?:" ++ (if inner.isEmpty then "(?:)" else inner) ++ ")$"

def isNullDef : JsVal → Bool
  | .obj kvs => (match lookupProp kvs "type" with | some (.str "null") => true | _ => false)
  | _ => false

/-- `removeNullUnionBranch` -/
def removeNullUnionBranch : Nat → JsVal → Option JsVal
  | 0, _ => none
  | n+1, .obj kvs =>
    let key := if (lookupProp kvs "anyOf").isSome then some "anyOf" else if (lookupProp kvs "oneOf").isSome then some "oneOf" else none
    match key with
    | none => none
    | some k =>
      match lookupProp kvs k with
      | some (.arr variants) =>
        let nonNull := variants.filter (fun v => !isNullDef v)
        if nonNull.length == variants.length || nonNull.length == 0 then none
        else
          let normalized := nonNull.map (fun v => (removeNullUnionBranch n v).getD v)
          match normalized with
          | [x] => some x
          | _ => some (.obj (setProp kvs k (.arr normalized)))
      | _ => none
  | _+1, _ => none

/-- `stableJsonSchemaDefinitionString` — used only for equality of property schemas -/
def stableString : Nat → JsVal → String
  | 0, _ => ""
  | n+1, .arr xs => "[" ++ ",".intercalate (xs.map (stableString n)) ++ "]"
  | n+1, .obj kvs =>
    let sorted := sortBy (fun (a b : String × JsVal) => strLe a.1 b.1) kvs
    "{" ++ ",".intercalate (sorted.map fun p => jsonEscape p.1 ++ ":" ++ stableString n p.2) ++ "}"
  | _+1, v => (jsonStringify 10 v).getD "undefined"

/-- `tryMergeAllOfObjectSchemas` -/
def tryMergeAllOf (schemas : List JsVal) : Option JsVal :=
  let mergeable (s : JsVal) : Bool := match s with
    | .obj kvs =>
      (match lookupProp kvs "type" with | some (.str "object") => true | _ => false) &&
      (match lookupProp kvs "additionalProperties" with | some (.bool false) => true | _ => false) &&
      kvs.all (fun p => ["type", "properties", "required", "additionalProperties"].contains p.1)
    | _ => false
  let step (acc : Option (List (String × JsVal) × List String)) (s : JsVal) : Option (List (String × JsVal) × List String) :=
    match acc, s with
    | some (props, req), .obj kvs =>
      if !mergeable s then none else
      let req' := (match lookupProp kvs "required" with
        | some (.arr rs) => rs.foldl (fun r x => match x with | .str k => if r.contains k then r else r ++ [k] | _ => r) req
        | _ => req)
      let ps := (match lookupProp kvs "properties" with | some (.obj ps) => ps | _ => [])
      ps.foldl (fun (a : Option (List (String × JsVal) × List String)) p =>
        match a with
        | none => none
        | some (props, r) =>
          match lookupProp props p.1 with
          | some existing => if stableString 50 existing == stableString 50 p.2 then some (setProp props p.1 p.2, r) else none
          | none => some (setProp props p.1 p.2, r)) (some (props, req'))
    | _, _ => none
  match schemas.foldl step (some ([], [])) with
  | some (props, req) =>
    some (jobj ([("type", JsVal.str "object")] ++ (if props.length > 0 then [("properties", JsVal.obj props)] else []) ++
      (if req.length > 0 then [("required", JsVal.arr (req.map JsVal.str))] else []) ++ [("additionalProperties", JsVal.bool false)]))
  | none => none

def capitalize (s : String) : String :=
  match s.toList with
  | [] => ""
  | c :: cs => String.ofList (c.toUpper :: cs)

/-- `sanitizeComponentNamePart` -/
def sanitizePart (value : String) : String :=
  let cleaned := String.ofList (value.toList.map fun c => if c.isAlphanum then c else ' ')
  let parts := (cleaned.splitOn " ").filter (fun p => !p.isEmpty)
  if parts.isEmpty then "Variant" else String.join (parts.map capitalize)

def hex4 (n : Nat) : String :=
  let d (k : Nat) : Char := "0123456789abcdef".toList.getD (k % 16) '0'
  String.ofList [d (n / 4096), d (n / 256), d (n / 16), d n]

/-- `getSyntheticRefName`: a tag whose sanitized form is shared with another tag of the same union carries its UTF-16
code units -/
def syntheticRefName (disc key : String) (unionHash : Int) (ambiguous : Bool := false) : String :=
  "Discriminated" ++ sanitizePart disc ++ sanitizePart key ++
    (if ambiguous then "_" ++ String.join ((utf16 key).map hex4) ++ "_" else "") ++ toString unionHash.natAbs

def typeofOfConst : JsVal → Option String
  | .str _ => some "string"
  | .num _ => some "number"
  | .bool _ => some "boolean"
  | _ => none

def jsTypeof : JsVal → String := JsVal.typeOf

/-- result of schema printing: the context state is observable also after an exception -/
inductive SRes (α : Type) where
  | ok (a : α) (c : SCtx)
  | throw (c : SCtx)
  | nofuel
  deriving Inhabited

/-! `schema(ctx)` is written over named combinators (sequencing of children, the property / index-signature loops, the
"define a name once" protocol of `SchemaPrintingContext`, the variant loop of a discriminated union), so that statements
about the printing context are proved once per combinator (Props/C16Order.lean). -/

/-- children in order, left to right, threading the context; stops at the first exception -/
def seqS (go : RT → SCtx → SRes JsVal) : List RT → SCtx → SRes (List JsVal)
  | [], c => .ok [] c
  | t :: ts, c =>
    match go t c with
    | .ok s c' =>
      (match seqS go ts c' with
        | .ok ss c'' => .ok (s :: ss) c''
        | .throw e => .throw e
        | .nofuel => .nofuel)
    | .throw e => .throw e
    | .nofuel => .nofuel

def isOptionalRT : RT → Bool
  | .optional _ => true
  | _ => false

/-- the property loop of `ObjectRuntype.schema`: raw schema of every property, null branch removed ⇒ optional -/
def propsS (go : RT → SCtx → SRes JsVal) : List (String × RT) → List (String × JsVal) × List String → SCtx →
    SRes (List (String × JsVal) × List String)
  | [], acc, c => .ok acc c
  | p :: rest, (ps, opt), c =>
    match go p.2 c with
    | .ok raw c' =>
      (match removeNullUnionBranch 50 raw with
        | some rw => propsS go rest (setProp ps p.1 rw, opt ++ [p.1]) c'
        | none => propsS go rest (setProp ps p.1 raw, if isOptionalRT p.2 then opt ++ [p.1] else opt) c')
    | .throw e => .throw e
    | .nofuel => .nofuel

/-- the index-signature loop: key schema, then value schema -/
def indexS (go : RT → SCtx → SRes JsVal) : List (RT × RT) → SCtx → SRes (List JsVal)
  | [], c => .ok [] c
  | p :: rest, c =>
    match go p.1 c with
    | .ok ks c' =>
      (match go p.2 c' with
        | .ok vs c'' =>
          (match indexS go rest c'' with
            | .ok ss c3 =>
              .ok (jobj [("type", .str "object"), ("additionalProperties", vs), ("propertyNames", ks)] :: ss) c3
            | .throw e => .throw e
            | .nofuel => .nofuel)
        | .throw e => .throw e
        | .nofuel => .nofuel)
    | .throw e => .throw e
    | .nofuel => .nofuel

/-- `SchemaPrintingContext`: print the body of `name` and store it, unless it is stored or being printed -/
def defineS (go : RT → SCtx → SRes JsVal) (name : String) (target : RT) (c : SCtx) : SRes Unit :=
  if c.has name || c.inProgress.contains name then .ok () c
  else
    match go target { c with inProgress := c.inProgress ++ [name] } with
    | .ok body c2 => .ok () (c2.store name body)
    | .throw e => .throw e
    | .nofuel => .nofuel

/-- the name and the schema source of one variant of a discriminated union -/
def variantTarget (env : Env) (o : SOpts) (key : String) (unionHash : Int) (schemaMapping : List (String × RT))
    (kv : String × RT) : String × Option RT :=
  let ambiguous := decide ((schemaMapping.filter fun kv' => sanitizePart kv'.1 == sanitizePart kv.1).length > 1)
  match stripDesc kv.2 with
  | .ref r => (r, match o.overrides.find? (fun p => p.1 == r) with | some p => some p.2 | none => env.lookup r)
  | _ => (syntheticRefName key kv.1 unionHash ambiguous, some kv.2)

/-- `getSchemaVariantRefs`: a definition for every variant, in `Object.entries(schemaMapping)` order -/
def variantsS (go : RT → SCtx → SRes JsVal) (tgt : String × RT → String × Option RT) (template : String) :
    List (String × RT) → SCtx → SRes (List (String × String))
  | [], c => .ok [] c
  | kv :: rest, c =>
    match tgt kv with
    | (_, none) => .throw c
    | (name, some target) =>
      match defineS go name target c with
      | .ok _ c' =>
        (match variantsS go tgt template rest c' with
          | .ok refs c'' => .ok ((kv.1, getRef template name) :: refs) c''
          | .throw e => .throw e
          | .nofuel => .nofuel)
      | .throw e => .throw e
      | .nofuel => .nofuel

/-- `schema(ctx)` -/
def schema (env : Env) (o : SOpts) : Nat → RT → Option String → List String → SCtx → SRes JsVal
  | 0, _, _, _, _ => .nofuel
  | n+1, rt, desc, seen, c =>
    let go (t : RT) (c : SCtx) := schema env o n t none seen c
    let ret (s : JsVal) (c : SCtx) : SRes JsVal := .ok (annotate desc s) c
    match rt with
    | .described d t => schema env o n t (some d) seen c
    | .typeof t => ret (jobj [("type", .str t)]) c
    | .any => ret (jobj []) c
    | .nullish _ => ret (jobj [("type", .str "null")]) c
    | .never => ret (jobj [("not", jobj [])]) c
    | .const v =>
      match (if o.contextual then typeofOfConst v else none) with
      | some tp => ret (jobj [("type", .str tp), ("enum", .arr [v])]) c
      | none => ret (jobj [("const", if v.isNullish then .null else v)]) c
    | .regex tpl _ => ret (jobj [("type", .str "string"), ("pattern", .str (regexSource tpl))]) c
    | .date => .throw c
    | .bigint => .throw c
    | .typed _ => .throw c
    | .map _ _ => .throw c
    | .set _ => .throw c
    | .strfmt fs => ret (jobj [("type", .str "string"), ("format", .str (" and ".intercalate fs))]) c
    | .numfmt fs => ret (jobj [("type", .str "number"), ("format", .str (" and ".intercalate fs))]) c
    | .consts vs =>
      let single := vs.length > 0 && vs.all (fun v => jsTypeof v == jsTypeof (vs.headD .null))
      match (if single then typeofOfConst (vs.headD .null) else none) with
      | some tp => ret (jobj [("type", .str tp), ("enum", .arr vs)]) c
      | none => ret (jobj [("enum", .arr vs)]) c
    | .tuple pre rest =>
      match seqS go pre c with
      | .ok ps c1 =>
        let itemsR : SRes JsVal := match rest with
          | some r => go r c1
          | none => .ok (.bool false) c1
        match itemsR with
        | .ok items c2 =>
          ret (jobj ([("type", JsVal.str "array")] ++ (if ps.length > 0 then [("prefixItems", JsVal.arr ps)] else []) ++
            [("items", items), ("minItems", JsVal.num (natToCanon pre.length))])) c2
        | r => r
      | .throw e => .throw e
      | .nofuel => .nofuel
    | .allOf ts =>
      match seqS go ts c with
      | .ok ss c1 =>
        match tryMergeAllOf ss with
        | some merged => ret merged c1
        | none => ret (jobj [("allOf", .arr ss)]) c1
      | .throw e => .throw e
      | .nofuel => .nofuel
    | .anyOf ts =>
      match seqS go ts c with
      | .ok ss c1 => ret (jobj [("anyOf", .arr ss)]) c1
      | .throw e => .throw e
      | .nofuel => .nofuel
    | .array t =>
      match go t c with
      | .ok s c1 => ret (jobj [("type", .str "array"), ("items", s)]) c1
      | r => r
    | .optional t =>
      match go t c with
      | .ok s c1 => .ok (jobj [("anyOf", .arr [s, jobj [("type", .str "null")]])]) c1
      | r => r
    | .disc schemas key _ schemaMapping =>
      if o.contextual then
        match hash env 200 rt [] with
        | none => .throw c
        | some unionHash =>
          match variantsS go (variantTarget env o key unionHash schemaMapping) o.refTemplate schemaMapping c with
          | .ok refs c1 =>
            ret (jobj [("type", .str "object"),
              ("discriminator", jobj [("propertyName", .str key), ("mapping", jobj (refs.map fun r => (r.1, JsVal.str r.2)))]),
              ("oneOf", .arr (refs.map fun r => jobj [("$ref", .str r.2)]))]) c1
          | .throw e => .throw e
          | .nofuel => .nofuel
      else
        match seqS go schemas c with
        | .ok ss c1 =>
          ret (jobj [("type", .str "object"), ("discriminator", jobj [("propertyName", .str key)]), ("anyOf", .arr ss)]) c1
        | .throw e => .throw e
        | .nofuel => .nofuel
    | .object props ix =>
      match propsS go props ([], []) c with
      | .ok (ps, optionalized) c1 =>
        let required := (props.map (·.1)).filter (fun k => !optionalized.contains k)
        let base : List (String × JsVal) := [("type", .str "object"), ("properties", .obj ps)] ++
          (if required.length > 0 then [("required", JsVal.arr (required.map JsVal.str))] else [])
        match indexS go ix c1 with
        | .ok indexSchemas c2 =>
          if indexSchemas.length == 0 then ret (jobj (base ++ [("additionalProperties", .bool false)])) c2
          else if ps.length == 0 && indexSchemas.length == 1 then
            match stripDesc (ix.headD (.any, .any)).2, indexSchemas.headD .null with
            | .never, _ => ret (jobj [("type", .str "object"), ("additionalProperties", .bool false)]) c2
            | .any, .obj kvs => ret (.obj (setProp kvs "additionalProperties" (.bool true))) c2
            | _, s => ret s c2
          else ret (jobj [("allOf", .arr (jobj base :: indexSchemas))]) c2
        | .throw e => .throw e
        | .nofuel => .nofuel
      | .throw e => .throw e
      | .nofuel => .nofuel
    | .ref name =>
      match env.lookup name with
      | none => .throw c
      | some to =>
        if o.contextual then
          let target := (match o.overrides.find? (fun p => p.1 == name) with | some p => p.2 | none => to)
          match defineS go name target c with
          | .ok _ c1 => ret (jobj [("$ref", .str (getRef o.refTemplate name))]) c1
          | .throw e => .throw e
          | .nofuel => .nofuel
        else if seen.contains name then ret (jobj []) c
        else
          match schema env o n to none (name :: seen) c with
          | .ok s c1 => ret s c1
          | r => r

end RT
end BeffVerif
