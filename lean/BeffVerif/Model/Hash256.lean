import BeffVerif.Model.Sha256
import BeffVerif.Model.Hash
import BeffVerif.Model.Schema
/-!
The canonical token stream of `hash256(ctx)` of every `*Runtype` class (codegen-v2.ts) and `ParserFromRuntype.hash256`.

State of `Hash256Context`: the writer — here the tokens written by a node are the function's RESULT and `pos` is the
number of bytes written before the node starts (`Hash256Writer.position()`) — and `active` (the named types being
expanded, each with the offset at which its encoding starts). A reference to an active type writes
`cycleRef <offset>`; any other reference is transparent.
-/
namespace BeffVerif
namespace RT
open Sha

/-- bytes occupied by a token list -/
def bytesLen : List Tok → Nat
  | [] => 0
  | t :: ts => t.bytes.length + bytesLen ts

def natTok (n : Nat) : Tok := .num (toString n)

/-- `constSortKey` -/
def constSortKey : JsVal → String
  | .str s => "string:" ++ s
  | .num c => "number:" ++ (if c == "-0" then "0" else c)
  | .bool b => "boolean:" ++ (if b then "true" else "false")
  | _ => "null:"

/-- `hash256Const` (and the body of `ConstRuntype.hash256` after its tag); `none`: not a `Const` -/
def constToks : JsVal → Option (List Tok)
  | .null => some [.null]
  | .undef => some [.null]
  | .str s => some [.tag "string", .str s]
  | .num c => some [.tag "number", .num c]
  | .bool b => some [.tag "boolean", .bool b]
  | _ => none

def stripDescribed : RT → RT
  | .described _ t => stripDescribed t
  | t => t

def isOptionalField (t : RT) : Bool :=
  match stripDescribed t with
  | .optional _ => true
  | _ => false

/-- run sub-encoders one after the other; each starts where the previous one stopped -/
def seqT {α : Type} (f : α → Nat → Option (List Tok)) : List α → Nat → Option (List Tok)
  | [], _ => some []
  | x :: xs, pos => match f x pos with
    | some ts => (match seqT f xs (pos + bytesLen ts) with
      | some r => some (ts ++ r)
      | none => none)
    | none => none

/-- a fixed prefix, then an encoder -/
def pre (p : List Tok) (f : Nat → Option (List Tok)) (pos : Nat) : Option (List Tok) :=
  (f (pos + bytesLen p)).map (p ++ ·)

/-- one encoder after another -/
def andThen (f g : Nat → Option (List Tok)) (pos : Nat) : Option (List Tok) :=
  match f pos with
  | some ts => (g (pos + bytesLen ts)).map (ts ++ ·)
  | none => none

def sortedProps (props : List (String × RT)) : List (String × RT) :=
  JsVal.sortBy (fun (a b : String × RT) => JsVal.strLe a.1 b.1) props

def sortedConsts (vs : List JsVal) : List JsVal :=
  JsVal.sortBy (fun a b => JsVal.strLe (constSortKey a) (constSortKey b)) vs

/-- `hash256(ctx)` of a node that starts at offset `pos`; `none` = fuel, an unbound name or a constant outside `Const` -/
def h256 (env : Env) : Nat → RT → List (String × Nat) → Nat → Option (List Tok)
  | 0, _, _, _ => none
  | n+1, rt, act, pos =>
    let h (t : RT) (p : Nat) := h256 env n t act p
    match rt with
    | .typeof t => some [.tag "typeof", .str t]
    | .any => some [.tag "any"]
    | .nullish _ => some [.tag "nullish"]
    | .never => some [.tag "never"]
    | .const v => (constToks v).map fun ts => .tag "const" :: ts
    | .regex tpl _ => some [.tag "regex", .str (regexSource tpl), .str ""]   -- source and flags (fix D81)
    | .date => some [.tag "date"]
    | .bigint => some [.tag "bigint"]
    | .typed c => some [.tag "typedArray", .str c]
    | .strfmt fs => some (.tag "stringWithFormat" :: natTok fs.length :: (JsVal.sortStrings fs).map .str)
    | .numfmt fs => some (.tag "numberWithFormat" :: natTok fs.length :: (JsVal.sortStrings fs).map .str)
    | .consts vs =>
      (mapMO constToks (sortedConsts vs)).map fun tss => .tag "anyOfConsts" :: natTok vs.length :: tss.flatten
    | .tuple ps rest =>
      pre [.tag "tuple", natTok ps.length]
        (andThen (seqT h ps) (match rest with
          | none => fun _ => some [.tag "noRest"]
          | some r => pre [.tag "rest"] (h r))) pos
    | .allOf ts => pre [.tag "allOf", natTok ts.length] (seqT h ts) pos
    | .anyOf ts => pre [.tag "anyOf", natTok ts.length] (seqT h ts) pos
    | .array t => pre [.tag "array"] (h t) pos
    | .map k v => pre [.tag "map"] (andThen (h k) (h v)) pos
    | .set t => pre [.tag "set"] (h t) pos
    | .disc schemas key mapping _ =>
      pre [.tag "anyOfDiscriminated", .str key, natTok schemas.length]
        (andThen (seqT h schemas)
          (pre [natTok mapping.length] (seqT (fun (p : String × RT) => pre [.str p.1] (h p.2)) (sortedProps mapping)))) pos
    | .optional t => pre [.tag "optionalField"] (h t) pos
    | .object props ix =>
      pre [.tag "object", natTok props.length]
        (andThen (seqT (fun (p : String × RT) => pre [.str p.1, .bool (isOptionalField p.2)] (h p.2)) (sortedProps props))
          (pre [natTok ix.length] (seqT (fun (p : RT × RT) => andThen (h p.1) (h p.2)) ix))) pos
    | .ref name =>
      match env.lookup name with
      | none => none
      | some to =>
        match stripDescribed to with
        | .ref other => h (.ref other) pos        -- an alias of another named type is transparent
        | _ =>
          match act.find? (fun p => p.1 == name) with
          | some (_, id) => some [.tag "cycleRef", natTok id]
          | none => h256 env n to ((name, pos) :: act) pos
    | .described _ t => h t pos

def h256Fuel : Nat := 200

def rootToks : List Tok := [.tag "beff-hash256-v1"]

/-- `ParserFromRuntype.hash256()`: the token stream -/
def hash256Toks (env : Env) (rt : RT) : Option (List Tok) :=
  (h256 env h256Fuel rt [] (bytesLen rootToks)).map (rootToks ++ ·)

/-- … and its digest -/
def hash256 (env : Env) (rt : RT) : Option String :=
  match hash256Toks env rt with
  | some ts => hashToks ts
  | none => none

end RT
end BeffVerif
