import BeffVerif.Model.Sha256
import BeffVerif.Model.Hash
/-!
The canonical token stream of `hash256(ctx)` of every `*Runtype` class (codegen-v2.ts) and `ParserFromRuntype.hash256`.

State of `Hash256Context`: the writer (here: the tokens written so far, newest first, and the number of bytes they
occupy — `Hash256Writer.position()`), and `active` (the named types being expanded, with the offset at which the
encoding of each starts). A reference to an active type writes `cycleRef <offset>`; any other reference is transparent.
-/
namespace BeffVerif
namespace RT
open Sha

structure HS where
  toks : List Tok      -- newest first
  pos : Nat
  deriving Repr

def HS.emit (s : HS) (t : Tok) : HS := ⟨t :: s.toks, s.pos + t.bytes.length⟩
def HS.emits (s : HS) (ts : List Tok) : HS := ts.foldl HS.emit s

def natTok (n : Nat) : Tok := .num (toString n)

/-- `constSortKey` -/
def constSortKey : JsVal → String
  | .str s => "string:" ++ s
  | .num c => "number:" ++ (if c == "-0" then "0" else c)
  | .bool b => "boolean:" ++ (if b then "true" else "false")
  | _ => "null:"

/-- `hash256Const` (and the body of `ConstRuntype.hash256` after its tag); `none`: not a `Const` -/
def constToks : JsVal → Option (List Tok)
  | .null => some [.null]
  | .undef => some [.null]
  | .str s => some [.tag "string", .str s]
  | .num c => some [.tag "number", .num c]
  | .bool b => some [.tag "boolean", .bool b]
  | _ => none

def stripDescribed : RT → RT
  | .described _ t => stripDescribed t
  | t => t

def isOptionalField (t : RT) : Bool :=
  match stripDescribed t with
  | .optional _ => true
  | _ => false

/-- fold a state through a list of sub-encoders -/
def foldHS {α : Type} (f : α → HS → Option HS) : List α → HS → Option HS
  | [], s => some s
  | x :: xs, s => match f x s with
    | some s' => foldHS f xs s'
    | none => none

/-- `hash256(ctx)`; `none` = fuel, an unbound name or a constant outside `Const` -/
def h256 (env : Env) : Nat → RT → List (String × Nat) → HS → Option HS
  | 0, _, _, _ => none
  | n+1, rt, act, s =>
    let h (t : RT) (s : HS) := h256 env n t act s
    match rt with
    | .typeof t => some (s.emits [.tag "typeof", .str t])
    | .any => some (s.emit (.tag "any"))
    | .nullish _ => some (s.emit (.tag "nullish"))
    | .never => some (s.emit (.tag "never"))
    | .const v => (constToks v).map fun ts => s.emits (.tag "const" :: ts)
    | .regex _ d => some (s.emits [.tag "regex", .str d])
    | .date => some (s.emit (.tag "date"))
    | .bigint => some (s.emit (.tag "bigint"))
    | .typed c => some (s.emits [.tag "typedArray", .str c])
    | .strfmt fs => some (s.emits (.tag "stringWithFormat" :: natTok fs.length :: (JsVal.sortStrings fs).map .str))
    | .numfmt fs => some (s.emits (.tag "numberWithFormat" :: natTok fs.length :: (JsVal.sortStrings fs).map .str))
    | .consts vs =>
      let sorted := JsVal.sortBy (fun a b => JsVal.strLe (constSortKey a) (constSortKey b)) vs
      (mapMO constToks sorted).map fun tss => s.emits (.tag "anyOfConsts" :: natTok vs.length :: tss.flatten)
    | .tuple pre rest =>
      match foldHS h pre (s.emits [.tag "tuple", natTok pre.length]) with
      | none => none
      | some s1 => match rest with
        | none => some (s1.emit (.tag "noRest"))
        | some r => h r (s1.emit (.tag "rest"))
    | .allOf ts => foldHS h ts (s.emits [.tag "allOf", natTok ts.length])
    | .anyOf ts => foldHS h ts (s.emits [.tag "anyOf", natTok ts.length])
    | .array t => h t (s.emit (.tag "array"))
    | .map k v => match h k (s.emit (.tag "map")) with
      | some s1 => h v s1
      | none => none
    | .set t => h t (s.emit (.tag "set"))
    | .disc schemas key mapping _ =>
      match foldHS h schemas (s.emits [.tag "anyOfDiscriminated", .str key, natTok schemas.length]) with
      | none => none
      | some s1 =>
        let sorted := JsVal.sortBy (fun (a b : String × RT) => JsVal.strLe a.1 b.1) mapping
        foldHS (fun (p : String × RT) s => h p.2 (s.emit (.str p.1))) sorted (s1.emit (natTok mapping.length))
    | .optional t => h t (s.emit (.tag "optionalField"))
    | .object props ix =>
      let sorted := JsVal.sortBy (fun (a b : String × RT) => JsVal.strLe a.1 b.1) props
      match foldHS (fun (p : String × RT) s => h p.2 (s.emits [.str p.1, .bool (isOptionalField p.2)])) sorted
              (s.emits [.tag "object", natTok props.length]) with
      | none => none
      | some s1 =>
        foldHS (fun (p : RT × RT) s => match h p.1 s with
          | some s2 => h p.2 s2
          | none => none) ix (s1.emit (natTok ix.length))
    | .ref name =>
      match env.lookup name with
      | none => none
      | some to =>
        match stripDescribed to with
        | .ref other => h (.ref other) s        -- an alias of another named type is transparent
        | _ =>
          match act.find? (fun p => p.1 == name) with
          | some (_, id) => some (s.emits [.tag "cycleRef", natTok id])
          | none => h256 env n to ((name, s.pos) :: act) s
    | .described _ t => h t s

def h256Fuel : Nat := 200

/-- `ParserFromRuntype.hash256()`: the token stream -/
def hash256Toks (env : Env) (rt : RT) : Option (List Tok) :=
  (h256 env h256Fuel rt [] ((⟨[], 0⟩ : HS).emit (.tag "beff-hash256-v1"))).map fun s => s.toks.reverse

/-- … and its digest -/
def hash256 (env : Env) (rt : RT) : Option String :=
  match hash256Toks env rt with
  | some ts => hashToks ts
  | none => none

end RT
end BeffVerif
