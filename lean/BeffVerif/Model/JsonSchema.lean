import BeffVerif.Model.Schema
/-!
A JSON Schema (Draft 2020-12) evaluator for exactly the keywords beff emits:
`type enum const anyOf oneOf allOf not properties required additionalProperties propertyNames prefixItems items
minItems pattern format $ref` (`discriminator`, `description` are annotations). `pattern` and `format` are
parameters (`patOk`, `fmtOk`). `$ref` resolves a name through the definitions table.
-/
namespace BeffVerif
namespace JS
open JsVal

/-- structural equality of JSON values (numbers by canonical string, -0 = 0) -/
def jsonEq : Nat → JsVal → JsVal → Bool
  | 0, _, _ => false
  | _+1, .null, .null => true
  | _+1, .bool a, .bool b => a == b
  | _+1, .num a, .num b => numSameValueZero a b
  | _+1, .str a, .str b => a == b
  | n+1, .arr a, .arr b => a.length == b.length && (a.zip b).all (fun p => jsonEq n p.1 p.2)
  | n+1, .obj a, .obj b => a.length == b.length && a.all (fun p => match lookupProp b p.1 with
      | some v => jsonEq n p.2 v
      | none => false)
  | _+1, _, _ => false

def typeOk (t : String) (d : JsVal) : Bool :=
  match t, d with
  | "null", .null => true
  | "boolean", .bool _ => true
  | "number", .num _ => true
  | "string", .str _ => true
  | "array", .arr _ => true
  | "object", .obj _ => true
  | _, _ => false

structure Params where
  defs : List (String × JsVal)
  nameOfRef : String → Option String
  patOk : String → String → Bool
  fmtOk : String → JsVal → Bool

/-! The evaluator is strict in its sub-evaluations: a keyword whose sub-schema ran out of fuel makes the whole verdict
`none`. The three combinators and the per-keyword clauses are named so that statements about them are proved once
(Props/C02Eval.lean). -/

def andO : Option Bool → Option Bool → Option Bool
  | some a, some b => some (a && b)
  | _, _ => none
def orO : Option Bool → Option Bool → Option Bool
  | some a, some b => some (a || b)
  | _, _ => none
def cntO : Option Nat → Option Bool → Option Nat
  | some k, some b => some (if b then k + 1 else k)
  | _, _ => none

/-- conjunction of verdicts -/
def allO (l : List (Option Bool)) : Option Bool := l.foldl andO (some true)

/-- disjunction of verdicts -/
def anyO (l : List (Option Bool)) : Option Bool := l.foldl orO (some false)

/-- number of positive verdicts -/
def countO (l : List (Option Bool)) : Option Nat := l.foldl cntO (some 0)

/-- `minItems` as written by the printer: a decimal numeral -/
def parseNat (c : String) : Nat := c.toList.foldl (fun acc ch => 10 * acc + (ch.toNat - 48)) 0

section clauses
variable (P : Params) (v : JsVal → JsVal → Option Bool) (get : String → Option JsVal) (d : JsVal)

def cType : Option Bool := match get "type" with | some (.str t) => some (typeOk t d) | _ => some true
def cConst : Option Bool := match get "const" with | some c => some (jsonEq 50 c d) | none => some true
def cEnum : Option Bool := match get "enum" with | some (.arr cs) => some (cs.any (fun c => jsonEq 50 c d)) | _ => some true
def cAny : Option Bool := match get "anyOf" with | some (.arr ss) => anyO (ss.map (fun s => v s d)) | _ => some true
def cOne : Option Bool := match get "oneOf" with
  | some (.arr ss) => (countO (ss.map (fun s => v s d))).map (· == 1)
  | _ => some true
def cAll : Option Bool := match get "allOf" with | some (.arr ss) => allO (ss.map (fun s => v s d)) | _ => some true
def cNot : Option Bool := match get "not" with | some s => (v s d).map (!·) | none => some true
def cRef : Option Bool := match get "$ref" with
  | some (.str r) => (match (P.nameOfRef r).bind (fun nm => lookupProp P.defs nm) with
    | some s => v s d
    | none => none)
  | _ => some true
def cPattern : Option Bool := match get "pattern", d with | some (.str p), .str s => some (P.patOk p s) | _, _ => some true
def cFormat : Option Bool := match get "format" with | some (.str f) => some (P.fmtOk f d) | _ => some true

def declaredOf : List (String × JsVal) := match get "properties" with | some (.obj ps) => ps | _ => []

def cObj : Option Bool := match d with
  | .obj props =>
    let declared := declaredOf get
    let cProps := allO (declared.map fun p => match lookupProp props p.1 with | some x => v p.2 x | none => some true)
    let cReq := match get "required" with
      | some (.arr rs) => some (rs.all (fun r => match r with | .str k => (lookupProp props k).isSome | _ => true))
      | _ => some true
    let extra := props.filter (fun p => !(declared.any (fun q => q.1 == p.1)))
    let cAdd := match get "additionalProperties" with
      | some s => allO (extra.map (fun p => v s p.2))
      | none => some true
    let cNames := match get "propertyNames" with
      | some s => allO (props.map (fun p => v s (.str p.1)))
      | none => some true
    allO [cProps, cReq, cAdd, cNames]
  | _ => some true

def prefixOf : List JsVal := match get "prefixItems" with | some (.arr ps) => ps | _ => []

def cArr : Option Bool := match d with
  | .arr items =>
    let pre := prefixOf get
    let cPre := allO ((pre.zip items).map (fun p => v p.1 p.2))
    let cItems := match get "items" with
      | some s => allO ((items.drop pre.length).map (fun x => v s x))
      | none => some true
    let cMin := match get "minItems" with
      | some (.num c) => some (decide (parseNat c ≤ items.length))
      | _ => some true
    allO [cPre, cItems, cMin]
  | _ => some true

/-- one object schema: the conjunction of its keywords -/
def validG : Option Bool :=
  allO [cType get d, cConst get d, cEnum get d, cAny v get d, cOne v get d, cAll v get d, cNot v get d, cRef P v get d,
    cPattern P get d, cFormat P get d, cObj v get d, cArr v get d]
end clauses

def valid (P : Params) : Nat → JsVal → JsVal → Option Bool
  | 0, _, _ => none
  | _+1, .bool b, _ => some b
  | n+1, .obj kvs, d => validG P (valid P n) (lookupProp kvs) d
  | _+1, _, _ => none

/-- JSON documents: the values `JSON.parse` can produce -/
def isJson : Nat → JsVal → Bool
  | 0, _ => false
  | _+1, .null => true
  | _+1, .bool _ => true
  | _+1, .num c => c != "NaN" && c != "Infinity" && c != "-Infinity" && c != "-0"
  | _+1, .str _ => true
  | n+1, .arr xs => xs.all (isJson n)
  | n+1, .obj ps => ps.all (fun p => isJson n p.2)
  | _+1, _ => false

end JS
end BeffVerif
