import BeffVerif.Model.Schema
/-!
A JSON Schema (Draft 2020-12) evaluator for exactly the keywords beff emits:
`type enum const anyOf oneOf allOf not properties required additionalProperties propertyNames prefixItems items
minItems pattern format $ref` (`discriminator`, `description` are annotations). `pattern` and `format` are
parameters (`patOk`, `fmtOk`). `$ref` resolves a name through the definitions table.
-/
namespace BeffVerif
namespace JS
open JsVal

/-- structural equality of JSON values (numbers by canonical string, -0 = 0) -/
def jsonEq : Nat → JsVal → JsVal → Bool
  | 0, _, _ => false
  | _+1, .null, .null => true
  | _+1, .bool a, .bool b => a == b
  | _+1, .num a, .num b => numSameValueZero a b
  | _+1, .str a, .str b => a == b
  | n+1, .arr a, .arr b => a.length == b.length && (a.zip b).all (fun p => jsonEq n p.1 p.2)
  | n+1, .obj a, .obj b => a.length == b.length && a.all (fun p => match lookupProp b p.1 with
      | some v => jsonEq n p.2 v
      | none => false)
  | _+1, _, _ => false

def typeOk (t : String) (d : JsVal) : Bool :=
  match t, d with
  | "null", .null => true
  | "boolean", .bool _ => true
  | "number", .num _ => true
  | "string", .str _ => true
  | "array", .arr _ => true
  | "object", .obj _ => true
  | _, _ => false

structure Params where
  defs : List (String × JsVal)
  nameOfRef : String → Option String
  patOk : String → String → Bool
  fmtOk : String → JsVal → Bool

def valid (P : Params) : Nat → JsVal → JsVal → Option Bool
  | 0, _, _ => none
  | _+1, .bool b, _ => some b
  | n+1, .obj kvs, d =>
    let v := valid P n
    let allO (l : List (Option Bool)) : Option Bool :=
      l.foldl (fun acc x => match acc, x with | some a, some b => some (a && b) | _, _ => none) (some true)
    let get := lookupProp kvs
    let cType := match get "type" with | some (.str t) => some (typeOk t d) | _ => some true
    let cConst := match get "const" with | some c => some (jsonEq 50 c d) | none => some true
    let cEnum := match get "enum" with | some (.arr cs) => some (cs.any (fun c => jsonEq 50 c d)) | _ => some true
    let cAny := match get "anyOf" with
      | some (.arr ss) => (ss.foldl (fun acc s => match acc, v s d with | some a, some b => some (a || b) | _, _ => none) (some false))
      | _ => some true
    let cOne := match get "oneOf" with
      | some (.arr ss) => (ss.foldl (fun (acc : Option Nat) s => match acc, v s d with
          | some k, some b => some (if b then k + 1 else k) | _, _ => none) (some 0)).map (· == 1)
      | _ => some true
    let cAll := match get "allOf" with | some (.arr ss) => allO (ss.map (fun s => v s d)) | _ => some true
    let cNot := match get "not" with | some s => (v s d).map (!·) | none => some true
    let cRef := match get "$ref" with
      | some (.str r) => (match (P.nameOfRef r).bind (fun nm => lookupProp P.defs nm) with
        | some s => v s d
        | none => none)
      | _ => some true
    let cPattern := match get "pattern", d with | some (.str p), .str s => some (P.patOk p s) | _, _ => some true
    let cFormat := match get "format" with | some (.str f) => some (P.fmtOk f d) | _ => some true
    let cObj := match d with
      | .obj props =>
        let declared : List (String × JsVal) := match get "properties" with | some (.obj ps) => ps | _ => []
        let cProps := allO (declared.map fun p => match lookupProp props p.1 with | some x => v p.2 x | none => some true)
        let cReq := match get "required" with
          | some (.arr rs) => some (rs.all (fun r => match r with | .str k => (lookupProp props k).isSome | _ => true))
          | _ => some true
        let extra := props.filter (fun p => !(declared.any (fun q => q.1 == p.1)))
        let cAdd := match get "additionalProperties" with
          | some s => allO (extra.map (fun p => v s p.2))
          | none => some true
        let cNames := match get "propertyNames" with
          | some s => allO (props.map (fun p => v s (.str p.1)))
          | none => some true
        allO [cProps, cReq, cAdd, cNames]
      | _ => some true
    let cArr := match d with
      | .arr items =>
        let pre : List JsVal := match get "prefixItems" with | some (.arr ps) => ps | _ => []
        let cPre := allO ((pre.zip items).map (fun p => v p.1 p.2))
        let cItems := match get "items" with
          | some s => allO ((items.drop pre.length).map (fun x => v s x))
          | none => some true
        let cMin := match get "minItems" with
          | some (.num c) => some (decide ((c.toList.foldl (fun acc ch => 10 * acc + (ch.toNat - 48)) 0) ≤ items.length))
          | _ => some true
        allO [cPre, cItems, cMin]
      | _ => some true
    allO [cType, cConst, cEnum, cAny, cOne, cAll, cNot, cRef, cPattern, cFormat, cObj, cArr]
  | _+1, _, _ => none

/-- JSON documents: the values `JSON.parse` can produce -/
def isJson : Nat → JsVal → Bool
  | 0, _ => false
  | _+1, .null => true
  | _+1, .bool _ => true
  | _+1, .num c => c != "NaN" && c != "Infinity" && c != "-Infinity" && c != "-0"
  | _+1, .str _ => true
  | n+1, .arr xs => xs.all (isJson n)
  | n+1, .obj ps => ps.all (fun p => isJson n p.2)
  | _+1, _ => false

end JS
end BeffVerif
