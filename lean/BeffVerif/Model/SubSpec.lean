import BeffVerif.Model.Spec
import BeffVerif.Model.SemType
/-!
C05 — the set-theoretic meaning of assignability on the fragment of the property: null, booleans, numbers, strings,
their literals, arrays, tuples with rest, objects with required / optional properties and a string index signature,
unions, intersections, named (possibly recursive) references.

* `memR exact`: membership of a JSON-like value in a type, read *structurally* (`exact = false`: undeclared properties
  are allowed) or *exactly* (`exact = true`: an object carries declared properties only, unless an index signature
  covers the key) — at every depth.
* `enumExact`: the exact values of a type built from representatives: every literal mentioned in either type, one
  fresh number and one fresh string, arrays up to the longest tuple prefix + 1, probe keys for index signatures.
  The second component says whether a cap truncated the enumeration.
* `inclusion A B`: every enumerated exact value of A is a structural value of B (with the first counterexample).
-/
namespace BeffVerif.SubSpec
open BeffVerif Spec

def allO {α : Type} (f : α → Option Bool) (xs : List α) : Option Bool :=
  xs.foldl (fun acc x => match acc, f x with
    | some a, some b => some (a && b)
    | _, _ => none) (some true)

def anyO {α : Type} (f : α → Option Bool) (xs : List α) : Option Bool :=
  xs.foldl (fun acc x => match acc, f x with
    | some a, some b => some (a || b)
    | _, _ => none) (some false)

def isObj : JsVal → Bool
  | .obj _ => true
  | _ => false

/-- membership against an object shape -/
def memShapeR (exact : Bool) (m : Ty → JsVal → Option Bool)
    (ms : List (String × Bool × Ty)) (ix : Option (Ty × Ty)) (v : JsVal) (lenient : Bool := false) : Option Bool :=
  match v with
  | .obj props =>
    let declared := allO (fun (mb : String × Bool × Ty) =>
      match props.find? (fun p => p.1 == mb.1) with
      | some p => m mb.2.2 p.2
      -- `lenient`: a missing property is read as `undefined` (what the validators do: a required property whose type
      -- admits undefined / null may be absent)
      | none =>
        -- a key every object inherits from Object.prototype is never missing for `input[k]` (the validators read through the
        -- prototype chain): records have no prototype, the reference does not judge
        if JsVal.objectProtoFns.contains mb.1 || mb.1 == "__proto__" then none
        else some (mb.2.1 || (lenient && (m mb.2.2 .undef == some true || m mb.2.2 .null == some true)))) ms
    let others := props.filter fun p => !(ms.any fun mb => mb.1 == p.1)
    let extra := match ix with
      | some (_, tv) => allO (fun (p : String × JsVal) => m tv p.2) others
      | none => some (if exact then others.isEmpty else true)
    match declared, extra with
    | some a, some b => some (a && b)
    | _, _ => none
  -- an object that is not a plain one (a Map, a Set, a Date, a typed array): the validators take it for a value of an
  -- object type (S4), the semantic engine files it under another tag — the reference does not judge it
  | .map _ | .set _ | .date _ | .typed _ _ | .protoObj _ => none
  | _ => some false

abbrev Shape := List (String × Bool × Ty) × Option (Ty × Ty)

/-- an intersection of object types is one object type: a property declared by both sides has both types, a
property declared by one side also has to satisfy the other side's index signature -/
def mergeShape (a b : Shape) : Shape :=
  let withIx (ix : Option (Ty × Ty)) (t : Ty) : Ty := match ix with
    | some (_, tv) => .inter [t, tv]
    | none => t
  let fromA := a.1.map fun (k, o, t) => match b.1.find? (fun m => m.1 == k) with
    | some (_, o', t') => (k, o && o', Ty.inter [t, t'])
    | none => (k, o, withIx b.2 t)
  let fromB := (b.1.filter fun m => !(a.1.any fun m' => m'.1 == m.1)).map fun (k, o, t) => (k, o, withIx a.2 t)
  (fromA ++ fromB, match a.2, b.2 with
    | some (k, va), some (_, vb) => some (k, .inter [va, vb])
    | some x, none | none, some x => some x
    | none, none => none)

/-- the object shape of an object-like type (object literal, reference to one, intersection of such) -/
def shapeX (decls : List Decl) : Nat → Ty → Option Shape
  | 0, _ => none
  | n+1, t => match t with
    | .obj ms ix => some (ms, ix)
    | .paren t | .readonly t => shapeX decls n t
    | .ref name args => match decls.find? (fun d => d.name == name) with
      | some (.alias _ ps body) => shapeX decls n (subst (ps.zip args) body)
      -- an interface is the intersection of what it extends and its own members
      | some (.iface _ ps ext ms) =>
        let σ := ps.zip args
        (match (ext.map (subst σ)).mapM (shapeX decls n) with
        | some shs => some ((shs ++ [(substM σ ms, none)]).foldl mergeShape ([], none))
        | none => none)
      | _ => none
    | .inter ts => match ts.mapM (shapeX decls n) with
      | some (s0 :: rest) => some (rest.foldl mergeShape s0)
      | _ => none
    -- the mapped built-ins over an object-like operand (an index signature: only where TypeScript's answer is plain)
    | .bi "Partial" [x] => (shapeX decls n x).map fun sh =>
        (sh.1.map (fun m => (m.1, true, m.2.2)), sh.2.map (fun i => (i.1, Ty.union [i.2, .kw "undefined"])))
    | .bi "Required" [x] => (match shapeX decls n x with
      | some (ms, none) => some (ms.map (fun m => (m.1, false, m.2.2)), none)
      | _ => none)
    | .bi "Readonly" [x] => shapeX decls n x
    | .bi "Pick" [x, ks] => (match shapeX decls n x, Spec.litKeys decls n ks with
      | some (ms, none), some keys => some (ms.filter (fun m => keys.contains m.1), none)
      | _, _ => none)
    | .bi "Omit" [x, ks] => (match shapeX decls n x, Spec.litKeys decls n ks with
      | some (ms, none), some keys => some (ms.filter (fun m => !keys.contains m.1), none)
      | _, _ => none)
    | _ => none

/-- disjunctive normal form of the type operators: a union of intersections of atoms (aliases unfolded) -/
def conjs (decls : List Decl) : Nat → Ty → List (List Ty)
  | 0, t => [[t]]
  | n+1, t => match t with
    | .union ts => ts.flatMap (conjs decls n)
    | .inter ts => ts.foldl (fun acc m => acc.flatMap fun c => (conjs decls n m).map fun c' => c ++ c') [[]]
    | .paren t | .readonly t => conjs decls n t
    | .ref name args => match decls.find? (fun d => d.name == name) with
      | some (.alias _ ps body) =>
        -- only unfold an alias of a union / intersection: an object or tuple alias is an atom (it may be recursive)
        (match subst (ps.zip args) body with
         | .union ts => conjs decls n (.union ts)
         | .inter ts => conjs decls n (.inter ts)
         | _ => [[t]])
      | _ => [[t]]
    | _ => [[t]]

def isTop : Ty → Bool
  | .kw "unknown" | .kw "any" => true
  | _ => false

def memRG (decls : List Decl) (exact lenient : Bool) : Nat → Ty → JsVal → Option Bool
  | 0, _, _ => none
  | n+1, t, v =>
    match t with
    | .kw "null" => some (match v with | .null => true | _ => false)
    | .kw "undefined" => some (match v with | .undef => true | _ => false)
    | .kw "boolean" => some (match v with | .bool _ => true | _ => false)
    | .kw "number" => some (match v with | .num _ => true | _ => false)
    | .kw "string" => some (match v with | .str _ => true | _ => false)
    | .kw "unknown" | .kw "any" => some true
    | .kw "never" => some false
    | .kw _ => none
    | .lit l => some (JsVal.strictEqPrim v l)
    | .paren t | .readonly t => memRG decls exact lenient n t v
    | .array t => (match v with
      | .arr items => allO (memRG decls exact lenient n t) items
      | _ => some false)
    | .tuple pre rest => (match v with
      | .arr items =>
        if items.length < pre.length then some false
        else
          let heads := allO (fun (p : Ty × JsVal) => memRG decls exact lenient n p.1 p.2) (pre.zip items)
          let tail := items.drop pre.length
          let tl := match rest with
            | none => some tail.isEmpty
            | some r => allO (memRG decls exact lenient n r) tail
          (match heads, tl with
          | some a, some b => some (a && b)
          | _, _ => none)
      | _ => some false)
    | .union ts => anyO (fun t => memRG decls exact lenient n t v) ts
    | .obj ms ix => memShapeR exact (memRG decls exact lenient n) ms ix v lenient
    | .inter _ =>
      anyO (fun (c : List Ty) =>
        let c := c.filter (fun a => !isTop a)
        match c.mapM (shapeX decls 50) with
        | some (s0 :: rest) =>
          let sh := rest.foldl mergeShape s0
          memShapeR exact (memRG decls exact lenient n) sh.1 sh.2 v lenient
        | some [] => some true
        | none =>
          -- no object among the atoms (or mixed with scalars / lists): plain conjunction
          if c.any (fun a => (shapeX decls 50 a).isSome) then
            (if isObj v then allO (fun a => memRG decls exact lenient n a v) c else some false)
          else allO (fun a => memRG decls exact lenient n a v) c) (conjs decls 20 t)
    | .ref name args => (match decls.find? (fun d => d.name == name) with
      | some (.alias _ ps body) => memRG decls exact lenient n (subst (ps.zip args) body) v
      | some (.iface _ _ _ _) => (match shapeX decls 50 t with
        | some sh => memShapeR exact (memRG decls exact lenient n) sh.1 sh.2 v lenient
        | none => none)
      | _ => none)
    | .bi "Partial" _ | .bi "Required" _ | .bi "Readonly" _ | .bi "Pick" _ | .bi "Omit" _ => (match shapeX decls 50 t with
      | some sh => memShapeR exact (memRG decls exact lenient n) sh.1 sh.2 v lenient
      | none => none)
    | .bi "Map" [k, x] => (match v with
      | .map es => allO (fun (e : JsVal × JsVal) =>
          match memRG decls exact lenient n k e.1, memRG decls exact lenient n x e.2 with
          | some a, some b => some (a && b)
          | _, _ => none) es
      | _ => some false)
    | .bi "Set" [x] => (match v with
      | .set xs => allO (memRG decls exact lenient n x) xs
      | _ => some false)
    | _ => none

/-- the reference membership (missing required properties are missing) -/
def memR (decls : List Decl) (exact : Bool) : Nat → Ty → JsVal → Option Bool := memRG decls exact false

-- ---------- representatives ----------
mutual
def litsOf : Ty → List JsVal
  | .lit v => [v]
  | .array t | .paren t | .readonly t => litsOf t
  | .tuple pre rest => litsL pre ++ (match rest with | some t => litsOf t | none => [])
  | .obj ms ix => litsM ms ++ (match ix with | some (k, v) => litsOf k ++ litsOf v | none => [])
  | .union ts | .inter ts | .ref _ ts | .bi _ ts => litsL ts
  | _ => []
def litsL : List Ty → List JsVal
  | [] => []
  | t :: ts => litsOf t ++ litsL ts
def litsM : List (String × Bool × Ty) → List JsVal
  | [] => []
  | (_, _, t) :: ms => litsOf t ++ litsM ms
end

mutual
def keysOf : Ty → List String
  | .array t | .paren t | .readonly t => keysOf t
  | .tuple pre rest => keysL pre ++ (match rest with | some t => keysOf t | none => [])
  | .obj ms ix => ms.map (·.1) ++ keysM ms ++ (match ix with | some (_, v) => keysOf v | none => [])
  | .union ts | .inter ts | .ref _ ts | .bi _ ts => keysL ts
  | _ => []
def keysL : List Ty → List String
  | [] => []
  | t :: ts => keysOf t ++ keysL ts
def keysM : List (String × Bool × Ty) → List String
  | [] => []
  | (_, _, t) :: ms => keysOf t ++ keysM ms
end

mutual
def maxTuple : Ty → Nat
  | .array t | .paren t | .readonly t => maxTuple t
  | .tuple pre rest => max pre.length (max (maxTupleL pre) (match rest with | some t => maxTuple t | none => 0))
  | .obj ms ix => max (maxTupleM ms) (match ix with | some (_, v) => maxTuple v | none => 0)
  | .union ts | .inter ts | .ref _ ts | .bi _ ts => maxTupleL ts
  | _ => 0
def maxTupleL : List Ty → Nat
  | [] => 0
  | t :: ts => max (maxTuple t) (maxTupleL ts)
def maxTupleM : List (String × Bool × Ty) → Nat
  | [] => 0
  | (_, _, t) :: ms => max (maxTuple t) (maxTupleM ms)
end

structure Reps where
  nums : List String
  strs : List String
  keys : List String       -- probe keys for index signatures / undeclared positions
  maxLen : Nat
  cap : Nat

def dedupS (xs : List String) : List String := xs.foldl (fun a s => if a.contains s then a else a ++ [s]) []

def repsOf (decls : List Decl) (a b : Ty) (cap : Nat := 60) : Reps :=
  let bodies := decls.map fun d => match d with
    | .alias _ _ body => body
    | .iface _ _ ext ms => .inter (ext ++ [.obj ms none])
  let all := a :: b :: bodies
  let lits := litsL all
  { nums := dedupS (lits.filterMap (fun v => match v with | .num c => some c | _ => none) ++ ["7919"])
    strs := dedupS (lits.filterMap (fun v => match v with | .str s => some s | _ => none) ++ ["zz_fresh"])
    -- two fresh keys: a witness against a union of index-signature types needs two undeclared positions
    keys := dedupS (keysL all ++ ["k_fresh", "k_fresh2"])
    maxLen := maxTupleL all + 1
    cap := cap }

/-- cartesian product of candidate lists, capped; the flag says whether something was cut -/
def productCapped {α : Type} (cap : Nat) : List (List α) → List (List α) × Bool
  | [] => ([[]], false)
  | xs :: rest =>
    let (tails, cut) := productCapped cap rest
    let full := xs.flatMap fun x => tails.map fun t => x :: t
    (full.take cap, cut || full.length > cap)

def replicateList {α : Type} (n : Nat) (x : α) : List α := List.replicate n x

/-- the exact values of a type over the representatives -/
def enumExact (decls : List Decl) (r : Reps) : Nat → Ty → List JsVal × Bool
  | 0, _ => ([], true)
  | n+1, t =>
    match t with
    | .kw "null" => ([.null], false)
    | .kw "boolean" => ([.bool true, .bool false], false)
    | .kw "number" => (r.nums.map .num, false)
    | .kw "string" => (r.strs.map .str, false)
    | .kw "unknown" | .kw "any" => ([.null, .bool true, .num "7919", .str "zz_fresh", .arr [], .obj []], true)
    | .kw _ => ([], false)
    | .lit l => ([l], false)
    | .paren t | .readonly t => enumExact decls r n t
    | .array t =>
      let (xs, cut) := enumExact decls r n t
      let xs3 := xs.take 4
      let lens := (List.range (r.maxLen + 1)).drop 1
      let singles := xs.map fun x => JsVal.arr [x]
      let pairs := xs3.flatMap fun x => xs3.map fun y => JsVal.arr [x, y]
      let longs := lens.flatMap fun k => xs3.map fun x => JsVal.arr (replicateList k x)
      let all := (JsVal.arr [] :: singles) ++ pairs ++ longs
      (all.take (r.cap * 3), cut || xs.length > 4 || all.length > r.cap * 3)
    | .tuple pre rest =>
      let parts := pre.map fun p => enumExact decls r n p
      let cut0 := parts.any (·.2)
      let (heads, cut1) := productCapped r.cap (parts.map (·.1))
      (match rest with
      | none => (heads.map .arr, cut0 || cut1)
      | some rt =>
        let (xs, cut2) := enumExact decls r n rt
        let xs3 := xs.take 3
        -- (longer tails too, up to the longest tuple in sight: the meet of `[...T[]]` with `[T, T, T]` has values of length 3 only)
        let longs : List (List JsVal) := ((List.range (r.maxLen + 1)).drop 3).flatMap fun k => xs3.map fun x => replicateList k x
        let tails : List (List JsVal) := [[]] ++ xs3.map (fun x => [x]) ++ xs3.flatMap (fun x => xs3.map fun y => [x, y]) ++ longs
        let all := heads.flatMap fun h => tails.map fun tl => JsVal.arr (h ++ tl)
        (all.take (r.cap * 3), cut0 || cut1 || cut2 || xs.length > 3 || all.length > r.cap * 3))
    | .union ts =>
      let parts := ts.map fun t => enumExact decls r n t
      (parts.flatMap (·.1), parts.any (·.2))
    | .obj ms ix => enumShape decls r n ms ix
    | .inter _ =>
      let parts := (conjs decls 20 t).map fun c =>
        let c := c.filter (fun a => !isTop a)
        match c.mapM (shapeX decls 50) with
        | some (s0 :: rest) =>
          let sh := rest.foldl mergeShape s0
          enumShape decls r n sh.1 sh.2
        | some [] => enumExact decls r n (.kw "unknown")
        | none =>
          match c with
          | a0 :: rest =>
            let (xs, cut) := enumExact decls r n a0
            (xs.filter fun v => rest.all fun a => memR decls true 40 a v == some true, cut)
          | [] => ([], false)
      (parts.flatMap (·.1), parts.any (·.2))
    | .ref name args => (match decls.find? (fun d => d.name == name) with
      | some (.alias _ ps body) => enumExact decls r n (subst (ps.zip args) body)
      | _ => ([], true))
    | _ => ([], true)
where
  /-- exact values of an object shape: declared properties (optional ones present or absent) and, under an index
  signature, up to two extra properties on probe keys with independent values -/
  enumShape (decls : List Decl) (r : Reps) (n : Nat) (ms : List (String × Bool × Ty)) (ix : Option (Ty × Ty)) :
      List JsVal × Bool :=
    let parts := ms.map fun mb =>
      let (xs, cut) := enumExact decls r n mb.2.2
      ((if mb.2.1 then [none] else []) ++ xs.map some, cut)
    let cut0 := parts.any (·.2)
    let (rows, cut1) := productCapped r.cap (parts.map (·.1))
    let base : List (List (String × JsVal)) := rows.map fun row =>
      (ms.zip row).filterMap fun (mb, ov) => ov.map fun v => (mb.1, v)
    match ix with
    | none => ((base.map JsVal.obj).take (r.cap * 6), cut0 || cut1 || base.length > r.cap * 6)
    | some (_, tv) =>
      let (xs, cutv) := enumExact decls r n tv
      let probe := (r.keys.filter fun k => !(ms.any fun mb => mb.1 == k))
      let p3 := probe.take 3
      let x4 := xs.take 4
      let one : List (List (String × JsVal)) := p3.flatMap fun k => x4.map fun x => [(k, x)]
      let two : List (List (String × JsVal)) := match p3 with
        | k1 :: k2 :: _ => x4.flatMap fun x => x4.map fun y => [(k1, x), (k2, y)]
        | _ => []
      let extras := [[]] ++ one ++ two
      let objs := base.flatMap fun b => extras.map fun e => b ++ e
      ((objs.map JsVal.obj).take (r.cap * 8), cut0 || cut1 || cutv || probe.length > 3 || xs.length > 4 || objs.length > r.cap * 8)

structure Verdict where
  included : Bool
  witness : Option JsVal
  complete : Bool          -- false when a cap or the depth bound cut the enumeration, or membership ran out of fuel

def inclusion (decls : List Decl) (a b : Ty) (depth : Nat := 8) : Verdict :=
  let r := repsOf decls a b
  let (xs0, cut) := enumExact decls r depth a
  -- only values that the reference itself accepts as exact values of A may serve as witnesses
  let xs := xs0.filter fun v => memR decls true 40 a v == some true
  let res := xs.map fun v => (v, memR decls false 40 b v)
  let bad := res.find? fun p => p.2 == some false
  let undecided := res.any fun p => p.2 == none
  { included := bad.isNone, witness := bad.map (·.1), complete := !cut && !undecided }

end BeffVerif.SubSpec

namespace BeffVerif.SubSpec
open BeffVerif Spec

mutual
/-- does an object type occur in the type (through arrays, tuples, unions, intersections, aliases)? -/
def mentionsObj (decls : List Decl) : Nat → Ty → Bool
  | 0, _ => true
  | n+1, t => match t with
    | .obj _ _ => true
    | .array x | .paren x | .readonly x => mentionsObj decls n x
    | .tuple pre rest => mentionsObjL decls n pre || (match rest with | some r => mentionsObj decls n r | none => false)
    | .union ts | .inter ts => mentionsObjL decls n ts
    | .ref name args => (match decls.find? (fun d => d.name == name) with
      | some (.alias _ ps body) => if n < 40 then false else mentionsObj decls (n - 30) (subst (ps.zip args) body)
      | some (.iface ..) => true
      | none => false)
    | _ => false
def mentionsObjL (decls : List Decl) : Nat → List Ty → Bool
  | 0, _ => true
  | _+1, [] => false
  | n+1, t :: ts => mentionsObj decls n t || mentionsObjL decls n ts
end

mutual
/-- hypothesis `NoObjectUnionOnLeft` (finding D25): no union in the type — at any depth — has two or more members
that mention an object type (directly, or as element of a list). Then no positive object atom ever occurs negated in a
clause of the difference. -/
def noObjectUnion (decls : List Decl) : Nat → Ty → Bool
  | 0, _ => false
  | n+1, t =>
    let cs := conjs decls 20 t
    let objConjs := cs.filter fun c => (c.filter (fun a => !isTop a)).any fun a => mentionsObj decls 100 a
    objConjs.length ≤ 1 && cs.all fun c => c.all fun a => match a with
      | .array x | .paren x | .readonly x => noObjectUnion decls n x
      | .tuple pre rest => noObjectUnionL decls n pre && (match rest with | some r => noObjectUnion decls n r | none => true)
      | .obj ms ix => noObjectUnionM decls n ms && (match ix with | some (_, v) => noObjectUnion decls n v | none => true)
      | .ref name args => (match decls.find? (fun d => d.name == name) with
        | some (.alias _ ps body) =>
          -- a recursive reference is checked once (fuel bounds the unfolding)
          if n < 30 then true else noObjectUnion decls (n - 20) (subst (ps.zip args) body)
        | _ => true)
      | _ => true
def noObjectUnionL (decls : List Decl) : Nat → List Ty → Bool
  | 0, _ => false
  | _+1, [] => true
  | n+1, t :: ts => noObjectUnion decls n t && noObjectUnionL decls n ts
def noObjectUnionM (decls : List Decl) : Nat → List (String × Bool × Ty) → Bool
  | 0, _ => false
  | _+1, [] => true
  | n+1, (_, _, t) :: ms => noObjectUnion decls n t && noObjectUnionM decls n ms
end

end BeffVerif.SubSpec

namespace BeffVerif.SubSpec
open BeffVerif Spec

-- ---------- C07: TypeScript's meaning of the semantic operators (reference) ----------
/-- the members `Exclude` distributes over: the top-level union members, `boolean` counting as `true | false` -/
def excludeMembers (decls : List Decl) (a : Ty) : List Ty :=
  (conjs decls 20 a).flatMap fun c =>
    match c with
    | [.kw "boolean"] => [.lit (.bool true), .lit (.bool false)]
    | [x] => [x]
    | xs => [.inter xs]

/-- `Exclude<A, B>` is bracketed, not pinned down: beff computes the set difference and drops the negations it cannot
express at run time, TypeScript filters the union members.
* lower bound (must be accepted): an exact value of some member of A that is not a value of B;
* upper bound (may be accepted): a value of a member of A that is not assignable to B as a whole.
`some true` = in the lower bound, `some false` = outside the upper bound, `none` = in between, or not settled. -/
def memExclude (decls : List Decl) (a b : Ty) (v : JsVal) : Option Bool :=
  let members := excludeMembers decls a
  let inLower := members.any fun m => memR decls true 40 m v == some true && Spec.mem decls 200 b v == some false
  -- a member of A that is written, letter for letter, as a member of B is assignable to B whatever it is made of (this
  -- settles `Set<Tree>` against `Set<Tree>`, whose values the enumeration behind `inclusion` cannot exhaust)
  let bMembers := (excludeMembers decls b).map fun x => toString (repr x)
  let upper := anyO (fun m =>
    match Spec.mem decls 200 m v with
    | some true =>
      if bMembers.contains (toString (repr m)) then some false else
      let verdict := inclusion decls m b
      if !verdict.included then some true
      else if verdict.complete then some false else none
    | other => other) members
  if inLower then some true
  else match upper with
    | some false => some false
    | _ => none

/-- declared keys and "has a string index signature" of an object-like type; unions keep the common keys -/
def keysOfTy (decls : List Decl) (t : Ty) : Option (List String × Bool) :=
  let per : List (Option (List String × Bool)) := (conjs decls 20 t).map fun c =>
    match (c.filter fun a => !isTop a).mapM (shapeX decls 50) with
    | some (s0 :: rest) =>
      let sh := rest.foldl mergeShape s0
      some (sh.1.map (fun (m : String × Bool × Ty) => m.1), sh.2.isSome)
    | _ => none
  match per.mapM id with
  | some (k0 :: rest) =>
    some (rest.foldl (fun (acc : List String × Bool) (k : List String × Bool) => (acc.1.filter (k.1.contains ·), acc.2 && k.2)) k0)
  | _ => none

/-- `v ∈ keyof T`: a key of every union member (declared, or covered by its string index signature) -/
def memKeyof (decls : List Decl) (t : Ty) (v : JsVal) : Option Bool :=
  let per : List (Option (List String × Bool)) := (conjs decls 20 t).map fun c =>
    match (c.filter fun a => !isTop a).mapM (shapeX decls 50) with
    | some (s0 :: rest) =>
      let sh := rest.foldl mergeShape s0
      some (sh.1.map (fun (m : String × Bool × Ty) => m.1), sh.2.isSome)
    | _ => none
  match per.mapM id, v with
  | some ks, .str s => some (ks.all fun (k : List String × Bool) => k.1.contains s || k.2)
  | some ks, .num _ => if ks.all (fun (k : List String × Bool) => k.2) then none else some false   -- `number` under an index signature: not compared
  | some _, _ => some false
  | none, _ => none

/-- `T[K]` for an object type and string-literal keys, an array / tuple and numeric keys -/
def idxTy (decls : List Decl) (t k : Ty) : Option Ty :=
  let keyLits := (conjs decls 20 k).map fun c => match c with
    | [.lit (.str s)] => some (Sum.inl s)
    | [.lit (.num n)] => some (Sum.inr (some n))
    | [.kw "number"] => some (Sum.inr none)
    | _ => none
  match keyLits.mapM id with
  | none => none
  | some ks =>
    let per := (conjs decls 20 t).map fun c =>
      match (c.filter fun a => !isTop a) with
      | [.array e] => if ks.all (fun k => match k with | .inr _ => true | _ => false) then some [e] else none
      -- a string indexed by a number is a string (`"ab"[0]`, `string[number]`)
      | [.lit (.str _)] | [.kw "string"] =>
        if ks.all (fun k => match k with | .inr _ => true | _ => false) then some [.kw "string"] else none
      | [.tuple pre rest] =>
        ks.mapM fun k => match k with
          | .inr (some n) => (match Sem.natOfCanonS n with
            | some i => (match pre[i]? with
              | some x => some x
              | none => rest)
            | none => none)
          | .inr none => some (.union (pre ++ rest.toList))
          | .inl _ => none
      | atoms => match atoms.mapM (shapeX decls 50) with
        | some (s0 :: rest) =>
          let sh := rest.foldl mergeShape s0
          ks.mapM fun k => match k with
            | .inl s => (match sh.1.find? (·.1 == s) with
              | some (_, opt, ty) => some (if opt then Ty.union [ty, .kw "undefined"] else ty)
              | none => sh.2.map fun (_, tv) => tv)
            | .inr _ => none
        | _ => none
    match per.mapM id with
    | some parts => some (.union parts.flatten)
    | none => none

mutual
/-- hypothesis `NoIndexUnionOnRight` (finding D84): no union in the type — at any depth — has two or more members
that are object types with an index signature. The emptiness check treats "all undeclared keys" as ONE coordinate, so
after one such member has been refuted at the index signature the narrowed signature is used against the next one,
although each of them can be refuted at its own fresh key. -/
def noIndexUnion (decls : List Decl) : Nat → Ty → Bool
  | 0, _ => false
  | n+1, t =>
    let cs := conjs decls 20 t
    let ixConjs := cs.filter fun c =>
      match (c.filter (fun a => !isTop a)).mapM (shapeX decls 50) with
      | some (s0 :: rest) => ((rest.foldl mergeShape s0).2).isSome
      | _ => false
    ixConjs.length ≤ 1 && cs.all fun c => c.all fun a => match a with
      | .array x | .paren x | .readonly x => noIndexUnion decls n x
      | .tuple pre rest => noIndexUnionL decls n pre && (match rest with | some r => noIndexUnion decls n r | none => true)
      | .obj ms ix => noIndexUnionM decls n ms && (match ix with | some (_, v) => noIndexUnion decls n v | none => true)
      | .ref name args => (match decls.find? (fun d => d.name == name) with
        | some (.alias _ ps body) => if n < 30 then true else noIndexUnion decls (n - 20) (subst (ps.zip args) body)
        | _ => true)
      | _ => true
def noIndexUnionL (decls : List Decl) : Nat → List Ty → Bool
  | 0, _ => false
  | _+1, [] => true
  | n+1, t :: ts => noIndexUnion decls n t && noIndexUnionL decls n ts
def noIndexUnionM (decls : List Decl) : Nat → List (String × Bool × Ty) → Bool
  | 0, _ => false
  | _+1, [] => true
  | n+1, (_, _, t) :: ms => noIndexUnion decls n t && noIndexUnionM decls n ms
end

end BeffVerif.SubSpec
