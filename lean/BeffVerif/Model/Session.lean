/-!
Layer W — the long-lived compiler session of watch mode (C14): packages/beff-wasm/src/lib.rs.
`BUNDLER.files` is a cache of parsed modules; `update_file_content_inner` re-parses one file; a rebuild runs the
compiler against `LazyFileManager`, which answers from the cache first and otherwise reads and parses the file,
caching it when it parses.

The compiler itself is a parameter: `extract σ view` is its output as a function of the settings `σ` of the build (the
registered custom formats) and of what the file manager answers
(`view f` = the parsed module of `f`, if any), `touched view` the files it asks for. That `beff_core::extract` is such a
function (deterministic, files only through the `FileManager`) is C10 plus the trait boundary; `parse` is
`parse_and_bind` with the host's resolver (the set of files of the project is fixed during a session, so the
resolver's answers are).
-/
namespace BeffVerif.Session

structure World (File Content Mod Sett Out : Type) where
  parse : File → Content → Option Mod
  /-- the compiler: a function of the SETTINGS of this build (custom formats) and of what the file manager answers -/
  extract : Sett → (File → Option Mod) → Out
  touched : Sett → (File → Option Mod) → List File

variable {File Content Mod Sett Out : Type} [DecidableEq File]

structure State (File Content Mod : Type) where
  cache : File → Option Mod
  disk : File → Content

inductive Op (File Content Sett : Type) where
  | update (f : File) (c : Content)
  /-- `bundle_to_string(entry, settings)`: every rebuild names its settings -/
  | rebuild (σ : Sett)

def fresh (disk : File → Content) : State File Content Mod := ⟨fun _ => none, disk⟩

/-- `LazyFileManager::get_or_fetch_file`: cache first, else read + parse -/
def view (w : World File Content Mod Sett Out) (s : State File Content Mod) : File → Option Mod :=
  fun f => match s.cache f with
    | some m => some m
    | none => w.parse f (s.disk f)

/-- `update_file_content_inner` (after fix D66): a content that does not parse drops the cached module.
`keepStale = true` is the behaviour before the fix (the entry is left alone). -/
def update (w : World File Content Mod Sett Out) (keepStale : Bool) (s : State File Content Mod) (f : File) (c : Content) :
    State File Content Mod :=
  { disk := fun g => if g = f then c else s.disk g
    cache := fun g => if g = f then
        (match w.parse f c with
         | some m => some m
         | none => if keepStale then s.cache f else none)
      else s.cache g }

/-- a rebuild: output, and the files fetched on the way are cached when they parse -/
def rebuild (w : World File Content Mod Sett Out) (s : State File Content Mod) (σ : Sett) : State File Content Mod × Out :=
  let v := view w s
  ({ s with cache := fun g => if (w.touched σ v).contains g then v g else s.cache g }, w.extract σ v)

def step (w : World File Content Mod Sett Out) (keepStale : Bool) (s : State File Content Mod) :
    Op File Content Sett → State File Content Mod × Option Out
  | .update f c => (update w keepStale s f c, none)
  | .rebuild σ => let r := rebuild w s σ; (r.1, some r.2)

/-- run a history; the outputs of its rebuilds in order -/
def run (w : World File Content Mod Sett Out) (keepStale : Bool) : State File Content Mod → List (Op File Content Sett) →
    State File Content Mod × List Out
  | s, [] => (s, [])
  | s, op :: rest =>
    let (s', o) := step w keepStale s op
    let (s'', os) := run w keepStale s' rest
    (s'', match o with | some x => x :: os | none => os)

/-- the cache only holds what parsing the current content gives -/
def Inv (w : World File Content Mod Sett Out) (s : State File Content Mod) : Prop :=
  ∀ f m, s.cache f = some m → w.parse f (s.disk f) = some m

end BeffVerif.Session
