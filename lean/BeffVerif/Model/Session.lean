/-!
Layer W — the long-lived compiler session of watch mode (C14): packages/beff-wasm/src/lib.rs.
`BUNDLER.files` is a cache of parsed modules; `update_file_content_inner` re-parses one file; a rebuild runs the
compiler against `LazyFileManager`, which answers from the cache first and otherwise reads and parses the file,
caching it when it parses.

The compiler itself is a parameter: `extract σ view` is its output as a function of the settings `σ` of the build (the
registered custom formats) and of what the file manager answers
(`view f` = the parsed module of `f`, if any), `touched view` the files it asks for. That `beff_core::extract` is such a
function (deterministic, files only through the `FileManager`) is C10 plus the trait boundary; `parse` is
`parse_and_bind` with the host's resolver, whose answers depend on which files exist: a file may be created during a
session (its first update), never deleted.
-/
namespace BeffVerif.Session

structure World (File Content Mod Sett Out : Type) where
  /-- `parse_and_bind` with the host's resolver: the module of a file depends on its content AND on which files exist (an
  import is resolved only to a file that exists: reading S10) -/
  parse : (File → Bool) → File → Content → Option Mod
  /-- the compiler: a function of the SETTINGS of this build (custom formats) and of what the file manager answers -/
  extract : Sett → (File → Option Mod) → Out
  touched : Sett → (File → Option Mod) → List File

variable {File Content Mod Sett Out : Type} [DecidableEq File]

structure State (File Content Mod : Type) where
  cache : File → Option Mod
  /-- `none`: the file does not exist (yet) -/
  disk : File → Option Content

/-- which files exist -/
def existing (s : State File Content Mod) : File → Bool := fun f => (s.disk f).isSome

inductive Op (File Content Sett : Type) where
  | update (f : File) (c : Content)
  /-- `bundle_to_string(entry, settings)`: every rebuild names its settings -/
  | rebuild (σ : Sett)

def fresh (disk : File → Option Content) : State File Content Mod := ⟨fun _ => none, disk⟩

/-- `LazyFileManager::get_or_fetch_file`: cache first, else read + parse -/
def view (w : World File Content Mod Sett Out) (s : State File Content Mod) : File → Option Mod :=
  fun f => match s.cache f with
    | some m => some m
    | none => (s.disk f).bind (w.parse (existing s) f)

/-- `update_file_content_inner` (after fix D66): a content that does not parse drops the cached module.
`keepStale = true` is the behaviour before the fix (the entry is left alone). -/
def update (w : World File Content Mod Sett Out) (keepStale : Bool) (s : State File Content Mod) (f : File) (c : Content) :
    State File Content Mod :=
  let isNew := (s.disk f).isNone
  let disk' : File → Option Content := fun g => if g = f then some c else s.disk g
  { disk := disk'
    cache := fun g => if g = f then
        (match w.parse (fun h => (disk' h).isSome) f c with
         | some m => some m
         | none => if keepStale then s.cache f else none)
      -- a file that is NEW to the session changes what imports resolve to: every cached module is dropped (fix D94)
      else if isNew then none else s.cache g }

/-- a rebuild: output, and the files fetched on the way are cached when they parse -/
def rebuild (w : World File Content Mod Sett Out) (s : State File Content Mod) (σ : Sett) : State File Content Mod × Out :=
  let v := view w s
  ({ s with cache := fun g => if (w.touched σ v).contains g then v g else s.cache g }, w.extract σ v)

def step (w : World File Content Mod Sett Out) (keepStale : Bool) (s : State File Content Mod) :
    Op File Content Sett → State File Content Mod × Option Out
  | .update f c => (update w keepStale s f c, none)
  | .rebuild σ => let r := rebuild w s σ; (r.1, some r.2)

/-- run a history; the outputs of its rebuilds in order -/
def run (w : World File Content Mod Sett Out) (keepStale : Bool) : State File Content Mod → List (Op File Content Sett) →
    State File Content Mod × List Out
  | s, [] => (s, [])
  | s, op :: rest =>
    let (s', o) := step w keepStale s op
    let (s'', os) := run w keepStale s' rest
    (s'', match o with | some x => x :: os | none => os)

/-- the cache only holds what parsing the current content gives -/
def Inv (w : World File Content Mod Sett Out) (s : State File Content Mod) : Prop :=
  ∀ f m, s.cache f = some m → ∃ c, s.disk f = some c ∧ w.parse (existing s) f c = some m

end BeffVerif.Session
