import BeffVerif.Model.SemType
import BeffVerif.Model.TsCore
/-!
Layer S→R — semantically computed types on their way back to code generation (C07):
subtyping/to_schema.rs (`convert_to_schema`, `convert_to_schema_no_cache`, `mapping_to_schema`, `list_to_schema`,
`semtype_to_runtypes`), ast/runtype.rs `remove_nots_of_intersections_and_empty_of_union`, bdd.rs `keyof`,
`mapping_indexed_access`, `list_indexed_access`, and the frontend glue (frontend/mod.rs: `Exclude`,
`convert_keyof`, `do_indexed_access_on_types` with its syntactic shortcut, `semtype_to_runtype`).
Same fragment as layer S.
-/
namespace BeffVerif.Sem
open BeffVerif

structure Schemer where
  /-- `schemer_memo`: `none` = `SchemaMemo::Undefined(name)` -/
  memo : List (SemType × String × Option IR) := []
  validators : List (String × IR) := []
  recursive : List String := []
  counter : Nat := 0
  deriving Inhabited

/-- state of a materialisation: the schemer tables, and the SemType context (its memo tables are written by the
emptiness checks that prune empty clauses) -/
abbrev TM (α : Type) := Ctx → Schemer → Option (α × Ctx × Schemer)

instance : Monad TM where
  pure a := fun c s => some (a, c, s)
  bind m f := fun c s => match m c s with
    | some (a, c', s') => f a c' s'
    | none => none

def TM.fail {α : Type} : TM α := fun _ _ => none
def TM.ctx : TM Ctx := fun c s => some (c, c, s)
def TM.get : TM Schemer := fun c s => some (s, c, s)
def TM.modify (f : Schemer → Schemer) : TM Unit := fun c s => some ((), c, f s)
def TM.liftSM {α : Type} (m : SM α) : TM α := fun c s => match m c with
  | some (a, c') => some (a, c', s)
  | none => none
def TM.liftOpt {α : Type} : Option α → TM α
  | some a => pure a
  | none => TM.fail

/-- `Runtype::any_object()` -/
def anyObject : IR := .object [] (some (.anyOf [.number, .string], true, .any))

def isAny (t : SemType) : Bool := t == unknown

mutual
/-- `convert_to_schema` (memo + naming of recursive helper types) -/
def toSchema : Nat → SemType → Option String → TM IR
  | 0, _, _ => TM.fail
  | n+1, ty, name => do
    let s ← TM.get
    let newName ← match name with
      | some nm => pure nm
      | none => do
        TM.modify fun s => { s with counter := s.counter + 1 }
        pure ("RecursiveGenerated" ++ toString (s.counter + 1))
    match s.memo.find? (fun e => e.1 == ty) with
    | some (_, _, some schema) => pure schema
    | some (_, refName, none) => do
      TM.modify fun s => { s with recursive := if s.recursive.contains refName then s.recursive else s.recursive ++ [refName] }
      pure (.ref refName)
    | none => do
      TM.modify fun s => { s with memo := s.memo ++ [(ty, newName, none)] }
      let schema ← toSchemaNoCache n ty
      TM.modify fun s => { s with
        memo := s.memo.map (fun e => if e.1 == ty then (ty, e.2.1, some schema) else e)
        validators := s.validators ++ [(newName, schema)] }
      pure schema

/-- `convert_to_schema_no_cache` (after fix D2: a literal set with exclusions is the base type) -/
def toSchemaNoCache : Nat → SemType → TM IR
  | 0, _ => TM.fail
  | n+1, ty =>
    if ty.isNever then pure .never
    else do
      -- `SubTypeTag::all()` order: String, Boolean, Number, OptionalProp, Null, Mapping, List
      let allBits : List IR :=
        (if ty.str == .all then [IR.string] else []) ++ (if ty.bool == .all then [IR.boolean] else []) ++
        (if ty.num == .all then [IR.number] else []) ++ (if ty.opt then [IR.undefined] else []) ++
        (if ty.null then [IR.null] else []) ++ (if ty.mapping == .all then [anyObject] else []) ++
        (if ty.list == .all then [IR.anyArrayLike] else []) ++ (if ty.vu == .all then [IR.undefined] else []) ++
        -- the tags the port keeps as one bit (they only ever come from `unknown` / `any`): BigInt, Date, every
        -- typed array kind, Map<any, any>, Set<any>
        (if ty.other then
          [IR.bigint, IR.date] ++
          (["Uint8Array", "Uint8ClampedArray", "Uint16Array", "Uint32Array", "Int8Array", "Int16Array", "Int32Array",
            "Float32Array", "Float64Array", "BigInt64Array", "BigUint64Array"].map IR.typedArray) ++
          [IR.map .any .any, IR.set .any]
         else [])
      let bools : List IR := match ty.bool with | .some b => [.const (.bool b)] | _ => []
      let nums : List IR := match ty.num with
        | .some ⟨true, vs⟩ => vs.map fun c => .const (.num c)
        | .some ⟨false, _⟩ => [.number]
        | _ => []
      let strs : List IR := match ty.str with
        | .some ⟨true, vs⟩ => vs.map fun s => .tpl [.lit s]
        | .some ⟨false, _⟩ => [.string]
        | _ => []
      let vus : List IR := match ty.vu with
        | .some ⟨true, vs⟩ => vs.map fun _ => IR.undefined
        | .some ⟨false, _⟩ => []
        | _ => []
      let maps ← match ty.mapping with
        | .some b => do pure [← mappingToSchema n b]
        | _ => pure []
      let lists ← match ty.list with
        | .some b => do pure [← listToSchema n b]
        | _ => pure []
      pure (IR.anyOf' (allBits ++ bools ++ nums ++ strs ++ maps ++ lists ++ vus))

def mappingToSchema : Nat → Bdd → TM IR
  | 0, _ => TM.fail
  | n+1, b => do
    let clauses ← (Dnf.ofBdd b).filterMapM fun conj => do
      -- a clause that denotes nothing is dropped on the semantic side
      let cb ← TM.liftOpt (Dnf.toBdd fuelB [conj])
      if ← TM.liftSM (mappingIsEmpty 300 cb) then pure none
      else do
        let pos ← conj.pos.mapM fun a => mappingAtomSchema n a.idx
        let neg ← conj.neg.mapM fun a => do pure (IR.stNot (← mappingAtomSchema n a.idx))
        pure (some (IR.allOf' (pos ++ neg)))
    pure (IR.anyOf' clauses)

def mappingAtomSchema : Nat → Nat → TM IR
  | 0, _ => TM.fail
  | n+1, idx => do
    let c ← TM.ctx
    match c.mappings[idx]? with
    | some (some mt) => do
      let vs ← mt.vs.mapM fun (k, v) => do
        let schema ← toSchema n v none
        pure (k, !v.opt, schema)                          -- `has_optional` ⇒ Optionality::Optional
      let ix ← match mt.index with
        | some v => do
          let schema ← toSchema n v none
          pure (some (IR.string, !v.opt, schema))
        | none => pure none
      pure (.object (IR.vsOfList vs) ix)
    | _ => TM.fail

def listToSchema : Nat → Bdd → TM IR
  | 0, _ => TM.fail
  | n+1, b => do
    let clauses ← (Dnf.ofBdd b).filterMapM fun conj => do
      let cb ← TM.liftOpt (Dnf.toBdd fuelB [conj])
      if ← TM.liftSM (listIsEmpty 300 cb) then pure none
      else do
        let pos ← conj.pos.mapM fun a => listAtomSchema n a.idx
        let neg ← conj.neg.mapM fun a => do pure (IR.stNot (← listAtomSchema n a.idx))
        pure (some (IR.allOf' (pos ++ neg)))
    pure (IR.anyOf' clauses)

def listAtomSchema : Nat → Nat → TM IR
  | 0, _ => TM.fail
  | n+1, idx => do
    let c ← TM.ctx
    match c.lists[idx]? with
    | some (some lt) =>
      if lt.pre.isEmpty then
        if isAny lt.items then pure .anyArrayLike
        else do pure (.array (← toSchema n lt.items none))
      else do
        let pre ← lt.pre.mapM fun t => toSchema n t none
        let items ← if lt.items.isNever then pure none else do pure (some (← toSchema n lt.items none))
        pure (.tuple pre items)
    | _ => TM.fail
end

/-- `semtype_to_runtypes` + the frontend's `semtype_to_runtype`: the head schema and the helper definitions that
are referred to recursively (each defined once, under a fresh `RecursiveGenerated<n>` name) -/
def semtypeToRuntype (fuel : Nat) (ty : SemType) (counter : Nat) : SM (IR × List (String × IR) × Nat) := fun c =>
  match isEmpty fuel ty c with
  | none => none
  | some (true, c') => some ((.never, [], counter), c')
  | some (false, c') =>
    -- fix D72: the result gets a fresh generated name; when it refers to itself its definition is kept
    let headName := "RecursiveGenerated" ++ toString (counter + 1)
    match toSchema fuel ty (some headName) c' { counter := counter + 1 } with
    | none => none
    | some (head, c'', s) =>
      let tail := s.validators.filter fun v => s.recursive.contains v.1
      some ((if s.recursive.contains headName then .ref headName else head, tail, s.counter), c'')

-- ---------- remove_nots_of_intersections_and_empty_of_union ----------
def isNot : IR → Bool
  | .stNot _ => true
  | _ => false

/-- `to_sem_type(...)` then `is_empty`; a conversion error means "not known to be empty" (the context keeps what the
failed conversion added to it, as in the Rust code) -/
def tryEmpty (named : Named) (t : IR) : SM Bool := fun c =>
  match convert named 100 [] t c with
  | some (sem, c') => isEmpty 300 sem c'
  | none => some (false, c)

mutual
def removeNots (named : Named) : Nat → IR → SM IR
  | 0, _ => SM.fail
  | n+1, t =>
    match t with
    | .allOf vs => do
      -- fix D73: a member that cannot be converted back is not known to be empty
      let empty ← tryEmpty named (.allOf vs)
      if empty then pure .never
      else do
        -- (negations are dropped before the members are rewritten: a negation rewritten on its own becomes `any`)
        let vs' ← removeNotsL named n (vs.filter fun x => !isNot x)
        pure (IR.allOf' (vs'.filter fun x => !isNot x))
    | .anyOf vs => do
      let kept ← vs.filterMapM fun v => do
        if ← tryEmpty named v then pure none else pure (some v)
      let vs' ← removeNotsL named n kept
      pure (IR.anyOf' vs')
    -- fix D102: a negation outside an intersection is what remains of `unknown & not X`: dropped, that is `unknown`
    | .stNot _ => pure .any
    | other => pure other
def removeNotsL (named : Named) : Nat → List IR → SM (List IR)
  | 0, _ => SM.fail
  | _+1, [] => pure []
  | n+1, t :: ts => do
    let x ← removeNots named n t
    let xs ← removeNotsL named n ts
    pure (x :: xs)
end

-- ---------- keyof ----------
/-- `keyof` on a type vector (bdd.rs) -/
def keyofSem (t : SemType) : SM SemType := do
  let scalarBits := t.bool == .all || t.num == .all || t.str == .all || t.null || t.opt || t.vu == .all || t.other
  -- every "all" tag other than the container tags contributes `never`
  let acc0 : Option SemType := if scalarBits then some never else none
  let meet (acc : Option SemType) (x : SemType) : SM (Option SemType) := match acc with
    | some p => do pure (some (← SM.lift (inter p x)))
    | none => pure (some x)
  -- subtype_data in tag-code order: Boolean, Number, String, Mapping, List
  let acc1 ← if (match t.bool with | .some _ => true | _ => false) then meet acc0 never else pure acc0
  let acc2 ← if (match t.num with | .some _ => true | _ => false) then meet acc1 never else pure acc1
  let acc3 ← if (match t.str with | .some _ => true | _ => false) then meet acc2 never else pure acc2
  let acc4 ← match t.mapping with
    | .some b => do
      let perConj ← (Dnf.ofBdd b).mapM fun conj => do
        conj.pos.foldlM (fun (keys : SemType) a => do
          let m ← getMapping a.idx
          let lits := m.vs.map (·.1)
          let ks : SemType := { never with str := mkLit true lits }
          let ks ← match m.index with
            | some _ => SM.lift (union ks { never with str := .all })       -- the index key type is `string`
            | none => pure ks
          SM.lift (union keys ks)) never
      let folded ← perConj.foldlM (fun (acc : Option SemType) k => meet acc k) none
      meet acc3 (folded.getD never)
    | _ => pure acc3
  let acc5 ← match t.list with
    | .some _ => meet acc4 { never with num := .all }
    | _ => pure acc4
  let acc6 ← if (match t.vu with | .some _ => true | _ => false) then meet acc5 never else pure acc5
  pure (acc6.getD never)

-- ---------- indexed access ----------
inductive StrKey where
  | lits (allowed : Bool) (values : List String)
  | all

def mappingMemberType (m : MappingAtomic) : StrKey → Option SemType
  | .lits false _ => some never
  | .lits true values =>
    let found := m.vs.filter fun p => values.contains p.1
    -- fix D71: the index signature applies when some requested key is not a declared property
    let allDeclared := values.all fun l => m.vs.any fun p => p.1 == l
    let members := found.map (·.2) ++ (if !allDeclared then (match m.index with | some v => [v] | none => []) else [])
    members.foldlM union never
  | .all => (m.vs.map (·.2) ++ (match m.index with | some v => [v] | none => [])).foldlM union never

/-- `bdd_mapping_member_type_inner` -/
def bddMappingMember (c : Ctx) : Nat → Bdd → StrKey → SemType → Option SemType
  | 0, _, _, _ => none
  | _+1, .tt, _, accum => some accum
  | _+1, .ff, _, _ => some never
  | n+1, .node a l m r, key, accum => do
    let at' ← (c.mappings[a.idx]?).bind id
    let mt ← mappingMemberType at' key
    let a1 ← inter mt accum
    let ra ← bddMappingMember c n l key a1
    let rb ← bddMappingMember c n m key accum
    let rc ← bddMappingMember c n r key accum
    union ra (← union rb rc)

inductive NumKey where
  | lits (allowed : Bool) (values : List String)
  | all

/-- integer value of a canonical number text (`to_f64() as i64` for the non-negative integers used as indices) -/
def natOfCanon (s : String) : Option Nat :=
  s.toList.foldl (fun acc ch => match acc with
    | none => none
    | some n => if ch.isDigit then some (n * 10 + (ch.toNat - 48)) else none) (some 0)

def numContains (allowed : Bool) (values : List String) (i : Nat) : Bool :=
  let hit := values.any fun v => natOfCanon v == some i
  if allowed then hit else !hit

def numMax (allowed : Bool) (values : List String) : Int :=
  if !allowed then -1 else values.foldl (fun (m : Int) v => match natOfCanon v with
    | some n => if (n : Int) > m then (n : Int) else m
    | none => m) (-1)

def listMemberType (lt : ListAtomic) : NumKey → Option SemType
  | .lits allowed values => do
    let fromPre ← (lt.pre.zipIdx).foldlM (fun (m : SemType) (v, i) =>
      if numContains allowed values i then union m v else some m) never
    let m ← if lt.pre.length == 0 || numMax allowed values > (lt.pre.length : Int) - 1 then union fromPre lt.items else some fromPre
    diff m optionalProp
  | .all => do
    let m ← lt.pre.foldlM union lt.items
    diff m optionalProp

def bddListMember (c : Ctx) : Nat → Bdd → NumKey → SemType → Option SemType
  | 0, _, _, _ => none
  | _+1, .tt, _, accum => some accum
  | _+1, .ff, _, _ => some never
  | n+1, .node a l m r, key, accum => do
    let at' ← (c.lists[a.idx]?).bind id
    let mt ← listMemberType at' key
    let a1 ← inter mt accum
    let ra ← bddListMember c n l key a1
    let rb ← bddListMember c n m key accum
    let rc ← bddListMember c n r key accum
    union ra (← union rb rc)

/-- `SemTypeContext::indexed_access` -/
def indexedAccess (obj idx : SemType) : SM SemType := fun c => do
  let listRes ← match idx.num with
    | .none => some never
    | k =>
      let key : NumKey := match k with | .some ⟨a, vs⟩ => .lits a vs | _ => .all
      match obj.list with
      | .none => some never
      | .all => none                                       -- bail!("not a list - true")
      | .some b => bddListMember c 200 b key unknown
  let mapRes ← match obj.mapping with
    | .none => some never
    | .all => none
    | .some b =>
      match idx.str with
      | .none => none                                      -- record-keyed access: outside the fragment
      | .all => bddMappingMember c 200 b .all unknown
      | .some ⟨a, vs⟩ => bddMappingMember c 200 b (.lits a vs) unknown
  let acc ← union listRes mapRes
  -- `is_subtype_of_number` / `is_subtype_of_string` (semtype.rs:269-289; misnomers): the tag is there as a whole, or no
  -- tag is there as a whole (`all == 0`) and the tag has a proper part
  let noWhole (t : SemType) : Bool :=
    t.bool != .all && t.num != .all && t.str != .all && !t.null && !t.opt && t.mapping != .all && t.list != .all && t.vu != .all && !t.other
  let isNumSub := idx.num == .all || (noWhole idx && idx.num != .none)
  let isStrSub := obj.str == .all || (noWhole obj && obj.str != .none)
  let acc ← if isNumSub && isStrSub then union acc { never with str := .all } else some acc
  some (acc, c)

-- ---------- frontend glue ----------
inductive SemExpr where
  | exclude (a b : Ty)
  | keyof (a : Ty)
  | idx (a k : Ty)

/-- `convert_indexed_access_syntatically` -/
def idxSyntactic (named : Named) : Nat → IR → IR → Option (Option IR)
  | 0, _, _ => none
  | n+1, obj, index =>
    match obj with
    | .ref r => match named.find? (·.1 == r) with
      | some (_, v) => idxSyntactic named n v index
      | none => some none
    | .object vs ix =>
      match IR.singleStringConst index, (match IR.singleStringConst index with | some s => IR.vsGet vs s | none => none) with
      | some _, some (true, v) => some (some v)
      | _, _ =>
        let u := IR.extractUnion named 50 index
        let rec go : List IR → List IR → Option (Option IR)
          | [], acc => some (some (IR.anyOf' acc))
          | key :: rest, acc => match IR.singleStringConst key with
            | some s => match IR.vsGet vs s with
              | some (false, o) => go rest (acc ++ [IR.anyOf' [o, .null]])
              | some (true, r) => go rest (acc ++ [r])
              -- an undeclared key under an index signature: resolved semantically (since fix D93)
              | none => if ix.isSome then some none else go rest acc
            | none => some none
        go u []
    | _ => some none

structure SemResult where
  schema : IR
  named : Named

/-- the compiler model on one semantic operator: lower the operands with the compiler model, apply the operator as the
frontend does, hand the materialised type and every helper definition to the printer -/
def evalSemExpr (decls : List Decl) (e : SemExpr) : Option (Option SemResult) :=
  let lowerTwo (a b : Ty) : Option (Option (IR × IR × Lower.Defs)) :=
    match Lower.lower decls 200 [] [] a with
    | .ok ia defs => (match Lower.lower decls 200 [] defs b with
      | .ok ib defs' => some (some (ia, ib, defs'))
      | .diag _ _ => some none
      | .nofuel => none)
    | .diag _ _ => some none
    | .nofuel => none
  let finish (named : Named) (r : Option ((IR × List (String × IR) × Nat) × Ctx)) (post : Named → IR → SM IR) :
      Option (Option SemResult) :=
    match r with
    | none => some none                                    -- an error of the engine is a diagnostic
    | some ((head, tail, _), c) =>
      match post (named ++ tail) head c with
      | none => some none
      | some (schema, _) => some (some ⟨schema, named ++ tail⟩)
  match e with
  | .exclude a b =>
    (match lowerTwo a b with
    | none => none
    | some none => some none
    | some (some (ia, ib, defs)) =>
      let named := Lower.namedOf defs
      let run : SM (IR × List (String × IR) × Nat) := do
        let sa ← convert named 100 [] ia
        let sb ← convert named 100 [] ib
        let d ← SM.lift (diff sa sb)
        semtypeToRuntype 300 d 0
      finish named (run {}) (fun named' head => removeNots named' 50 head))
  | .keyof a =>
    (match Lower.lower decls 200 [] [] a with
    | .nofuel => none
    | .diag _ _ => some none
    | .ok ia defs =>
      let named := Lower.namedOf defs
      match Lower.extractObject defs 50 ia with
      | some vs => some (some ⟨IR.anyOf' (vs.map fun p => .tpl [.lit p.1]), named⟩)
      | none =>
        let run : SM (IR × List (String × IR) × Nat) := do
          let sa ← convert named 100 [] ia
          let k ← keyofSem sa
          semtypeToRuntype 300 k 0
        finish named (run {}) (fun _ h => pure h))
  | .idx a k =>
    (match lowerTwo a k with
    | none => none
    | some none => some none
    | some (some (ia, ik, defs)) =>
      let named := Lower.namedOf defs
      match idxSyntactic named 50 ia ik with
      | none => none
      | some (some r) => some (some ⟨r, named⟩)
      | some none =>
        let run : SM (IR × List (String × IR) × Nat) := do
          let sa ← convert named 100 [] ia
          let sk ← convert named 100 [] ik
          let r ← indexedAccess sa sk
          semtypeToRuntype 300 r 0
        finish named (run {}) (fun _ h => pure h))

end BeffVerif.Sem
