import BeffVerif.Model.Report
/-!
The 32-bit `hash()` of every `*Runtype` class (codegen-v2.ts) and hash.ts `generateHashFromString/Numbers`.
-/
namespace BeffVerif
namespace RT
open JsVal

/-- ToInt32 -/
def toInt32 (x : Int) : Int :=
  let m := x % 4294967296
  if m ≥ 2147483648 then m - 4294967296 else m

/-- UTF-16 code units of a string -/
def utf16 (s : String) : List Nat :=
  s.toList.flatMap fun c =>
    let n := c.toNat
    if n < 0x10000 then [n] else [0xD800 + (n - 0x10000) / 0x400, 0xDC00 + (n - 0x10000) % 0x400]

/-- `generateHashFromString` -/
def hashString (s : String) : Int :=
  (utf16 s).foldl (fun (h : Int) (c : Nat) => toInt32 (toInt32 (h * 32) - h + (c : Int))) 0

/-- `generateHashFromNumbers` (all values are integers here) -/
def hashNumbers (xs : List Int) : Int := xs.foldl (fun h v => toInt32 (h * 31 + v)) 0

/-- integer part (toward zero) of a canonical decimal literal; `none` for exponent forms / NaN / Infinity -/
def truncCanon (c : String) : Option Int :=
  let body := if c.startsWith "-" then (c.drop 1).toString else c
  match body.splitOn "." with
  | [i] => if !i.isEmpty && i.toList.all Char.isDigit then (if c.startsWith "-" then some (-(i.toNat?.getD 0 : Int)) else some (i.toNat?.getD 0)) else none
  | [i, f] => if !i.isEmpty && i.toList.all Char.isDigit && f.toList.all Char.isDigit then
      (if c.startsWith "-" then some (-(i.toNat?.getD 0 : Int)) else some (i.toNat?.getD 0)) else none
  | _ => none

def constHash : JsVal → Option Int
  | .null => some (hashString "null")
  | .undef => some (hashString "null")
  | .str s => some (hashString s)
  | .bool b => some (hashString (if b then "true" else "false"))
  | .num c => (truncCanon c).map (fun t => hashNumbers [t])
  | _ => none

/-- `String(v)` used by the default `Array.prototype.sort` -/
def sortKeyOfConst : JsVal → String
  | .str s => s
  | .num c => if c == "-0" then "0" else c
  | .bool b => if b then "true" else "false"
  | _ => "null"

def mapMO {α β : Type} (f : α → Option β) : List α → Option (List β)
  | [] => some []
  | x :: xs => match f x, mapMO f xs with
    | some y, some ys => some (y :: ys)
    | _, _ => none

/-- `hash(ctx)`; `none` = unmodelled numeric literal or fuel -/
def hash (env : Env) : Nat → RT → List String → Option Int
  | 0, _, _ => none
  | n+1, rt, seen =>
    let h (t : RT) := hash env n t seen
    match rt with
    | .typeof "string" => some (hashString "string")
    | .typeof "number" => some (hashString "number")
    | .typeof "boolean" => some (hashString "boolean")
    | .typeof _ => none
    | .any => some (hashString "unknown")
    | .nullish _ => some (hashString "null")
    | .never => some (hashString "undefined")
    | .const v => constHash v
    | .regex _ d => some (hashString d)
    | .date => some (hashString "date")
    | .bigint => some (hashString "bigint")
    | .typed c => some (hashString c.toLower)
    | .strfmt fs => some (hashNumbers (hashString "StringWithFormat" :: (sortStrings fs).map hashString))
    | .numfmt fs => some (hashNumbers (hashString "NumberWithFormat" :: (sortStrings fs).map hashString))
    | .consts vs =>
      (mapMO constHash (sortBy (fun a b => strLe (sortKeyOfConst a) (sortKeyOfConst b)) vs)).map
        fun hs => hashNumbers (hashString "AnyOfConsts" :: hs)
    | .tuple pre rest =>
      match mapMO h pre, (match rest with | some r => h r | none => some 0) with
      | some ps, some r => some (hashNumbers (hashString "Tuple" :: ps ++ [r]))
      | _, _ => none
    | .allOf ts => (mapMO h ts).map fun hs => hashNumbers (hashString "AllOf" :: hs)
    | .anyOf ts => (mapMO h ts).map fun hs => hashNumbers (hashString "AnyOf" :: hs)
    | .disc schemas _ _ _ => (mapMO h schemas).map fun hs => hashNumbers (hashString "AnyOf" :: hs)
    | .array t => (h t).map fun x => hashNumbers [hashString "array", x]
    | .map k v => match h k, h v with
      | some a, some b => some (hashNumbers [hashString "Map", a, b])
      | _, _ => none
    | .set t => (h t).map fun x => hashNumbers [hashString "Set", x]
    | .optional t => (h t).map fun x => hashNumbers [hashString "OptionalField", x]
    | .object props ix =>
      let sorted := sortBy (fun (a b : String × RT) => strLe a.1 b.1) props
      match mapMO (fun (p : String × RT) => (h p.2).map fun x => [hashString p.1, x]) sorted,
            mapMO (fun (p : RT × RT) => match h p.1, h p.2 with | some a, some b => some [a, b] | _, _ => none) ix with
      | some ps, some is => some (hashNumbers (hashString "object" :: ps.flatten ++ is.flatten))
      | _, _ => none
    | .ref name =>
      match env.lookup name with
      | some t =>
        (match stripDesc t with
          -- an alias of another named type is transparent: a back reference names the type, not the alias
          | .ref _ => hash env n t seen
          | _ => if seen.contains name then some (hashString name) else hash env n t (name :: seen))
      | none => if seen.contains name then some (hashString name) else none
    | .described _ t => h t

end RT
end BeffVerif
