import BeffVerif.Model.Validate
/-!
Layer I/P — the Runtype IR (ast/runtype.rs `RuntypeKind`), its smart constructors `any_of` / `all_of`
(runtype.rs:439-581) and the printer IR → runtime classes (print/printer.rs:431-1069: `extract_union`,
`maybe_runtype_any_of_consts`, `maybe_runtype_any_of_discriminated`, `extract_object_shape`, `narrower_schema`,
`print_runtype`). Hoisting is sharing and is erased; `BTreeSet` order is replaced by list order (acceptance does
not depend on member order — see `Props/C08`), `BTreeMap` property order is kept (sorted insertion).
-/
namespace BeffVerif

inductive IR where
  | null | undefined | void | boolean | string | number | any | anyArrayLike | never | function | date | bigint
  | strFmt (fs : List String)
  | numFmt (fs : List String)
  | tpl (items : Tpl)
  | const (c : JsVal)               -- Bool or Number
  | object (vs : List (String × Bool × IR)) (indexed : Option (IR × Bool × IR))   -- Bool = required
  | array (t : IR)
  | tuple (pre : List IR) (rest : Option IR)
  | ref (name : String)
  | anyOf (ts : List IR)
  | allOf (ts : List IR)
  | typedArray (k : String)
  | map (k v : IR)
  | set (v : IR)
  | stNot (t : IR)
  deriving Repr, Inhabited

abbrev Named := List (String × IR)

namespace IR

mutual
def tplKey : TplItem → String
  | .string => "S" | .number => "N" | .boolean => "B"
  | .lit s => "L" ++ toString s.length ++ ":" ++ s
  | .oneOf alts => "O(" ++ tplKeyL alts ++ ")"
def tplKeyL : List TplItem → String
  | [] => ""
  | a :: as => tplKey a ++ "," ++ tplKeyL as
end

def constKey : JsVal → String
  | .bool b => if b then "true" else "false"
  | .num c => "#" ++ c
  | .str s => "\"" ++ s
  | _ => "?"

mutual
/-- an injective textual key of an IR term: stands for the derived `Eq`/`Ord` of `Runtype` (metadata is not
part of the term, exactly as `Runtype::eq` ignores it) -/
def key : IR → String
  | .null => "null" | .undefined => "undefined" | .void => "void" | .boolean => "boolean" | .string => "string"
  | .number => "number" | .any => "any" | .anyArrayLike => "anyArrayLike" | .never => "never"
  | .function => "function" | .date => "date" | .bigint => "bigint"
  | .strFmt fs => "strFmt(" ++ ",".intercalate fs ++ ")"
  | .numFmt fs => "numFmt(" ++ ",".intercalate fs ++ ")"
  | .tpl items => "tpl(" ++ tplKeyL items ++ ")"
  | .const c => "const(" ++ constKey c ++ ")"
  | .object vs ix => "obj{" ++ keyVs vs ++ "}[" ++ keyIx ix ++ "]"
  | .array t => "array(" ++ key t ++ ")"
  | .tuple pre rest => "tuple(" ++ keyL pre ++ ";" ++ keyO rest ++ ")"
  | .ref n => "ref(" ++ n ++ ")"
  | .anyOf ts => "anyOf(" ++ keyL ts ++ ")"
  | .allOf ts => "allOf(" ++ keyL ts ++ ")"
  | .typedArray k => "typed(" ++ k ++ ")"
  | .map k v => "map(" ++ key k ++ "," ++ key v ++ ")"
  | .set v => "set(" ++ key v ++ ")"
  | .stNot t => "not(" ++ key t ++ ")"
def keyL : List IR → String
  | [] => ""
  | t :: ts => key t ++ "," ++ keyL ts
def keyO : Option IR → String
  | none => "-"
  | some t => key t
def keyVs : List (String × Bool × IR) → String
  | [] => ""
  | (k, r, t) :: vs => toString k.length ++ ":" ++ k ++ (if r then "!" else "?") ++ key t ++ ";" ++ keyVs vs
def keyIx : Option (IR × Bool × IR) → String
  | none => "-"
  | some (k, r, v) => key k ++ (if r then "!" else "?") ++ key v
end

def beq (a b : IR) : Bool := key a == key b

def dedup : List IR → List IR
  | [] => []
  | t :: ts => if ts.any (beq t) then dedup ts else t :: dedup ts


/-! ### the derived `Ord` of `Runtype` (runtype.rs: `#[derive(PartialOrd, Ord)]` on `RuntypeKind`) -/

def variantIdx : IR → Nat
  | .null => 0 | .undefined => 1 | .void => 2 | .boolean => 3 | .string => 4 | .number => 5 | .any => 6
  | .anyArrayLike => 7 | .strFmt _ => 8 | .numFmt _ => 9 | .tpl _ => 10 | .object _ _ => 11 | .array _ => 12
  | .tuple _ _ => 13 | .ref _ => 14 | .anyOf _ => 15 | .allOf _ => 16 | .const _ => 17 | .never => 18
  | .stNot _ => 19 | .function => 20 | .date => 21 | .bigint => 22 | .typedArray _ => 23 | .map _ _ => 24
  | .set _ => 25

def thenCmp (a : Ordering) (b : Ordering) : Ordering := match a with | .eq => b | o => o

def cmpStr (a b : String) : Ordering := if a < b then .lt else if a == b then .eq else .gt

def cmpStrL : List String → List String → Ordering
  | [], [] => .eq
  | [], _ => .lt
  | _, [] => .gt
  | a :: as, b :: bs => thenCmp (cmpStr a b) (cmpStrL as bs)

mutual
def tplIdx : TplItem → Nat
  | .string => 0 | .number => 1 | .boolean => 2 | .lit _ => 3 | .oneOf _ => 4
def cmpTpl : TplItem → TplItem → Ordering
  | .lit a, .lit b => cmpStr a b
  | .oneOf a, .oneOf b => cmpTplL a b
  | a, b => compare (tplIdx a) (tplIdx b)
def cmpTplL : List TplItem → List TplItem → Ordering
  | [], [] => .eq
  | [], _ => .lt
  | _, [] => .gt
  | a :: as, b :: bs => thenCmp (cmpTpl a b) (cmpTplL as bs)
end

/-- sign, digits and decimal exponent of a canonical decimal literal (`-2.5`, `1e+21`, `1.5e-7`): value = ±digits·10^exp -/
def parseDec (c : String) : Bool × Nat × Int :=
  let neg := c.startsWith "-"
  let body := if neg then String.ofList (c.toList.drop 1) else c
  let (mant, ex) : String × Int := match body.splitOn "e" with
    | [m, e] => (m, (e.replace "+" "").toInt?.getD 0)
    | _ => (body, 0)
  match mant.splitOn "." with
  | [i, f] => (neg, (i ++ f).toNat?.getD 0, ex - (f.length : Int))
  | _ => (neg, mant.toNat?.getD 0, ex)

/-- `N { integral, fractional, exact_bits }` of a canonical decimal literal: the integral part saturates at the ends of
i64, the fraction is its first nine decimals, and the third component stands for the bit pattern (kept only when the first
two do not determine the number; bit patterns order by sign first, then by magnitude) -/
def numParts (c : String) : Int × Option Int × Option (Bool × Nat × Int) :=
  let (neg, d, e) := parseDec c
  let p := 10 ^ (-e).toNat
  let ip : Nat := if e ≥ 0 then d * 10 ^ e.toNat else d / p
  let isInt : Bool := e ≥ 0 || d % p == 0
  let frac9 : Nat := if e ≥ 0 then 0 else (d % p) * 1000000000 / p
  let sat : Nat := if ip > 9223372036854775807 then (if neg then 9223372036854775808 else 9223372036854775807) else ip
  let integral : Int := if neg then -(sat : Int) else sat
  let huge : Bool := ip ≥ 9223372036854775000
  (integral, (if isInt then none else some (if neg then -(frac9 : Int) else frac9)),
    (if isInt && !huge then none else some (neg, d, e)))

/-- magnitudes `d·10^e` compared exactly -/
def cmpMag (a b : Nat × Int) : Ordering :=
  let e := min a.2 b.2
  compare (a.1 * 10 ^ (a.2 - e).toNat) (b.1 * 10 ^ (b.2 - e).toNat)

def cmpConst : JsVal → JsVal → Ordering
  | .bool a, .bool b => compare a.toNat b.toNat
  | .bool _, _ => .lt
  | _, .bool _ => .gt
  | .num a, .num b =>
    let (ia, fa, xa) := numParts a
    let (ib, fb, xb) := numParts b
    thenCmp (compare ia ib) (thenCmp (match fa, fb with
      | none, none => .eq | none, some _ => .lt | some _, none => .gt | some x, some y => compare x y)
      (match xa, xb with
      | none, none => .eq | none, some _ => .lt | some _, none => .gt
      | some x, some y => thenCmp (compare x.1.toNat y.1.toNat) (cmpMag x.2 y.2)))
  | _, _ => .eq

def typedIdx (k : String) : Nat :=
  (["Uint8Array", "Uint8ClampedArray", "Uint16Array", "Uint32Array", "Int8Array", "Int16Array", "Int32Array",
    "Float32Array", "Float64Array", "BigInt64Array", "BigUint64Array"].idxOf? k).getD 99

mutual
def cmp : IR → IR → Ordering
  | .strFmt a, .strFmt b => cmpStrL a b
  | .numFmt a, .numFmt b => cmpStrL a b
  | .tpl a, .tpl b => cmpTplL a b
  | .object va ia, .object vb ib => thenCmp (cmpVs va vb) (cmpIx ia ib)
  | .array a, .array b => cmp a b
  | .tuple pa ra, .tuple pb rb => thenCmp (cmpL pa pb) (cmpO ra rb)
  | .ref a, .ref b => cmpStr a b
  | .anyOf a, .anyOf b => cmpL a b
  | .allOf a, .allOf b => cmpL a b
  | .const a, .const b => cmpConst a b
  | .stNot a, .stNot b => cmp a b
  | .typedArray a, .typedArray b => compare (typedIdx a) (typedIdx b)
  | .map ka va, .map kb vb => thenCmp (cmp ka kb) (cmp va vb)
  | .set a, .set b => cmp a b
  | a, b => compare (variantIdx a) (variantIdx b)
def cmpL : List IR → List IR → Ordering
  | [], [] => .eq
  | [], _ => .lt
  | _, [] => .gt
  | a :: as, b :: bs => thenCmp (cmp a b) (cmpL as bs)
def cmpO : Option IR → Option IR → Ordering
  | none, none => .eq
  | none, some _ => .lt
  | some _, none => .gt
  | some a, some b => cmp a b
def cmpVs : List (String × Bool × IR) → List (String × Bool × IR) → Ordering
  | [], [] => .eq
  | [], _ => .lt
  | _, [] => .gt
  | (ka, ra, ta) :: as, (kb, rb, tb) :: bs =>
    -- (key, Optionality): Optional < Required
    thenCmp (thenCmp (cmpStr ka kb) (thenCmp (compare ra.toNat rb.toNat) (cmp ta tb))) (cmpVs as bs)
def cmpIx : Option (IR × Bool × IR) → Option (IR × Bool × IR) → Ordering
  | none, none => .eq
  | none, some _ => .lt
  | some _, none => .gt
  | some (ka, ra, va), some (kb, rb, vb) => thenCmp (cmp ka kb) (thenCmp (compare ra.toNat rb.toNat) (cmp va vb))
end

/-- `BTreeSet<Runtype>`: sorted by the derived order, duplicates removed -/
def setOf (ts : List IR) : List IR :=
  JsVal.sortBy (fun a b => cmp a b != .gt) (dedup ts)

def debugTplItem : Nat → TplItem → String
  | 0, _ => ""
  | _+1, .string => "${string}"
  | _+1, .number => "${number}"
  | _+1, .boolean => "${boolean}"
  | _+1, .lit v => v
  | n+1, .oneOf vs => "(" ++ " | ".intercalate (vs.map fun v => match v with
      | .lit s => "\"" ++ s ++ "\""
      | other => "`" ++ debugTplItem n other ++ "`") ++ ")"

def debugNum (c : String) : String := c

mutual
/-- `Runtype::debug_print` (runtype.rs:632-745) — only used as a sort key by the printer -/
def debugPrint : IR → String
  | .undefined => "undefined" | .null => "null" | .boolean => "boolean" | .void => "void" | .string => "string"
  | .number => "number" | .any => "any" | .anyArrayLike => "Array<any>"
  | .strFmt fs => (match fs with
    | [] => "" | f :: rest => rest.foldl (fun acc r => "StringFormatExtends<" ++ acc ++ ", \"" ++ r ++ "\">") ("StringFormat<\"" ++ f ++ "\">"))
  | .numFmt fs => (match fs with
    | [] => "" | f :: rest => rest.foldl (fun acc r => "NumberFormatExtends<" ++ acc ++ ", \"" ++ r ++ "\">") ("NumberFormat<\"" ++ f ++ "\">"))
  | .tpl [.lit s] => "\"" ++ s ++ "\""
  | .tpl items => "`" ++ String.join (items.map (debugTplItem 20)) ++ "`"
  | .const (.bool b) => if b then "true" else "false"
  | .const (.num c) => debugNum c
  | .const _ => "?"
  | .date => "Date" | .bigint => "bigint" | .typedArray k => k | .never => "never"
  | .stNot t => "Not<" ++ debugPrint t ++ ">"
  | .function => "Function"
  | .ref r => r
  | .array t => "Array<" ++ debugPrint t ++ ">"
  | .set t => "Set<" ++ debugPrint t ++ ">"
  | .map k v => "Map<" ++ debugPrint k ++ ", " ++ debugPrint v ++ ">"
  | .tuple pre rest => "[" ++ ", ".intercalate (debugPrintL pre ++ (match rest with | some r => ["..." ++ debugPrint r] | none => [])) ++ "]"
  | .anyOf ts => "(" ++ " | ".intercalate (debugPrintL ts) ++ ")"
  | .allOf ts => "(" ++ " & ".intercalate (debugPrintL ts) ++ ")"
  | .object vs ix => "{ " ++ ", ".intercalate (debugPrintVs vs ++ (match ix with
      | some (k, r, v) => ["[key" ++ (if r then "" else "?") ++ ": " ++ debugPrint k ++ "]: " ++ debugPrint v]
      | none => [])) ++ " }"
def debugPrintL : List IR → List String
  | [] => []
  | t :: ts => debugPrint t :: debugPrintL ts
def debugPrintVs : List (String × Bool × IR) → List String
  | [] => []
  | (k, r, t) :: vs => ("\"" ++ k ++ "\"" ++ (if r then "" else "?") ++ ": " ++ debugPrint t) :: debugPrintVs vs
end

def sortByDebug (ts : List IR) : List IR := JsVal.sortBy (fun a b => debugPrint a ≤ debugPrint b) ts

/-- `BTreeMap::insert`: sorted by key, later insert replaces -/
def vsInsert (vs : List (String × Bool × IR)) (k : String) (r : Bool) (t : IR) : List (String × Bool × IR) :=
  let rest := vs.filter (fun p => p.1 != k)
  (rest.takeWhile (fun p => p.1 < k)) ++ [(k, r, t)] ++ (rest.dropWhile (fun p => p.1 < k))

def vsOfList (l : List (String × Bool × IR)) : List (String × Bool × IR) :=
  l.foldl (fun acc p => vsInsert acc p.1 p.2.1 p.2.2) []

def vsGet (vs : List (String × Bool × IR)) (k : String) : Option (Bool × IR) :=
  match vs.find? (fun p => p.1 == k) with
  | some p => some p.2
  | none => none

def singleStringConst : IR → Option String
  | .tpl [.lit s] => some s
  | _ => none

def strConst (s : String) : IR := .tpl [.lit s]

/-- `UnionMerger::consume`: flatten nested AnyOf -/
def flattenAnyOf : Nat → List IR → List IR
  | 0, ts => ts
  | n+1, ts => ts.flatMap fun t => match t with
    | .anyOf inner => flattenAnyOf n inner
    | other => [other]

/-- `Runtype::any_of` (runtype.rs:523-529) -/
def anyOf' (vs : List IR) : IR :=
  match vs with
  | [] => .never
  | [t] => t
  | _ => .anyOf (setOf (flattenAnyOf 50 vs))

def optEq (a b : Bool × IR) : Bool := a.1 == b.1 && beq a.2 b.2

/-- `Runtype::all_of` (runtype.rs:530-581) -/
def allOf' (items : List IR) : IR :=
  match items with
  | [t] => t
  | _ =>
    -- walk the members; stop at the first non-object / object with index signature
    let rec go (rest : List IR) (acc : List (String × Bool × IR)) : Option (Option (List (String × Bool × IR))) :=
      -- none = conflict (return AllOf immediately); some none = not all plain objects; some (some kvs) = merged
      match rest with
      | [] => some (some acc)
      | .object vs ix :: more =>
        if ix.isSome then some none
        else if acc.any (fun p => match vsGet vs p.1 with
            | some other => !(optEq other p.2)
            | none => false) then none
        else go more (acc ++ vs)
      | _ :: _ => some none
    match go items [] with
    | some (some kvs) => if items.length > 1 then .object (vsOfList kvs) none else .allOf (setOf items)
    | _ => .allOf (setOf items)

def anyObject : IR := .object [] (some (.anyOf [.number, .string], true, .any))

/-! ### printer -/

def lookupNamed (named : Named) (n : String) : Option IR :=
  match named.find? (fun p => p.1 == n) with
  | some p => some p.2
  | none => none

/-- `extract_union` (printer.rs:431-447): flatten unions through references; `Never` disappears -/
def extractUnion (named : Named) : Nat → IR → List IR
  | 0, t => [t]
  | n+1, t => match t with
    | .anyOf vs => vs.flatMap (extractUnion named n)
    | .ref r => match lookupNamed named r with
      | some s => extractUnion named n s
      | none => [t]
    | .never => []
    | _ => [t]

def stringConstUnion (named : Named) (t : IR) : Option (List String) :=
  (extractUnion named 50 t).mapM singleStringConst

/-- `narrower_schema` -/
def narrowerSchema (named : Named) (l r : IR) : Option IR :=
  match stringConstUnion named l, stringConstUnion named r with
  | some lv, some rv =>
    if lv.all rv.contains then some l else if rv.all lv.contains then some r else none
  | _, _ => none

/-- `extract_object_shape` (printer.rs:722-757) -/
def extractObjectShape (named : Named) : Nat → IR → Option (List (String × Bool × IR))
  | 0, _ => none
  | n+1, t => match t with
    | .object vs none => some vs
    | .ref r => match lookupNamed named r with
      | some s => extractObjectShape named n s
      | none => none
    | .allOf vs =>
      vs.foldl (fun (acc : Option (List (String × Bool × IR))) schema =>
        match acc, extractObjectShape named n schema with
        | some acc, some extracted =>
          -- conflicting keys are merged with narrower_schema (both required) or make the whole shape fail
          let merged := extracted.foldl (fun (a : Option (List (String × Bool × IR))) p =>
            match a with
            | none => none
            | some a => match vsGet a p.1 with
              | some existing =>
                if optEq existing p.2 then some a
                else if existing.1 && p.2.1 then
                  match narrowerSchema named existing.2 p.2.2 with
                  | some m => some (vsInsert a p.1 true m)
                  | none => none
                else none
              | none => some a) (some acc)
          match merged with
          | some a => some (extracted.foldl (fun a p => if (vsGet a p.1).isSome then a else vsInsert a p.1 p.2.1 p.2.2) a)
          | none => none
        | _, _ => none) (some [])
    | _ => none

/-- a segment printed as template source again -/
def escTplSegment (s : String) : String :=
  (((s.replace "\\" "\\\\").replace "`" "\\`").replace "$" "\\$").replace "\r" "\\r"

/-- a single string printed as a string literal -/
def escQuoted (s : String) : String :=
  (((s.replace "\\" "\\\\").replace "\"" "\\\"").replace "\n" "\\n").replace "\r" "\\r"

def describeTplItem : Nat → TplItem → String
  | 0, _ => ""
  | _+1, .string => "${string}"
  | _+1, .number => "${number}"
  | _+1, .boolean => "${boolean}"
  | _+1, .lit v => escTplSegment v
  | n+1, .oneOf vs => "(" ++ " | ".intercalate (vs.map fun v => match v with
      | .lit s => "\"" ++ escQuoted s ++ "\""
      | other => "`" ++ describeTplItem n other ++ "`") ++ ")"

/-- `TplLitType::describe` -/
def describeTpl (items : Tpl) : String :=
  match items with
  | [.lit s] => "\"" ++ escQuoted s ++ "\""
  | _ => "`" ++ String.join (items.map (describeTplItem 20)) ++ "`"

/-- `print_runtype` (printer.rs:840-1069) -/
def print (named : Named) : Nat → IR → RT
  | 0, _ => .never
  | n+1, t =>
    let pr := print named n
    match t with
    | .string => .typeof "string" | .boolean => .typeof "boolean" | .number => .typeof "number"
    | .function => .typeof "function"
    | .ref r => .ref r
    | .any => .any | .never => .never
    | .const c => .const c
    | .strFmt fs => .strfmt fs | .numFmt fs => .numfmt fs
    | .date => .date | .bigint => .bigint
    | .typedArray k => .typed k
    | .tpl [.lit c] => .const (.str c)
    | .tpl items => .regex items (describeTpl items)
    | .anyArrayLike => .array .any
    | .stNot _ => .never   -- unreachable!() in the real printer (C04/C07)
    | .array x => .array (pr x)
    | .map k v => .map (pr k) (pr v)
    | .set v => .set (pr v)
    | .allOf vs => .allOf (vs.map pr)
    | .null => .nullish "null" | .undefined => .nullish "undefined" | .void => .nullish "void"
    | .tuple pre rest => .tuple (pre.map pr) (rest.map pr)
    | .object vs ix =>
      .object (vs.map fun p => (p.1, if p.2.1 then pr p.2.2 else .optional (pr p.2.2)))
        (match ix with
          | some (k, r, v) => [(pr k, if r then pr v else .optional (pr v))]
          | none => [])
    | .anyOf vs =>
      let flat := setOf (vs.flatMap (extractUnion named 50))
      -- maybe_runtype_any_of_consts
      let isConst := fun (x : IR) => (singleStringConst x).isSome || (match x with | .const _ => true | _ => false)
      if flat.all isConst then
        .consts ((sortByDebug flat).map fun x => match singleStringConst x with
          | some s => .str s
          | none => match x with | .const c => c | _ => .null)
      else
        -- maybe_runtype_any_of_discriminated
        match flat.mapM (extractObjectShape named 50) with
        | some objectVs =>
          let keys := objectVs.flatMap (fun vs => vs.map (·.1))
          let pick := keys.findSome? fun disc =>
            if !(objectVs.all fun vs => (vsGet vs disc).isSome) then none else
            let values := objectVs.filterMap (fun vs => vsGet vs disc)
            let distinct := values.foldl (fun (acc : List (Bool × IR)) v => if acc.any (optEq v) then acc else acc ++ [v]) []
            if distinct.length == 1 then none else
            if !(distinct.all (·.1)) then none else
            let flatVals := setOf (distinct.flatMap fun v => extractUnion named 50 v.2)
            match flatVals.mapM singleStringConst with
            | some strs =>
              -- fix D67: a tag carried by every variant would select the whole union again
              let separates := strs.all fun tag => objectVs.any fun vs => match vsGet vs disc with
                | some v => !(((extractUnion named 50 v.2).filterMap singleStringConst).contains tag)
                | none => true
              if separates then some (disc, JsVal.sortStrings (strs.foldl (fun a s => if a.contains s then a else a ++ [s]) []))
              else none
            | none => none
          match pick with
          | some (disc, strs) =>
            let mapping := strs.map fun cur =>
              let cases := (objectVs.filter fun vs => match vsGet vs disc with
                | some v => ((extractUnion named 50 v.2).filterMap singleStringConst).contains cur
                | none => false).map (fun vs => IR.object vs none)
              (cur, pr (match cases with | [c] => c | _ => anyOf' cases))
            .disc ((sortByDebug flat).map pr) disc mapping mapping
          | none => .anyOf (vs.map pr)
        | none => .anyOf (vs.map pr)

def printEnv (named : Named) : Env := named.map fun p => (p.1, print named 200 p.2)

end IR
end BeffVerif
