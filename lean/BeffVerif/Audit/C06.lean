import BeffVerif.Props.C06
import BeffVerif.Props.C06Sem
import BeffVerif.Props.C06Total
open BeffVerif.C06
#print axioms bdd_union_exact
#print axioms bdd_intersect_exact
#print axioms bdd_diff_exact
#print axioms bdd_complement_exact
#print axioms bdd_fromNode_exact
#print axioms dnf_of_bdd_exact
#print axioms dnf_to_bdd_exact
#print axioms dnf_roundtrip_exact
#print axioms semtype_intersect_exact
#print axioms semtype_union_exact
#print axioms semtype_diff_exact
#print axioms semtype_complement_exact
#print axioms BeffVerif.C06T.union_total
#print axioms BeffVerif.C06T.intersect_total
#print axioms BeffVerif.C06T.complement_total
#print axioms BeffVerif.C06T.diff_total
#print axioms BeffVerif.C06T.script_total
#print axioms BeffVerif.C06T.bdd_ops_total_of_ordered
#print axioms BeffVerif.C06T.toBdd_total
