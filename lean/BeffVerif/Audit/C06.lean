import BeffVerif.Props.C06
import BeffVerif.Props.C06Sem
open BeffVerif.C06
#print axioms bdd_union_exact
#print axioms bdd_intersect_exact
#print axioms bdd_diff_exact
#print axioms bdd_complement_exact
#print axioms bdd_fromNode_exact
#print axioms dnf_of_bdd_exact
#print axioms dnf_to_bdd_exact
#print axioms dnf_roundtrip_exact
#print axioms semtype_intersect_exact
#print axioms semtype_union_exact
#print axioms semtype_diff_exact
#print axioms semtype_complement_exact
