import BeffVerif.Props.C10
import BeffVerif.Props.C14
open BeffVerif.C10
#print axioms nondet_sites_known
#print axioms sortBy_perm
#print axioms sortBy_sorted
#print axioms sorted_perm_eq
#print axioms emit_order_independent
#print axioms BeffVerif.C14.history_independent
#print axioms BeffVerif.C14.rebuild_twice
