import BeffVerif.Props.C04
open BeffVerif.C04
#print axioms inventory_classified
#print axioms classification_not_stale
#print axioms charPos_line_in_file
#print axioms charPos_line_mono
#print axioms charPos_col_bounded
#print axioms charPos_col_in_line
#print axioms units_le
#print axioms model_outcome_total
#print axioms modelled_errors_are_diagnostics
