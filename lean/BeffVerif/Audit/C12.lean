import BeffVerif.Props.C12
import BeffVerif.Props.C12Nonempty
import BeffVerif.Props.C12Paths
import BeffVerif.Props.C12Received
open BeffVerif.C12
#print axioms safeParse_errors_le_10
#print axioms union_reports_one
#print axioms leaf_reports_received
#print axioms tuple_surplus_reported
#print axioms printErrors_deterministic
#print axioms empty_intersection_reports_nothing
#print axioms report_nonempty
#print axioms report_paths_extend
#print axioms report_received_located
#print axioms safeParse_errors_located
#print axioms at_nil
