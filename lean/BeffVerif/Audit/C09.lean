import BeffVerif.Props.C09
import BeffVerif.Props.C09Bind
open BeffVerif.C09
#print axioms getType_sound
#print axioms resolveType_sound
#print axioms unbound_name_is_diagnostic
#print axioms unexported_import_is_diagnostic
#print axioms unresolvable_specifier_binds_nothing
#print axioms resolveQual_sound
#print axioms qualPath_sound
#print axioms resolveName_sound
#print axioms bind_wf
#print axioms resolveType_lands
#print axioms bound_project_resolves_to_declarations
