import BeffVerif.Props.C05
import BeffVerif.Props.C05Flat
import BeffVerif.Props.C05Tuple
import BeffVerif.Props.C05Union
import BeffVerif.Props.C05ListUnion
import BeffVerif.Props.C05UnionSub
open BeffVerif.C05
#print axioms litInter_has
#print axioms litUnion_has
#print axioms litDiff_has
#print axioms diff_scalarOnly
#print axioms isEmpty_scalarOnly
#print axioms scalar_subtype_iff_inclusion
#print axioms isSubtype_def
#print axioms object_union_on_the_left_is_unsound
#print axioms BeffVerif.C05.index_union_on_the_right_is_unsound
#print axioms BeffVerif.C05Flat.flat_object_subtype_iff_inclusion
#print axioms BeffVerif.C05Flat.check_one
#print axioms BeffVerif.C05Flat.covered_iff
#print axioms BeffVerif.C05Flat.diff_atoms
#print axioms BeffVerif.C05Flat.intersect_first
#print axioms BeffVerif.C05Tuple.closed_tuple_subtype_iff_inclusion
#print axioms BeffVerif.C05Tuple.inhabitedNot_one
#print axioms BeffVerif.C05Tuple.every_shape
#print axioms BeffVerif.C05Tuple.covered_list_iff
#print axioms BeffVerif.C05Union.check_many
#print axioms BeffVerif.C05Union.sem_step
#print axioms BeffVerif.C05Union.keys_fold_gen
#print axioms BeffVerif.C05ListUnion.fixed_many
#print axioms BeffVerif.C05ListUnion.sem_step_l
#print axioms BeffVerif.C05Union3.flat_object_vs_union_iff_inclusion
#print axioms BeffVerif.C05Union3.diff_union_sorted
