import BeffVerif.Props.C01
import BeffVerif.Props.C01Frag
import BeffVerif.Props.Consts
open BeffVerif.C01
#print axioms keyword_types_exact
#print axioms string_literal_exact
#print axioms boolean_literal_exact
#print axioms number_literal_exact
#print axioms spec_paren
#print axioms spec_readonly
#print axioms consts_eq_union_of_consts
#print axioms number_keyed_record_rejects
#print axioms non_object_intersection_rejects
#print axioms template_anchored
#print axioms BeffVerif.C01F.frag_chain
#print axioms BeffVerif.C01F.fragment_compiles
#print axioms BeffVerif.C01F.fragment_exact
#print axioms BeffVerif.Consts.typed_array_kinds_current
