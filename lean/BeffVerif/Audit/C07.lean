import BeffVerif.Props.C07
import BeffVerif.Props.C07Print
import BeffVerif.Props.C07Keyof
import BeffVerif.Props.C07Idx
import BeffVerif.Props.C07Names
import BeffVerif.Props.C07KeyofIx
import BeffVerif.Props.C07IdxIx
open BeffVerif.C07
#print axioms excluded_numbers_widen_to_number
#print axioms literal_sets_are_exact
#print axioms recursive_result_keeps_its_definition
#print axioms keyof_object_keys
#print axioms indexed_access_under_index_signature
#print axioms BeffVerif.C07Print.removeNots_spine_free
#print axioms BeffVerif.C07Print.exclude_result_spine_free
#print axioms BeffVerif.C07Keyof.keyof_flat_object
#print axioms BeffVerif.C07Keyof.keyof_flat_object_members
#print axioms BeffVerif.C07Idx.idx_declared_key
#print axioms BeffVerif.C07N.claims
#print axioms BeffVerif.C07N.helper_names_defined_once
#print axioms BeffVerif.C07N.helper_names_disjoint
#print axioms BeffVerif.C07Keyof.keyof_indexed_object
#print axioms BeffVerif.C07Idx.idx_undeclared_key
