import BeffVerif.Props.C07
open BeffVerif.C07
#print axioms excluded_numbers_widen_to_number
#print axioms literal_sets_are_exact
#print axioms recursive_result_keeps_its_definition
#print axioms keyof_object_keys
#print axioms indexed_access_under_index_signature
