import BeffVerif.Props.C11
open BeffVerif.C11
#print axioms strict_implies_default
#print axioms strict_object_iff
#print axioms strict_irrelevant_with_index
#print axioms split_intersection_rejects_declared_keys
#print axioms merged_intersection_accepts
