import BeffVerif.Props.C11
import BeffVerif.Props.C11Frag
import BeffVerif.Props.C11Open
open BeffVerif.C11
#print axioms strict_implies_default
#print axioms strict_object_iff
#print axioms strict_irrelevant_with_index
#print axioms split_intersection_rejects_declared_keys
#print axioms merged_intersection_accepts
#print axioms BeffVerif.C11F.frag_no_throw
#print axioms BeffVerif.C11F.tuple_ok_iff
#print axioms BeffVerif.C11F.object_ok_iff
#print axioms BeffVerif.C11F.strict_iff_default_and_noExtra
#print axioms BeffVerif.C11F.strict_exactly_undeclared_keys
#print axioms BeffVerif.C11F.strict_example
#print axioms BeffVerif.C11O.strict_eq_default_of_open
