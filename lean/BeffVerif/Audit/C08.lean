import BeffVerif.Props.C08
import BeffVerif.Props.C08Decls
import BeffVerif.Props.C08Frag
open BeffVerif.C08
#print axioms foldl_perm
#print axioms spec_union_perm
#print axioms spec_inter_perm
#print axioms spec_object_members_perm
#print axioms spec_alias_unfold
#print axioms spec_identity_wrapper
#print axioms spec_paren
#print axioms spec_readonly
#print axioms anyOf_order_irrelevant
#print axioms named_intersection_member_not_merged
#print axioms shared_key_merge_is_syntactic
#print axioms mem_congr
#print axioms find_perm
#print axioms spec_decls_perm
#print axioms BeffVerif.C08F.frag_same_meaning_same_validator
#print axioms BeffVerif.C08F.frag_property_order_invisible
#print axioms BeffVerif.C08F.frag_paren_invisible
#print axioms BeffVerif.C08F.frag_readonly_invisible
