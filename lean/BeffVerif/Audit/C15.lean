import BeffVerif.Props.C15
import BeffVerif.Props.C15Decl
open BeffVerif.C15
#print axioms define_uniq
#print axioms describeRT_uniq
#print axioms describe_definitions_nodup
#print axioms mixed_index_object_text
#print axioms quoted_keys_and_bigint
#print axioms recursive_type_text
#print axioms BeffVerif.C15.describeRT_keeps
#print axioms BeffVerif.C15.shared_ref_declared
#print axioms BeffVerif.C15.declared_stays
#print axioms BeffVerif.C15.describe_marks_cleared
