import BeffVerif.Props.C15
open BeffVerif.C15
#print axioms define_uniq
#print axioms describeRT_uniq
#print axioms describe_definitions_nodup
#print axioms mixed_index_object_text
#print axioms quoted_keys_and_bigint
#print axioms recursive_type_text
