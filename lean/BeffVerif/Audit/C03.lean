import BeffVerif.Props.C03
import BeffVerif.Props.C03NoThrow
import BeffVerif.Props.C03Report
import BeffVerif.Props.C03Parse
import BeffVerif.Props.C03Declared
import BeffVerif.Props.C03Idem
import BeffVerif.Props.C03Order
import BeffVerif.Props.Consts
open BeffVerif.C03
#print axioms safeParse_success_iff_validate
#print axioms safeParse_failure_iff_not_validate
#print axioms parse_agrees_safeParse
#print axioms parse_returns_iff_validate
#print axioms no_mutation_partial
#print axioms union_parse_drops_proto_named_key
#print axioms union_builtin_beside_lax_object_loses_leaf
#print axioms array_intersection_parses_to_object
#print axioms validate_no_throw
#print axioms report_no_throw
#print axioms safeParse_failure_branch_no_throw
#print axioms parseAV_no_throw
#print axioms safeParse_no_throw
#print axioms parse_only_documented_failure
#print axioms BeffVerif.C03S.parse_strict
#print axioms BeffVerif.C03S.parse_revalidates_frag
#print axioms BeffVerif.C03S.parse_only_declared_frag
#print axioms BeffVerif.C03S.obj_fold
#print axioms BeffVerif.C03S.prim_strict_eq
#print axioms BeffVerif.C03S.parse_idem
#print axioms BeffVerif.C03S.rebuild
#print axioms BeffVerif.C03S.obj_fold_nodup
#print axioms BeffVerif.C03S.key_order_only
#print axioms BeffVerif.Consts.deepmerge_refused_keys_current
