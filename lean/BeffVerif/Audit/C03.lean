import BeffVerif.Props.C03
import BeffVerif.Props.C03NoThrow
open BeffVerif.C03
#print axioms safeParse_success_iff_validate
#print axioms safeParse_failure_iff_not_validate
#print axioms parse_agrees_safeParse
#print axioms parse_returns_iff_validate
#print axioms no_mutation_partial
#print axioms union_parse_drops_proto_named_key
#print axioms array_intersection_parses_to_object
#print axioms validate_no_throw
