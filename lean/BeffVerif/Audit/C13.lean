import BeffVerif.Props.C13
import BeffVerif.Props.C13Inj
import BeffVerif.Props.C13Tree
import BeffVerif.Props.C13Rec
import BeffVerif.Props.C13Names
import BeffVerif.Props.C13Total
import BeffVerif.Props.C13Hash32
import BeffVerif.Props.C13Total32
import BeffVerif.Props.Consts
open BeffVerif.C13
#print axioms writer_digest_eq_spec
#print axioms writer_digest_eq_spec_param
#print axioms finished_writer_rejects
#print axioms pad_block_aligned
#print axioms primes64_are_first_primes
#print axioms K_is_fips
#print axioms IV_is_fips
#print axioms tag_bytes_distinct
#print axioms hashToks_eq
#print axioms utf8_inj
#print axioms u32be_inj
#print axioms tok_prefix_free
#print axioms tokens_injective
#print axioms BeffVerif.C13T.h256_injective_closed
#print axioms BeffVerif.C13T.same_stream_same_behaviour
#print axioms BeffVerif.C13T.different_behaviour_different_stream
#print axioms BeffVerif.C13T.different_behaviour_different_bytes
#print axioms BeffVerif.C13R.stream_self_delimiting
#print axioms BeffVerif.C13R.root_streams_equal
#print axioms BeffVerif.C13R.claimB_all
#print axioms BeffVerif.C13R.same_stream_same_behaviour_rec
#print axioms BeffVerif.C13R.different_behaviour_different_stream_rec
#print axioms BeffVerif.C13R.different_behaviour_different_bytes_rec
#print axioms BeffVerif.C13N.h256_described
#print axioms BeffVerif.C13N.h256_alias_hop
#print axioms BeffVerif.C13N.object_property_order
#print axioms BeffVerif.C13N.disc_mapping_order
#print axioms BeffVerif.C13N.h256_rename
#print axioms BeffVerif.C13N.hash256Toks_rename
#print axioms BeffVerif.C13N.hash32_property_order
#print axioms BeffVerif.C13T.h256_total
#print axioms BeffVerif.C13T.hash256Toks_total
#print axioms BeffVerif.C13N.hash32_alias_hop
#print axioms BeffVerif.C13N.hash32_member_order
#print axioms BeffVerif.Consts.hash256_tags_current
#print axioms BeffVerif.C13T.hash32_total
