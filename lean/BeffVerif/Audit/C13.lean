import BeffVerif.Props.C13
open BeffVerif.C13
#print axioms writer_digest_eq_spec
#print axioms writer_digest_eq_spec_param
#print axioms finished_writer_rejects
#print axioms pad_block_aligned
#print axioms primes64_are_first_primes
#print axioms K_is_fips
#print axioms IV_is_fips
#print axioms tag_bytes_distinct
#print axioms hashToks_eq
