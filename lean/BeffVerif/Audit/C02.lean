import BeffVerif.Props.C02
import BeffVerif.Props.C02Sound
import BeffVerif.Props.C02Complete
import BeffVerif.Props.C16Refs
import BeffVerif.Props.Consts
import BeffVerif.Props.C02NonJson
open BeffVerif.C02
#print axioms valid_type_only
#print axioms typeof_exact
#print axioms nullish_exact
#print axioms any_exact
#print axioms never_exact
#print axioms nonjson_leaves_throw
#print axioms nested_nonjson_throws
#print axioms tuple_schema_has_minItems
#print axioms template_schema_pattern
#print axioms required_undefined_accepting_prop
#print axioms BeffVerif.C02E.valid_mono
#print axioms BeffVerif.C02F.lookup_setProp
#print axioms BeffVerif.C02F.valid_annotate
#print axioms BeffVerif.C02F.valid_tuple_true
#print axioms BeffVerif.C02F.valid_object_true
#print axioms BeffVerif.C02F.rnb_sem
#print axioms BeffVerif.C02F.validate_null_undef
#print axioms BeffVerif.C02F.propsS_spec
#print axioms BeffVerif.C02F.good_core
#print axioms BeffVerif.C02F.validate_frag_answers
#print axioms BeffVerif.C02F.schema_sound_frag
#print axioms BeffVerif.C02F.validate_frag_no_throw
#print axioms BeffVerif.C02F.fragment_example
#print axioms BeffVerif.C02F.rnb_def
#print axioms BeffVerif.C02F.total_core
#print axioms BeffVerif.C02F.validate_frag_stable
#print axioms BeffVerif.C02F.complete_core
#print axioms BeffVerif.C02F.schema_complete_frag
#print axioms BeffVerif.C02F.schema_total_frag
#print axioms BeffVerif.C02F.schema_exact_frag
#print axioms BeffVerif.C02F.fragment_example_converse
#print axioms BeffVerif.C16R.definition_refs_resolve
#print axioms BeffVerif.C16R.returned_refs_resolve
#print axioms BeffVerif.Consts.mergeable_keys_current
#print axioms BeffVerif.C16R.schema_flat_no_refs
#print axioms BeffVerif.C02N.flat_ok_njFree
#print axioms BeffVerif.C02N.flat_throws_on_nonjson
