import BeffVerif.Props.C02
open BeffVerif.C02
#print axioms valid_type_only
#print axioms typeof_exact
#print axioms nullish_exact
#print axioms any_exact
#print axioms never_exact
#print axioms nonjson_leaves_throw
#print axioms nested_nonjson_throws
#print axioms tuple_schema_has_minItems
#print axioms template_schema_pattern
#print axioms required_undefined_accepting_prop
