import BeffVerif.Props.C14
open BeffVerif.C14
#print axioms inv_update
#print axioms inv_rebuild
#print axioms rebuild_eq_fresh
#print axioms history_independent
#print axioms stale_module_breaks_history_independence
#print axioms BeffVerif.C14.flush_only_when_new_file_parses_breaks_history_independence
#print axioms BeffVerif.C14.rebuild_twice
