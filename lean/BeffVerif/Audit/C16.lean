import BeffVerif.Props.C16
import BeffVerif.Props.C16Order
import BeffVerif.Props.C16Names
import BeffVerif.Props.C16Refs
open BeffVerif.C16
#print axioms store_keeps
#print axioms store_defines
#print axioms store_clears_mark
#print axioms getRef_deterministic
#print axioms throwing_definition_not_left_in_progress
#print axioms synthetic_names_collide
#print axioms BeffVerif.C16O.schema_value_independent
#print axioms BeffVerif.C16O.schema_preserves_good
#print axioms BeffVerif.C16O.definitions_agree
#print axioms BeffVerif.C16O.good_runCalls
#print axioms BeffVerif.C16O.export_order_independent
#print axioms BeffVerif.C16O.functional_of_no_union
#print axioms BeffVerif.C16N.visit
#print axioms BeffVerif.C16N.names_sound
#print axioms BeffVerif.C16N.names_complete
#print axioms BeffVerif.C16N.names_order_independent
#print axioms BeffVerif.C16N.no_mark_left
#print axioms BeffVerif.C16N.functionalN_of_no_union
#print axioms BeffVerif.C16R.sok_rnb
#print axioms BeffVerif.C16R.sok_merge
#print axioms BeffVerif.C16R.schema_refs
#print axioms BeffVerif.C16R.definition_refs_resolve
#print axioms BeffVerif.C16R.returned_refs_resolve
#print axioms BeffVerif.C16R.schema_flat_no_refs
