import BeffVerif.Props.C16
open BeffVerif.C16
#print axioms store_keeps
#print axioms store_defines
#print axioms store_clears_mark
#print axioms getRef_deterministic
#print axioms throwing_definition_not_left_in_progress
#print axioms synthetic_names_collide
