import BeffVerif.Driver.SplitOps
import BeffVerif.Model.Session
/-! Driver handler for `(watch <id> (files (file "<name>" (var "<text>" <term>)…)…) (ops …))` (C14): the generic
session model of `Model/Session.lean`, instantiated with file = name, content = variant index, module = the variant's
statement list, compiler = module model + compiler model (outcome class). -/
namespace BeffVerif.Driver
open BeffVerif Modules

structure Variant where
  src : Option (List Stmt × List (String × Ty))     -- none = does not parse

def decVariant : Sexp → Option Variant
  | .list [.atom "var", _, .atom "broken"] => some ⟨none⟩
  | .list [.atom "var", _, .list (.atom "src" :: .list (.atom "exports" :: es) :: stmts)] => do
    let exps ← es.mapM fun e => match e with
      | .list [.str n, t] => do some (n, ← decTy t)
      | _ => none
    some ⟨some (← stmts.mapM decStmt, exps)⟩
  | .list [.atom "var", _, .list (.atom "src" :: stmts)] => do some ⟨some (← stmts.mapM decStmt, [])⟩
  | _ => none

def decWatchFiles : Sexp → Option (List (String × List Variant))
  | .list (.atom "files" :: fs) => fs.mapM fun f => match f with
    | .list (.atom "file" :: .str n :: vs) => do some (n, ← vs.mapM decVariant)
    | _ => none
  | _ => none

def decOps : Sexp → Option (List (Session.Op String Nat Nat))
  | .list (.atom "ops" :: os) => os.mapM fun o => match o with
    | .list [.atom "u", .str f, .atom k] => (k.toNat?).map fun n => Session.Op.update f n
    | .list [.atom "r"] => some (.rebuild 0)
    | .list [.atom "rs", .atom k] => (k.toNat?).map fun n => Session.Op.rebuild n
    | _ => none
  | _ => none

def watchWorld (files : List (String × List Variant)) : Session.World String Nat (List Stmt × List (String × Ty)) Nat String :=
  { parse := fun _ f k => match files.find? (fun x => x.1 == f) with
      | some (_, vs) => (vs[k]?).bind (·.src)
      | none => none
    touched := fun _ _ => files.map (·.1)
    -- (the compiler model knows every format the harness registers: histories that vary the settings are not tied)
    extract := fun _ v =>
      match v "entry.ts" with
      | none => "diags"                      -- the entry does not parse / cannot be found
      | some (_, exps) =>
        let srcs : List SrcFile := files.filterMap fun (n, _) => (v n).map fun m => ⟨n, m.1⟩
        match flatten srcs exps with
        | none => "diags"
        | some prog => match compile prog with
          | .ok _ _ => "ok"
          | .diags _ => "diags"
          | .nofuel => "model-nofuel" }

/-- a history over a project with a value module (`cfg_v.ts`, used through its default export and `typeof`) is outside the
module model, and so is one where a new source file shadows a declaration file of the same base name (`sh_v*`): not tied -/
def hasValueModule : Sexp → Bool
  | .list (.atom "files" :: fs) => fs.any fun f => match f with
    | .list (.atom "file" :: .str n :: _) => n == "cfg_v.ts" || n.startsWith "sh_v" || n.startsWith "gen_v"
    | _ => false
  | _ => false

/-- conditional types are terms of the semantic requests, not of the compiler model of whole programs (see `rewriteOp`) -/
partial def watchMentionsSemOperator : Sexp → Bool
  | .list (.atom h :: rest) => ["cond", "idx", "keyof"].contains h || rest.any watchMentionsSemOperator
  | .list xs => xs.any watchMentionsSemOperator
  | _ => false

def watchOp (filesS opsS : Sexp) : Sexp :=
  if hasValueModule filesS || watchMentionsSemOperator filesS then .atom "untied" else
  match decWatchFiles filesS, decOps opsS with
  | some files, some ops =>
    let w := watchWorld files
    let outs := (Session.run w false (Session.fresh (fun _ => some 0)) ops).2
    .list (.atom "watch" :: outs.map fun o => .list [.atom "r", .atom o])
  | _, _ => .list [.atom "model-decode-error"]

end BeffVerif.Driver
