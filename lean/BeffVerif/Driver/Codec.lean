import BeffVerif.Sexp
import BeffVerif.Model.Report
/-! S-expression codecs for JsVal / RT / Env / DErr (DESIGN.md Appendix A). -/
namespace BeffVerif.Driver
open BeffVerif

partial def decVal : Sexp → Option JsVal
  | .atom "null" => some .null
  | .atom "undef" => some .undef
  -- a hole of a sparse array: every read of it (`input[i]`) gives `undefined`, which is what the model works with
  | .atom "hole" => some .undef
  | .atom "fn" => some .func
  | .atom "sym" => some .sym
  | .list [.atom "b", .atom "true"] => some (.bool true)
  | .list [.atom "b", .atom "false"] => some (.bool false)
  | .list [.atom "n", .str c] => some (.num c)
  | .list [.atom "s", .str s] => some (.str s)
  | .list [.atom "big", .str d] => some (.bigint d)
  | .list [.atom "date", .str ms] => some (.date ms)
  | .list (.atom "arr" :: xs) => do some (.arr (← xs.mapM decVal))
  | .list (.atom "obj" :: ps) => do
    some (.obj (← ps.mapM fun p => match p with
      | .list [.str k, v] => do some (k, ← decVal v)
      | _ => none))
  | .list (.atom "map" :: es) => do
    some (.map (← es.mapM fun p => match p with
      | .list [k, v] => do some (← decVal k, ← decVal v)
      | _ => none))
  | .list (.atom "set" :: xs) => do some (.set (← xs.mapM decVal))
  | .list (.atom "typed" :: .str c :: xs) => do some (.typed c (← xs.mapM decVal))
  | .list [.atom "proto", .str k] => some (.protoObj k)
  | _ => none

partial def encVal : JsVal → Sexp
  | .null => .atom "null"
  | .undef => .atom "undef"
  | .func => .atom "fn"
  | .sym => .atom "sym"
  | .bool b => .list [.atom "b", Sexp.ofBool b]
  | .num c => .list [.atom "n", .str c]
  | .str s => .list [.atom "s", .str s]
  | .bigint d => .list [.atom "big", .str d]
  | .date ms => .list [.atom "date", .str ms]
  | .arr xs => .list (.atom "arr" :: xs.map encVal)
  | .obj ps => .list (.atom "obj" :: ps.map fun p => .list [.str p.1, encVal p.2])
  | .map es => .list (.atom "map" :: es.map fun p => .list [encVal p.1, encVal p.2])
  | .set xs => .list (.atom "set" :: xs.map encVal)
  | .typed c xs => .list (.atom "typed" :: .str c :: xs.map encVal)
  | .protoObj k => .list [.atom "proto", .str k]

partial def decTplItem : Sexp → Option TplItem
  | .atom "str" => some .string
  | .atom "num" => some .number
  | .atom "bool" => some .boolean
  | .list [.atom "lit", .str s] => some (.lit s)
  | .list (.atom "oneof" :: xs) => do some (.oneOf (← xs.mapM decTplItem))
  | _ => none

def strs (xs : List Sexp) : Option (List String) := xs.mapM fun x => match x with | .str s => some s | _ => none

partial def decRT : Sexp → Option RT
  | .atom "any" => some .any
  | .atom "never" => some .never
  | .atom "date" => some .date
  | .atom "bigint" => some .bigint
  | .list [.atom "typeof", .str t] => some (.typeof t)
  | .list [.atom "nullish", .str d] => some (.nullish d)
  | .list [.atom "const", v] => do some (.const (← decVal v))
  | .list (.atom "consts" :: vs) => do some (.consts (← vs.mapM decVal))
  | .list [.atom "regex", .list (.atom "tpl" :: items), .str d] => do some (.regex (← items.mapM decTplItem) d)
  | .list [.atom "typed", .str c] => some (.typed c)
  | .list (.atom "strfmt" :: fs) => do some (.strfmt (← strs fs))
  | .list (.atom "numfmt" :: fs) => do some (.numfmt (← strs fs))
  | .list [.atom "tuple", .list pre, .atom "none"] => do some (.tuple (← pre.mapM decRT) none)
  | .list [.atom "tuple", .list pre, r] => do some (.tuple (← pre.mapM decRT) (some (← decRT r)))
  | .list [.atom "array", t] => do some (.array (← decRT t))
  | .list (.atom "allof" :: ts) => do some (.allOf (← ts.mapM decRT))
  | .list (.atom "anyof" :: ts) => do some (.anyOf (← ts.mapM decRT))
  | .list [.atom "map", k, v] => do some (.map (← decRT k) (← decRT v))
  | .list [.atom "set", t] => do some (.set (← decRT t))
  | .list [.atom "opt", t] => do some (.optional (← decRT t))
  | .list [.atom "ref", .str n] => some (.ref n)
  | .list [.atom "desc", .str d, t] => do
    -- a runtype carries one description: the harness builder hands the innermost one to the constructor, and
    -- OptionalFieldRuntype takes none
    match ← decRT t with
    | .described d2 t2 => some (.described d2 t2)
    | .optional t2 => some (.optional t2)
    | t2 => some (.described d t2)
  | .list [.atom "disc", .list schemas, .str key, .list mapping, .list smapping] => do
    let pairs (l : List Sexp) : Option (List (String × RT)) := l.mapM fun p => match p with
      | .list [.str k, t] => do some (k, ← decRT t)
      | _ => none
    some (.disc (← schemas.mapM decRT) key (← pairs mapping) (← pairs smapping))
  | .list [.atom "object", .list props, .list indexed] => do
    let ps ← props.mapM fun p => match p with
      | .list [.str k, t] => do some (k, ← decRT t)
      | _ => none
    let ix ← indexed.mapM fun p => match p with
      | .list [k, v] => do some (← decRT k, ← decRT v)
      | _ => none
    some (.object ps ix)
  | _ => none

def decEnv : Sexp → Option Env
  | .list es => es.mapM fun p => match p with
    | .list [.str n, t] => do some (n, ← decRT t)
    | _ => none
  | _ => none

partial def encErr : RT.DErr → Sexp
  | .regular msg path received => .list [.atom "err", .str msg, .list (path.map .str), encVal received]
  | .union path received errors => .list [.atom "uerr", .list (path.map .str), encVal received, .list (errors.map encErr)]

def encRes {α : Type} (f : α → Sexp) : Res α → Sexp
  | .ok a => f a
  | .throw c => .list [.atom "throw", .str (if c.startsWith "Error" then "Error" else c)]
  | .nofuel => .atom "model-nofuel"

end BeffVerif.Driver
