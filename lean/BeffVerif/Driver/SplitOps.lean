import BeffVerif.Driver.ProgOps
import BeffVerif.Model.Modules
/-! Driver handler for `(split <id> <prog> <files1> <values> <proj> <filesN> <expect>)` (C09). -/
namespace BeffVerif.Driver
open BeffVerif Modules

def decTarget : Sexp → Option (Option String)
  | .str f => some (some f)
  | .atom "none" => some none
  | _ => none

def decStmt : Sexp → Option Stmt
  | .list [.atom "decl", .atom e, d] => do some (.decl (e == "true") (← decDecl d))
  | .list [.atom "import-named", .str l, .str o, t] => do some (.importNamed l o (← decTarget t))
  | .list [.atom "import-star", .str l, t] => do some (.importStar l (← decTarget t))
  | .list [.atom "import-default", .str l, t] => do some (.importDefault l (← decTarget t))
  | .list [.atom "export-local", .str n, .str r] => some (.exportLocal n r)
  | .list [.atom "export-from", .str o, .str r, t] => do some (.exportFrom o r (← decTarget t))
  | .list [.atom "export-ns", .str n, t] => do some (.exportNs n (← decTarget t))
  | .list [.atom "export-all", t] => do some (.exportAll (← decTarget t))
  | .list [.atom "export-default", .str n] => some (.exportDefault n)
  | .list [.atom "export-default-iface", d] => do some (.exportDefaultIface (← decDecl d))
  | _ => none

def decProj : Sexp → Option (List SrcFile × List (String × Ty))
  | .list (.atom "proj" :: .list (.atom "exports" :: es) :: fs) => do
    let exps ← es.mapM fun e => match e with
      | .list [.str n, t] => do some (n, ← decTy t)
      | _ => none
    let files ← fs.mapM fun f => match f with
      | .list (.atom "file" :: .str n :: stmts) => do some (⟨n, ← stmts.mapM decStmt⟩ : SrcFile)
      | _ => none
    some (files, exps)
  | _ => none

def compiledBits (c : Compiled) (vals : List JsVal) : Sexp :=
  match c with
  | .ok env parsers => .list (.atom "bits" :: parsers.map fun e => .list [.atom e.1, .str (bitsOf env e.2 vals)])
  | .diags _ => .list [.atom "diags"]
  | .nofuel => .atom "model-nofuel"

def splitOp (pS projS : Sexp) (valsS : List Sexp) : Sexp :=
  match decProj projS, valsS.mapM decVal with
  | some (files, exps), some vals =>
    let multi := match flatten files exps with
      | some prog => compiledBits (compile prog) vals
      | none => .list [.atom "diags"]
    .list [.atom "pair", progOp pS valsS, multi]
  | _, _ => .list [.atom "model-decode-error"]

end BeffVerif.Driver
