import BeffVerif.Driver.SubOps
import BeffVerif.Model.ToSchema
/-! Driver handler for `(sem <id> (prog (<decl>*) ((R <expr>))) <files> (<value>*))` (C07):
expr = (exclude A B) | (keyof A) | (idx A K). -/
namespace BeffVerif.Driver
open BeffVerif

def decSemExpr : Sexp → Option Sem.SemExpr
  | .list [.atom "exclude", a, b] => do some (.exclude (← decTy a) (← decTy b))
  | .list [.atom "keyof", a] => do some (.keyof (← decTy a))
  | .list [.atom "idx", a, k] => do some (.idx (← decTy a) (← decTy k))
  | _ => none

def decSemProg : Sexp → Option (List Decl × String × Sem.SemExpr)
  | .list [.atom "prog", .list ds, .list [.list [.str name, e]]] => do some (← ds.mapM decDecl, name, ← decSemExpr e)
  | _ => none

/-- the materialised type may only contain what the printer accepts: no negation survives (C07 clause 2) -/
partial def hasNot : IR → Bool
  | .stNot _ => true
  | .anyOf ts | .allOf ts => ts.any hasNot
  | .array t | .set t => hasNot t
  | .map k v => hasNot k || hasNot v
  | .tuple pre rest => pre.any hasNot || (match rest with | some r => hasNot r | none => false)
  | .object vs ix => vs.any (fun p => hasNot p.2.2) || (match ix with | some (k, _, v) => hasNot k || hasNot v | none => false)
  | _ => false

/-- does the request use a built-in whose tag the port of the engine does not carry (Map, Set, typed arrays)? Such
requests are not tied (`untied`); the reference of the second channel still judges the real validator -/
partial def mentionsUnported : Sexp → Bool
  | .list (.atom "bi" :: .str n :: rest) =>
    ["Map", "Set", "Uint8Array", "Uint8ClampedArray", "Uint16Array", "Uint32Array", "Int8Array", "Int16Array", "Int32Array",
      "Float32Array", "Float64Array", "BigInt64Array", "BigUint64Array"].contains n || rest.any mentionsUnported
  | .list xs => xs.any mentionsUnported
  | _ => false

def semOp (progS : Sexp) (valsS : List Sexp) : Sexp :=
  if mentionsUnported progS then .atom "untied" else
  match decSemProg progS, valsS.mapM decVal with
  | some (decls, name, e), some vals =>
    match Sem.evalSemExpr decls e with
    | none => .atom "model-nofuel"
    | some none => .list [.atom "diags"]
    | some (some r) =>
      if hasNot r.schema || r.named.any (fun p => hasNot p.2) then .list [.atom "model-not-printable"]
      else
        let env := IR.printEnv r.named
        let rt := IR.print r.named 200 r.schema
        .list [.atom "bits", .list [.atom name, .str (bitsOf env rt vals)]]
  | _, _ => .list [.atom "model-decode-error"]

/-- `(semstrict id prog files values)`: default and strict acceptance of the validator compiled from a semantic
operator (C11 on types that went through the semantic engine and were materialised again) -/
def semStrictOp (progS : Sexp) (valsS : List Sexp) : Sexp :=
  match decSemProg progS, valsS.mapM decVal with
  | some (decls, name, e), some vals =>
    match Sem.evalSemExpr decls e with
    | none => .atom "model-nofuel"
    | some none => .list [.atom "diags"]
    | some (some r) =>
      if hasNot r.schema || r.named.any (fun p => hasNot p.2) then .list [.atom "model-not-printable"]
      else
        let env := IR.printEnv r.named
        let rt := IR.print r.named 200 r.schema
        .list [.atom "bits", .list [.atom name, .str (bitsOfStrict env rt false vals), .str (bitsOfStrict env rt true vals)]]
  | _, _ => .list [.atom "model-decode-error"]

mutual
def outsideUniverse : JsVal → Bool
  | .func | .sym | .protoObj _ => true
  | .arr xs | .set xs | .typed _ xs => outsideL xs
  | .obj ps => outsideP ps
  | .map es => outsideE es
  | _ => false
def outsideL : List JsVal → Bool
  | [] => false
  | x :: xs => outsideUniverse x || outsideL xs
def outsideP : List (String × JsVal) → Bool
  | [] => false
  | (_, v) :: ps => outsideUniverse v || outsideP ps
def outsideE : List (JsVal × JsVal) → Bool
  | [] => false
  | (k, v) :: es => outsideUniverse k || outsideUniverse v || outsideE es
end

/-- second channel: TypeScript's meaning of the operator on the same values (`?` = not settled) -/
def semSpec (progS : Sexp) (valsS : List Sexp) : Sexp :=
  match decSemProg progS, valsS.mapM decVal with
  | some (decls, name, e), some vals =>
    let f : JsVal → Option Bool := match e with
      | .exclude a b => SubSpec.memExclude decls a b
      | .keyof a => SubSpec.memKeyof decls a
      -- bracket: a strict member (null ≠ undefined, as the type-level computation sees it) must be accepted, a value
      -- outside the lenient reading of the validators (S1–S6) must be rejected, anything between is not judged
      | .idx a k => fun v => (SubSpec.idxTy decls a k).bind fun t =>
          match SubSpec.memR decls false 40 t v, Spec.mem decls 200 t v with
          | some true, _ => some true
          | _, some false => some false
          | _, _ => none
    let noUnion := match e with
      | .exclude a _ => SubSpec.noObjectUnion decls 100 a
      | _ => true
    -- S9: a type that went through a semantic operator denotes a set of values of the engine's universe (its 13
    -- tags); functions and symbols have no tag, so `unknown` / `any` inside such a type does not speak about them
    .list [.list [.atom "spec", .list [.atom name, .str (String.ofList (vals.map fun v => match (if outsideUniverse v then none else f v) with
      | some true => '1' | some false => '0' | none => '?'))]],
      .list (.atom "hyp-failed" :: (if noUnion then [] else [Sexp.atom "NoObjectUnionOnLeft"]))]
  | _, _ => .list [.atom "spec-decode-error"]

/-- second channel of `semstrict`: `1` where strict acceptance is owed — the value is an EXACT member (declared keys and
index signatures only, at every depth) of a member of the left operand of `Exclude` and is not in the right operand at
all: it then belongs to the difference, with no key the surviving member does not declare; `?` elsewhere -/
def semStrictSpec (progS : Sexp) (valsS : List Sexp) : Sexp :=
  match decSemProg progS, valsS.mapM decVal with
  | some (decls, name, e), some vals =>
    let owed (v : JsVal) : Bool := match e with
      | .exclude a b => !hasNullish v && !outsideUniverse v &&
          (SubSpec.excludeMembers decls a).any fun m =>
            SubSpec.memR decls true 40 m v == some true && Spec.mem decls 200 b v == some false
      | _ => false
    let noUnion := match e with
      | .exclude a _ => SubSpec.noObjectUnion decls 100 a
      | _ => true
    .list [.list [.atom "spec", .list [.atom name, .str (String.ofList (vals.map fun v => if owed v then '1' else '?'))]],
      .list (.atom "hyp-failed" :: (if noUnion then [] else [Sexp.atom "NoObjectUnionOnLeft"]))]
  | _, _ => .list [.atom "spec-decode-error"]

/-- second channel of `(pschema id prog files values)` (C02 on compiled validators): the schema hypotheses, evaluated on
the validator the compiler MODEL produces for the first export -/
def progSchemaHyps (progS : Sexp) : Sexp :=
  match decProg progS with
  | some p =>
    match compile p with
    | .ok env ((_, rt0) :: _) =>
      .list (.atom "hyp-failed" ::
        ((if RT.noRequiredUndefAccepting env rt0 then [] else [Sexp.atom "NoRequiredUndefinedAcceptingProp"]) ++
         (if RT.noSplitIntersection env rt0 then [] else [Sexp.atom "NoSplitIntersection"]) ++
         (if RT.noMultiValuedDiscriminator env rt0 then [] else [Sexp.atom "NoMultiValuedDiscriminator"]) ++
         (if RT.noMixedIndexRT env rt0 then [] else [Sexp.atom "NoMixedIndexRT"]) ++
         (if RT.noProtoNamedProps env rt0 then [] else [Sexp.atom "NoProtoNamedKeys"])))
    | _ => .list [.atom "hyp-failed", .atom "ModelDoesNotCompile"]
  | none => .list [.atom "hyp-failed", .atom "ModelDoesNotCompile"]

end BeffVerif.Driver
