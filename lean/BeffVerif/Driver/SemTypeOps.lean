import BeffVerif.Sexp
import BeffVerif.Model.SemType
/-! Driver handler for `(sem-ops (<atom>…) (<step>…))` (C06, type-vector layer): the port's `inter` / `union` / `diff` /
`complement` on scalar types, printed as the canonical vector the Rust harness prints. -/
namespace BeffVerif.Driver
open BeffVerif Sem

def semAtom : Sexp → Option SemType
  | .atom "string" => some { never with str := .all }
  | .atom "number" => some { never with num := .all }
  | .atom "boolean" => some { never with bool := .all }
  | .atom "null" => some { never with null := true }
  | .atom "undefined" => some { never with vu := .some ⟨true, ["undefined"]⟩ }
  | .atom "unknown" => some unknown
  | .atom "never" => some never
  | .atom "optional" => some optionalProp
  | .list [.atom "s", .str s] => some { never with str := .some ⟨true, [s]⟩ }
  | .list [.atom "n", .atom n] => some { never with num := .some ⟨true, [n]⟩ }
  | .list [.atom "b", .atom b] => some { never with bool := .some (b == "true") }
  | .list [.atom "nf", .str n] => some { never with num := .some ⟨true, [n]⟩ }
  | .list [.atom "o", k] => do some (mappingFromIdx (← k.natOf))
  | .list [.atom "l", k] => do some (listFromIdx (← k.natOf))
  | _ => none

def showLit (name : String) : Sem.Sub LitSet → Sexp
  | .none => .list [.atom name, .atom "none"]
  | .all => .list [.atom name, .atom "all"]
  | .some l => .list [.atom name, .atom (if l.allowed then "only" else "except"), .list ((JsVal.sortStrings l.values).map .str)]

def showFlag (name : String) (b : Bool) : Sexp := .list [.atom name, .atom (if b then "all" else "none")]

/-- a structural tag as `all` / `none` / the truth table of its diagram over the `natoms` atoms of the tag (a diagram that
denotes everything or nothing prints like the whole / absent tag) -/
def showBddTag (name : String) (kind natoms : Nat) : Sem.Sub Bdd → Sexp
  | .none => .list [.atom name, .atom "none"]
  | .all => .list [.atom name, .atom "all"]
  | .some b =>
    let table := (List.range (2 ^ natoms)).map fun m =>
      Bdd.eval (fun a => a.kind == kind && (m >>> a.idx) % 2 == 1) b
    if table.all id then .list [.atom name, .atom "all"]
    else if table.all (!·) then .list [.atom name, .atom "none"]
    else .list [.atom name, .list [.atom "tt", .str (String.ofList (table.map fun x => if x then '1' else '0'))]]

def showSem (t : SemType) : Sexp :=
  .list [.atom "st",
    (match t.bool with
      | .none => .list [.atom "bool", .atom "none"]
      | .all => .list [.atom "bool", .atom "all"]
      | .some b => .list [.atom "bool", .atom "only", .list [.str (if b then "true" else "false")]]),
    showLit "num" t.num, showLit "str" t.str, showLit "vu" t.vu, showFlag "null" t.null, showFlag "opt" t.opt,
    showBddTag "mapping" mappingKind 3 t.mapping, showBddTag "list" listKind 2 t.list, showFlag "other" t.other]

def semStep (atoms : Array SemType) (hist : Array SemType) : Sexp → Option SemType
  | .list [.atom "A", k] => do atoms[← k.natOf]?
  | .list [.atom "U", i, j] => do union (← hist[← i.natOf]?) (← hist[← j.natOf]?)
  | .list [.atom "I", i, j] => do inter (← hist[← i.natOf]?) (← hist[← j.natOf]?)
  | .list [.atom "D", i, j] => do diff (← hist[← i.natOf]?) (← hist[← j.natOf]?)
  | .list [.atom "C", i] => do complement (← hist[← i.natOf]?)
  | _ => none

def semTypeOps (atoms : List Sexp) (script : List Sexp) : Sexp := Id.run do
  let some atoms := atoms.mapM semAtom | return .list [.atom "bad-atoms"]
  let mut hist : Array SemType := #[]
  let mut out : Array Sexp := #[.atom "r"]
  for op in script do
    match semStep atoms.toArray hist op with
    | none => return .list [.atom "model-error", op]
    | some t =>
      out := out.push (showSem t)
      hist := hist.push t
  return .list out.toList

end BeffVerif.Driver
