import BeffVerif.Sexp
import BeffVerif.Model.Bdd
/-! Driver handler for `(bdd-ops <atoms> <script>)` (C06). -/
namespace BeffVerif.Driver
open BeffVerif

def fuel : Nat := 100000

def tableOf (atoms : List Atom) (f : (Atom → Bool) → Bool) : String :=
  let n := atoms.length
  String.ofList <| (List.range (2 ^ n)).map fun asg =>
    let ρ : Atom → Bool := fun a =>
      match atoms.idxOf? a with
      | some j => (asg >>> j) % 2 == 1
      | none => false
    if f ρ then '1' else '0'

def parseAtom : Sexp → Option Atom
  | .list [k, i] => do some ⟨← k.natOf, ← i.natOf⟩
  | _ => none

def bddStep (hist : Array Bdd) : Sexp → Option (Bdd × Option Dnf)
  | .atom "T" => some (.tt, none)
  | .atom "F" => some (.ff, none)
  | .list [.atom "A", k, i] => do some (Bdd.fromAtom ⟨← k.natOf, ← i.natOf⟩, none)
  | .list [.atom "U", i, j] => do some (← Bdd.union fuel (← hist[← i.natOf]?) (← hist[← j.natOf]?), none)
  | .list [.atom "I", i, j] => do some (← Bdd.intersect fuel (← hist[← i.natOf]?) (← hist[← j.natOf]?), none)
  | .list [.atom "D", i, j] => do some (← Bdd.diff fuel (← hist[← i.natOf]?) (← hist[← j.natOf]?), none)
  | .list [.atom "C", i] => do some (← Bdd.complement fuel (← hist[← i.natOf]?), none)
  | .list [.atom "R", i] => do
    let d := Dnf.ofBdd (← hist[← i.natOf]?)
    some (← Dnf.toBdd fuel d, some d)
  | _ => none

def bddOps (atoms : List Sexp) (script : List Sexp) : Sexp := Id.run do
  let some atoms := atoms.mapM parseAtom | return .list [.atom "bad-atoms"]
  let mut hist : Array Bdd := #[]
  let mut out : Array Sexp := #[.atom "r"]
  for op in script do
    match bddStep hist op with
    | none => return .list [.atom "model-error", op]
    | some (b, d) =>
      let t := tableOf atoms (fun ρ => Bdd.eval ρ b)
      match d with
      | some d => out := out.push (.atom (tableOf atoms (fun ρ => Dnf.eval ρ d) ++ "/" ++ t))
      | none => out := out.push (.atom t)
      hist := hist.push b
  return .list out.toList

end BeffVerif.Driver
