import BeffVerif.Driver.Codec
import BeffVerif.Model.Hash256
import BeffVerif.Model.Describe
/-! Driver handler for `(h256 <kind> <script> <env1> <rt1> <env2> <rt2> (<value>…))` (C13, Runtype level). -/
namespace BeffVerif.Driver
open BeffVerif RT

def h256Side (env : Env) (rt : RT) (vals : List JsVal) : Sexp × String :=
  let d : Sexp := match RT.hash256 env rt with
    | some hex => .list [.atom "d", .str hex]
    | none => .list [.atom "d", .atom "model-none"]
  let bits := vals.map fun x => match validate env false 400 rt x with
    | .ok true => '1'
    | .ok false => '0'
    | .throw _ => 'T'
    | .nofuel => 'F'
  (d, String.ofList bits)

def h256Op (e1 r1 e2 r2 : Sexp) (vals : List Sexp) : Sexp :=
  match decEnv e1, decRT r1, decEnv e2, decRT r2, vals.mapM decVal with
  | some env1, some rt1, some env2, some rt2, some vs =>
    let a := h256Side env1 rt1 vs
    let b := h256Side env2 rt2 vs
    .list [.atom "h256", a.1, b.1, .str a.2, .str b.2]
  | _, _, _, _, _ => .list [.atom "model-decode-error"]

/-- `(rtd id env rt values)`: the text `describe()` prints for a parser named E0 built from the classes -/
def rtdOp (e r : Sexp) : Sexp :=
  match decEnv e, decRT r with
  | some env, some rt => .list [.atom "described", .str (RT.describe env "E0" rt)]
  | _, _ => .list [.atom "model-decode-error"]

end BeffVerif.Driver
