import BeffVerif.Driver.Codec
import BeffVerif.Model.Hash256
import BeffVerif.Model.Describe
import BeffVerif.Model.RTPred
/-! Driver handler for `(h256 <kind> <script> <env1> <rt1> <env2> <rt2> (<value>…))` (C13, Runtype level). -/
namespace BeffVerif.Driver
open BeffVerif RT

def h256Side (env : Env) (rt : RT) (vals : List JsVal) : Sexp × String :=
  let d : Sexp := match RT.hash256 env rt with
    | some hex => .list [.atom "d", .str hex]
    | none => .list [.atom "d", .atom "model-none"]
  let bits := vals.map fun x => match validate env false 400 rt x with
    | .ok true => '1'
    | .ok false => '0'
    | .throw _ => 'T'
    | .nofuel => 'F'
  (d, String.ofList bits)

def h256Op (e1 r1 e2 r2 : Sexp) (vals : List Sexp) : Sexp :=
  match decEnv e1, decRT r1, decEnv e2, decRT r2, vals.mapM decVal with
  | some env1, some rt1, some env2, some rt2, some vs =>
    let a := h256Side env1 rt1 vs
    let b := h256Side env2 rt2 vs
    .list [.atom "h256", a.1, b.1, .str a.2, .str b.2]
  | _, _, _, _, _ => .list [.atom "model-decode-error"]

/-- does a named type of the environment reach itself? (names mentioned by a body, followed with fuel) -/
def envRecursive (env : Env) : Bool :=
  let mentions (t : RT) (n : String) : Bool := RT.anyNode (fun x => match x with | .ref m => m == n | _ => false) t
  let step (front : List String) : List String :=
    env.filterMap fun e => if front.any (fun f => match env.lookup f with | some t => mentions t e.1 | none => false) then some e.1 else none
  env.any fun e =>
    let reach := (List.range env.length).foldl (fun (acc : List String) _ => (acc ++ step acc).eraseDups) (step [e.1])
    reach.contains e.1

/-- second channel of `h256`: the 32-bit hash names a recursive back reference by the NAME of the type under expansion
(D101b): a rewrite that introduces or removes a name for a sub-term of a recursive environment may change it; it also writes the members of a union / intersection / literal set in the order they stand (D108) -/
def h256Hyps (script : Sexp) (e1 e2 : Sexp) : Sexp :=
  let names : List String := match script with | .list xs => xs.filterMap (fun x => match x with | .atom a => some a | _ => none) | _ => []
  let moves := names.any fun k => k == "extract" || k == "inline"
  let rec_ := match decEnv e1, decEnv e2 with | some a, some b => envRecursive a || envRecursive b | _, _ => false
  let reorders := names.any fun k => k == "member-order"
  .list (.atom "hyp-failed" :: ((if moves && rec_ then [Sexp.atom "NoNewBinderOnCycle"] else []) ++
    (if reorders then [Sexp.atom "NoMemberReorder"] else [])))

/-- `(rtd id env rt values)`: the text `describe()` prints for a parser named E0 built from the classes -/
def rtdOp (e r : Sexp) : Sexp :=
  match decEnv e, decRT r with
  | some env, some rt => .list [.atom "described", .str (RT.describe env "E0" rt)]
  | _, _ => .list [.atom "model-decode-error"]

end BeffVerif.Driver
