import BeffVerif.Driver.ProgOps
import BeffVerif.Model.SubSpec
import BeffVerif.Model.SemType
import BeffVerif.Model.RTPred
/-! Driver handler for `(sub <id> (<decl>*) <A> <B> "<src>")` (C05). -/
namespace BeffVerif.Driver
open BeffVerif

/-- second channel: the set-theoretic verdict (inclusion of exact values of A in structural B) with its witness -/
def subSpec (declsS : List Sexp) (aS bS : Sexp) : Sexp :=
  match declsS.mapM decDecl, decTy aS, decTy bS with
  | some decls, some a, some b =>
    let v := SubSpec.inclusion decls a b
    .list [.list [.atom "spec", .atom (if v.included then "yes" else "no"), .atom (if v.complete then "complete" else "incomplete"),
      match v.witness with
      | some w => encVal w
      | none => .atom "none"],
      .list (.atom "hyp-failed" :: ((if SubSpec.noObjectUnion decls 100 a then [] else [Sexp.atom "NoObjectUnionOnLeft"]) ++
        (if SubSpec.noIndexUnion decls 100 b then [] else [Sexp.atom "NoIndexUnionOnRight"])))]
  | _, _, _ => .list [.atom "spec-decode-error"]

end BeffVerif.Driver

namespace BeffVerif.Driver
open BeffVerif

/-- the model's answer: lower both types with the compiler model (shared definitions), convert them in ONE context
(`convert_conditional_type`), decide emptiness of the difference -/
def subOp (declsS : List Sexp) (aS bS : Sexp) : Sexp :=
  match declsS.mapM decDecl, decTy aS, decTy bS with
  | some decls, some a, some b =>
    match Lower.lower decls 200 [] [] a with
    | .ok ia defs =>
      match Lower.lower decls 200 [] defs b with
      | .ok ib defs' =>
        let named := Lower.namedOf defs'
        let run : Sem.SM Bool := do
          let sa ← Sem.convert named 100 [] ia
          let sb ← Sem.convert named 100 [] ib
          Sem.isSubtype 300 sa sb
        match run {} with
        | some (r, _) => .list [.atom "sub", .atom (if r then "yes" else "no")]
        | none => .list [.atom "sub", .atom "model-failed"]
      | .diag _ _ => .list [.atom "sub", .atom "diags"]
      | .nofuel => .atom "model-nofuel"
    | .diag _ _ => .list [.atom "sub", .atom "diags"]
    | .nofuel => .atom "model-nofuel"
  | _, _, _ => .list [.atom "model-decode-error"]

mutual
def hasNullish : JsVal → Bool
  | .null | .undef => true
  | .arr xs | .set xs | .typed _ xs => hasNullishL xs
  | .obj ps => hasNullishP ps
  | .map es => hasNullishE es
  | _ => false
def hasNullishE : List (JsVal × JsVal) → Bool
  | [] => false
  | (k, v) :: es => hasNullish k || hasNullish v || hasNullishE es
def hasNullishL : List JsVal → Bool
  | [] => false
  | x :: xs => hasNullish x || hasNullishL xs
def hasNullishP : List (String × JsVal) → Bool
  | [] => false
  | (_, v) :: ps => hasNullish v || hasNullishP ps
end

/-- second channel of `(strict …)`: the reference on the same values — membership under the exact-scalar reading with
structural objects (`e0`) and with exact objects, i.e. declared properties only at every depth (`e1`) — and the
hypotheses the request violates -/
def strictSpec (progS : Sexp) (valsS : List Sexp) : Sexp :=
  match decProg progS, valsS.mapM decVal with
  | some p, some vals =>
    -- values with null / undefined anywhere are not judged: validators read the two leniently (S4), the reference
    -- exactly, and the difference can move a value from one union member to another
    -- … and a value is judged only when reading a missing property as missing or as `undefined` (what validators do:
    -- `{ kind: "c"; b: unknown }` accepts `{ kind: "c" }`) makes no difference: otherwise the member that accepts it in
    -- strict mode may be one the exact reference does not see
    let bits (exact : Bool) (t : Ty) : String :=
      String.ofList (vals.map fun v => if hasNullish v then '?' else
        match SubSpec.memRG p.decls exact false 60 t v, SubSpec.memRG p.decls exact true 60 t v with
        | some true, some true => '1' | some false, some false => '0' | _, _ => '?')
    let split := match compile p with
      | .ok env parsers => parsers.any fun e => !(RT.noSplitIntersection env e.2)
      | _ => false
    .list [.list (.atom "spec" :: p.exports.map fun e => .list [.atom e.1, .str (bits false e.2), .str (bits true e.2)]),
      .list (.atom "hyp-failed" :: ((if split then [Sexp.atom "NoSplitIntersection"] else []) ++
        (if Spec.noNumberKey p then [] else [Sexp.atom "NoNumberKey"])))]
  | _, _ => .list [.atom "spec-decode-error"]

end BeffVerif.Driver
