import BeffVerif.Driver.ProgOps
import BeffVerif.Model.SubSpec
import BeffVerif.Model.SemType
/-! Driver handler for `(sub <id> (<decl>*) <A> <B> "<src>")` (C05). -/
namespace BeffVerif.Driver
open BeffVerif

/-- second channel: the set-theoretic verdict (inclusion of exact values of A in structural B) with its witness -/
def subSpec (declsS : List Sexp) (aS bS : Sexp) : Sexp :=
  match declsS.mapM decDecl, decTy aS, decTy bS with
  | some decls, some a, some b =>
    let v := SubSpec.inclusion decls a b
    .list [.list [.atom "spec", .atom (if v.included then "yes" else "no"), .atom (if v.complete then "complete" else "incomplete"),
      match v.witness with
      | some w => encVal w
      | none => .atom "none"],
      .list (.atom "hyp-failed" :: (if SubSpec.noObjectUnion decls 100 a then [] else [Sexp.atom "NoObjectUnionOnLeft"]))]
  | _, _, _ => .list [.atom "spec-decode-error"]

end BeffVerif.Driver

namespace BeffVerif.Driver
open BeffVerif

/-- the model's answer: lower both types with the compiler model (shared definitions), convert them in ONE context
(`convert_conditional_type`), decide emptiness of the difference -/
def subOp (declsS : List Sexp) (aS bS : Sexp) : Sexp :=
  match declsS.mapM decDecl, decTy aS, decTy bS with
  | some decls, some a, some b =>
    match Lower.lower decls 200 [] [] a with
    | .ok ia defs =>
      match Lower.lower decls 200 [] defs b with
      | .ok ib defs' =>
        let named := Lower.namedOf defs'
        let run : Sem.SM Bool := do
          let sa ← Sem.convert named 100 [] ia
          let sb ← Sem.convert named 100 [] ib
          Sem.isSubtype 300 sa sb
        match run {} with
        | some (r, _) => .list [.atom "sub", .atom (if r then "yes" else "no")]
        | none => .list [.atom "sub", .atom "model-failed"]
      | .diag _ _ => .list [.atom "sub", .atom "diags"]
      | .nofuel => .atom "model-nofuel"
    | .diag _ _ => .list [.atom "sub", .atom "diags"]
    | .nofuel => .atom "model-nofuel"
  | _, _, _ => .list [.atom "model-decode-error"]

end BeffVerif.Driver
