import BeffVerif.Driver.Codec
import BeffVerif.Model.Schema
import BeffVerif.Model.JsonSchema
import BeffVerif.Model.RTPred
/-! Driver handler for `(schema-ctx <env> (<rt>*) <template> <container|none> ((name idx)*) (<call idx>*) <docs>)` (C02, C16). -/
namespace BeffVerif.Driver
open BeffVerif RT

def exportDefs (container : Option String) (c : SCtx) : JsVal :=
  match container with
  | none => .obj c.collected
  | some k => .obj [(k, .obj c.collected)]

/-- does a schema use `pattern` or `format` anywhere (a key of that name at any depth)? Those two keywords are parameters
of the Lean evaluator, so its verdicts on such schemas are not compared -/
def mentionsPF : Nat → JsVal → Bool
  | 0, _ => true
  | n+1, .obj kvs => kvs.any (fun p => p.1 == "pattern" || p.1 == "format" || mentionsPF n p.2)
  | n+1, .arr xs => xs.any (mentionsPF n)
  | _+1, _ => false

/-- the verdicts of the Lean JSON-Schema evaluator (`JS.valid`, the reference of Props/C02*.lean) on the request's
documents: the flat schema of parser 0, and its contextual schema with the definitions of a fresh context. `t` / `f`,
`-` where nothing is compared (printing threw, pattern / format, template not a JSON pointer), `?` out of fuel -/
def jsvRows (env : Env) (rts : List RT) (template : String) (overrides : List (String × RT)) (docs : List JsVal) : Sexp :=
  let bit (r : Option Bool) : String := match r with | some true => "t" | some false => "f" | none => "?"
  let P0 : JS.Params := ⟨[], fun _ => none, fun _ _ => false, fun _ _ => false⟩
  let rt0 := rts.headD .any
  let flatRow : String := match schema env ⟨false, "", []⟩ 300 rt0 none [] ⟨[], []⟩ with
    | .ok s _ => if mentionsPF 200 s then "-" else String.join (docs.map fun d => bit (JS.valid P0 400 s d))
    | _ => "-"
  let ctxRow : String := match schema env ⟨true, template, overrides⟩ 300 rt0 none [] ⟨[], []⟩ with
    | .ok s c =>
      if !template.startsWith "#/" || mentionsPF 200 s || mentionsPF 200 (.obj c.collected) then "-" else
      let P : JS.Params := ⟨c.collected, fun r => (c.collected.find? (fun p => getRef template p.1 == r)).map (·.1),
        fun _ _ => false, fun _ _ => false⟩
      String.join (docs.map fun d => bit (JS.valid P 400 s d))
    | _ => "-"
  .list [.atom "jsv", .str flatRow, .str ctxRow]

def schemaCtxOp (envS : Sexp) (rtsS : List Sexp) (template : String) (container : Option String)
    (ovS : List Sexp) (callsS : List Sexp) (docsS : List Sexp := []) : Sexp :=
  match decEnv envS, rtsS.mapM decRT, callsS.mapM Sexp.natOf with
  | some env, some rts, some calls =>
    let overrides : List (String × RT) := ovS.filterMap fun o => match o with
      | .list [.str n, i] => (i.natOf.bind fun k => rts[k]?).map fun t => (n, t)
      | _ => none
    let flat := rts.map fun rt =>
      match schema env ⟨false, "", []⟩ 300 rt none [] ⟨[], []⟩ with
      | .ok s _ => encVal s
      | .throw _ => .list [.atom "throw"]
      | .nofuel => .atom "model-nofuel"
    let o : SOpts := ⟨true, template, overrides⟩
    let (outs, _) := calls.foldl (fun (acc : List Sexp × SCtx) i =>
      match rts[i]? with
      | none => (acc.1 ++ [.atom "bad-call"], acc.2)
      | some rt =>
        match schema env o 300 rt none [] acc.2 with
        | .ok s c => (acc.1 ++ [.list [encVal s, encVal (exportDefs container c)]], c)
        -- an exception leaves the definitions completed so far; the in-progress marks are cleared (try/finally)
        | .throw c =>
          let c' : SCtx := { c with inProgress := [] }
          (acc.1 ++ [.list [.list [.atom "throw"], encVal (exportDefs container c')]], c')
        | .nofuel => (acc.1 ++ [.atom "model-nofuel"], acc.2)) ([], ⟨[], []⟩)
    .list [.atom "sc", .list (.atom "flat" :: flat), .list (.atom "calls" :: outs),
      jsvRows env rts template overrides (docsS.filterMap decVal)]
  | _, _, _ => .list [.atom "model-decode-error"]

/-- hypotheses violated by a schema request (second channel) -/
def schemaHyps (envS : Sexp) (rtsS : List Sexp) (template : String) (ovS : List Sexp) (callsS : List Sexp) : Sexp :=
  match decEnv envS, rtsS.mapM decRT, callsS.mapM Sexp.natOf with
  | some env, some rts, some calls =>
    let overrides : List (String × RT) := ovS.filterMap fun o => match o with
      | .list [.str n, i] => (i.natOf.bind fun k => rts[k]?).map fun t => (n, t)
      | _ => none
    let o : SOpts := ⟨true, template, overrides⟩
    let (anyThrow, _) := calls.foldl (fun (acc : Bool × SCtx) i =>
      match rts[i]? with
      | none => acc
      | some rt => match schema env o 300 rt none [] acc.2 with
        | .ok _ c => (acc.1, c)
        | .throw c => (true, { c with inProgress := [] })
        | .nofuel => acc) (false, ⟨[], []⟩)
    let rt0 := rts.headD .any
    .list (.atom "hyp-failed" ::
      ((if noRequiredUndefAccepting env rt0 then [] else [Sexp.atom "NoRequiredUndefinedAcceptingProp"]) ++
       (if intersectionsOfTypeofObject env rt0 then [] else [Sexp.atom "IntersectionsOfTypeofObject"]) ++
       (if noSplitIntersection env rt0 then [] else [Sexp.atom "NoSplitIntersection"]) ++
       (if noMultiValuedDiscriminator env rt0 then [] else [Sexp.atom "NoMultiValuedDiscriminator"]) ++
       (if noMixedIndexRT env rt0 then [] else [Sexp.atom "NoMixedIndexRT"]) ++
       (if noProtoNamedProps env rt0 then [] else [Sexp.atom "NoProtoNamedKeys"]) ++
       (if anyThrow then [Sexp.atom "NoThrowingCall"] else [])))
  | _, _, _ => .list [.atom "hyp-failed"]

end BeffVerif.Driver
