import BeffVerif.Driver.Codec
import BeffVerif.Model.TsCore
import BeffVerif.Model.Spec
import BeffVerif.Model.Describe
import BeffVerif.Model.Totality
/-! Driver handler for `(prog <id> <tscore-prog> <files> <values>)` (C01, C08, C15, C04). -/
namespace BeffVerif.Driver
open BeffVerif

partial def decTy : Sexp → Option Ty
  | .atom k => some (.kw k)
  | .list [.atom "lit", v] => do some (.lit (← decVal v))
  | .list [.atom "array", t] => do some (.array (← decTy t))
  | .list [.atom "arr2", t] => do some (.array (← decTy t))
  | .list [.atom "tuple", .list pre, .atom "none"] => do some (.tuple (← pre.mapM decTy) none)
  | .list [.atom "tuple", .list pre, r] => do some (.tuple (← pre.mapM decTy) (some (← decTy r)))
  | .list [.atom "obj", .list ms, ix] => do
    let members ← ms.mapM decMember
    let index ← match ix with
      | .atom "none" => some none
      | .list [k, v] => do some (some (← decTy k, ← decTy v))
      | _ => none
    some (.obj members index)
  | .list (.atom "union" :: ts) => do some (.union (← ts.mapM decTy))
  | .list (.atom "inter" :: ts) => do some (.inter (← ts.mapM decTy))
  | .list (.atom "ref" :: .str n :: args) => do some (.ref n (← args.mapM decTy))
  | .list (.atom "bi" :: .str n :: args) => do some (.bi n (← args.mapM decTy))
  | .list (.atom "tpl" :: items) => do some (.tpl (← items.mapM decTplItem))
  | .list [.atom "paren", t] => do some (.paren (← decTy t))
  | .list [.atom "readonly", t] => do some (.readonly (← decTy t))
  | _ => none
where
  decMember : Sexp → Option (String × Bool × Ty)
    | .list [.str k, .atom o, t] => do some (k, o == "true", ← decTy t)
    | _ => none

def decDecl : Sexp → Option Decl
  | .list [.atom "alias", .str n, .list ps, body] => do some (.alias n (← strs ps) (← decTy body))
  | .list [.atom "iface", .str n, .list ps, .list ext, .list ms] => do
    some (.iface n (← strs ps) (← ext.mapM decTy) (← ms.mapM decTy.decMember))
  | _ => none

def decProg : Sexp → Option Prog
  | .list [.atom "prog", .list ds, .list es] => do
    let decls ← ds.mapM decDecl
    let exps ← es.mapM fun e => match e with
      | .list [.str n, t] => do some (n, ← decTy t)
      | _ => none
    some ⟨decls, exps⟩
  | _ => none

def bitsOf (env : Env) (rt : RT) (vals : List JsVal) : String :=
  String.ofList (vals.map fun v => match RT.validate env false 400 rt v with
    | .ok true => '1' | .ok false => '0' | .throw _ => 'T' | .nofuel => 'F')

def progOp (progS : Sexp) (valsS : List Sexp) : Sexp :=
  match decProg progS, valsS.mapM decVal with
  | some p, some vals =>
    match compile p with
    | .ok env parsers => .list (.atom "bits" :: parsers.map fun e => .list [.atom e.1, .str (bitsOf env e.2 vals)])
    | .diags _ => .list [.atom "diags"]
    | .nofuel => .atom "model-nofuel"
  | _, _ => .list [.atom "model-decode-error"]

def bitsOfStrict (env : Env) (rt : RT) (strict : Bool) (vals : List JsVal) : String :=
  String.ofList (vals.map fun v => match RT.validate env strict 400 rt v with
    | .ok true => '1' | .ok false => '0' | .throw _ => 'T' | .nofuel => 'F')

/-- `(strict id prog files values)`: default-mode and strict-mode acceptance of the compiled validators (C11) -/
def strictOp (progS : Sexp) (valsS : List Sexp) : Sexp :=
  match decProg progS, valsS.mapM decVal with
  | some p, some vals =>
    match compile p with
    | .ok env parsers => .list (.atom "bits" :: parsers.map fun e =>
        .list [.atom e.1, .str (bitsOfStrict env e.2 false vals), .str (bitsOfStrict env e.2 true vals)])
    | .diags _ => .list [.atom "diags"]
    | .nofuel => .atom "model-nofuel"
  | _, _ => .list [.atom "model-decode-error"]

def specBits (decls : List Decl) (t : Ty) (vals : List JsVal) : String :=
  String.ofList (vals.map fun v => match Spec.mem decls 200 t v with
    | some true => '1' | some false => '0' | none => '?')

/-- second channel: the declarative reference ⟦·⟧ᵀˢ on the same values, and the violated hypotheses -/
def progSpec (progS : Sexp) (valsS : List Sexp) : Sexp :=
  match decProg progS, valsS.mapM decVal with
  | some p, some vals =>
    .list [.list (.atom "spec" :: p.exports.map fun e => .list [.atom e.1, .str (specBits p.decls e.2 vals)]),
      .list (.atom "hyp-failed" ::
        ((if Spec.noNumberKey p then [] else [Sexp.atom "NoNumberKey"]) ++
         (if Spec.intersectionsOfObjects p then [] else [Sexp.atom "IntersectionsOfObjects"])))]
  | _, _ => .list [.atom "spec-decode-error"]

/-- conditional types, indexed access, `keyof` and `Exclude` are terms of the semantic requests (`sem`), not of the compiler model of
whole programs: a rewrite request that uses them is not tied (the oracle on the two real compilations still applies) -/
partial def mentionsSemOperator : Sexp → Bool
  | .list (.atom "bi" :: .str "Exclude" :: _) => true
  | .list (.atom h :: rest) => ["cond", "idx", "keyof"].contains h || rest.any mentionsSemOperator
  | .list xs => xs.any mentionsSemOperator
  | _ => false

/-- `(rewrite id p files values p' files' script)`: model bits of both programs -/
def rewriteOp (pS qS : Sexp) (valsS : List Sexp) : Sexp :=
  if mentionsSemOperator pS || mentionsSemOperator qS then .atom "untied" else
  .list [.atom "pair", progOp pS valsS, progOp qS valsS]

def rewriteHyps (pS qS : Sexp) (script : List Sexp) : Sexp :=
  match decProg pS, decProg qS with
  | some p, some q =>
    let naming := script.any fun k => match k with | .atom s => Spec.namingRewrites.contains s | _ => false
    .list (.atom "hyp-failed" ::
      ((if naming && (Spec.hasUnion p || Spec.hasUnion q) then [Sexp.atom "NoNamingNearUnion"] else []) ++
       (if naming && (Spec.hasRecursion p || Spec.hasRecursion q) then [Sexp.atom "NoNamingWithRecursion"] else []) ++
       (if naming && (Spec.hasRefInInter p || Spec.hasRefInInter q) then [Sexp.atom "NoNamedIntersectionMember"] else []) ++
       (if naming && (Spec.hasRefUnderSharedKey p || Spec.hasRefUnderSharedKey q) then [Sexp.atom "NoNamedSharedKeyInIntersection"] else [])))
  | _, _ => .list [.atom "hyp-failed"]

/-- custom formats are outside the compiler model -/
partial def mentionsFormat : Sexp → Bool
  | .list (.atom "bi" :: .str n :: rest) =>
    ["StringFormat", "StringFormatExtends", "NumberFormat", "NumberFormatExtends"].contains n || rest.any mentionsFormat
  | .list xs => xs.any mentionsFormat
  | _ => false

/-- `(describe id prog files values)`: the text `describe()` prints for the single export -/
def describeOp (progS : Sexp) : Sexp :=
  if mentionsFormat progS then .atom "untied" else
  match decProg progS with
  | some p =>
    match compile p with
    -- (the first export is the one printed; further exports only share the module)
    | .ok env ((name, rt) :: _) =>
      -- the printed names of generic instances (`Base_Arg` / `Base_instance_N`, lib.rs:430-466) are not modelled
      if env.any (fun e => (e.1.splitOn "<").length > 1) then .atom "untied"
      else .list [.atom "described", .str (RT.describe env name rt)]
    | .ok _ _ => .list [.atom "model-error"]
    | .diags _ => .list [.atom "diags"]
    | .nofuel => .atom "model-nofuel"
  | none => .list [.atom "model-decode-error"]

def describeHyps (progS : Sexp) : Sexp :=
  match decProg progS with
  | some p =>
    .list (.atom "hyp-failed" ::
      ((if Spec.hasUnion p then [Sexp.atom "NoNamingNearUnion"] else []) ++
       (if Spec.hasRecursion p then [Sexp.atom "NoNamingWithRecursion"] else []) ++
       (if Spec.hasRefInInter p then [Sexp.atom "NoNamedIntersectionMember"] else []) ++
       (if Spec.hasRefUnderSharedKey p then [Sexp.atom "NoNamedSharedKeyInIntersection"] else []) ++
       (if Spec.noTemplateAlternation p then [] else [Sexp.atom "NoTemplateAlternation"]) ++
       (if Spec.noMixedIndexObject p then [] else [Sexp.atom "NoMixedIndexObject"])))
  | none => .list [.atom "hyp-failed"]

/-- `(total id prog|none files values)`: outcome class predicted by the compiler model -/
def totalOp (progS : Sexp) : Sexp :=
  match progS with
  | .atom "none" => .atom "untied"
  | _ =>
    match decProg progS with
    | some p =>
      match compile p with
      | .ok _ _ => .list [.atom "outcome", .atom "ok"]
      | .diags _ => .list [.atom "outcome", .atom "diags"]
      | .nofuel => .atom "model-nofuel"
    | none => .list [.atom "model-decode-error"]

/-- `(loc "<src>" lo hi)`: line/column of a span (`span_to_loc`) -/
def locOp (src : String) (lo hi : Nat) : Sexp :=
  let ((l0, c0), (l1, c1)) := Totality.spanToLoc src lo hi
  .list [.atom "loc", .atom (toString l0), .atom (toString c0), .atom (toString l1), .atom (toString c1)]

end BeffVerif.Driver
