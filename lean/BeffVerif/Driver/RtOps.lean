import BeffVerif.Driver.Codec
import BeffVerif.Model.RTPred
/-! Driver handler for `(rt <env> <rt> <value> <strict>)` (C03, C11, C12, RT level of C01). -/
namespace BeffVerif.Driver
open BeffVerif RT

def rtFuel : Nat := 400

/-- names of the `…_partial` hypotheses this request violates (DESIGN.md §6 classification) -/
def rtHyps (envS rtS valS : Sexp) : Sexp :=
  match decEnv envS, decRT rtS, decVal valS with
  | some env, some rt, some x =>
    .list (.atom "hyp-failed" ::
      ((if noSplitIntersection env rt then [] else [Sexp.atom "NoSplitIntersection"]) ++
       (if noProtoNamedProps env rt && noProtoNamedKeys x then [] else [Sexp.atom "NoProtoNamedKeys"]) ++
       (if intersectionsOfObjects env rt then [] else [Sexp.atom "IntersectionsOfObjects"]) ++
       (if noAccessorNamedProps env rt then [] else [Sexp.atom "NoAccessorNamedProps"]) ++
       (if noLaxObjectBesideBuiltin env rt x then [] else [Sexp.atom "NoLaxObjectBesideBuiltin"]) ++
       (if noEmptyIntersection env rt then [] else [Sexp.atom "NoEmptyIntersection"])))
  | _, _, _ => .list [.atom "hyp-failed"]

def rtOp (envS rtS valS : Sexp) (strict : Bool) : Sexp :=
  match decEnv envS, decRT rtS, decVal valS with
  | some env, some rt, some x =>
    let v := validate env strict rtFuel rt x
    let sp (sorted : Bool) : Sexp :=
      encRes (fun (r : SafeParse) => match r with
        | .success d => .list [.atom "ok", encVal d]
        | .failure es => .list (.atom "errors" :: es.map encErr)) (safeParse env ⟨strict, sorted⟩ rtFuel rt x)
    let msg : Sexp := match parse env ⟨strict, false⟩ rtFuel "T" rt x with
      | .ok (.value _) => .list [.atom "returned"]
      | .ok (.failed m) => .list [.atom "fail", .str m]
      | .throw c => .list [.atom "throw", .str (if c.startsWith "Error" then "Error" else c)]
      | .nofuel => .atom "model-nofuel"
    .list [.atom "res", .list [.atom "v", encRes Sexp.ofBool v], .list [.atom "sp-in", sp false],
      .list [.atom "sp-sorted", sp true], .list [.atom "msg", msg]]
  | _, _, _ => .list [.atom "model-decode-error"]

end BeffVerif.Driver
