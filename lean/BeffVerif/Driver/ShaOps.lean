import BeffVerif.Sexp
import BeffVerif.Model.Sha256
/-! Driver handlers for `(sha-bytes x<hex>…)` and `(sha-toks tok…)` (C13). -/
namespace BeffVerif.Driver
open BeffVerif Sha

def parseHexBytes (s : String) : Option Bytes :=
  let rec go : List Char → List UInt8 → Option Bytes
    | [], acc => some acc.reverse
    | a :: b :: rest, acc =>
      match Sexp.hexVal a, Sexp.hexVal b with
      | some x, some y => go rest (UInt8.ofNat (x * 16 + y) :: acc)
      | _, _ => none
    | _, _ => none
  go (s.toList.drop 1) []

def shaBytes (chunks : List Sexp) : Sexp :=
  let cs := chunks.mapM fun c => match c with
    | .atom s => parseHexBytes s
    | _ => none
  match cs with
  | none => .list [.atom "bad-chunks"]
  | some cs =>
    match Writer.init.updateChunks cs with
    | none => .list [.atom "throw"]
    | some w => match w.digest with
      | some st => .list [.atom "digest", .str st.hex]
      | none => .list [.atom "throw"]

def parseTok : Sexp → Option Tok
  | .list [.atom "tag", .str s] => some (.tag s)
  | .list [.atom "str", .str s] => some (.str s)
  | .list [.atom "num", .str s] => some (.num s)
  | .list [.atom "bool", .atom "true"] => some (.bool true)
  | .list [.atom "bool", .atom "false"] => some (.bool false)
  | .atom "null" => some .null
  | _ => none

def shaToks (toks : List Sexp) : Sexp :=
  match toks.mapM parseTok with
  | none => .list [.atom "bad-toks"]
  | some ts =>
    match Writer.init.updateChunks (ts.map Tok.chunks).flatten with
    | none => .list [.atom "throw"]
    | some w =>
      match w.digest with
      | none => .list [.atom "throw"]
      | some st =>
        -- a write after digestHex: the finished writer rejects it
        let after := match ({ w with finished := true } : Writer).updateBytes [6] with
          | none => "throws" | some _ => "accepts"
        .list [.atom "digest", .str st.hex, .atom after]

end BeffVerif.Driver
