import BeffVerif.Props.C11Frag
import BeffVerif.Model.Parse
import BeffVerif.Lemmas.Sort
/-!
# C03 — the parsed value consists only of declared parts and is accepted again (structural fragment)

"On success the returned data is itself accepted by the same validator under the same options, consists only of declared
parts of the input". `parse_strict`: for every type of the structural fragment WITHOUT unions and intersections — leaves
(keyword types, literals, formats, Date, bigint, typed arrays), arrays, tuples with rest, Sets, Maps (keys are parsed as
well), optional wrappers, descriptions, closed object types with distinct "safe" keys, references to named types of the
fragment (recursion allowed: the induction is on the validator's fuel) — every environment, EVERY value and every fuel: if
the validator accepts `v` and the parse step (either `objectKeyOrder`) returns `d`, then the validator accepts `d` again, in
default mode (`parse_revalidates_frag`) and with `disallowExtraProperties` (`parse_only_declared_frag`: no undeclared key
survives at any depth). With unions the statement is false as it stands (the deep merge of several matching branches
carries the keys of all of them; D28, D33), with intersections too (D29, D32): both are outside the fragment, and so are
keys whose reading depends on the kind of object that holds them (members of Object.prototype, `length`, `size`, array
indices: a Set has a `size`, the parsed `{}` has none).

The object case is an invariant of the fold that builds the result key by key (`obj_fold`): every entry of the
accumulator is the parsed value of a declared own property, every declared own property has an entry; a declared property
that is not an own key of the input reads `undefined` on both sides (`getOwn_none_of_safe`, `getInherited_safe`).
-/
namespace BeffVerif.C03S
open BeffVerif RT JsVal C02F C11F

/-- a key whose reading does not depend on what kind of object holds it: not a member of Object.prototype, not an accessor of
the built-ins (`length`, `size`), not an array index -/
def safeKey (k : String) : Bool := !protoNamedKey k && k != "length" && k != "size" && (arrayIndex? k).isNone

mutual
/-- **the structural fragment without unions**: leaves, arrays, tuples with rest, Sets, Maps, optional wrappers, descriptions,
references (to anything in the environment: recursion allowed), closed object types with distinct safe keys -/
def pfrag : RT → Bool
  | .described _ t => pfrag t
  | .typeof _ | .any | .nullish _ | .const _ | .consts _ | .regex _ _ | .date | .bigint | .typed _ | .strfmt _ | .numfmt _ => true
  | .array t | .set t | .optional t => pfrag t
  | .map k v => pfrag k && pfrag v
  | .tuple pre rest => pfragL pre && (match rest with | some r => pfrag r | none => true)
  | .object props ix => ix.isEmpty && nodupB (props.map (·.1)) && pfragP props
  | .ref _ => true
  | _ => false
def pfragL : List RT → Bool
  | [] => true
  | t :: ts => pfrag t && pfragL ts
def pfragP : List (String × RT) → Bool
  | [] => true
  | (k, t) :: ps => safeKey k && pfrag t && pfragP ps
end

theorem pfragL_mem {ts : List RT} (h : pfragL ts = true) : ∀ t ∈ ts, pfrag t = true := by
  induction ts with
  | nil => intro t ht; cases ht
  | cons x xs ih =>
    simp only [pfragL, Bool.and_eq_true] at h
    intro t ht
    rcases List.mem_cons.1 ht with e | ht
    · exact e ▸ h.1
    · exact ih h.2 t ht

theorem pfragP_mem {ps : List (String × RT)} (h : pfragP ps = true) : ∀ p ∈ ps, safeKey p.1 = true ∧ pfrag p.2 = true := by
  induction ps with
  | nil => intro p hp; cases hp
  | cons x xs ih =>
    obtain ⟨k, t⟩ := x
    simp only [pfragP, Bool.and_eq_true] at h
    intro p hp
    rcases List.mem_cons.1 hp with e | hp
    · subst e; exact ⟨h.1.1, h.1.2⟩
    · exact ih h.2 p hp

/-- elementwise: what `mapM'` returns, validated element by element -/
theorem allShort_of_mapM' {α β : Type} (f : α → Res β) (g : β → Res Bool) :
    ∀ (xs : List α) (ys : List β), (∀ x ∈ xs, ∀ y, f x = .ok y → g y = .ok true) → mapM' f xs = .ok ys →
      allShort g ys = .ok true
  | [], ys, _, hm => by simp only [mapM'] at hm; cases hm; rfl
  | x :: xs, ys, h, hm => by
    simp only [mapM'] at hm
    cases hx : f x with
    | ok y =>
      rw [hx] at hm
      cases hxs : mapM' f xs with
      | ok ys' =>
        rw [hxs] at hm
        cases hm
        simp only [allShort, h x List.mem_cons_self y hx]
        exact allShort_of_mapM' f g xs ys' (fun x' hx' => h x' (List.mem_cons_of_mem _ hx')) hxs
      | throw c => rw [hxs] at hm; cases hm
      | nofuel => rw [hxs] at hm; cases hm
    | throw c => rw [hx] at hm; cases hm
    | nofuel => rw [hx] at hm; cases hm

theorem mapM'_length {α β : Type} (f : α → Res β) : ∀ (xs : List α) (ys : List β), mapM' f xs = .ok ys → ys.length = xs.length
  | [], ys, hm => by simp only [mapM'] at hm; cases hm; rfl
  | x :: xs, ys, hm => by
    simp only [mapM'] at hm
    cases hx : f x with
    | ok y =>
      rw [hx] at hm
      cases hxs : mapM' f xs with
      | ok ys' => rw [hxs] at hm; cases hm; simp [mapM'_length f xs ys' hxs]
      | throw c => rw [hxs] at hm; cases hm
      | nofuel => rw [hxs] at hm; cases hm
    | throw c => rw [hx] at hm; cases hm
    | nofuel => rw [hx] at hm; cases hm

theorem mapM'_get {α β : Type} (f : α → Res β) : ∀ (xs : List α) (ys : List β), mapM' f xs = .ok ys →
    ∀ i (h : i < xs.length), ∃ y, ys[i]? = some y ∧ f xs[i] = .ok y
  | [], _, _, i, h => by cases h
  | x :: xs, ys, hm, i, h => by
    simp only [mapM'] at hm
    cases hx : f x with
    | ok y =>
      rw [hx] at hm
      cases hxs : mapM' f xs with
      | ok ys' =>
        rw [hxs] at hm; cases hm
        cases i with
        | zero => exact ⟨y, rfl, hx⟩
        | succ j =>
          obtain ⟨y', h1, h2⟩ := mapM'_get f xs ys' hxs j (by simpa using h)
          exact ⟨y', by simpa using h1, by simpa using h2⟩
      | throw c => rw [hxs] at hm; cases hm
      | nofuel => rw [hxs] at hm; cases hm
    | throw c => rw [hx] at hm; cases hm
    | nofuel => rw [hx] at hm; cases hm

/-- a value that is not an object has no key to object to: strict and default mode agree on it, for every type -/
theorem prim_strict_eq (env : Env) : ∀ (n : Nat) (t : RT) (x : JsVal), x.isObjectLike = false →
    validate env true n t x = validate env false n t x
  | 0, _, _, _ => rfl
  | n+1, t, x, hx => by
    have ih := prim_strict_eq env n
    have hnarr : ∀ items, x ≠ .arr items := by intro items e; subst e; simp [isObjectLike, typeOf] at hx
    have hnmap : ∀ es, x ≠ .map es := by intro es e; subst e; simp [isObjectLike, typeOf] at hx
    have hnset : ∀ xs, x ≠ .set xs := by intro xs e; subst e; simp [isObjectLike, typeOf] at hx
    cases t with
    | tuple pre rest =>
      cases x <;> first | rfl | (exfalso; exact hnarr _ rfl)
    | array t =>
      cases x <;> first | rfl | (exfalso; exact hnarr _ rfl)
    | map k v =>
      cases x <;> first | rfl | (exfalso; exact hnmap _ rfl)
    | set t =>
      cases x <;> first | rfl | (exfalso; exact hnset _ rfl)
    | allOf ts =>
      simp only [validate]
      apply allShort_congr
      intro t _
      split
      · exact ih t x hx
      · rfl
    | anyOf ts =>
      simp only [validate]
      exact anyShort_congr fun t _ => ih t x hx
    | disc ss key mp sm =>
      simp only [validate, hx, Bool.not_false, if_true]
    | optional t =>
      simp only [validate]
      split
      · rfl
      · exact ih t x hx
    | object props ix =>
      simp only [validate, hx, Bool.false_and, Bool.not_false, if_true]
    | ref name =>
      simp only [validate]
      split
      · exact ih _ x hx
      · rfl
    | described d t => simp only [validate]; exact ih t x hx
    | _ => rfl


theorem lookupProp_isSome_of_mem {acc : List (String × JsVal)} {k : String} (h : k ∈ acc.map (·.1)) :
    (lookupProp acc k).isSome = true := by
  unfold lookupProp
  induction acc with
  | nil => cases h
  | cons p ps ih =>
    simp only [List.find?_cons]
    by_cases e : (p.1 == k) = true
    · simp [e]
    · simp only [e]
      simp only [List.map_cons, List.mem_cons] at h
      rcases h with h | h
      · exact absurd (by simp [h]) e
      · exact ih h

theorem lookupProp'_mem {props : List (String × RT)} {k : String} {t : RT} (h : parseAV.lookupProp' props k = some t) :
    k ∈ props.map (·.1) := by
  unfold parseAV.lookupProp' at h
  cases hf : props.find? (fun p => p.1 == k) with
  | none => rw [hf] at h; cases h
  | some p =>
    have hm := List.mem_of_find?_eq_some hf
    have hk := List.find?_some hf
    simp only [beq_iff_eq] at hk
    exact List.mem_map.2 ⟨p, hm, hk⟩

theorem lookupProp'_of_nodup : ∀ {props : List (String × RT)}, nodupB (props.map (·.1)) = true →
    ∀ p ∈ props, parseAV.lookupProp' props p.1 = some p.2
  | [], _, p, hp => by cases hp
  | q :: qs, hn, p, hp => by
    simp only [List.map_cons, nodupB, Bool.and_eq_true, Bool.not_eq_true'] at hn
    unfold parseAV.lookupProp'
    simp only [List.find?_cons]
    rcases List.mem_cons.1 hp with e | hp'
    · subst e; simp
    · have hne : (q.1 == p.1) = false := by
        cases hq : (q.1 == p.1) with
        | false => rfl
        | true =>
          exfalso
          have : q.1 = p.1 := by simpa using hq
          have hc : (qs.map (·.1)).contains q.1 = true := by
            rw [this]; simp only [List.contains_eq_mem, List.mem_map, decide_eq_true_eq]; exact ⟨p, hp', rfl⟩
          rw [hn.1] at hc; cases hc
      simp only [hne]
      have := lookupProp'_of_nodup hn.2 p hp'
      unfold parseAV.lookupProp' at this
      exact this

/-- what the object branch of the parse step builds, key by key -/
theorem obj_fold (props : List (String × RT)) (pf : RT → JsVal → Res JsVal) (v : JsVal) (allKeys : List String)
    (step : List (String × JsVal) → String → Res (List (String × JsVal)))
    (hstep : ∀ acc k acc', step acc k = .ok acc' →
      (∃ t y, parseAV.lookupProp' props k = some t ∧ pf t (v.getProp k) = .ok y ∧ acc' = setProp acc k y) ∨
      (parseAV.lookupProp' props k = none ∧ acc' = acc)) :
    ∀ (ks : List String) (acc0 acc : List (String × JsVal)), (∀ k ∈ ks, k ∈ allKeys) →
      (∀ k y, lookupProp acc0 k = some y → k ∈ allKeys ∧ ∃ t, parseAV.lookupProp' props k = some t ∧ pf t (v.getProp k) = .ok y) →
      foldRes step acc0 ks = .ok acc →
      (∀ k y, lookupProp acc k = some y → k ∈ allKeys ∧ ∃ t, parseAV.lookupProp' props k = some t ∧ pf t (v.getProp k) = .ok y) ∧
      (∀ k, (lookupProp acc0 k).isSome = true → (lookupProp acc k).isSome = true) ∧
      (∀ k ∈ ks, (parseAV.lookupProp' props k).isSome = true → (lookupProp acc k).isSome = true)
  | [], acc0, acc, _, hinv, hf => by
    simp only [foldRes] at hf
    cases hf
    exact ⟨hinv, fun _ h => h, fun k hk => by cases hk⟩
  | k :: ks, acc0, acc, hks, hinv, hf => by
    simp only [foldRes] at hf
    cases hs : step acc0 k with
    | ok acc1 =>
      rw [hs] at hf
      simp only at hf
      have hks' : ∀ k' ∈ ks, k' ∈ allKeys := fun k' h => hks k' (List.mem_cons_of_mem _ h)
      rcases hstep acc0 k acc1 hs with ⟨t, y, hl, hpy, e⟩ | ⟨hl, e⟩
      · subst e
        have hinv1 : ∀ k' y', lookupProp (setProp acc0 k y) k' = some y' →
            k' ∈ allKeys ∧ ∃ t, parseAV.lookupProp' props k' = some t ∧ pf t (v.getProp k') = .ok y' := by
          intro k' y' h
          rw [lookup_setProp] at h
          by_cases e : k' = k
          · subst e
            simp only [if_true, Option.some.injEq] at h
            subst h
            exact ⟨hks _ List.mem_cons_self, t, hl, hpy⟩
          · simp only [e, if_false] at h
            exact hinv k' y' h
        obtain ⟨h1, h2, h3⟩ := obj_fold props pf v allKeys step hstep ks _ acc hks' hinv1 hf
        refine ⟨h1, ?_, ?_⟩
        · intro k' hk'
          apply h2
          rw [lookup_setProp]
          by_cases e : k' = k
          · simp [e]
          · simp only [e, if_false]; exact hk'
        · intro k' hk' hd
          rcases List.mem_cons.1 hk' with e | hk''
          · subst e
            apply h2
            rw [lookup_setProp]; simp
          · exact h3 k' hk'' hd
      · subst e
        obtain ⟨h1, h2, h3⟩ := obj_fold props pf v allKeys step hstep ks _ acc hks' hinv hf
        refine ⟨h1, h2, ?_⟩
        intro k' hk' hd
        rcases List.mem_cons.1 hk' with e | hk''
        · subst e
          rw [hl] at hd; cases hd
        · exact h3 k' hk'' hd
    | throw c => rw [hs] at hf; cases hf
    | nofuel => rw [hs] at hf; cases hf

/-- the same with the fold first (so that the step function is read off the hypothesis) -/
theorem obj_fold' (props : List (String × RT)) (pf : RT → JsVal → Res JsVal) (v : JsVal)
    (step : List (String × JsVal) → String → Res (List (String × JsVal))) (acc : List (String × JsVal))
    (hf : foldRes step [] v.ownKeys = .ok acc)
    (hstep : ∀ acc k acc', step acc k = .ok acc' →
      (∃ t y, parseAV.lookupProp' props k = some t ∧ pf t (v.getProp k) = .ok y ∧ acc' = setProp acc k y) ∨
      (parseAV.lookupProp' props k = none ∧ acc' = acc)) :
    (∀ k y, lookupProp acc k = some y → k ∈ v.ownKeys ∧ ∃ t, parseAV.lookupProp' props k = some t ∧ pf t (v.getProp k) = .ok y) ∧
    (∀ k ∈ v.ownKeys, (parseAV.lookupProp' props k).isSome = true → (lookupProp acc k).isSome = true) := by
  obtain ⟨h1, _, h3⟩ := obj_fold props pf v v.ownKeys step hstep v.ownKeys [] acc (fun _ h => h)
    (fun k y h => by simp [lookupProp] at h) hf
  exact ⟨h1, h3⟩

/-- the fold of the `objectKeyOrder: "sorted"` branch: over the declared keys, own properties only -/
theorem obj_fold_sorted (props : List (String × RT)) (pf : RT → JsVal → Res JsVal) (v : JsVal)
    (step : List (String × JsVal) → String → Res (List (String × JsVal)))
    (hstep : ∀ acc k acc', step acc k = .ok acc' →
      (∃ t y, v.hasOwn k = true ∧ parseAV.lookupProp' props k = some t ∧ pf t (v.getProp k) = .ok y ∧ acc' = setProp acc k y) ∨
      ((v.hasOwn k = false ∨ parseAV.lookupProp' props k = none) ∧ acc' = acc)) :
    ∀ (ks : List String) (acc0 acc : List (String × JsVal)),
      (∀ k y, lookupProp acc0 k = some y → v.hasOwn k = true ∧ ∃ t, parseAV.lookupProp' props k = some t ∧ pf t (v.getProp k) = .ok y) →
      foldRes step acc0 ks = .ok acc →
      (∀ k y, lookupProp acc k = some y → v.hasOwn k = true ∧ ∃ t, parseAV.lookupProp' props k = some t ∧ pf t (v.getProp k) = .ok y) ∧
      (∀ k, (lookupProp acc0 k).isSome = true → (lookupProp acc k).isSome = true) ∧
      (∀ k ∈ ks, v.hasOwn k = true → (parseAV.lookupProp' props k).isSome = true → (lookupProp acc k).isSome = true)
  | [], acc0, acc, hinv, hf => by
    simp only [foldRes] at hf
    cases hf
    exact ⟨hinv, fun _ h => h, fun k hk => by cases hk⟩
  | k :: ks, acc0, acc, hinv, hf => by
    simp only [foldRes] at hf
    cases hs : step acc0 k with
    | ok acc1 =>
      rw [hs] at hf
      simp only at hf
      rcases hstep acc0 k acc1 hs with ⟨t, y, how, hl, hpy, e⟩ | ⟨hno, e⟩
      · subst e
        have hinv1 : ∀ k' y', lookupProp (setProp acc0 k y) k' = some y' →
            v.hasOwn k' = true ∧ ∃ t, parseAV.lookupProp' props k' = some t ∧ pf t (v.getProp k') = .ok y' := by
          intro k' y' h
          rw [lookup_setProp] at h
          by_cases e : k' = k
          · subst e
            simp only [if_true, Option.some.injEq] at h
            subst h
            exact ⟨how, t, hl, hpy⟩
          · simp only [e, if_false] at h
            exact hinv k' y' h
        obtain ⟨h1, h2, h3⟩ := obj_fold_sorted props pf v step hstep ks _ acc hinv1 hf
        refine ⟨h1, ?_, ?_⟩
        · intro k' hk'
          apply h2
          rw [lookup_setProp]
          by_cases e : k' = k
          · simp [e]
          · simp only [e, if_false]; exact hk'
        · intro k' hk' ho hd
          rcases List.mem_cons.1 hk' with e | hk''
          · subst e
            apply h2
            rw [lookup_setProp]; simp
          · exact h3 k' hk'' ho hd
      · subst e
        obtain ⟨h1, h2, h3⟩ := obj_fold_sorted props pf v step hstep ks _ acc hinv hf
        refine ⟨h1, h2, ?_⟩
        intro k' hk' ho hd
        rcases List.mem_cons.1 hk' with e | hk''
        · subst e
          rcases hno with hno | hno
          · rw [hno] at ho; cases ho
          · rw [hno] at hd; cases hd
        · exact h3 k' hk'' ho hd
    | throw c => rw [hs] at hf; cases hf
    | nofuel => rw [hs] at hf; cases hf

theorem getOwn_none_of_safe (v : JsVal) (k : String) (hs : safeKey k = true) (hobj : (v.isObjectLike && !v.isArray) = true)
    (hk : k ∉ v.ownKeys) : getOwn? v k = none := by
  simp only [safeKey, Bool.and_eq_true, Bool.not_eq_true', bne_iff_ne, ne_eq, Option.isNone_iff_eq_none] at hs
  obtain ⟨⟨⟨_, hlen⟩, _⟩, hidx⟩ := hs
  cases v with
  | obj ps =>
    simp only [getOwn?]
    cases hl : lookupProp ps k with
    | none => rfl
    | some y =>
      exfalso; apply hk
      simp only [ownKeys]
      unfold lookupProp at hl
      cases hf : ps.find? (fun p => p.1 == k) with
      | none => rw [hf] at hl; cases hl
      | some p =>
        have hm := List.mem_of_find?_eq_some hf
        have hkk := List.find?_some hf
        simp only [beq_iff_eq] at hkk
        exact List.mem_map.2 ⟨p, hm, hkk⟩
  | arr items => simp [isArray] at hobj
  | typed c items => simp only [getOwn?, hidx]
  | protoObj s =>
    by_cases e : s = "Array"
    · subst e; simp [isArray] at hobj
    · unfold getOwn?
      split <;> simp_all
  | _ => simp [getOwn?]

theorem getInherited_safe (v : JsVal) (k : String) (hs : safeKey k = true) : getInherited v k = .undef := by
  simp only [safeKey, Bool.and_eq_true, Bool.not_eq_true', bne_iff_ne, ne_eq, protoNamedKey, Bool.or_eq_false_iff, beq_eq_false_iff_ne] at hs
  obtain ⟨⟨⟨⟨hp1, hp2⟩, hlen⟩, hsize⟩, _⟩ := hs
  unfold getInherited
  simp only [hp2, beq_eq_false_iff_ne.2 hp1, Bool.false_eq_true, if_false]
  split <;> simp_all

theorem res_ok_inj {α : Type} {a b : α} (h : (Res.ok a : Res α) = .ok b) : a = b := by cases h; rfl

/-- **Parsed data consists only of declared parts and is accepted again** (structural fragment, both key orders): whatever
the value, if the validator accepts it and the parse step returns `d`, the same validator accepts `d` — in default mode
(`s = false`: re-validation) and in STRICT mode (`s = true`: `d` has no undeclared key at any depth, Map keys included) -/
theorem parse_strict (env : Env) (henv : ∀ name t, env.lookup name = some t → pfrag t = true) (s srt : Bool) :
    ∀ (n : Nat) (t : RT) (v d : JsVal), pfrag t = true → validate env false n t v = .ok true →
      parseAV env ⟨false, srt⟩ n t v = .ok d → validate env s n t d = .ok true
  | 0, _, _, _, _, hv, _ => by cases hv
  | n+1, t, v, d, hf, hv, hp => by
    have ih := parse_strict env henv s srt n
    cases t with
    | described ds t =>
      simp only [pfrag] at hf
      simp only [validate] at hv ⊢
      simp only [parseAV] at hp
      exact ih t v d hf hv hp
    | optional t =>
      simp only [pfrag] at hf
      simp only [validate] at hv ⊢
      simp only [parseAV] at hp
      by_cases hn : v.isNullish = true
      · simp only [hn, if_true] at hp
        cases hp
        simp [hn]
      · simp only [hn, Bool.false_eq_true, if_false] at hp hv
        have hd := ih t v d hf hv hp
        split
        · rfl
        · exact hd
    | ref name =>
      simp only [validate] at hv ⊢
      simp only [parseAV] at hp
      cases hl : env.lookup name with
      | none => rw [hl] at hv; cases hv
      | some t' =>
        rw [hl] at hv hp
        simp only
        exact ih t' v d (henv name t' hl) hv hp
    | array t =>
      simp only [pfrag] at hf
      simp only [validate] at hv
      simp only [parseAV] at hp
      cases v with
      | arr items =>
        simp only at hv hp
        cases hm : mapM' (fun x => parseAV env ⟨false, srt⟩ n t x) items with
        | ok rs =>
          rw [hm] at hp
          cases hp
          simp only [validate]
          exact allShort_of_mapM' _ _ items rs (fun x hx y hy => ih t x y hf (allShort_true hv x hx) hy) hm
        | throw c => rw [hm] at hp; cases hp
        | nofuel => rw [hm] at hp; cases hp
      | _ => cases hv
    | set t =>
      simp only [pfrag] at hf
      simp only [validate] at hv
      simp only [parseAV] at hp
      cases v with
      | set items =>
        simp only at hv hp
        cases hm : mapM' (fun x => parseAV env ⟨false, srt⟩ n t x) items with
        | ok rs =>
          rw [hm] at hp
          cases hp
          simp only [validate]
          exact allShort_of_mapM' _ _ items rs (fun x hx y hy => ih t x y hf (allShort_true hv x hx) hy) hm
        | throw c => rw [hm] at hp; cases hp
        | nofuel => rw [hm] at hp; cases hp
      | _ => cases hv
    | typeof s => simp only [parseAV] at hp; cases hp; exact hv
    | any => simp only [parseAV] at hp; cases hp; exact hv
    | nullish s => simp only [parseAV] at hp; cases hp; exact hv
    | const c => simp only [parseAV] at hp; cases hp; exact hv
    | consts cs => simp only [parseAV] at hp; cases hp; exact hv
    | regex tp ds => simp only [parseAV] at hp; cases hp; exact hv
    | date => simp only [parseAV] at hp; cases hp; exact hv
    | bigint => simp only [parseAV] at hp; cases hp; exact hv
    | typed c => simp only [parseAV] at hp; cases hp; exact hv
    | strfmt fs => simp only [parseAV] at hp; cases hp; exact hv
    | numfmt fs => simp only [parseAV] at hp; cases hp; exact hv
    | never => simp [pfrag] at hf
    | allOf ts => simp [pfrag] at hf
    | anyOf ts => simp [pfrag] at hf
    | disc a b c e => simp [pfrag] at hf
    | map kt vt =>
      simp only [pfrag, Bool.and_eq_true] at hf
      simp only [validate] at hv
      simp only [parseAV] at hp
      cases v with
      | map es =>
        simp only at hv hp
        split at hp
        · rename_i rs hm
          cases hp
          simp only [validate]
          refine allShort_of_mapM' _ _ es rs ?_ hm
          intro e he y hy
          have hve := allShort_true hv e he
          split at hy
          · rename_i k' hpk
            split at hy
            · rename_i v' hpv
              cases hy
              split at hve
              · rename_i hk
                simp only [ih kt e.1 k' hf.1 hk hpk]
                exact ih vt e.2 v' hf.2 hve hpv
              · rename_i hk
                exfalso
                cases hk' : validate env false n kt e.1 with
                | ok b =>
                  cases b with
                  | true => exact hk hk'
                  | false => rw [hk'] at hve; cases hve
                | throw c => rw [hk'] at hve; cases hve
                | nofuel => rw [hk'] at hve; cases hve
            · cases hy
            · cases hy
          · cases hy
          · cases hy
        · cases hp
        · cases hp
      | _ => cases hv
    | tuple pre rest =>
      have hfp : pfragL pre = true ∧ (∀ r, rest = some r → pfrag r = true) := by
        cases rest with
        | none => simp only [pfrag, Bool.and_eq_true] at hf; exact ⟨hf.1, fun r e => by cases e⟩
        | some r0 => simp only [pfrag, Bool.and_eq_true] at hf; exact ⟨hf.1, fun r e => by cases e; exact hf.2⟩
      simp only [validate] at hv
      simp only [parseAV] at hp
      cases v with
      | arr items =>
        simp only at hv hp
        -- the fixed positions
        split at hp
        · rename_i ps hm
          have hheads : allShort (fun (p : RT × Nat) => validate env false n p.1 (items.getD p.2 .undef))
              (pre.zip (List.range pre.length)) = .ok true := by
            cases hh : allShort (fun (p : RT × Nat) => validate env false n p.1 (items.getD p.2 .undef))
                (pre.zip (List.range pre.length)) with
            | ok b =>
              cases b with
              | true => rfl
              | false => rw [hh] at hv; cases hv
            | throw c => rw [hh] at hv; cases hv
            | nofuel => rw [hh] at hv; cases hv
          have hlen : ps.length = pre.length := by
            rw [mapM'_length _ _ _ hm]; simp
          have hfix : ∀ D : List JsVal, (∀ j, j < pre.length → D[j]? = ps[j]?) →
              allShort (fun (p : RT × Nat) => validate env s n p.1 (D.getD p.2 .undef)) (pre.zip (List.range pre.length)) = .ok true := by
            intro D hD
            apply allShort_of_all
            intro p hp'
            obtain ⟨j, hj, e⟩ := List.mem_iff_getElem.1 hp'
            have hj' : j < pre.length := by simpa using hj
            obtain ⟨y, hy1, hy2⟩ := mapM'_get _ _ _ hm j hj
            have hp1 : p = (pre[j], j) := by rw [← e]; simp
            subst hp1
            have hDj : D.getD j .undef = y := by
              rw [List.getD_eq_getElem?_getD, hD j hj', hy1]; rfl
            simp only [hDj]
            have hz : (pre.zip (List.range pre.length))[j] = (pre[j], j) := by simp
            rw [hz] at hy2
            exact ih pre[j] _ y (pfragL_mem hfp.1 _ (List.getElem_mem _)) (allShort_true hheads _ hp') hy2
          simp only [hheads] at hv
          cases rest with
          | none =>
            simp only at hp hv
            cases hp
            simp only [validate]
            rw [hfix ps fun j _ => rfl]
            simp [hlen]
          | some r =>
            simp only at hp hv
            split at hp
            · rename_i rs hmr
              cases hp
              simp only [validate]
              rw [hfix (ps ++ rs) fun j hj => by rw [List.getElem?_append_left (by omega)]]
              simp only
              have hdrop : (ps ++ rs).drop pre.length = rs := by
                rw [← hlen]; simp
              rw [hdrop]
              exact allShort_of_mapM' _ _ _ rs (fun x hx y hy => ih r x y (hfp.2 r rfl) (allShort_true hv x hx) hy) hmr
            · cases hp
            · cases hp
        · cases hp
        · cases hp
      | _ => cases hv
    | object props ix =>
      simp only [pfrag, Bool.and_eq_true] at hf
      obtain ⟨⟨hix, hnd⟩, hpp⟩ := hf
      have hix' : ix = [] := by simpa using hix
      subst hix'
      simp only [validate] at hv
      simp only [parseAV] at hp
      have hobj : (v.isObjectLike && !v.isArray) = true := by
        cases h : (v.isObjectLike && !v.isArray) with
        | true => rfl
        | false => simp [h] at hv
      simp only [hobj, Bool.not_true, Bool.false_eq_true, if_false] at hv
      have hprops : allShort (fun (p : String × RT) => validate env false n p.2 (v.getProp p.1)) props = .ok true := by
        cases hh : allShort (fun (p : String × RT) => validate env false n p.2 (v.getProp p.1)) props with
        | ok b =>
          cases b with
          | true => rfl
          | false => rw [hh] at hv; cases hv
        | throw c => rw [hh] at hv; cases hv
        | nofuel => rw [hh] at hv; cases hv
      cases srt with
      | false =>
        simp only [Bool.not_false, if_true] at hp
        split at hp
        · rename_i acc hfold
          cases hp
          have key := obj_fold' props (parseAV env ⟨false, false⟩ n) v _ acc hfold
          obtain ⟨hinv, hcov⟩ := key (by
              intro acc k acc' h
              split at h
              · rename_i t hl
                split at h
                · rename_i y hpy
                  cases h
                  exact Or.inl ⟨t, y, hl, hpy, rfl⟩
                · cases h
                · cases h
              · rename_i hl
                simp only [parseIndexedKey] at h
                cases h
                exact Or.inr ⟨hl, rfl⟩)
          have hA : allShort (fun (p : String × RT) => validate env s n p.2 ((JsVal.obj acc).getProp p.1)) props = .ok true := by
            apply allShort_of_all
            intro p hp'
            have hl := lookupProp'_of_nodup hnd p hp'
            have hsafe := pfragP_mem hpp p hp'
            have hvp := allShort_true hprops p hp'
            by_cases hk : p.1 ∈ v.ownKeys
            · have hs := hcov p.1 hk (by rw [hl]; rfl)
              cases hg : lookupProp acc p.1 with
              | none => rw [hg] at hs; cases hs
              | some y =>
                obtain ⟨_, t, hl', hpy⟩ := hinv p.1 y hg
                rw [hl] at hl'
                cases hl'
                have : (JsVal.obj acc).getProp p.1 = y := by simp [getProp, getOwn?, hg]
                rw [this]
                exact ih p.2 _ y hsafe.2 hvp hpy
            · have hnone : lookupProp acc p.1 = none := by
                cases hg : lookupProp acc p.1 with
                | none => rfl
                | some y => exact absurd (hinv p.1 y hg).1 hk
              have h1 : (JsVal.obj acc).getProp p.1 = .undef := by
                simp only [getProp, getOwn?, hnone]
                exact getInherited_safe _ _ hsafe.1
              have h2 : v.getProp p.1 = .undef := by
                simp only [getProp, getOwn_none_of_safe v p.1 hsafe.1 hobj hk]
                exact getInherited_safe _ _ hsafe.1
              rw [h1]
              cases s with
              | true => rw [prim_strict_eq env n p.2 .undef rfl, ← h2]; exact hvp
              | false => rw [← h2]; exact hvp
          have hE : ((JsVal.obj acc).ownKeys.filter (fun k => !(props.map (·.1)).contains k)) = [] := by
            apply List.filter_eq_nil_iff.2
            intro k hk
            simp only [ownKeys] at hk
            have hs := lookupProp_isSome_of_mem hk
            cases hg : lookupProp acc k with
            | none => rw [hg] at hs; cases hs
            | some y =>
              obtain ⟨_, t, hl', _⟩ := hinv k y hg
              simp [lookupProp'_mem hl']
          simp only [validate, hA, hE]
          simp [isObjectLike, typeOf, isArray]

        · cases hp
        · cases hp
      | true =>
        simp only [Bool.not_true, Bool.false_eq_true, if_false, List.length_nil, Nat.lt_irrefl, gt_iff_lt] at hp
        split at hp
        · rename_i acc hfold
          cases hp
          obtain ⟨hinv, _, hcov⟩ := obj_fold_sorted props (parseAV env ⟨false, true⟩ n) v _ (by
              intro acc k acc' h
              split at h
              · rename_i hno
                cases h
                exact Or.inr ⟨Or.inl (by simpa using hno), rfl⟩
              · rename_i hown
                have hown' : v.hasOwn k = true := by simpa using hown
                split at h
                · rename_i t hl
                  split at h
                  · rename_i y hpy
                    cases h
                    exact Or.inl ⟨t, y, hown', hl, hpy, rfl⟩
                  · cases h
                  · cases h
                · rename_i hl
                  cases h
                  exact Or.inr ⟨Or.inr hl, rfl⟩) _ [] acc (fun k y h => by simp [lookupProp] at h) hfold
          have hA : allShort (fun (p : String × RT) => validate env s n p.2 ((JsVal.obj acc).getProp p.1)) props = .ok true := by
            apply allShort_of_all
            intro p hp'
            have hl := lookupProp'_of_nodup hnd p hp'
            have hsafe := pfragP_mem hpp p hp'
            have hvp := allShort_true hprops p hp'
            have hmem : p.1 ∈ sortStrings (props.map (·.1)) :=
              (C10.sortBy_perm _ _).mem_iff.2 (List.mem_map.2 ⟨p, hp', rfl⟩)
            by_cases hk : v.hasOwn p.1 = true
            · have hs := hcov p.1 hmem hk (by rw [hl]; rfl)
              cases hg : lookupProp acc p.1 with
              | none => rw [hg] at hs; cases hs
              | some y =>
                obtain ⟨_, t, hl', hpy⟩ := hinv p.1 y hg
                rw [hl] at hl'
                cases hl'
                have : (JsVal.obj acc).getProp p.1 = y := by simp [getProp, getOwn?, hg]
                rw [this]
                exact ih p.2 _ y hsafe.2 hvp hpy
            · have hnone : lookupProp acc p.1 = none := by
                cases hg : lookupProp acc p.1 with
                | none => rfl
                | some y => exact absurd (hinv p.1 y hg).1 hk
              have h1 : (JsVal.obj acc).getProp p.1 = .undef := by
                simp only [getProp, getOwn?, hnone]
                exact getInherited_safe _ _ hsafe.1
              have hown : getOwn? v p.1 = none := by
                cases hg : getOwn? v p.1 with
                | none => rfl
                | some y => exact absurd (by simp [hasOwn, hg]) hk
              have h2 : v.getProp p.1 = .undef := by
                simp only [getProp, hown]
                exact getInherited_safe _ _ hsafe.1
              rw [h1]
              cases s with
              | true => rw [prim_strict_eq env n p.2 .undef rfl, ← h2]; exact hvp
              | false => rw [← h2]; exact hvp
          have hE : ((JsVal.obj acc).ownKeys.filter (fun k => !(props.map (·.1)).contains k)) = [] := by
            apply List.filter_eq_nil_iff.2
            intro k hk
            simp only [ownKeys] at hk
            have hs := lookupProp_isSome_of_mem hk
            cases hg : lookupProp acc k with
            | none => rw [hg] at hs; cases hs
            | some y =>
              obtain ⟨_, t, hl', _⟩ := hinv k y hg
              simp [lookupProp'_mem hl']
          simp only [validate, hA, hE]
          simp [isObjectLike, typeOf, isArray]

        · cases hp
        · cases hp

/-- re-validation: the parsed value is accepted by the same validator under the same (default) options -/
theorem parse_revalidates_frag (env : Env) (henv : ∀ name t, env.lookup name = some t → pfrag t = true)
    (srt : Bool) (n : Nat) (t : RT) (v d : JsVal) (hf : pfrag t = true) (hv : validate env false n t v = .ok true)
    (hp : parseAV env ⟨false, srt⟩ n t v = .ok d) : validate env false n t d = .ok true :=
  parse_strict env henv false srt n t v d hf hv hp

/-- only declared parts: the parsed value passes the validator with `disallowExtraProperties` -/
theorem parse_only_declared_frag (env : Env) (henv : ∀ name t, env.lookup name = some t → pfrag t = true)
    (srt : Bool) (n : Nat) (t : RT) (v d : JsVal) (hf : pfrag t = true) (hv : validate env false n t v = .ok true)
    (hp : parseAV env ⟨false, srt⟩ n t v = .ok d) : validate env true n t d = .ok true :=
  parse_strict env henv true srt n t v d hf hv hp

-- ---------- the statement is about something ----------
/-- `type Node = { id: string; kids?: Node[]; tags: Map<{ k: string }, number> }`, a recursive type of the fragment -/
def exEnv : Env := [("Node", .object [("id", .typeof "string"), ("kids", .optional (.array (.ref "Node"))),
  ("tags", .map (.object [("k", .typeof "string")] []) (.typeof "number"))] [])]
/-- a value with surplus keys at three places: the root, a child, and a KEY of the Map -/
def exVal : JsVal := .obj [("id", .str "a"), ("extra", .num "1"),
  ("kids", .arr [.obj [("id", .str "b"), ("zz", .null), ("tags", .map [])]]),
  ("tags", .map [(.obj [("k", .str "x"), ("surplus", .bool true)], .num "2")])]

example : (∀ name t, exEnv.lookup name = some t → pfrag t = true) := by
  intro name t h
  simp only [exEnv, Env.lookup] at h
  split at h
  · rename_i p hp
    simp only [List.find?_cons] at hp
    split at hp
    · cases hp; cases h; decide
    · cases hp
  · cases h
example : validate exEnv false 10 (.ref "Node") exVal = .ok true := by decide +kernel
example : validate exEnv true 10 (.ref "Node") exVal = .ok false := by decide +kernel
/-- the parsed value dropped all three surplus keys, the one inside the Map key included, and passes strict validation -/
example : (match parseAV exEnv ⟨false, false⟩ 10 (.ref "Node") exVal with
    | .ok d => validate exEnv true 10 (.ref "Node") d | _ => .nofuel) = .ok true := by decide +kernel

end BeffVerif.C03S
