import BeffVerif.Props.C08
/-!
# C08 — the order of declarations does not matter (reference level)

The reference semantics consults the declarations only through "the declaration named n". Two declaration lists that
agree on every such lookup give the same meaning to every type at every fuel (`mem_congr`); a permutation of a list
of declarations with distinct names agrees on every lookup (`find_perm`); hence reordering declarations never changes
⟦t⟧ (`spec_decls_perm`).
-/
namespace BeffVerif.C08
open BeffVerif Spec

section
variable (decls decls' : List Decl)
variable (hfind : ∀ name : String, decls.find? (fun d => d.name == name) = decls'.find? (fun d => d.name == name))
include hfind

theorem litKeys_congr : ∀ n, litKeys decls n = litKeys decls' n := by
  intro n
  induction n with
  | zero => funext t; rfl
  | succ k ih =>
    funext t
    rw [litKeys.eq_def, litKeys.eq_def]
    simp only [ih, hfind]

theorem shape_congr : ∀ n, shape decls n = shape decls' n := by
  intro n
  induction n with
  | zero => funext t; rfl
  | succ k ih =>
    funext t
    rw [shape.eq_def, shape.eq_def]
    simp only [ih, hfind, litKeys_congr decls decls' hfind]

theorem mem_congr : ∀ n, mem decls n = mem decls' n := by
  intro n
  induction n with
  | zero => funext t v; rfl
  | succ k ih =>
    funext t v
    rw [mem.eq_def, mem.eq_def]
    simp only [ih, hfind, shape_congr decls decls' hfind]

end

/-- in a list with distinct names, "the first declaration named n" is the same for every permutation -/
theorem find_perm {l1 l2 : List Decl} (hp : l1.Perm l2) (hd : (l1.map Decl.name).Nodup) (name : String) :
    l1.find? (fun d => d.name == name) = l2.find? (fun d => d.name == name) := by
  induction hp with
  | nil => rfl
  | cons x _ ih =>
    simp only [List.find?_cons]
    split
    · rfl
    · exact ih (List.nodup_cons.1 hd).2
  | swap x y l =>
    simp only [List.find?_cons]
    have hxy : y.name ≠ x.name := by
      intro e
      simp only [List.map_cons, List.nodup_cons, List.mem_cons, List.mem_map, not_or] at hd
      exact hd.1.1 e
    by_cases h1 : x.name == name <;> by_cases h2 : y.name == name <;> simp [h1, h2]
    have e1 : x.name = name := by simpa using h1
    have e2 : y.name = name := by simpa using h2
    exact absurd (e2.trans e1.symm) hxy
  | trans h12 _ ih1 ih2 =>
    rw [ih1 hd, ih2 ((h12.map Decl.name).nodup_iff.1 hd)]

/-- **Reordering declarations never changes the meaning of a type** (distinct names), for every fuel and value -/
theorem spec_decls_perm (l1 l2 : List Decl) (hp : l1.Perm l2) (hd : (l1.map Decl.name).Nodup)
    (n : Nat) (t : Ty) (v : JsVal) : mem l1 n t v = mem l2 n t v := by
  rw [mem_congr l1 l2 (find_perm hp hd) n]

end BeffVerif.C08
