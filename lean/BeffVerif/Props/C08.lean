import BeffVerif.Props.C01
/-!
# C08 — meaning-preserving rewrites of the source do not change validators

The reference semantics ⟦·⟧ᵀˢ is invariant under the listed rewrites (proved here for: reordering union /
intersection members and object members, parentheses, `readonly`, introducing / inlining a non-generic alias,
the generic identity wrapper). Together with the C01 tie (implementation = compiler model = reference on the
generated programs) this is what makes the validators of a program and of its rewrite agree; the check also
compares the two REAL validators (and their hash256) directly.
-/
namespace BeffVerif.C08
open BeffVerif Spec JsVal

/-- three-valued "or"/"and" used by the reference for unions / intersections / members -/
def orO (acc : Option Bool) (x : Option Bool) : Option Bool :=
  match acc, x with | some a, some b => some (a || b) | _, _ => none
def andO (acc : Option Bool) (x : Option Bool) : Option Bool :=
  match acc, x with | some a, some b => some (a && b) | _, _ => none

theorem orO_comm (a x y : Option Bool) : orO (orO a x) y = orO (orO a y) x := by
  cases a <;> cases x <;> cases y <;> simp [orO, Bool.or_assoc, Bool.or_comm, Bool.or_left_comm]
theorem andO_comm (a x y : Option Bool) : andO (andO a x) y = andO (andO a y) x := by
  cases a <;> cases x <;> cases y <;> simp [andO, Bool.and_assoc, Bool.and_comm, Bool.and_left_comm]

/-- folds with a right-commutative step are invariant under permutation of the list -/
theorem foldl_perm {α β : Type} (f : β → α → β) (hf : ∀ b x y, f (f b x) y = f (f b y) x)
    {l l' : List α} (h : l.Perm l') : ∀ b, l.foldl f b = l'.foldl f b := by
  induction h with
  | nil => intro b; rfl
  | cons x _ ih => intro b; simp only [List.foldl_cons]; exact ih _
  | swap x y l => intro b; simp only [List.foldl_cons]; rw [hf]
  | trans _ _ ih1 ih2 => intro b; rw [ih1, ih2]

/-- Reordering the members of a union does not change the reference semantics (every fuel, every value). -/
theorem spec_union_perm (decls : List Decl) (n : Nat) (ts ts' : List Ty) (v : JsVal) (h : ts.Perm ts') :
    Spec.mem decls (n+1) (.union ts) v = Spec.mem decls (n+1) (.union ts') v := by
  simp only [Spec.mem]
  refine foldl_perm _ ?_ h _
  intro b x y
  cases b <;> cases Spec.mem decls n x v <;> cases Spec.mem decls n y v <;>
    simp [Bool.or_assoc, Bool.or_comm, Bool.or_left_comm]

/-- Reordering the members of an intersection does not change the reference semantics. -/
theorem spec_inter_perm (decls : List Decl) (n : Nat) (ts ts' : List Ty) (v : JsVal) (h : ts.Perm ts') :
    Spec.mem decls (n+1) (.inter ts) v = Spec.mem decls (n+1) (.inter ts') v := by
  simp only [Spec.mem]
  refine foldl_perm _ ?_ h _
  intro b x y
  cases b <;> cases Spec.mem decls n x v <;> cases Spec.mem decls n y v <;>
    simp [Bool.and_assoc, Bool.and_comm, Bool.and_left_comm]

/-- Reordering the members of an object shape without index signature does not change membership. -/
theorem spec_object_members_perm (m : Ty → JsVal → Option Bool) (ms ms' : List (String × Bool × Ty))
    (v : JsVal) (h : ms.Perm ms') :
    Spec.memShapeWith m (some (ms, none)) v = Spec.memShapeWith m (some (ms', none)) v := by
  simp only [Spec.memShapeWith]
  split
  · rfl
  · refine foldl_perm _ ?_ h _
    intro b x y
    cases b <;>
      cases (if x.2.1 && (v.getProp x.1).isNullish then some true else m x.2.2 (v.getProp x.1)) <;>
      cases (if y.2.1 && (v.getProp y.1).isNullish then some true else m y.2.2 (v.getProp y.1)) <;>
      simp [Bool.and_assoc, Bool.and_comm, Bool.and_left_comm]

/-- Introducing / inlining a non-generic alias: a reference to the alias means its body. -/
theorem spec_alias_unfold (decls : List Decl) (n : Nat) (name : String) (body : Ty) (v : JsVal)
    (h : decls.find? (fun d => d.name == name) = some (.alias name [] body)) :
    Spec.mem decls (n+1) (.ref name []) v = Spec.mem decls n (Spec.subst [] body) v := by
  simp [Spec.mem, h]

/-- The generic identity wrapper `type Id<X> = X` is invisible: `Id<t>` means `t`. -/
theorem spec_identity_wrapper (decls : List Decl) (n : Nat) (name : String) (t : Ty) (v : JsVal)
    (h : decls.find? (fun d => d.name == name) = some (.alias name ["X"] (.ref "X" []))) :
    Spec.mem decls (n+1) (.ref name [t]) v = Spec.mem decls n t v := by
  simp [Spec.mem, h, Spec.subst]

/-- parentheses / readonly (re-exported from C01) -/
theorem spec_paren (decls : List Decl) (n : Nat) (t : Ty) (v : JsVal) :
    Spec.mem decls (n+1) (.paren t) v = Spec.mem decls n t v := C01.spec_paren decls n t v
theorem spec_readonly (decls : List Decl) (n : Nat) (t : Ty) (v : JsVal) :
    Spec.mem decls (n+1) (.readonly t) v = Spec.mem decls n t v := C01.spec_readonly decls n t v

/-- Runtime level: the order of the branches of an `AnyOfRuntype` does not change acceptance whenever both
orders give an answer (the compiler orders union members by its own `BTreeSet` order, so source order never
reaches the runtime; this is the statement for the orders that do). -/
theorem anyOf_order_irrelevant (env : Env) (strict : Bool) (n : Nat) (ts ts' : List RT) (v : JsVal)
    (h : ts.Perm ts') (b b' : Bool)
    (h1 : RT.validate env strict (n+1) (.anyOf ts) v = .ok b)
    (h2 : RT.validate env strict (n+1) (.anyOf ts') v = .ok b') : b = b' := by
  rw [C01.validate_anyOf] at h1 h2
  -- `ok true` iff some branch accepts (given that the scan reached a decision)
  cases b with
  | true =>
    obtain ⟨t, ht, e⟩ := RT.anyShort_true _ _ h1
    cases b' with
    | true => rfl
    | false =>
      have := (RT.anyShort_false_iff _ _).1 h2 t (h.subset ht)
      rw [e] at this; cases this
  | false =>
    cases b' with
    | false => rfl
    | true =>
      obtain ⟨t, ht, e⟩ := RT.anyShort_true _ _ h2
      have := (RT.anyShort_false_iff _ _).1 h1 t (h.symm.subset ht)
      rw [e] at this; cases this

/-! ## hash256 under naming rewrites is NOT invariant on the current code (known findings D11, D39, D41):
the emitted order of union members is the `BTreeSet<Runtype>` order, which compares referenced NAMES; an
intersection member that is named is no longer merged at compile time; a name introduced on a recursive cycle
moves the point at which the cycle is cut. These are recorded with the hypotheses NoNamingNearUnion,
NoNamedIntersectionMember, NoNamingWithRecursion (evaluated by the driver on every rewrite pair); for rewrites
that introduce no names the check requires equal hash256 without exception. -/

/-- all_of merges literal object members but not a named one: witness for D39 at the IR level -/
theorem named_intersection_member_not_merged :
    (match IR.allOf' [.object [("a", true, .string)] none, .object [("b", true, .number)] none] with
      | .object _ _ => true | _ => false) = true ∧
    (match IR.allOf' [.ref "A", .object [("b", true, .number)] none] with
      | .allOf _ => true | _ => false) = true := by decide +kernel

/-- … and members that share a key are merged only when the two property types are the same TERM: naming the type
under one of them keeps the intersection as `allOf` (witness for D39b at the IR level) -/
theorem shared_key_merge_is_syntactic :
    (match IR.allOf' [.object [("b", true, .const (.num "1.5"))] none,
        .object [("b", true, .const (.num "1.5")), ("t", false, .number)] none] with
      | .object _ _ => true | _ => false) = true ∧
    (match IR.allOf' [.object [("b", true, .ref "Al")] none,
        .object [("b", true, .const (.num "1.5")), ("t", false, .number)] none] with
      | .allOf _ => true | _ => false) = true := by decide +kernel

end BeffVerif.C08
