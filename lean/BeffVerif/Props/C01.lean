import BeffVerif.Lemmas.RT
import BeffVerif.Model.Spec
/-!
# C01 — generated validators accept exactly the values of the declared TypeScript type

Chain (DESIGN.md §5 C01): ⟦t⟧ᵀˢ =(F)= lower t =(I/P)= print (lower t) =(R)= validate.
Proved here: base cases of the whole chain (every keyword and literal type, through the real model of
`lower`, `print` and `validate`), printer-level invisibility of the literal-set dispatch, and reference-level
structural facts. The inductive step over all constructors is not yet proved; it is decided by the three-way
correspondence of the check (implementation / compiler model / reference).
-/
namespace BeffVerif.C01
open BeffVerif RT JsVal

/-- the compiled validator of a program with one export `t` and no declarations, run on `v` -/
def compiledAccepts (t : Ty) (v : JsVal) : Option Bool :=
  match compile ⟨[], [("X", t)]⟩ with
  | .ok env [(_, rt)] => (match validate env false 50 rt v with | .ok b => some b | _ => none)
  | _ => none

section base
variable (decls : List Decl) (named : Named) (n : Nat) (stack : List (String × IR)) (defs : Lower.Defs)

theorem lower_string : Lower.lower decls (n+1) stack defs (.kw "string") = .ok .string defs := by rw [Lower.lower]
theorem lower_number : Lower.lower decls (n+1) stack defs (.kw "number") = .ok .number defs := by rw [Lower.lower]
theorem lower_boolean : Lower.lower decls (n+1) stack defs (.kw "boolean") = .ok .boolean defs := by rw [Lower.lower]
theorem lower_null : Lower.lower decls (n+1) stack defs (.kw "null") = .ok .null defs := by rw [Lower.lower]
theorem lower_undefined : Lower.lower decls (n+1) stack defs (.kw "undefined") = .ok .undefined defs := by rw [Lower.lower]
theorem lower_void : Lower.lower decls (n+1) stack defs (.kw "void") = .ok .void defs := by rw [Lower.lower]
theorem lower_any : Lower.lower decls (n+1) stack defs (.kw "any") = .ok .any defs := by rw [Lower.lower]
theorem lower_unknown : Lower.lower decls (n+1) stack defs (.kw "unknown") = .ok .any defs := by rw [Lower.lower]
theorem lower_never : Lower.lower decls (n+1) stack defs (.kw "never") = .ok .never defs := by rw [Lower.lower]
theorem lower_bigint : Lower.lower decls (n+1) stack defs (.kw "bigint") = .ok .bigint defs := by rw [Lower.lower]
theorem lower_lit_str (s : String) :
    Lower.lower decls (n+1) stack defs (.lit (.str s)) = .ok (IR.strConst s) defs := by rw [Lower.lower]
theorem lower_lit_bool (b : Bool) :
    Lower.lower decls (n+1) stack defs (.lit (.bool b)) = .ok (.const (.bool b)) defs := by simp [Lower.lower]
theorem lower_lit_num (c : String) :
    Lower.lower decls (n+1) stack defs (.lit (.num c)) = .ok (.const (.num c)) defs := by simp [Lower.lower]

theorem print_string : IR.print named (n+1) .string = .typeof "string" := by rw [IR.print]
theorem print_number : IR.print named (n+1) .number = .typeof "number" := by rw [IR.print]
theorem print_boolean : IR.print named (n+1) .boolean = .typeof "boolean" := by rw [IR.print]
theorem print_null : IR.print named (n+1) .null = .nullish "null" := by rw [IR.print]
theorem print_undefined : IR.print named (n+1) .undefined = .nullish "undefined" := by rw [IR.print]
theorem print_void : IR.print named (n+1) .void = .nullish "void" := by rw [IR.print]
theorem print_any : IR.print named (n+1) .any = .any := by rw [IR.print]
theorem print_never : IR.print named (n+1) .never = .never := by rw [IR.print]
theorem print_bigint : IR.print named (n+1) .bigint = .bigint := by rw [IR.print]
theorem print_strconst (s : String) : IR.print named (n+1) (IR.strConst s) = .const (.str s) := by
  rw [IR.strConst, IR.print]
theorem print_const (c : JsVal) : IR.print named (n+1) (.const c) = .const c := by rw [IR.print]
end base

/-- the compiled validator of a one-export program, unfolded for an export whose lowering needs no definitions -/
theorem compiledAccepts_of (t : Ty) (ir : IR) (rt : RT) (v : JsVal)
    (hl : Lower.lower [] 200 [] [] t = .ok ir [])
    (hp : IR.print [] 200 ir = rt) :
    compiledAccepts t v = (match validate [] false 50 rt v with | .ok b => some b | _ => none) := by
  unfold compiledAccepts compile
  simp only [Lower.lowerExports, hl, hp, Lower.namedOf, IR.printEnv, List.filterMap_nil, List.map_nil, List.map_cons]

/-- Every supported keyword type: the compiled validator decides exactly reference membership, for EVERY value. -/
theorem keyword_types_exact (k : String)
    (hk : k ∈ ["string", "number", "boolean", "null", "undefined", "void", "any", "unknown", "never", "bigint"])
    (v : JsVal) : compiledAccepts (.kw k) v = Spec.mem [] 10 (.kw k) v := by
  simp only [List.mem_cons, List.mem_nil_iff, or_false] at hk
  rcases hk with h | h | h | h | h | h | h | h | h | h <;> subst h
  · rw [compiledAccepts_of _ _ _ v (lower_string [] 199 [] []) (print_string [] 199)]; simp [validate, Spec.mem]
  · rw [compiledAccepts_of _ _ _ v (lower_number [] 199 [] []) (print_number [] 199)]; simp [validate, Spec.mem]
  · rw [compiledAccepts_of _ _ _ v (lower_boolean [] 199 [] []) (print_boolean [] 199)]; simp [validate, Spec.mem]
  · rw [compiledAccepts_of _ _ _ v (lower_null [] 199 [] []) (print_null [] 199)]; simp [validate, Spec.mem]
  · rw [compiledAccepts_of _ _ _ v (lower_undefined [] 199 [] []) (print_undefined [] 199)]; simp [validate, Spec.mem]
  · rw [compiledAccepts_of _ _ _ v (lower_void [] 199 [] []) (print_void [] 199)]; simp [validate, Spec.mem]
  · rw [compiledAccepts_of _ _ _ v (lower_any [] 199 [] []) (print_any [] 199)]; simp [validate, Spec.mem]
  · rw [compiledAccepts_of _ _ _ v (lower_unknown [] 199 [] []) (print_any [] 199)]; simp [validate, Spec.mem]
  · rw [compiledAccepts_of _ _ _ v (lower_never [] 199 [] []) (print_never [] 199)]; simp [validate, Spec.mem]
  · rw [compiledAccepts_of _ _ _ v (lower_bigint [] 199 [] []) (print_bigint [] 199)]
    cases v <;> simp [validate, Spec.mem, JsVal.typeOf]

/-- String / boolean / number literal types: exact for every value. -/
theorem string_literal_exact (s : String) (v : JsVal) :
    compiledAccepts (.lit (.str s)) v = Spec.mem [] 10 (.lit (.str s)) v := by
  rw [compiledAccepts_of _ _ _ v (lower_lit_str [] 199 [] [] s) (print_strconst [] 199 s)]
  simp [validate, Spec.mem, JsVal.isNullish]

theorem boolean_literal_exact (b : Bool) (v : JsVal) :
    compiledAccepts (.lit (.bool b)) v = Spec.mem [] 10 (.lit (.bool b)) v := by
  rw [compiledAccepts_of _ _ _ v (lower_lit_bool [] 199 [] [] b) (print_const [] 199 _)]
  simp [validate, Spec.mem, JsVal.isNullish]

theorem number_literal_exact (c : String) (v : JsVal) :
    compiledAccepts (.lit (.num c)) v = Spec.mem [] 10 (.lit (.num c)) v := by
  rw [compiledAccepts_of _ _ _ v (lower_lit_num [] 199 [] [] c) (print_const [] 199 _)]
  simp [validate, Spec.mem, JsVal.isNullish]

/-- Parentheses and `readonly` are invisible to the reference semantics (used by C08 as well). -/
theorem spec_paren (decls : List Decl) (n : Nat) (t : Ty) (v : JsVal) :
    Spec.mem decls (n+1) (.paren t) v = Spec.mem decls n t v := by simp [Spec.mem]

theorem spec_readonly (decls : List Decl) (n : Nat) (t : Ty) (v : JsVal) :
    Spec.mem decls (n+1) (.readonly t) v = Spec.mem decls n t v := by simp [Spec.mem]

/-- Printer invisibility of the literal-set dispatch: for non-null, non-NaN literals `AnyOfConstsRuntype`
accepts exactly what the plain union of `ConstRuntype`s accepts. -/
def plainConst : JsVal → Bool
  | .str _ => true
  | .bool _ => true
  | .num c => c != "NaN"
  | _ => false

theorem svz_eq_strict (c v : JsVal) (hc : plainConst c = true) :
    sameValueZeroPrim c v = strictEqPrim v c := by
  cases c with
  | str a => cases v <;> simp [sameValueZeroPrim, strictEqPrim, Bool.beq_comm]
  | bool a => cases v <;> simp [sameValueZeroPrim, strictEqPrim, Bool.beq_comm]
  | num a =>
    have ha : (a == "NaN") = false := by simpa [plainConst] using hc
    cases v with
    | num b =>
      simp only [sameValueZeroPrim, strictEqPrim, numSameValueZero, numStrictEq, ha, Bool.or_false]
      by_cases hb : (b == "NaN") = true
      · have hb' : b = "NaN" := by simpa using hb
        subst hb'
        have : a ≠ "NaN" := by simpa using ha
        simp
        split <;> simp_all
      · simp only [hb, Bool.false_eq_true, if_false]
        exact Bool.beq_comm
    | _ => simp [sameValueZeroPrim, strictEqPrim]
  | _ => simp [plainConst] at hc

theorem validate_const (env : Env) (strict : Bool) (n : Nat) (c v : JsVal) :
    validate env strict (n+1) (.const c) v = .ok (if c.isNullish then v.isNullish else strictEqPrim v c) := by
  rw [validate]

theorem anyShort_consts (env : Env) (strict : Bool) (n : Nat) (v : JsVal) : ∀ (vs : List JsVal),
    (∀ c ∈ vs, plainConst c = true) →
    anyShort (fun t => validate env strict (n+1) t v) (vs.map .const) =
      .ok (vs.any (fun c => sameValueZeroPrim c v)) := by
  intro vs
  induction vs with
  | nil => intro _; simp [anyShort]
  | cons c cs ih =>
    intro hvs
    have hc := hvs c (by simp)
    have hnn : c.isNullish = false := by cases c <;> simp [plainConst] at hc <;> rfl
    simp only [List.map_cons, anyShort, validate_const, hnn, Bool.false_eq_true, if_false, List.any_cons]
    rw [svz_eq_strict c v hc]
    cases h : strictEqPrim v c with
    | true => simp
    | false => simpa using ih (fun x hx => hvs x (by simp [hx]))

theorem validate_consts (env : Env) (strict : Bool) (n : Nat) (vs : List JsVal) (v : JsVal) :
    validate env strict (n+1) (.consts vs) v =
      .ok ((v.isNullish && vs.any (fun c => match c with | .null => true | _ => false)) ||
        vs.any (fun c => sameValueZeroPrim c v)) := by
  rw [validate]; rfl

theorem validate_anyOf (env : Env) (strict : Bool) (n : Nat) (ts : List RT) (v : JsVal) :
    validate env strict (n+1) (.anyOf ts) v = anyShort (fun t => validate env strict n t v) ts := by
  rw [validate]

theorem consts_eq_union_of_consts (env : Env) (strict : Bool) (n : Nat) (vs : List JsVal) (v : JsVal)
    (hvs : ∀ c ∈ vs, plainConst c = true) :
    validate env strict (n+2) (.consts vs) v = validate env strict (n+2) (.anyOf (vs.map .const)) v := by
  have hnull : vs.any (fun c => match c with | .null => true | _ => false) = false := by
    rw [List.any_eq_false]; intro c hc; have := hvs c hc; cases c <;> simp [plainConst] at this ⊢
  rw [validate_consts, validate_anyOf, anyShort_consts env strict n v vs hvs, hnull]
  simp

/-! ## Known deviations of the current code from the reference (hypotheses of the partial theorem) -/

/-- D21: a number-keyed record rejects every non-empty object (keys are strings at run time). -/
theorem number_keyed_record_rejects :
    compiledAccepts (.bi "Record" [.kw "number", .kw "string"]) (.obj [("1", .str "a")]) = some false ∧
      Spec.mem [] 10 (.bi "Record" [.kw "number", .kw "string"]) (.obj [("1", .str "a")]) = some true ∧
      Spec.noNumberKey ⟨[], [("X", .bi "Record" [.kw "number", .kw "string"])]⟩ = false := by decide +kernel

/-- D22: an intersection with a non-object member rejects every non-object value. -/
theorem non_object_intersection_rejects :
    compiledAccepts (.inter [.union [.kw "string", .kw "number"], .union [.kw "number", .kw "boolean"]]) (.num "1") = some false ∧
      Spec.mem [] 10 (.inter [.union [.kw "string", .kw "number"], .union [.kw "number", .kw "boolean"]]) (.num "1") = some true ∧
      Spec.intersectionsOfObjects ⟨[], [("X", .inter [.union [.kw "string", .kw "number"], .union [.kw "number", .kw "boolean"]])]⟩ = false := by
  decide +kernel

/-- The repaired D12: a template literal validator matches whole strings. -/
theorem template_anchored :
    compiledAccepts (.tpl [.lit "a", .number]) (.str "zza1zz") = some false ∧
      compiledAccepts (.tpl [.lit "a", .number]) (.str "a1") = some true := by decide +kernel

/-- non-vacuity: a program with a generic alias, a recursive object type and a discriminated union compiles in the
model and agrees with the reference on concrete members and non-members -/
example :
    let decls := [Decl.alias "Box" ["T"] (.obj [("v", false, .ref "T" [])] none),
      Decl.alias "L" [] (.obj [("x", false, .kw "number"), ("next", true, .ref "L" [])] none)]
    let t := Ty.union [.ref "Box" [.kw "string"], .ref "L" []]
    (match compile ⟨decls, [("X", t)]⟩ with
      | .ok env [(_, rt)] =>
        validate env false 50 rt (.obj [("x", .num "1"), ("next", .obj [("x", .num "2")])]) == .ok true &&
        validate env false 50 rt (.obj [("v", .num "2")]) == .ok false &&
        validate env false 50 rt (.obj [("v", .str "s")]) == .ok true
      | _ => false) = true ∧
    Spec.mem decls 50 t (.obj [("x", .num "1"), ("next", .obj [("x", .num "2")])]) = some true ∧
    Spec.mem decls 50 t (.obj [("v", .num "2")]) = some false := by decide +kernel

end BeffVerif.C01
