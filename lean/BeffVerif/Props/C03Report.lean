import BeffVerif.Props.C03NoThrow
import BeffVerif.Props.C12Received
/-!
# C03 — building the error report never throws in a closed environment

`report_no_throw`: if every reference of the runtype and of the environment resolves, `reportDecodeError` never ends in
an exception, for every mode, fuel, path and value. With `validate_no_throw`: the failure branch of `safeParse`
(validate answered false, the report is built) cannot end in an exception — `safeParse_failure_branch_no_throw`.
What remains open for `no_foreign_throw` is the success branch (`parseAfterValidation` after a successful validate) and
the rendering `printErrors` of `parse` (a total function in the model).
-/
namespace BeffVerif.C03
open BeffVerif RT C12

theorem concatRes_throw {α : Type} (f : α → Res (List DErr)) : ∀ (xs : List α) (c : String),
    concatRes f xs = .throw c → ∃ x ∈ xs, f x = .throw c := by
  intro xs
  induction xs with
  | nil => intro c h; simp [concatRes] at h
  | cons y ys ih =>
    intro c h
    simp only [concatRes] at h
    cases hy : f y with
    | ok e =>
      rw [hy] at h
      simp only at h
      cases hr : concatRes f ys with
      | ok es => rw [hr] at h; simp at h
      | throw c' =>
        rw [hr] at h
        simp only [Res.throw.injEq] at h
        obtain ⟨x, hx, e'⟩ := ih c' hr
        exact ⟨x, List.mem_cons_of_mem _ hx, by rw [e', h]⟩
      | nofuel => rw [hr] at h; simp at h
    | throw c' => rw [hy] at h; simp only [Res.throw.injEq] at h; exact ⟨y, List.mem_cons_self, by rw [hy, h]⟩
    | nofuel => rw [hy] at h; simp at h

theorem mapRes_throw {α β : Type} (f : α → Res β) : ∀ (xs : List α) (c : String),
    mapRes f xs = .throw c → ∃ x ∈ xs, f x = .throw c := by
  intro xs
  induction xs with
  | nil => intro c h; simp [mapRes] at h
  | cons y ys ih =>
    intro c h
    simp only [mapRes] at h
    cases hy : f y with
    | ok e =>
      rw [hy] at h
      simp only at h
      cases hr : mapRes f ys with
      | ok es => rw [hr] at h; simp at h
      | throw c' =>
        rw [hr] at h
        simp only [Res.throw.injEq] at h
        obtain ⟨x, hx, e'⟩ := ih c' hr
        exact ⟨x, List.mem_cons_of_mem _ hx, by rw [e', h]⟩
      | nofuel => rw [hr] at h; simp at h
    | throw c' => rw [hy] at h; simp only [Res.throw.injEq] at h; exact ⟨y, List.mem_cons_self, by rw [hy, h]⟩
    | nofuel => rw [hy] at h; simp at h

section
variable (env : Env) (strict : Bool) (henv : ∀ name t, env.lookup name = some t → Closed env t)

def NStmt (n : Nat) : Prop := ∀ rt path v c, Closed env rt → report env strict n rt path v ≠ .throw c

include henv in
theorem item_no_throw (n : Nat) (hP : NStmt env strict n) (path : List String) (t : RT) (seg : String) (x : JsVal)
    (hct : Closed env t) (c : String) :
    reportItem (validate env strict n) (report env strict n) path t seg x ≠ .throw c := by
  intro h
  unfold reportItem at h
  split at h
  · simp at h
  · exact hP t _ x c hct h
  · rename_i c' hv
    exact validate_no_throw env strict henv n t x c' hct hv
  · simp at h

include henv in
theorem indexed_no_throw (n : Nat) (hP : NStmt env strict n) (path : List String) (input : JsVal) (k : String) (p : RT × RT)
    (hc1 : Closed env p.1) (hc2 : Closed env p.2) (c : String) :
    reportIndexed (validate env strict n) (report env strict n) path input k p ≠ .throw c := by
  intro h
  unfold reportIndexed at h
  cases hk : validate env strict n p.1 (.str k) with
  | throw c' => exact validate_no_throw env strict henv n _ _ c' hc1 hk
  | nofuel => rw [hk] at h; simp at h
  | ok keyOk =>
    cases hv : validate env strict n p.2 (input.getProp k) with
    | throw c' => exact validate_no_throw env strict henv n _ _ c' hc2 hv
    | nofuel => rw [hk, hv] at h; simp at h
    | ok valueOk =>
      rw [hk, hv] at h
      simp only at h
      split at h
      · simp at h
      · cases h1 : (if (!keyOk) = true then report env strict n p.1 (path ++ [k]) (.str k) else .ok []) with
        | throw c' =>
          split at h1
          · exact hP _ _ _ c' hc1 h1
          · simp at h1
        | nofuel => rw [h1] at h; simp at h
        | ok e1 =>
          rw [h1] at h
          simp only at h
          cases h2 : (if (!valueOk) = true then report env strict n p.2 (path ++ [k]) (input.getProp k) else .ok []) with
          | throw c' =>
            split at h2
            · exact hP _ _ _ c' hc2 h2
            · simp at h2
          | nofuel => rw [h2] at h; simp at h
          | ok e2 => rw [h2] at h; simp at h


include henv in
theorem report_all : ∀ n, NStmt env strict n := by
  intro n
  induction n with
  | zero => intro rt path v c _ h; simp [report] at h
  | succ k ih =>
    intro rt path v c hc h
    rw [report.eq_def] at h
    simp only at h
    have item := fun (t : RT) (seg : String) (x : JsVal) (hct : Closed env t) (c' : String) =>
      item_no_throw env strict henv k ih path t seg x hct c'
    cases rt with
    | typeof t => simp at h
    | any => simp at h
    | nullish d => simp at h
    | never => simp at h
    | const cv => simp at h
    | regex tpl d => simp at h
    | date => simp at h
    | bigint => simp at h
    | typed ct => simp at h
    | strfmt fs => simp at h
    | numfmt fs => simp at h
    | consts vs => simp at h
    | optional t =>
      have hct : Closed env t := by simp only [Closed, anyNode, Bool.or_eq_false_iff] at hc; exact hc.2
      exact ih t path v c hct h
    | described d t =>
      have hct : Closed env t := by simp only [Closed, anyNode, Bool.or_eq_false_iff] at hc; exact hc.2
      exact ih t path v c hct h
    | ref name =>
      simp only at h
      cases hl : env.lookup name with
      | none =>
        simp only [Closed, anyNode, isDangling, hl, Option.isNone_none] at hc
        exact absurd hc (by decide)
      | some t => rw [hl] at h; exact ih t path v c (henv name t hl) h
    | allOf ts =>
      have hmem : ∀ t ∈ ts, Closed env t := by
        simp only [Closed, anyNode, Bool.or_eq_false_iff] at hc; exact anyL_false hc.2
      obtain ⟨t, ht, e⟩ := concatRes_throw _ _ _ h
      exact ih t path v c (hmem t ht) e
    | anyOf ts =>
      have hmem : ∀ t ∈ ts, Closed env t := by
        simp only [Closed, anyNode, Bool.or_eq_false_iff] at hc; exact anyL_false hc.2
      simp only at h
      split at h
      · simp at h
      · rename_i c' hm
        simp only [Res.throw.injEq] at h
        obtain ⟨t, ht, e⟩ := mapRes_throw _ _ _ hm
        exact ih t [] v c' (hmem t ht) e
      · simp at h
    | array t =>
      have hct : Closed env t := by simp only [Closed, anyNode, Bool.or_eq_false_iff] at hc; exact hc.2
      cases v with
      | arr items => obtain ⟨x, _, e⟩ := concatRes_throw _ _ _ h; exact item t _ x.1 hct c e
      | _ => simp at h
    | set t =>
      have hct : Closed env t := by simp only [Closed, anyNode, Bool.or_eq_false_iff] at hc; exact hc.2
      cases v with
      | set xs => obtain ⟨x, _, e⟩ := concatRes_throw _ _ _ h; exact item t _ x hct c e
      | _ => simp at h
    | map kt vt =>
      have hck : Closed env kt ∧ Closed env vt := by
        simp only [Closed, anyNode, Bool.or_eq_false_iff] at hc; exact ⟨hc.1.2, hc.2⟩
      cases v with
      | map es =>
        obtain ⟨x, _, e⟩ := concatRes_throw _ _ _ h
        split at e
        · split at e
          · simp at e
          · rename_i r hno
            cases hr : reportItem (validate env strict k) (report env strict k) path vt
                ("value(" ++ (jsonStringify 100 x.1).getD "undefined" ++ ")") x.2 with
            | ok b => exact (hno b hr).elim
            | throw c' => exact item vt _ x.2 hck.2 c' hr
            | nofuel => rw [hr] at e; simp at e
        · rename_i r hno
          cases hr : reportItem (validate env strict k) (report env strict k) path kt
              ("key(" ++ (jsonStringify 100 x.1).getD "undefined" ++ ")") x.1 with
          | ok a => exact (hno a hr).elim
          | throw c' => exact item kt _ x.1 hck.1 c' hr
          | nofuel => rw [hr] at e; simp at e
      | _ => simp at h
    | disc ss key mapping sm =>
      simp only at h
      split at h
      · simp at h
      · split at h
        · simp at h
        · cases hm : lookupMapping mapping (v.getProp key) with
          | none => rw [hm] at h; simp at h
          | some t =>
            rw [hm] at h
            have hct : Closed env t := by
              simp only [Closed, anyNode, Bool.or_eq_false_iff] at hc
              unfold lookupMapping at hm
              cases hd : v.getProp key <;> rw [hd] at hm <;> try (simp at hm)
              rename_i s
              cases hfind : mapping.find? (fun p => p.1 == s) with
              | none => rw [hfind] at hm; simp at hm
              | some p =>
                rw [hfind] at hm
                simp only [Option.some.injEq] at hm
                rw [← hm]
                exact anySL_false hc.1.2 p (List.mem_of_find?_eq_some hfind)
            exact ih t path v c hct h
    | tuple pre rest =>
      have hcpre : ∀ t ∈ pre, Closed env t := by
        simp only [Closed, anyNode, Bool.or_eq_false_iff] at hc; exact anyL_false hc.1.2
      cases v with
      | arr items =>
        simp only at h
        split at h
        · rename_i e1 h1
          cases rest with
          | none => simp at h
          | some r =>
            have hcr : Closed env r := by
              simp only [Closed, anyNode, anyO, Bool.or_eq_false_iff] at hc; exact hc.2
            simp only at h
            split at h
            · simp at h
            · rename_i r' hno
              cases hr : concatRes (fun (p : JsVal × Nat) => reportItem (validate env strict k) (report env strict k) path r
                  ("[" ++ JsVal.natToCanon p.2 ++ "]") p.1) ((items.zip (List.range items.length)).drop pre.length) with
              | ok b => exact (hno b hr).elim
              | throw c' =>
                obtain ⟨x, _, e⟩ := concatRes_throw _ _ _ hr
                exact item r _ x.1 hcr c' e
              | nofuel => rw [hr] at h; simp at h
        · rename_i r' hno
          cases hr : concatRes (fun (p : RT × Nat) => reportItem (validate env strict k) (report env strict k) path p.1
              ("[" ++ JsVal.natToCanon p.2 ++ "]") (items.getD p.2 JsVal.undef)) (pre.zip (List.range pre.length)) with
          | ok b => exact (hno b hr).elim
          | throw c' =>
            obtain ⟨x, hx, e⟩ := concatRes_throw _ _ _ hr
            exact item x.1 _ _ (hcpre x.1 (List.of_mem_zip hx).1) c' e
          | nofuel => rw [hr] at h; simp at h
      | _ => simp at h
    | object props indexed =>
      have hcp : ∀ p ∈ props, Closed env p.2 := by
        simp only [Closed, anyNode, Bool.or_eq_false_iff] at hc; exact anySL_false hc.1.2
      have hci : ∀ p ∈ indexed, Closed env p.1 ∧ Closed env p.2 := by
        simp only [Closed, anyNode, Bool.or_eq_false_iff] at hc; exact anyPL_false hc.2
      simp only at h
      split at h
      · simp at h
      · split at h
        · rename_i acc h1
          split at h
          · split at h
            · simp at h
            · rename_i r' hno
              cases hr : concatRes (fun kk => concatRes (reportIndexed (validate env strict k) (report env strict k) path v kk) indexed)
                  (v.ownKeys.filter (fun kk => !(props.map (·.1)).contains kk)) with
              | ok b => exact (hno b hr).elim
              | throw c' =>
                obtain ⟨kk, _, e⟩ := concatRes_throw _ _ _ hr
                obtain ⟨p, hp, e'⟩ := concatRes_throw _ _ _ e
                exact indexed_no_throw env strict henv k ih path v kk p (hci p hp).1 (hci p hp).2 c' e'
              | nofuel => rw [hr] at h; simp at h
          · split at h <;> simp at h
        · rename_i r' hno
          cases hr : concatRes (fun (p : String × RT) => reportItem (validate env strict k) (report env strict k) path p.2 p.1
              (v.getProp p.1)) props with
          | ok b => exact (hno b hr).elim
          | throw c' =>
            obtain ⟨p, hp, e⟩ := concatRes_throw _ _ _ hr
            exact item p.2 _ _ (hcp p hp) c' e
          | nofuel => rw [hr] at h; simp at h

end

/-- **No foreign exception while reporting**: in a closed environment `reportDecodeError` never throws -/
theorem report_no_throw (env : Env) (strict : Bool) (henv : ∀ name t, env.lookup name = some t → Closed env t)
    (n : Nat) (rt : RT) (path : List String) (v : JsVal) (c : String) (hc : Closed env rt) :
    report env strict n rt path v ≠ .throw c :=
  report_all env strict henv n rt path v c hc

/-- the failure branch of `safeParse`: once `validate` has answered false, nothing throws -/
theorem safeParse_failure_branch_no_throw (env : Env) (o : ParseOpts)
    (henv : ∀ name t, env.lookup name = some t → Closed env t) (n : Nat) (rt : RT) (v : JsVal) (hc : Closed env rt)
    (hv : validate env o.strict n rt v = .ok false) (c : String) : safeParse env o n rt v ≠ .throw c := by
  intro h
  unfold safeParse at h
  rw [hv] at h
  simp only at h
  cases hr : report env o.strict n rt [] v with
  | ok es => rw [hr] at h; simp at h
  | throw c' => exact report_no_throw env o.strict henv n rt [] v c' hc hr
  | nofuel => rw [hr] at h; simp at h

end BeffVerif.C03
