import BeffVerif.Props.C11
import BeffVerif.Props.C12Nonempty
import BeffVerif.Props.C03NoThrow
/-!
# C11 — keys admitted by an index signature: where every object position is open, strict mode changes nothing

The `disallowExtraProperties` flag is read at exactly one place of the runtime: an object type WITHOUT index signature. `Open t`:
no such closed object type occurs in `t` (nor, through references, in the environment). `strict_eq_default_of_open`: for every
such type, every value and every fuel the validator gives the same answer in strict and in default mode — an undeclared key is
judged by the index signature, never by the flag (the "keys admitted by an index signature" clause of the property, for ALL
constructors: unions, intersections, discriminated unions, tuples, Maps, Sets, references with recursion).
-/
namespace BeffVerif.C11O
open BeffVerif RT JsVal C12 C03

def closedObj : RT → Bool
  | .object _ [] => true
  | _ => false

/-- no object type without index signature anywhere in the tree -/
def Open (t : RT) : Prop := anyNode closedObj t = false

theorem allShort_congr {α : Type} {f g : α → Res Bool} : ∀ {l : List α}, (∀ x ∈ l, f x = g x) → allShort f l = allShort g l := by
  intro l
  induction l with
  | nil => intro _; rfl
  | cons y ys ih =>
    intro h
    simp only [allShort, h y List.mem_cons_self]
    rw [ih (fun x hx => h x (List.mem_cons_of_mem _ hx))]

theorem anyShort_congr {α : Type} {f g : α → Res Bool} : ∀ {l : List α}, (∀ x ∈ l, f x = g x) → anyShort f l = anyShort g l := by
  intro l
  induction l with
  | nil => intro _; rfl
  | cons y ys ih =>
    intro h
    simp only [anyShort, h y List.mem_cons_self]
    rw [ih (fun x hx => h x (List.mem_cons_of_mem _ hx))]

theorem lookupMapping_mem {mapping : List (String × RT)} {d : JsVal} {v : RT} (h : lookupMapping mapping d = some v) :
    ∃ p ∈ mapping, p.2 = v := by
  unfold lookupMapping at h
  split at h
  · split at h
    · rename_i p hp
      injection h with h
      exact ⟨p, List.mem_of_find?_eq_some hp, h⟩
    · cases h
  · cases h

/-- **strict = default on types that are open at every object position** -/
theorem strict_eq_default_of_open (env : Env) (henv : ∀ name t, env.lookup name = some t → Open t) :
    ∀ (n : Nat) (t : RT) (v : JsVal), Open t → validate env true n t v = validate env false n t v
  | 0, _, _, _ => rfl
  | n+1, t, v, ho => by
    have ih := strict_eq_default_of_open env henv n
    cases t with
    | typeof _ => rfl
    | any => rfl
    | nullish _ => rfl
    | never => rfl
    | const _ => rfl
    | regex _ _ => rfl
    | date => rfl
    | bigint => rfl
    | typed _ => rfl
    | strfmt _ => rfl
    | numfmt _ => rfl
    | consts _ => rfl
    | described d t =>
      simp only [validate]
      exact ih t v (by simp only [Open, anyNode, Bool.or_eq_false_iff] at ho; exact ho.2)
    | optional t =>
      simp only [validate]
      rw [ih t v (by simp only [Open, anyNode, Bool.or_eq_false_iff] at ho; exact ho.2)]
    | array t =>
      have hot : Open t := by simp only [Open, anyNode, Bool.or_eq_false_iff] at ho; exact ho.2
      simp only [validate]
      cases v with
      | arr items => exact allShort_congr (fun x _ => ih t x hot)
      | _ => rfl
    | set t =>
      have hot : Open t := by simp only [Open, anyNode, Bool.or_eq_false_iff] at ho; exact ho.2
      simp only [validate]
      cases v with
      | set items => exact allShort_congr (fun x _ => ih t x hot)
      | _ => rfl
    | map kt vt =>
      have hok : Open kt ∧ Open vt := by simp only [Open, anyNode, Bool.or_eq_false_iff] at ho; exact ⟨ho.1.2, ho.2⟩
      simp only [validate]
      cases v with
      | map es =>
        refine allShort_congr (fun e _ => ?_)
        rw [ih kt e.1 hok.1, ih vt e.2 hok.2]
      | _ => rfl
    | anyOf ts =>
      have hots : ∀ t ∈ ts, Open t := by
        simp only [Open, anyNode, Bool.or_eq_false_iff] at ho; exact fun t ht => anyL_false ho.2 t ht
      simp only [validate]
      exact anyShort_congr (fun t ht => ih t v (hots t ht))
    | allOf ts =>
      have hots : ∀ t ∈ ts, Open t := by
        simp only [Open, anyNode, Bool.or_eq_false_iff] at ho; exact fun t ht => anyL_false ho.2 t ht
      simp only [validate]
      refine allShort_congr (fun t ht => ?_)
      rw [ih t v (hots t ht)]
    | tuple pre rest =>
      have hop : (∀ t ∈ pre, Open t) ∧ (∀ r, rest = some r → Open r) := by
        simp only [Open, anyNode, Bool.or_eq_false_iff] at ho
        exact ⟨fun t ht => anyL_false ho.1.2 t ht, fun r e => anyO_false ho.2 r e⟩
      simp only [validate]
      cases v with
      | arr items =>
        simp only
        have h1 : allShort (fun (p : RT × Nat) => validate env true n p.1 (items.getD p.2 .undef)) (pre.zip (List.range pre.length)) =
            allShort (fun (p : RT × Nat) => validate env false n p.1 (items.getD p.2 .undef)) (pre.zip (List.range pre.length)) :=
          allShort_congr (fun p hp => ih p.1 _ (hop.1 p.1 (List.of_mem_zip hp).1))
        rw [h1]
        cases rest with
        | none => rfl
        | some r =>
          simp only
          rw [allShort_congr (fun x _ => ih r x (hop.2 r rfl))]
      | _ => rfl
    | disc ss key m sm =>
      have hom : ∀ p ∈ m, Open p.2 := by
        simp only [Open, anyNode, Bool.or_eq_false_iff] at ho; exact fun p hp => anySL_false ho.1.2 p hp
      simp only [validate]
      split
      · rfl
      · split
        · rfl
        · split
          · rfl
          · rename_i vv hl
            obtain ⟨p, hp, e⟩ := lookupMapping_mem hl
            exact ih vv v (e ▸ hom p hp)
    | ref name =>
      simp only [validate]
      cases hl : env.lookup name with
      | none => rfl
      | some t => exact ih t v (henv name t hl)
    | object props ix =>
      cases ix with
      | nil => simp [Open, anyNode, closedObj] at ho
      | cons i is =>
        have hop : (∀ p ∈ props, Open p.2) ∧ (∀ p ∈ i :: is, Open p.1 ∧ Open p.2) := by
          simp only [Open, anyNode, Bool.or_eq_false_iff] at ho
          exact ⟨fun p hp => anySL_false ho.1.2 p hp, fun p hp => anyPL_false ho.2 p hp⟩
        simp only [validate]
        split
        · rfl
        · have h1 : allShort (fun (p : String × RT) => validate env true n p.2 (v.getProp p.1)) props =
              allShort (fun (p : String × RT) => validate env false n p.2 (v.getProp p.1)) props :=
            allShort_congr (fun p hp => ih p.2 _ (hop.1 p hp))
          rw [h1]
          split
          · simp only [List.length_cons, Nat.zero_lt_succ, if_true, gt_iff_lt]
            refine allShort_congr (fun k _ => ?_)
            unfold indexedAccepts
            refine anyShort_congr (fun p hp => ?_)
            rw [ih p.1 _ (hop.2 p hp).1, ih p.2 _ (hop.2 p hp).2]
          · rfl

private def exT : RT := .object [("a", .typeof "string")] [(.typeof "string", .anyOf [.typeof "number", .object [] [(.typeof "string", .any)]])]

/-- non-vacuity: an open type, a value with keys the type does not declare by name, accepted with the flag on; and a closed
type is not open -/
example : anyNode closedObj exT = false ∧
    (match validate [] true 6 exT (.obj [("a", .str "x"), ("zz", .num "1"), ("yy", .obj [("deep", .bool true)])]) with | .ok b => b | _ => false) = true ∧
    anyNode closedObj (.array (.object [("a", .typeof "string")] [])) = true := by decide +kernel

end BeffVerif.C11O
