import BeffVerif.Props.C05Flat
/-!
# C05 — a closed object type against a UNION of object types: `check_mapping_empty` is exact

`Props/C05Flat.lean` follows one question `A extends B` from `is_subtype` down to `check_mapping_empty` with ONE negative atom.
This file proves the heart of the engine for ANY number of negative atoms: `check_many` — for a positive object type without
index signature whose declared properties are inhabited scalar types, and negative object types without index signature
(well-formed property types), every context and every fuel ≥ 2 + the number of negative atoms, `check_mapping_empty`
answers, leaves the context alone, and says "empty" exactly when every exact value of the positive type is a structural value
of ONE OF the negative types. That is `{ ok: boolean } extends { ok: true } | { ok: false }`, and discriminated unions on the
right in general: the values of the left type are covered by the members together, none of them alone.

The algorithm narrows: an exact value of `P` outside `B` differs from `B` at some key `k` in sight, where it lies in
`P[k] \ B[k]`; so `P \ B` is the union over the keys of `P` with `k` narrowed to that difference (`sem_step`, with
`narrow` / `valueExact_narrow`), and each narrowed type has to be covered by the remaining atoms (`keys_fold_gen`, induction
on the list of atoms). Passing the UN-narrowed type on (the seeded change C01-r9) breaks exactly `sem_step`. With index
signatures among several negative atoms the statement is false (D84); with several POSITIVE object atoms too (D25): both are
excluded by the hypotheses (one positive atom, no index signature anywhere).
-/
namespace BeffVerif.C05Union
open BeffVerif Sem C05 C05Flat Bdd

/-- the positive atom with key `k` narrowed to `d` (what `check_mapping_empty` hands to the remaining negative atoms) -/
def narrow (P : MappingAtomic) (k : String) (d : SemType) : MappingAtomic := { P with vs := vsPut P.vs k d }

theorem vsGet_replace (k k' : String) (d : SemType) : ∀ (vs : List (String × SemType)),
    vsGet (vs.map fun p => if p.1 == k then (k, d) else p) k' =
      if k' = k then (if vs.any (fun p => p.1 == k) then some d else none) else vsGet vs k'
  | [] => by simp [vsGet]
  | p :: ps => by
    have ih := vsGet_replace k k' d ps
    unfold vsGet at ih ⊢
    simp only [List.map_cons, List.find?_cons, List.any_cons]
    by_cases hp : (p.1 == k) = true
    · have e : p.1 = k := by simpa using hp
      by_cases hk : k' = k
      · subst hk; simp [hp]
      · have h1 : (k == k') = false := by simp [Ne.symm hk]
        have h2 : (p.1 == k') = false := by rw [e]; exact h1
        simp only [hp, if_true, h1, h2, hk, if_false, Bool.false_eq_true]
        simpa [hk] using ih
    · have hp' : (p.1 == k) = false := by simpa using hp
      simp only [hp', Bool.false_eq_true, if_false, Bool.false_or]
      by_cases hk : k' = k
      · subst hk
        simp only [hp', Bool.false_eq_true, if_false, if_true] at ih ⊢
        exact ih
      · by_cases hpk : (p.1 == k') = true
        · simp [hpk, hk]
        · have hpk' : (p.1 == k') = false := by simpa using hpk
          simp only [hpk', Bool.false_eq_true, if_false, hk] at ih ⊢
          exact ih

theorem vsGet_append_new (vs : List (String × SemType)) (k k' : String) (d : SemType)
    (hno : vs.any (fun p => p.1 == k) = false) :
    vsGet (vs ++ [(k, d)]) k' = if k' = k then some d else vsGet vs k' := by
  unfold vsGet
  rw [List.find?_append]
  by_cases hk : k' = k
  · subst hk
    have : vs.find? (fun p => p.1 == k') = none := by
      apply List.find?_eq_none.2
      intro q hq hqk
      have : vs.any (fun p => p.1 == k') = true := List.any_eq_true.2 ⟨q, hq, hqk⟩
      rw [hno] at this; cases this
    simp [this]
  · have : (k == k') = false := by simp [Ne.symm hk]
    simp only [hk, if_false]
    cases hf : vs.find? (fun p => p.1 == k') with
    | none => simp [this]
    | some q => simp

theorem vsGet_vsPut (vs : List (String × SemType)) (k k' : String) (d : SemType) :
    vsGet (vsPut vs k d) k' = if k' = k then some d else vsGet vs k' := by
  unfold vsPut
  by_cases hany : vs.any (fun p => p.1 == k) = true
  · simp only [hany, if_true]
    rw [vsGet_replace]
    simp [hany]
  · have hany' : vs.any (fun p => p.1 == k) = false := by
      cases h : vs.any (fun p => p.1 == k) with
      | false => rfl
      | true => exact absurd h hany
    simp only [hany', Bool.false_eq_true, if_false]
    exact vsGet_append_new vs k k' d hany'

theorem valueExact_narrow (P : MappingAtomic) (k k' : String) (d : SemType) :
    valueExact (narrow P k d) k' = if k' = k then d else valueExact P k' := by
  unfold valueExact narrow
  simp only [vsGet_vsPut]
  by_cases hk : k' = k
  · simp [hk]
  · simp [hk]

/-- every exact value of `P` is a structural value of one of `negs` -/
def Sub (P : MappingAtomic) (negs : List MappingAtomic) : Prop :=
  ∀ o, memExact P o → ∃ B ∈ negs, memOpen B o

theorem exists_member (P : MappingAtomic) (hP : ∀ p ∈ P.vs, Inh p.2) (hPi : P.index = none) : ∃ o, memExact P o :=
  ⟨fun k => Classical.choose (inh_valueExact P hP hPi k), fun k => Classical.choose_spec (inh_valueExact P hP hPi k)⟩

/-- the per-key loop of `check_mapping_empty`, with whatever the remaining negative atoms are -/
theorem keys_fold_gen (m : Nat) (P B : MappingAtomic) (rest : List MappingAtomic) (c : Ctx)
    (hP : ∀ p ∈ P.vs, Good p.2 ∧ Inh p.2) (hPi : P.index = none)
    (hB : ∀ q ∈ B.vs, WF q.2) (hBi : B.index = none)
    (hemp : ∀ d, Good d → ∃ e, isEmpty m d c = some (e, c) ∧ (e = false ↔ Inh d))
    (hinner : ∀ k d, Good d → Inh d → ∃ r, checkMappingEmpty m (narrow P k d) rest c = some (r, c) ∧
      (r = true ↔ Sub (narrow P k d) rest)) (keys : List String) (ok : Bool) :
    ∃ r, keys.foldlM (fun (ok : Bool) (k : String) =>
        if !ok then (pure false : SM Bool) else do
          let d ← SM.lift (Sem.diff (valueExact P k) (valueOpen B k))
          if ← isEmpty m d then pure true
          else do
            let r ← checkMappingEmpty m { P with vs := vsPut P.vs k d } rest
            pure r) ok c = some (r, c) ∧
      (r = true ↔ ok = true ∧ ∀ k ∈ keys, ∀ d, Sem.diff (valueExact P k) (valueOpen B k) = some d → Inh d → Sub (narrow P k d) rest) := by
  induction keys generalizing ok with
  | nil => exact ⟨ok, rfl, by simp⟩
  | cons k ks ih =>
    rw [List.foldlM_cons]
    cases ok with
    | false =>
      obtain ⟨r, hr, hiff⟩ := ih false
      refine ⟨r, ?_, by simpa using hiff⟩
      rw [sm_bind_of _ _ c c false (by rfl)]
      exact hr
    | true =>
      obtain ⟨d, hd, hdg, hdv⟩ := diff_good (valueExact P k) (valueOpen B k)
        (good_valueExact P (fun p hp => (hP p hp).1) hPi k) (wf_valueOpen B hB (fun w hw => by rw [hBi] at hw; cases hw) k)
      obtain ⟨e, he, heiff⟩ := hemp d hdg
      cases e with
      | true =>
        have hni : ¬ Inh d := fun hi => by have := heiff.2 hi; cases this
        obtain ⟨r, hr, hiff⟩ := ih true
        refine ⟨r, ?_, ?_⟩
        · rw [sm_bind_of _ _ c c true ?_]
          · exact hr
          · simp only [Bool.not_true, Bool.false_eq_true, if_false]
            rw [sm_bind_of _ _ c c d (by rw [hd]; rfl)]
            rw [sm_bind_of _ _ c c true he]
            rfl
        · rw [hiff]
          simp only [true_and, List.mem_cons, forall_eq_or_imp]
          constructor
          · intro h
            exact ⟨fun d' hd' hi' => by rw [hd] at hd'; cases hd'; exact absurd hi' hni, h⟩
          · intro h; exact h.2
      | false =>
        have hi : Inh d := heiff.1 rfl
        obtain ⟨ri, hri, hriff⟩ := hinner k d hdg hi
        obtain ⟨r, hr, hiff⟩ := ih ri
        refine ⟨r, ?_, ?_⟩
        · rw [sm_bind_of _ _ c c ri ?_]
          · exact hr
          · simp only [Bool.not_true, Bool.false_eq_true, if_false]
            rw [sm_bind_of _ _ c c d (by rw [hd]; rfl)]
            rw [sm_bind_of _ _ c c false he]
            simp only [Bool.false_eq_true, if_false]
            exact hri
        · rw [hiff, hriff]
          simp only [true_and, List.mem_cons, forall_eq_or_imp]
          constructor
          · rintro ⟨h1, h2⟩
            exact ⟨fun d' hd' _ => by rw [hd] at hd'; cases hd'; exact h1, h2⟩
          · rintro ⟨h1, h2⟩
            exact ⟨h1 d hd hi, h2⟩

/-- the decomposition behind the loop: an exact value of `P` outside `B` differs from `B` at some key in sight -/
theorem sem_step (P B : MappingAtomic) (rest : List MappingAtomic)
    (hP : ∀ p ∈ P.vs, Good p.2 ∧ Inh p.2) (hPi : P.index = none) (hB : ∀ q ∈ B.vs, WF q.2) (hBi : B.index = none)
    (keys : List String) (hkeys : ∀ k, k ∈ B.vs.map (·.1) → k ∈ keys) :
    (∀ k ∈ keys, ∀ d, Sem.diff (valueExact P k) (valueOpen B k) = some d → Inh d → Sub (narrow P k d) rest) ↔ Sub P (B :: rest) := by
  have hdiff : ∀ k, ∃ d, Sem.diff (valueExact P k) (valueOpen B k) = some d ∧
      ∀ v, hasScalar d v = (hasScalar (valueExact P k) v && !hasScalar (valueOpen B k) v) := by
    intro k
    obtain ⟨d, hd, _, hdv⟩ := diff_good (valueExact P k) (valueOpen B k)
      (good_valueExact P (fun p hp => (hP p hp).1) hPi k) (wf_valueOpen B hB (fun w hw => by rw [hBi] at hw; cases hw) k)
    exact ⟨d, hd, hdv⟩
  constructor
  · intro h o ho
    by_cases hin : memOpen B o
    · exact ⟨B, List.mem_cons_self, hin⟩
    · -- some key where the value is not allowed by B
      have : ∃ k, hasScalar (valueOpen B k) (o k) = false := by
        apply Classical.byContradiction
        intro hne
        apply hin
        intro k
        cases hb : hasScalar (valueOpen B k) (o k) with
        | true => rfl
        | false => exact absurd ⟨k, hb⟩ hne
      obtain ⟨k, hk⟩ := this
      have hkk : k ∈ keys := by
        apply Classical.byContradiction
        intro hnk
        have : vsGet B.vs k = none := by
          cases hg : vsGet B.vs k with
          | none => rfl
          | some t => exact absurd (hkeys k ((vsGet_isSome_iff B.vs k).1 (by rw [hg]; rfl))) hnk
        simp only [valueOpen, this, hBi, hasScalar_unknown] at hk
        cases hk
      obtain ⟨d, hd, hdv⟩ := hdiff k
      have hod : hasScalar d (o k) = true := by rw [hdv, ho k, hk]; rfl
      have hmem : memExact (narrow P k d) o := by
        intro k'
        rw [valueExact_narrow]
        by_cases e : k' = k
        · subst e; simp only [if_true]; exact hod
        · simp only [e, if_false]; exact ho k'
      obtain ⟨B', hB', hm⟩ := h k hkk d hd ⟨o k, hod⟩ o hmem
      exact ⟨B', List.mem_cons_of_mem _ hB', hm⟩
  · intro h k _ d hd _ o ho
    obtain ⟨d0, hd0, hdv⟩ := hdiff k
    rw [hd0] at hd; cases hd
    have hok : hasScalar d (o k) = true := by
      have := ho k
      rw [valueExact_narrow] at this
      simpa using this
    rw [hdv] at hok
    simp only [Bool.and_eq_true, Bool.not_eq_true'] at hok
    have hoP : memExact P o := by
      intro k'
      have := ho k'
      rw [valueExact_narrow] at this
      by_cases e : k' = k
      · subst e; exact hok.1
      · simpa [e] using this
    obtain ⟨B', hB', hm⟩ := h o hoP
    rcases List.mem_cons.1 hB' with e | hr
    · subst e
      have := hm k
      rw [hok.2] at this; cases this
    · exact ⟨B', hr, hm⟩

/-- **`check_mapping_empty` is exact on a closed object type against any number of object types** (no index signatures): for
every fuel ≥ 2 + the number of negative atoms it answers, leaves the context alone, and says "empty" exactly when every exact
value of the positive type is a structural value of one of the negative types -/
theorem check_many : ∀ (negs : List MappingAtomic) (n : Nat) (P : MappingAtomic) (c : Ctx),
    (∀ p ∈ P.vs, Good p.2 ∧ Inh p.2) → P.index = none → (∀ B ∈ negs, (∀ q ∈ B.vs, WF q.2) ∧ B.index = none) →
    ∃ r, checkMappingEmpty (n + 2 + negs.length) P negs c = some (r, c) ∧ (r = true ↔ Sub P negs)
  | [], n, P, c, hP, hPi, _ => by
    refine ⟨false, check_nil n P c hP, ?_⟩
    constructor
    · intro h; cases h
    · intro h
      obtain ⟨o, ho⟩ := exists_member P (fun p hp => (hP p hp).2) hPi
      obtain ⟨B, hB, _⟩ := h o ho
      cases hB
  | B :: rest, n, P, c, hP, hPi, hN => by
    have hBN := hN B List.mem_cons_self
    have hrest : ∀ B' ∈ rest, (∀ q ∈ B'.vs, WF q.2) ∧ B'.index = none := fun B' h => hN B' (List.mem_cons_of_mem _ h)
    -- the fuel of the recursive calls
    have hm : n + 2 + (B :: rest).length = (n + 2 + rest.length) + 1 := by simp; omega
    rw [hm]
    have hemp : ∀ d, Good d → ∃ e, isEmpty (n + 2 + rest.length) d c = some (e, c) ∧ (e = false ↔ Inh d) := by
      intro d hd
      have : n + 2 + rest.length = (n + 1 + rest.length) + 1 := by omega
      rw [this]; exact isEmpty_good _ d c hd
    have hinner : ∀ k d, Good d → Inh d → ∃ r, checkMappingEmpty (n + 2 + rest.length) (narrow P k d) rest c = some (r, c) ∧
        (r = true ↔ Sub (narrow P k d) rest) := by
      intro k d hdg hdi
      apply check_many rest n (narrow P k d) c _ hPi hrest
      intro p hp
      rcases mem_vsPut hp with hp | hp
      · exact hP p hp
      · subst hp; exact ⟨hdg, hdi⟩
    obtain ⟨r, hr, hiff⟩ := keys_fold_gen (n + 2 + rest.length) P B rest c hP hPi hBN.1 hBN.2 hemp hinner (keysOf P B) true
    refine ⟨r, ?_, ?_⟩
    · unfold keysOf at hr
      unfold checkMappingEmpty
      have hany : P.vs.foldlM (fun (acc : Bool) (p : String × SemType) => if acc then (pure true : SM Bool) else isEmpty (n + 2 + rest.length) p.2) false c
          = some (false, c) := by
        have : n + 2 + rest.length = (n + 1 + rest.length) + 1 := by omega
        rw [this]; exact anyEmpty_false _ P.vs c hP
      rw [sm_bind_of _ _ c c false hany]
      simp only [Bool.false_eq_true, if_false]
      rw [sm_bind_of _ _ c c r hr]
      cases r with
      | false => rfl
      | true =>
        simp only [Bool.not_true, Bool.false_eq_true, if_false, hPi, hBN.2]
        have hfu : n + 2 + rest.length = (n + rest.length) + 2 := by omega
        obtain ⟨d, hd, he⟩ := index_dim_empty (n + rest.length) unknown wf_unknown c
        rw [sm_bind_of _ _ c c d (by rw [hd]; rfl)]
        rw [hfu, sm_bind_of _ _ c c true he]
        rfl
    · rw [hiff]
      simp only [true_and]
      exact sem_step P B rest hP hPi hBN.1 hBN.2 (keysOf P B) (fun k hk => by
        simp only [keysOf, mem_sortStrings, mem_dedup, List.mem_append]; exact Or.inr hk)

-- ---------- the statement is about something ----------
/-- `{ ok: boolean }`, `{ ok: true }`, `{ ok: false }` -/
def exP : MappingAtomic := ⟨[("ok", { never with bool := .all })], none⟩
def exT : MappingAtomic := ⟨[("ok", { never with bool := .some true })], none⟩
def exF : MappingAtomic := ⟨[("ok", { never with bool := .some false })], none⟩
/-- covered by the two members together, by neither alone -/
example : ((checkMappingEmpty 4 exP [exT, exF] {}).map (·.1)) = some true := by decide +kernel
example : ((checkMappingEmpty 3 exP [exT] {}).map (·.1)) = some false := by decide +kernel
example : ((checkMappingEmpty 3 exP [exF] {}).map (·.1)) = some false := by decide +kernel

end BeffVerif.C05Union
