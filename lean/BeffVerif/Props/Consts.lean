import BeffVerif.Gen.ClientConsts
import BeffVerif.Model.TsCore
import BeffVerif.Model.Parse
import BeffVerif.Model.Hash256
/-!
# (T) small constant tables, regenerated from the source on every run

`tools/translate/client_consts.py` rewrites `Gen/ClientConsts.lean` from /repo: the keys a closed object schema may carry to be
merged (`MERGEABLE_OBJECT_SCHEMA_KEYS`), the keys `deepmerge` refuses to copy (`isNotPrototypeKey`), every tag `hash256` writes
(the `updateTag("…")` literals of `codegen-v2.ts`) and the typed-array kinds of the compiler (`TypedArrayKind::js_name`). The
obligations below say that the regenerated tables are the ones the hand-written models use: a change of any of them in the
source breaks the obligation of the checks that depend on it (C01, C02, C03, C13) before any request is generated.
-/
namespace BeffVerif.Consts
open BeffVerif

/-- the typed-array kinds of the compiler are the ones the frontend model knows (`Lower.typedArrayNames`) -/
theorem typed_array_kinds_current : Gen.typedArrayKinds = Lower.typedArrayNames := by decide

/-- `deepmerge` refuses exactly the keys `RT.isNotPrototypeKey` (Model/Parse.lean) refuses -/
theorem deepmerge_refused_keys_current (k : String) : RT.isNotPrototypeKey k = !(Gen.deepmergeRefusedKeys.contains k) := by
  simp only [RT.isNotPrototypeKey, Gen.deepmergeRefusedKeys, List.contains_cons, List.contains_nil, Bool.or_false, Bool.not_or]
  cases h1 : k == "constructor" <;> cases h2 : k == "prototype" <;> cases h3 : k == "__proto__" <;> simp [bne, h1, h2, h3]

/-- the keys `tryMergeAllOf` (Model/Schema.lean) lets a mergeable closed object schema carry -/
theorem mergeable_keys_current : Gen.mergeableSchemaKeys = ["type", "properties", "required", "additionalProperties"] := by decide

/-- the tags `RT.h256` (Model/Hash256.lean) and the root writer can emit -/
def modelTags : List String :=
  ["allOf", "any", "anyOf", "anyOfConsts", "anyOfDiscriminated", "array", "beff-hash256-v1", "bigint", "boolean", "const",
   "cycleRef", "date", "map", "never", "noRest", "nullish", "number", "numberWithFormat", "object", "optionalField", "regex",
   "rest", "set", "string", "stringWithFormat", "tuple", "typedArray", "typeof"]

theorem hash256_tags_current : Gen.hash256Tags = modelTags := by decide

end BeffVerif.Consts
