import BeffVerif.Lemmas.RT
import BeffVerif.Model.RTPred
/-!
# C11 — strict mode rejects exactly the values that carry undeclared keys
-/
namespace BeffVerif.C11
open BeffVerif RT JsVal

/-- Monotonicity, full strength (every runtype, every environment, every value, every fuel): whenever both
modes answer, a value accepted with `disallowExtraProperties` is accepted in default mode. -/
theorem strict_implies_default (env : Env) (n : Nat) (rt : RT) (v : JsVal) (b : Bool)
    (hs : validate env true n rt v = .ok true) (hd : validate env false n rt v = .ok b) : b = true := by
  cases b with
  | true => rfl
  | false => exact absurd hd (validate_strict_mono env n rt v hs)

/-- One object position without index signature: strict acceptance = the declared properties are accepted
(strictly) and the value has no own key outside the declared ones. -/
theorem strict_object_iff (env : Env) (n : Nat) (props : List (String × RT)) (v : JsVal)
    (ho : (v.isObjectLike && !v.isArray) = true) :
    validate env true (n+1) (.object props []) v = .ok true ↔
      (∀ p ∈ props, validate env true n p.2 (v.getProp p.1) = .ok true) ∧
        (∀ k ∈ v.ownKeys, ∃ t, (k, t) ∈ props) := by
  simp only [validate, ho, Bool.not_true, Bool.false_eq_true, if_false]
  constructor
  · intro h
    cases hp : allShort (fun (p : String × RT) => validate env true n p.2 (v.getProp p.1)) props with
    | ok b =>
      cases b with
      | true =>
        rw [hp] at h
        refine ⟨(allShort_true_iff _ _).1 hp, ?_⟩
        simpa using h
      | false => rw [hp] at h; simp at h
    | throw c => rw [hp] at h; simp at h
    | nofuel => rw [hp] at h; simp at h
  · intro ⟨h1, h2⟩
    rw [(allShort_true_iff _ _).2 h1]
    simpa using h2

/-- With an index signature the strict flag is irrelevant at that position (keys are judged by the signature). -/
theorem strict_irrelevant_with_index (env : Env) (n : Nat) (props : List (String × RT)) (ix : RT × RT)
    (ixs : List (RT × RT)) (v : JsVal)
    (h : ∀ t x, validate env true n t x = validate env false n t x) :
    validate env true (n+1) (.object props (ix :: ixs)) v = validate env false (n+1) (.object props (ix :: ixs)) v := by
  simp only [validate]
  have hf : (fun (p : String × RT) => validate env true n p.2 (v.getProp p.1)) =
      (fun (p : String × RT) => validate env false n p.2 (v.getProp p.1)) := by funext p; exact h _ _
  have hg : validate env true n = validate env false n := by funext t x; exact h t x
  rw [hf, hg]; simp

/-! ## The full-strength statement is false of the current code (known finding D9)

`strict_iff : validate strict rt v ↔ validate default rt v ∧ (no undeclared key at any object position,
counting all members of an intersection)` fails for an intersection of two named object types: each member is
checked with the same flag against the WHOLE value, so a key declared by the other member counts as extra. -/

private def A : RT := .object [("a", .typeof "string")] []
private def B : RT := .object [("b", .typeof "number")] []
private def env : Env := [("A", A), ("B", B)]
private def ab : JsVal := .obj [("a", .str "x"), ("b", .num "1")]

/-- `A & B` (named references) rejects `{a:"x", b:1}` in strict mode although every key is declared … -/
theorem split_intersection_rejects_declared_keys :
    validate env true 10 (.allOf [.ref "A", .ref "B"]) ab = .ok false ∧
      validate env false 10 (.allOf [.ref "A", .ref "B"]) ab = .ok true ∧
      noSplitIntersection env (.allOf [.ref "A", .ref "B"]) = false := by decide +kernel

/-- … while the merged literal object type (what `all_of` produces for inline members) accepts it. -/
theorem merged_intersection_accepts :
    validate env true 10 (.object [("a", .typeof "string"), ("b", .typeof "number")] []) ab = .ok true := by
  decide +kernel

/-- non-vacuity of `strict_implies_default` and of the object characterisation -/
example : validate env true 10 (.ref "A") (.obj [("a", .str "x")]) = .ok true ∧
    validate env true 10 (.ref "A") (.obj [("a", .str "x"), ("z", .null)]) = .ok false ∧
    validate env false 10 (.ref "A") (.obj [("a", .str "x"), ("z", .null)]) = .ok true := by decide +kernel

end BeffVerif.C11
