import BeffVerif.Props.C12Nonempty
/-!
# C12 — every reported error sits at or below the position it was reported for

`report_paths_extend`: for every environment, mode, fuel, runtype, path and value, every top-level error returned by
`reportDecodeError ctx(path)` carries a path that starts with `path` (errors point INTO the inspected position, never
elsewhere in the input). The errors nested inside a union error are relative to the union's own path
(`buildUnionError` re-anchors a single nested error with `prependPath`).
-/
namespace BeffVerif.C12
open BeffVerif RT

def DErr.path : DErr → List String
  | .regular _ p _ => p
  | .union p _ _ => p

def Below (path : List String) (e : DErr) : Prop := path <+: DErr.path e

theorem below_buildError (path : List String) (msg : String) (v : JsVal) : ∀ e ∈ buildError path msg v, Below path e := by
  intro e he
  simp only [buildError, List.mem_singleton] at he
  subst he
  exact List.prefix_refl _

theorem below_buildUnionError (path : List String) (es : List DErr) (v : JsVal) :
    ∀ e ∈ buildUnionError path es v, Below path e := by
  intro e he
  unfold buildUnionError at he
  simp only at he
  split at he
  · rename_i d _
    simp only [List.mem_singleton] at he
    subst he
    cases d <;> exact List.prefix_append _ _
  · simp only [List.mem_singleton] at he
    subst he
    exact List.prefix_refl _

theorem below_trans {p q : List String} {e : DErr} (h : Below (p ++ q) e) : Below p e :=
  List.IsPrefix.trans (List.prefix_append p q) h

/-- a property of every element of every successful part holds of the concatenation -/
theorem concatRes_all {α : Type} (f : α → Res (List DErr)) (P : DErr → Prop) : ∀ (xs : List α) (errs : List DErr),
    concatRes f xs = .ok errs → (∀ x ∈ xs, ∀ e, f x = .ok e → ∀ d ∈ e, P d) → ∀ d ∈ errs, P d := by
  intro xs
  induction xs with
  | nil => intro errs h _ d hd; simp only [concatRes, Res.ok.injEq] at h; subst h; cases hd
  | cons y ys ih =>
    intro errs h hall d hd
    simp only [concatRes] at h
    cases hy : f y with
    | ok e =>
      rw [hy] at h
      simp only at h
      cases hr : concatRes f ys with
      | ok es =>
        rw [hr] at h
        simp only [Res.ok.injEq] at h
        subst h
        rcases List.mem_append.1 hd with h1 | h2
        · exact hall y (List.mem_cons_self) e hy d h1
        · exact ih es hr (fun x hx => hall x (List.mem_cons_of_mem _ hx)) d h2
      | throw c => rw [hr] at h; simp at h
      | nofuel => rw [hr] at h; simp at h
    | throw c => rw [hy] at h; simp at h
    | nofuel => rw [hy] at h; simp at h

section
variable (env : Env) (strict : Bool)

def PStmt (n : Nat) : Prop := ∀ rt path v errs, report env strict n rt path v = .ok errs → ∀ e ∈ errs, Below path e

theorem item_below (n : Nat) (hP : PStmt env strict n) (path : List String) (t : RT) (seg : String) (x : JsVal)
    (e : List DErr) (he : reportItem (validate env strict n) (report env strict n) path t seg x = .ok e) :
    ∀ d ∈ e, Below path d := by
  unfold reportItem at he
  split at he
  · simp only [Res.ok.injEq] at he; subst he; intro d hd; cases hd
  · intro d hd; exact below_trans (hP t _ x e he d hd)
  · simp at he
  · simp at he

theorem indexed_below (n : Nat) (hP : PStmt env strict n) (path : List String) (input : JsVal) (k : String) (p : RT × RT)
    (e : List DErr) (he : reportIndexed (validate env strict n) (report env strict n) path input k p = .ok e) :
    ∀ d ∈ e, Below path d := by
  unfold reportIndexed at he
  split at he
  · rename_i keyOk valueOk _ _
    split at he
    · simp only [Res.ok.injEq] at he; subst he; intro d hd; cases hd
    · have h1 : ∀ e1, (if (!keyOk) = true then report env strict n p.1 (path ++ [k]) (.str k) else .ok []) = .ok e1 →
          ∀ d ∈ e1, Below path d := by
        intro e1 h d hd
        split at h
        · exact below_trans (hP _ _ _ e1 h d hd)
        · simp only [Res.ok.injEq] at h; subst h; cases hd
      have h2 : ∀ e2, (if (!valueOk) = true then report env strict n p.2 (path ++ [k]) (input.getProp k) else .ok []) = .ok e2 →
          ∀ d ∈ e2, Below path d := by
        intro e2 h d hd
        split at h
        · exact below_trans (hP _ _ _ e2 h d hd)
        · simp only [Res.ok.injEq] at h; subst h; cases hd
      split at he
      · rename_i e1 hx1
        split at he
        · rename_i e2 hx2
          simp only [Res.ok.injEq] at he; subst he
          intro d hd
          rcases List.mem_append.1 hd with hd | hd
          · exact h1 e1 hx1 d hd
          · exact h2 e2 hx2 d hd
        · rename_i hno; exact (hno _ he).elim
      · rename_i hno; exact (hno _ he).elim
  all_goals simp at he

theorem paths_all : ∀ n, PStmt env strict n := by
  intro n
  induction n with
  | zero => intro rt path v errs h; simp [report] at h
  | succ k ih =>
    intro rt path v errs h
    rw [report.eq_def] at h
    simp only at h
    cases rt with
    | typeof t => simp only [Res.ok.injEq] at h; subst h; exact below_buildError _ _ _
    | any => simp only [Res.ok.injEq] at h; subst h; exact below_buildError _ _ _
    | nullish d => simp only [Res.ok.injEq] at h; subst h; exact below_buildError _ _ _
    | never => simp only [Res.ok.injEq] at h; subst h; exact below_buildError _ _ _
    | const c => simp only [Res.ok.injEq] at h; subst h; exact below_buildError _ _ _
    | regex tpl d => simp only [Res.ok.injEq] at h; subst h; exact below_buildError _ _ _
    | date => simp only [Res.ok.injEq] at h; subst h; exact below_buildError _ _ _
    | bigint => simp only [Res.ok.injEq] at h; subst h; exact below_buildError _ _ _
    | typed c => simp only [Res.ok.injEq] at h; subst h; exact below_buildError _ _ _
    | strfmt fs => simp only [Res.ok.injEq] at h; subst h; exact below_buildError _ _ _
    | numfmt fs => simp only [Res.ok.injEq] at h; subst h; exact below_buildError _ _ _
    | consts vs => simp only [Res.ok.injEq] at h; subst h; exact below_buildError _ _ _
    | allOf ts => exact concatRes_all _ _ _ _ h (fun t _ e he => ih t path v e he)
    | anyOf ts =>
      simp only at h
      split at h
      · simp only [Res.ok.injEq] at h; subst h; exact below_buildUnionError _ _ _
      · simp at h
      · simp at h
    | optional t => exact ih t path v errs h
    | described d t => exact ih t path v errs h
    | ref name =>
      simp only at h
      cases hl : env.lookup name with
      | none => rw [hl] at h; simp at h
      | some t => rw [hl] at h; exact ih t path v errs h
    | array t =>
      cases v with
      | arr items => exact concatRes_all _ _ _ _ h (fun p _ e he => item_below env strict k ih path t _ p.1 e he)
      | _ => simp only [Res.ok.injEq] at h; subst h; exact below_buildError _ _ _
    | set t =>
      cases v with
      | set xs => exact concatRes_all _ _ _ _ h (fun x _ e he => item_below env strict k ih path t _ x e he)
      | _ => simp only [Res.ok.injEq] at h; subst h; exact below_buildError _ _ _
    | map kt vt =>
      cases v with
      | map es =>
        refine concatRes_all _ _ _ _ h (fun x _ e he => ?_)
        split at he
        · rename_i a ha
          split at he
          · rename_i b hb
            simp only [Res.ok.injEq] at he; subst he
            intro d hd
            rcases List.mem_append.1 hd with hd | hd
            · exact item_below env strict k ih path kt _ x.1 a ha d hd
            · exact item_below env strict k ih path vt _ x.2 b hb d hd
          · rename_i hno; exact (hno _ he).elim
        · rename_i hno; exact (hno _ he).elim
      | _ => simp only [Res.ok.injEq] at h; subst h; exact below_buildError _ _ _
    | disc ss key mapping sm =>
      simp only at h
      split at h
      · simp only [Res.ok.injEq] at h; subst h; exact below_buildError _ _ _
      · split at h
        · simp only [Res.ok.injEq] at h; subst h; exact below_buildError _ _ _
        · split at h
          · simp only [Res.ok.injEq] at h; subst h
            intro e he
            exact below_trans (below_buildError _ _ _ e he)
          · exact ih _ path v errs h
    | tuple pre rest =>
      cases v with
      | arr items =>
        simp only at h
        split at h
        · rename_i e1 h1
          have hb1 : ∀ d ∈ e1, Below path d :=
            concatRes_all _ _ _ _ h1 (fun p _ e he => item_below env strict k ih path p.1 _ _ e he)
          cases rest with
          | none =>
            simp only [Res.ok.injEq] at h; subst h
            intro d hd
            rcases List.mem_append.1 hd with hd | hd
            · exact hb1 d hd
            · simp only [List.mem_flatMap] at hd
              obtain ⟨p, _, hp⟩ := hd
              exact below_trans (below_buildError _ _ _ d hp)
          | some r =>
            simp only at h
            split at h
            · rename_i e2 h2
              simp only [Res.ok.injEq] at h; subst h
              intro d hd
              rcases List.mem_append.1 hd with hd | hd
              · exact hb1 d hd
              · exact concatRes_all _ _ _ _ h2 (fun p _ e he => item_below env strict k ih path r _ p.1 e he) d hd
            · rename_i hno; exact (hno _ h).elim
        · rename_i hno; exact (hno _ h).elim
      | _ => simp only [Res.ok.injEq] at h; subst h; exact below_buildError _ _ _
    | object props indexed =>
      simp only at h
      split at h
      · simp only [Res.ok.injEq] at h; subst h; exact below_buildError _ _ _
      · split at h
        · rename_i acc h1
          have hb1 : ∀ d ∈ acc, Below path d :=
            concatRes_all _ _ _ _ h1 (fun p _ e he => item_below env strict k ih path p.2 p.1 _ e he)
          split at h
          · split at h
            · rename_i e2 h2
              simp only [Res.ok.injEq] at h; subst h
              intro d hd
              rcases List.mem_append.1 hd with hd | hd
              · exact hb1 d hd
              · refine concatRes_all _ _ _ _ h2 (fun kk _ e he => ?_) d hd
                exact concatRes_all _ _ _ _ he (fun p _ e' he' => indexed_below env strict k ih path v kk p e' he')
            · rename_i hno; exact (hno _ h).elim
          · split at h
            · simp only [Res.ok.injEq] at h; subst h
              intro d hd
              simp only [List.mem_flatMap] at hd
              obtain ⟨kk, _, hk⟩ := hd
              exact below_trans (below_buildError _ _ _ d hk)
            · simp only [Res.ok.injEq] at h; subst h; exact hb1
        · rename_i hno; exact (hno _ h).elim

end

/-- **Errors point into the inspected position**: every error reported for `path` has a path extending `path` -/
theorem report_paths_extend (env : Env) (strict : Bool) (n : Nat) (rt : RT) (path : List String) (v : JsVal)
    (errs : List DErr) (h : report env strict n rt path v = .ok errs) : ∀ e ∈ errs, path <+: DErr.path e :=
  paths_all env strict n rt path v errs h

end BeffVerif.C12
