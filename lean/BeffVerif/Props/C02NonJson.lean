import BeffVerif.Props.C16Order
/-!
# C02 — a type JSON Schema cannot express makes flat schema printing throw

`njFree env n seen rt`: the traversal flat `schema()` makes of `rt` — through descriptions, tuples, unions, intersections,
arrays, optional wrappers, the variants of a discriminated union, the properties and index signatures of an object type, and
INTO the definition of every named type not yet being printed — meets no `Date`, `bigint`, typed array, `Map` or `Set`.
`flat_ok_njFree`: whenever flat printing returns a schema, that traversal was free of them — for every runtype, fuel, set of
names under expansion and context. Read the other way round (`flat_throws_on_nonjson`): a non-JSON type anywhere on the way makes
`schema()` throw (or run out of the model's fuel) — it never returns a schema that silently leaves the type out. The general
form of `nonjson_leaves_throw` (leaves only).
-/
namespace BeffVerif.C02N
open BeffVerif RT JsVal

/-- the traversal of flat schema printing meets no non-JSON type -/
def njFree (env : Env) : Nat → List String → RT → Bool
  | 0, _, _ => true
  | n+1, seen, rt =>
    match rt with
    | .date | .bigint | .typed _ | .map _ _ | .set _ => false
    | .described _ t => njFree env n seen t
    | .tuple pre rest => pre.all (njFree env n seen) && (match rest with | some r => njFree env n seen r | none => true)
    | .allOf ts => ts.all (njFree env n seen)
    | .anyOf ts => ts.all (njFree env n seen)
    | .array t => njFree env n seen t
    | .optional t => njFree env n seen t
    | .disc schemas _ _ _ => schemas.all (njFree env n seen)
    | .object props ix => props.all (fun p => njFree env n seen p.2) && ix.all (fun p => njFree env n seen p.1 && njFree env n seen p.2)
    | .ref name =>
      (match env.lookup name with
        | none => true
        | some to => seen.contains name || njFree env n (name :: seen) to)
    | _ => true

/-! a sequence that returns ran each of its members to a return -/

theorem seqS_each {go : RT → SCtx → SRes JsVal} : ∀ (ts : List RT) (c : SCtx) (ss : List JsVal) (c' : SCtx),
    seqS go ts c = .ok ss c' → ∀ t ∈ ts, ∃ c1 s1 c2, go t c1 = .ok s1 c2
  | [], _, _, _, _, t, ht => by cases ht
  | x :: xs, c, ss, c', h, t, ht => by
    simp only [seqS] at h
    cases e1 : go x c with
    | ok s c1 =>
      rw [e1] at h
      simp only at h
      cases e2 : seqS go xs c1 with
      | ok ss2 c2 =>
        rcases List.mem_cons.1 ht with rfl | ht
        · exact ⟨c, s, c1, e1⟩
        · exact seqS_each xs c1 ss2 c2 e2 t ht
      | throw e => rw [e2] at h; simp at h
      | nofuel => rw [e2] at h; simp at h
    | throw e => rw [e1] at h; simp at h
    | nofuel => rw [e1] at h; simp at h

theorem propsS_each {go : RT → SCtx → SRes JsVal} : ∀ (props : List (String × RT)) (acc : List (String × JsVal) × List String)
    (c : SCtx) (r : List (String × JsVal) × List String) (c' : SCtx),
    propsS go props acc c = .ok r c' → ∀ p ∈ props, ∃ c1 s1 c2, go p.2 c1 = .ok s1 c2
  | [], _, _, _, _, _, p, hp => by cases hp
  | x :: xs, (ps, opt), c, r, c', h, p, hp => by
    simp only [propsS] at h
    cases e1 : go x.2 c with
    | ok raw c1 =>
      rw [e1] at h
      simp only at h
      rcases List.mem_cons.1 hp with rfl | hp
      · exact ⟨c, raw, c1, e1⟩
      · split at h
        · exact propsS_each xs _ c1 r c' h p hp
        · exact propsS_each xs _ c1 r c' h p hp
    | throw e => rw [e1] at h; simp at h
    | nofuel => rw [e1] at h; simp at h

theorem indexS_each {go : RT → SCtx → SRes JsVal} : ∀ (ix : List (RT × RT)) (c : SCtx) (ss : List JsVal) (c' : SCtx),
    indexS go ix c = .ok ss c' → ∀ p ∈ ix, (∃ c1 s1 c2, go p.1 c1 = .ok s1 c2) ∧ (∃ c1 s1 c2, go p.2 c1 = .ok s1 c2)
  | [], _, _, _, _, p, hp => by cases hp
  | x :: xs, c, ss, c', h, p, hp => by
    simp only [indexS] at h
    cases e1 : go x.1 c with
    | ok ks c1 =>
      rw [e1] at h
      simp only at h
      cases e2 : go x.2 c1 with
      | ok vs c2 =>
        rw [e2] at h
        simp only at h
        cases e3 : indexS go xs c2 with
        | ok ss3 c3 =>
          rcases List.mem_cons.1 hp with rfl | hp
          · exact ⟨⟨c, ks, c1, e1⟩, ⟨c1, vs, c2, e2⟩⟩
          · exact indexS_each xs c2 ss3 c3 e3 p hp
        | throw e => rw [e3] at h; simp at h
        | nofuel => rw [e3] at h; simp at h
      | throw e => rw [e2] at h; simp at h
      | nofuel => rw [e2] at h; simp at h
    | throw e => rw [e1] at h; simp at h
    | nofuel => rw [e1] at h; simp at h

/-- **flat printing that returns met no non-JSON type** -/
theorem flat_ok_njFree (env : Env) (o : SOpts) (hc : o.contextual = false) : ∀ (n : Nat) (rt : RT) (desc : Option String)
    (seen : List String) (c : SCtx) (s : JsVal) (c' : SCtx),
    schema env o n rt desc seen c = .ok s c' → njFree env n seen rt = true := by
  intro n
  induction n with
  | zero => intro rt desc seen c s c' _; rfl
  | succ n ih =>
    intro rt desc seen c s c' h
    have kid : ∀ t, (∃ c1 s1 c2, schema env o n t none seen c1 = .ok s1 c2) → njFree env n seen t = true :=
      fun t ⟨c1, s1, c2, e⟩ => ih t none seen c1 s1 c2 e
    cases rt with
    | date => simp [schema] at h
    | bigint => simp [schema] at h
    | typed _ => simp [schema] at h
    | map _ _ => simp [schema] at h
    | set _ => simp [schema] at h
    | typeof _ => rfl
    | any => rfl
    | nullish _ => rfl
    | never => rfl
    | const _ => rfl
    | regex _ _ => rfl
    | strfmt _ => rfl
    | numfmt _ => rfl
    | consts _ => rfl
    | described dd t =>
      simp only [schema] at h
      simp only [njFree]
      exact ih t (some dd) seen c s c' h
    | array t =>
      simp only [schema] at h
      simp only [njFree]
      cases e1 : schema env o n t none seen c with
      | ok x c1 => exact ih t none seen c x c1 e1
      | throw e => rw [e1] at h; simp at h
      | nofuel => rw [e1] at h; simp at h
    | optional t =>
      simp only [schema] at h
      simp only [njFree]
      cases e1 : schema env o n t none seen c with
      | ok x c1 => exact ih t none seen c x c1 e1
      | throw e => rw [e1] at h; simp at h
      | nofuel => rw [e1] at h; simp at h
    | anyOf ts =>
      simp only [schema] at h
      simp only [njFree, List.all_eq_true]
      cases e1 : seqS (fun t c => schema env o n t none seen c) ts c with
      | ok x c1 => exact fun t ht => kid t (seqS_each ts c x c1 e1 t ht)
      | throw e => rw [e1] at h; simp at h
      | nofuel => rw [e1] at h; simp at h
    | allOf ts =>
      simp only [schema] at h
      simp only [njFree, List.all_eq_true]
      cases e1 : seqS (fun t c => schema env o n t none seen c) ts c with
      | ok x c1 => exact fun t ht => kid t (seqS_each ts c x c1 e1 t ht)
      | throw e => rw [e1] at h; simp at h
      | nofuel => rw [e1] at h; simp at h
    | disc schemas key mp sm =>
      simp only [schema, hc, Bool.false_eq_true, if_false] at h
      simp only [njFree, List.all_eq_true]
      cases e1 : seqS (fun t c => schema env o n t none seen c) schemas c with
      | ok x c1 => exact fun t ht => kid t (seqS_each schemas c x c1 e1 t ht)
      | throw e => rw [e1] at h; simp at h
      | nofuel => rw [e1] at h; simp at h
    | tuple pre rest =>
      simp only [schema] at h
      simp only [njFree, Bool.and_eq_true, List.all_eq_true]
      cases e1 : seqS (fun t c => schema env o n t none seen c) pre c with
      | ok x c1 =>
        rw [e1] at h
        simp only at h
        refine ⟨fun t ht => kid t (seqS_each pre c x c1 e1 t ht), ?_⟩
        cases rest with
        | none => rfl
        | some r =>
          simp only at h ⊢
          cases e2 : schema env o n r none seen c1 with
          | ok y c2 => exact ih r none seen c1 y c2 e2
          | throw e => rw [e2] at h; simp at h
          | nofuel => rw [e2] at h; simp at h
      | throw e => rw [e1] at h; simp at h
      | nofuel => rw [e1] at h; simp at h
    | object props ix =>
      simp only [schema] at h
      simp only [njFree, Bool.and_eq_true, List.all_eq_true]
      cases e1 : propsS (fun t c => schema env o n t none seen c) props ([], []) c with
      | ok x c1 =>
        rw [e1] at h
        obtain ⟨ps, optionalized⟩ := x
        simp only at h
        cases e2 : indexS (fun t c => schema env o n t none seen c) ix c1 with
        | ok y c2 =>
          refine ⟨fun p hp => kid p.2 (propsS_each props _ c _ c1 e1 p hp), fun p hp => ?_⟩
          have := indexS_each ix c1 y c2 e2 p hp
          exact ⟨kid p.1 this.1, kid p.2 this.2⟩
        | throw e => rw [e2] at h; simp at h
        | nofuel => rw [e2] at h; simp at h
      | throw e => rw [e1] at h; simp at h
      | nofuel => rw [e1] at h; simp at h
    | ref name =>
      simp only [schema, hc] at h
      simp only [njFree]
      cases hl : env.lookup name with
      | none => rfl
      | some to =>
        rw [hl] at h
        simp only [Bool.false_eq_true, if_false] at h
        simp only [Bool.or_eq_true]
        by_cases hs : seen.contains name = true
        · exact Or.inl hs
        · simp only [hs, Bool.false_eq_true, if_false] at h
          refine Or.inr ?_
          cases e1 : schema env o n to none (name :: seen) c with
          | ok a b => exact ih to none (name :: seen) c a b e1
          | throw e => rw [e1] at h; cases h
          | nofuel => rw [e1] at h; cases h

/-- the other way round: a non-JSON type on the way, and flat printing does not return a schema -/
theorem flat_throws_on_nonjson (env : Env) (o : SOpts) (hc : o.contextual = false) (n : Nat) (rt : RT) (desc : Option String)
    (seen : List String) (c : SCtx) (hnj : njFree env n seen rt = false) : ∀ s c', schema env o n rt desc seen c ≠ .ok s c' := by
  intro s c' h
  rw [flat_ok_njFree env o hc n rt desc seen c s c' h] at hnj
  cases hnj

private def envT : Env := [("Ev", .object [("at", .date), ("next", .optional (.ref "Ev"))] [])]

/-- non-vacuity: a `Date` two levels down, behind a named recursive type -/
example : njFree envT 9 [] (.array (.ref "Ev")) = false := by decide +kernel

end BeffVerif.C02N
