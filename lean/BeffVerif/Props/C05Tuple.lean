import BeffVerif.Props.C05Flat
/-!
# C05 — assignability = inclusion, for a closed tuple against a list type (tuple, tuple with rest, array)

The list side of `Props/C05Flat.lean`: a tuple type without rest element whose positions are inhabited scalar types, on
the left of `extends`, against any list type on the right (a tuple, a tuple with a rest element, an array). For every context in which the two atoms
are defined and the list memo is empty, and every fuel ≥ 10, `is_subtype` answers, and says *yes* exactly when every value of
the left tuple — as many elements as positions, each within its type — is a value of the right type
(`closed_tuple_subtype_iff_inclusion`): the right type has values of that length, and position-wise inclusion (the rest type
beyond the fixed positions).

The proof follows the engine: the difference of the two atoms is a diagram of one of two shapes, by the order of the atoms
(`diff_atoms_shape`); `bdd_every_result` walks either shape and ends in the one question "is `a ∧ ¬b` empty"
(`every_shape`); `list_formula_is_empty` combines the single positive list with nothing and asks `list_inhabited`
(`formula_single`), which looks at exactly one length, the left tuple's own, since it has no rest (`inhabitedNot_one`), and
there `fixed_length_list_inhabited` searches a position where `A[i] \ B[i]` is inhabited (`fixed_one`, `fixed_single`, on
top of the scalar theorem). `covered_list_iff` turns length-and-positions into inclusion of value sets (the witness value
is built by choice, one inhabitant per position).
-/
namespace BeffVerif.C05Tuple
open BeffVerif Sem C05 C05Flat Bdd

theorem getList_of (i : Nat) (A : ListAtomic) (c : Ctx) (h : c.lists[i]? = some (some A)) :
    getList i c = some (A, c) := by
  unfold getList; rw [h]

theorem anyEmptyL_false (n : Nat) (ts : List SemType) (c : Ctx) (h : ∀ t ∈ ts, Good t ∧ Inh t) :
    ts.foldlM (fun (acc : Bool) (m : SemType) => if acc then (pure true : SM Bool) else isEmpty (n + 1) m) false c
      = some (false, c) := by
  induction ts with
  | nil => rfl
  | cons t ts ih =>
    rw [List.foldlM_cons]
    have ht := h t List.mem_cons_self
    rw [sm_bind_of _ _ c c false (by simpa using isEmpty_inh n t c ht.1 ht.2)]
    exact ih fun q hq => h q (List.mem_cons_of_mem _ hq)

/-- a fixed-length list of inhabited scalar types against no negative list is inhabited -/
theorem fixed_nil (n : Nat) (s : List SemType) (c : Ctx) : fixedLenInhabited (n + 1) s [] c = some (true, c) := by
  unfold fixedLenInhabited; rfl

/-- position `i` of the left tuple is covered by position `i` of the right one -/
def CoveredAt (s nt : List SemType) (i : Nat) : Prop :=
  ∀ v, hasScalar (s.getD i never) v = true → hasScalar (nt.getD i never) v = true

theorem good_never : Good never := ⟨⟨rfl, rfl⟩, by simp [WF, WFLit, never]⟩

theorem fixed_one (n : Nat) (s nt : List SemType) (c : Ctx)
    (hs : ∀ t ∈ s, Good t) (hnt : ∀ t ∈ nt, WF t) :
    ∀ (idxs : List Nat) (acc : Bool),
    ∃ r, idxs.foldlM (fun (acc : Bool) (i : Nat) =>
        if acc then (pure true : SM Bool) else do
          let d ← SM.lift (Sem.diff (s.getD i never) (nt.getD i never))
          if ← isEmpty (n + 2) d then pure false
          else fixedLenInhabited (n + 2) (s.set i d) []) acc c = some (r, c) ∧
      (r = true ↔ acc = true ∨ ∃ i ∈ idxs, ¬ CoveredAt s nt i) := by
  intro idxs
  induction idxs with
  | nil => intro acc; exact ⟨acc, rfl, by simp⟩
  | cons i is ih =>
    intro acc
    rw [List.foldlM_cons]
    cases acc with
    | true =>
      obtain ⟨r, hr, hiff⟩ := ih true
      refine ⟨r, ?_, by simpa using hiff⟩
      rw [sm_bind_of _ _ c c true (by rfl)]
      exact hr
    | false =>
      have hgs : Good (s.getD i never) := by
        rw [List.getD_eq_getElem?_getD]
        cases hg : s[i]? with
        | none => exact good_never
        | some t => exact hs t (List.mem_of_getElem? hg)
      have hwn : WF (nt.getD i never) := by
        rw [List.getD_eq_getElem?_getD]
        cases hg : nt[i]? with
        | none => exact good_never.2
        | some t => exact hnt t (List.mem_of_getElem? hg)
      obtain ⟨d, hd, hdg, hdv⟩ := diff_good _ _ hgs hwn
      obtain ⟨e, he, heiff⟩ := isEmpty_good (n + 1) d c hdg
      have hcov : e = true ↔ CoveredAt s nt i := by
        constructor
        · intro h v hv
          cases hb : hasScalar (nt.getD i never) v
          · exfalso
            have : Inh d := ⟨v, by rw [hdv, hv, hb]; rfl⟩
            have := heiff.2 this
            rw [h] at this; cases this
          · rfl
        · intro h
          cases e
          · exfalso
            obtain ⟨v, hv⟩ := heiff.1 rfl
            rw [hdv] at hv
            simp only [Bool.and_eq_true, Bool.not_eq_true'] at hv
            rw [h v hv.1] at hv; cases hv.2
          · rfl
      cases e with
      | true =>
        obtain ⟨r, hr, hiff⟩ := ih false
        refine ⟨r, ?_, ?_⟩
        · rw [sm_bind_of _ _ c c false ?_]
          · exact hr
          · simp only [Bool.false_eq_true, if_false]
            rw [sm_bind_of _ _ c c d (by rw [hd]; rfl)]
            rw [sm_bind_of _ _ c c true he]
            rfl
        · rw [hiff]
          simp only [Bool.false_eq_true, false_or, List.mem_cons, exists_eq_or_imp]
          constructor
          · intro h; exact Or.inr h
          · rintro (h | h)
            · exact absurd (hcov.1 rfl) h
            · exact h
      | false =>
        obtain ⟨r, hr, hiff⟩ := ih true
        refine ⟨r, ?_, ?_⟩
        · rw [sm_bind_of _ _ c c true ?_]
          · exact hr
          · simp only [Bool.false_eq_true, if_false]
            rw [sm_bind_of _ _ c c d (by rw [hd]; rfl)]
            rw [sm_bind_of _ _ c c false he]
            simp only [Bool.false_eq_true, if_false]
            exact fixed_nil (n + 1) _ c
        · rw [hiff]
          simp only [true_or, true_iff, Bool.false_eq_true, false_or, List.mem_cons, exists_eq_or_imp]
          exact Or.inl fun h => by have := hcov.2 h; cases this
/-- one negative list of the same length: inhabited exactly when some position is not covered -/
theorem fixed_single (n : Nat) (s nt : List SemType) (c : Ctx) (hs : ∀ t ∈ s, Good t) (hnt : ∀ t ∈ nt, WF t) :
    ∃ r, fixedLenInhabited (n + 3) s [nt] c = some (r, c) ∧ (r = true ↔ ∃ i, i < s.length ∧ ¬ CoveredAt s nt i) := by
  obtain ⟨r, hr, hiff⟩ := fixed_one n s nt c hs hnt (List.range s.length) false
  refine ⟨r, ?_, ?_⟩
  · unfold fixedLenInhabited
    exact hr
  · rw [hiff]
    simp only [Bool.false_eq_true, false_or, List.mem_range]

theorem range_drop (m : Nat) : (List.range (m + 1)).drop m = [m] := by
  rw [List.range_succ]
  simp

/-- the list the engine compares position by position: the negative tuple read at the positions `0 … len-1` -/
def readAt (B : ListAtomic) (len : Nat) : List SemType :=
  (List.range len).map fun i => if i < B.pre.length then B.pre.getD i never else B.items

theorem readAt_getD (B : ListAtomic) (len i : Nat) (hi : i < len) :
    (readAt B len).getD i never = (if i < B.pre.length then B.pre.getD i never else B.items) := by
  unfold readAt
  rw [List.getD_eq_getElem?_getD, List.getElem?_map, List.getElem?_range hi]
  simp

theorem readAt_wf (B : ListAtomic) (len : Nat) (hB : ∀ t ∈ B.pre, WF t) (hi : WF B.items) : ∀ t ∈ readAt B len, WF t := by
  intro t ht
  unfold readAt at ht
  obtain ⟨i, _, e⟩ := List.mem_map.1 ht
  subst e
  split
  · rw [List.getD_eq_getElem?_getD]
    cases hg : B.pre[i]? with
    | none => simp [WF, WFLit, never]
    | some x => exact hB x (List.mem_of_getElem? hg)
  · exact hi

/-- does the negative list type have values of length `len` at all -/
def applicable (B : ListAtomic) (len : Nat) : Bool :=
  B.pre.length == len || (B.pre.length < len && !B.items.isNever)

/-- `!list_inhabited` for a closed positive tuple and ONE negative list type (tuple, tuple with rest, array) -/
theorem inhabitedNot_one (n : Nat) (pre : List SemType) (B : ListAtomic) (c : Ctx)
    (hpre : ∀ t ∈ pre, Good t) (hB : ∀ t ∈ B.pre, WF t) (hBi : WF B.items) :
    ∃ r, listInhabitedNot (n + 4) pre never [B] c = some (r, c) ∧
      (r = true ↔ applicable B pre.length = true ∧ ∀ i, i < pre.length → CoveredAt pre (readAt B pre.length) i) := by
  unfold listInhabitedNot
  simp only [List.isEmpty_cons, Bool.false_eq_true, if_false]
  have hnev : never.isNever = true := by decide
  simp only [hnev, if_true]
  rw [sm_bind_of _ _ c c true (by rfl)]
  simp only [if_true, range_drop, List.foldlM_cons, List.foldlM_nil, Nat.sub_self, List.replicate_zero, List.append_nil,
    Bool.false_eq_true, if_false]
  by_cases hl : applicable B pre.length = true
  · have happ : (([B].filter fun ng => ng.pre.length == pre.length || (ng.pre.length < pre.length && !ng.items.isNever)).map fun ng =>
        (List.range pre.length).map fun i => if i < ng.pre.length then ng.pre.getD i never else ng.items) = [readAt B pre.length] := by
      have : (B.pre.length == pre.length || (decide (B.pre.length < pre.length) && !B.items.isNever)) = true := hl
      simp [this, readAt]
    rw [happ]
    obtain ⟨r, hr, hiff⟩ := fixed_single n pre (readAt B pre.length) c hpre (readAt_wf B _ hB hBi)
    refine ⟨!r, ?_, ?_⟩
    · rw [sm_bind_of _ _ c c r (by rw [sm_bind_of _ _ c c r hr]; rfl)]
      rfl
    · simp only [Bool.not_eq_true', hl, true_and]
      constructor
      · intro hf i hi
        apply Classical.byContradiction
        intro hc
        have : r = true := hiff.2 ⟨i, hi, hc⟩
        rw [hf] at this; cases this
      · intro h
        cases hr' : r with
        | false => rfl
        | true =>
          exfalso
          obtain ⟨i, hi, hc⟩ := hiff.1 hr'
          exact hc (h i hi)
  · have happ : (([B].filter fun ng => ng.pre.length == pre.length || (ng.pre.length < pre.length && !ng.items.isNever)).map fun ng =>
        (List.range pre.length).map fun i => if i < ng.pre.length then ng.pre.getD i never else ng.items) = [] := by
      have : (B.pre.length == pre.length || (decide (B.pre.length < pre.length) && !B.items.isNever)) = false := by
        simpa [applicable] using hl
      simp [this]
    rw [happ]
    refine ⟨false, ?_, by simp [hl]⟩
    rw [sm_bind_of _ _ c c true (by rw [sm_bind_of _ _ c c true (fixed_nil (n + 2) _ c)]; rfl)]
    rfl

/-- `list_formula_is_empty` for one positive closed tuple and one negative list type -/
theorem formula_single (n : Nat) (a b : Atom) (A B : ListAtomic) (c : Ctx)
    (hA : c.lists[a.idx]? = some (some A)) (hB : c.lists[b.idx]? = some (some B))
    (hAp : ∀ t ∈ A.pre, Good t ∧ Inh t) (hAi : A.items = never) (hBp : ∀ t ∈ B.pre, WF t) (hBi : WF B.items) :
    ∃ r, listFormulaIsEmpty (n + 5) [a] [b] c = some (r, c) ∧
      (r = true ↔ applicable B A.pre.length = true ∧ ∀ i, i < A.pre.length → CoveredAt A.pre (readAt B A.pre.length) i) := by
  obtain ⟨r, hr, hiff⟩ := inhabitedNot_one n A.pre B c (fun t ht => (hAp t ht).1) hBp hBi
  refine ⟨r, ?_, hiff⟩
  unfold listFormulaIsEmpty
  rw [sm_bind_of _ _ c c [B] (mapM_single _ b c c B (getList_of _ _ _ hB))]
  simp only
  rw [sm_bind_of _ _ c c A (getList_of _ _ _ hA)]
  simp only [List.foldlM_nil]
  rw [sm_bind_of _ _ c c (some (A.pre, A.items)) (by rfl)]
  simp only
  rw [sm_bind_of _ _ c c false (anyEmptyL_false (n + 3) A.pre c hAp)]
  simp only [Bool.false_eq_true, if_false, hAi]
  exact hr

/-- the difference of two distinct atoms, as a diagram: one of two shapes, by the order of the atoms -/
theorem diff_atoms_shape (a b : Atom) (h : a ≠ b) (n : Nat) :
    Bdd.diff (n + 4) (fromAtom a) (fromAtom b) = some (node a (node b ff ff tt) ff ff) ∨
    Bdd.diff (n + 4) (fromAtom a) (fromAtom b) = some (node b ff ff (node a tt ff ff)) := by
  have hne : (node a tt ff ff) ≠ (node b tt ff ff) := by
    intro e; injection e with e1; exact h e1
  rcases cmp_cases a b h with hc | hc
  · left
    simp [Bdd.diff, fromAtom, hne, hc, Bdd.union, Bdd.complement, fromNode, fromNodeWith]
  · right
    simp [Bdd.diff, fromAtom, hne, hc, Bdd.union, fromNode, fromNodeWith]

theorem every_ff (m : Nat) (pos neg : List Atom) (c : Ctx) : listEvery (m + 1) .ff pos neg c = some (true, c) := by
  unfold listEvery; rfl

/-- walking either shape of the diagram ends in one question: is `a ∧ ¬b` empty -/
theorem every_shape (k : Nat) (a b : Atom) (D : Bdd) (c : Ctx) (r : Bool)
    (hD : D = node a (node b ff ff tt) ff ff ∨ D = node b ff ff (node a tt ff ff))
    (hf : listFormulaIsEmpty k [a] [b] c = some (r, c)) :
    listEvery (k + 3) D [] [] c = some (r, c) := by
  have htt : listEvery (k + 1) .tt [a] [b] c = some (r, c) := by
    unfold listEvery; exact hf
  rcases hD with rfl | rfl
  · unfold listEvery
    simp only []
    rw [sm_bind_of _ _ c c true (every_ff _ _ _ c)]
    rw [sm_bind_of _ _ c c true (every_ff _ _ _ c)]
    have hl : listEvery (k + 2) (node b ff ff tt) [a] [] c = some (r, c) := by
      unfold listEvery
      simp only []
      rw [sm_bind_of _ _ c c r htt]
      rw [sm_bind_of _ _ c c true (every_ff _ _ _ c)]
      rw [sm_bind_of _ _ c c true (every_ff _ _ _ c)]
      cases r <;> rfl
    rw [sm_bind_of _ _ c c r hl]
    cases r <;> rfl
  · unfold listEvery
    simp only []
    have hr : listEvery (k + 2) (node a tt ff ff) [] [b] c = some (r, c) := by
      unfold listEvery
      simp only []
      rw [sm_bind_of _ _ c c true (every_ff _ _ _ c)]
      rw [sm_bind_of _ _ c c true (every_ff _ _ _ c)]
      rw [sm_bind_of _ _ c c r htt]
      cases r <;> rfl
    rw [sm_bind_of _ _ c c r hr]
    rw [sm_bind_of _ _ c c true (every_ff _ _ _ c)]
    rw [sm_bind_of _ _ c c true (every_ff _ _ _ c)]
    cases r <;> rfl

def lstVec (D : Bdd) : SemType := { never with list := .some D }

theorem diff_list (i j : Nat) (h : i ≠ j) :
    ∃ D, Sem.diff (listFromIdx i) (listFromIdx j) = some (lstVec D) ∧
      (D = node ⟨listKind, i⟩ (node ⟨listKind, j⟩ ff ff tt) ff ff ∨ D = node ⟨listKind, j⟩ ff ff (node ⟨listKind, i⟩ tt ff ff)) := by
  have hne : (⟨listKind, i⟩ : Atom) ≠ ⟨listKind, j⟩ := by
    intro e; injection e with _ e2; exact h e2
  rcases diff_atoms_shape ⟨listKind, i⟩ ⟨listKind, j⟩ hne 196 with hD | hD
  · refine ⟨_, ?_, Or.inl rfl⟩
    have hD' : Bdd.diff fuelB (fromAtom ⟨listKind, i⟩) (fromAtom ⟨listKind, j⟩) = some _ := hD
    simp [Sem.diff, listFromIdx, never, subDiff, bddDiff, hD', lstVec]
  · refine ⟨_, ?_, Or.inr rfl⟩
    have hD' : Bdd.diff fuelB (fromAtom ⟨listKind, i⟩) (fromAtom ⟨listKind, j⟩) = some _ := hD
    simp [Sem.diff, listFromIdx, never, subDiff, bddDiff, hD', lstVec]

theorem listIsEmpty_fresh (m : Nat) (D : Bdd) (c : Ctx) (r : Bool) (hmemo : c.memoL = [])
    (hev : ∀ c1 : Ctx, c1.lists = c.lists → listEvery m D [] [] c1 = some (r, c1)) :
    ∃ c', listIsEmpty (m + 1) D c = some (r, c') := by
  unfold listIsEmpty
  rw [sm_bind_of _ _ c c c (by rfl)]
  simp only [hmemo, List.find?_nil]
  let c1 : Ctx := { c with memoL := [] ++ [(D, none)] }
  rw [sm_bind_of _ _ c c1 () (by simp only [SM.modify, hmemo]; rfl)]
  rw [sm_bind_of _ _ c1 c1 r (hev c1 rfl)]
  exact ⟨_, rfl⟩

theorem isEmpty_lstVec (m : Nat) (D : Bdd) (c c' : Ctx) (r : Bool) (h : listIsEmpty m D c = some (r, c')) :
    isEmpty (m + 1) (lstVec D) c = some (r, c') := by
  unfold isEmpty
  have h0 : ((lstVec D).bool != .none || (lstVec D).num != .none || (lstVec D).str != .none || (lstVec D).null || (lstVec D).opt
      || (lstVec D).vu != .none || (lstVec D).other) = false := by simp [lstVec, never]
  have h1 : ((lstVec D).mapping == .all || (lstVec D).list == .all) = false := by
    simp [lstVec, never]
  simp only [h0, h1, Bool.false_eq_true, if_false]
  show ((pure true : SM Bool) >>= _) c = _
  rw [sm_bind_of _ _ c c true (by rfl)]
  simp only [Bool.not_true, Bool.false_eq_true, if_false]
  exact h

-- ---------- meaning ----------
/-- a value of a closed tuple type: as many elements as positions, each within its type -/
def memTuple (P : List SemType) (vs : List Scalar) : Prop :=
  vs.length = P.length ∧ ∀ k, k < P.length → hasScalar (P.getD k never) (vs.getD k .absent) = true

/-- a value of a list type (tuple, tuple with rest, array): at least the fixed positions, each element within the type of its
position, the rest type beyond them (`never` for a closed tuple: no further element) -/
def memList (B : ListAtomic) (vs : List Scalar) : Prop :=
  B.pre.length ≤ vs.length ∧
    ∀ k, k < vs.length → hasScalar (if k < B.pre.length then B.pre.getD k never else B.items) (vs.getD k .absent) = true

theorem covered_list_iff (P : List SemType) (B : ListAtomic) (hP : ∀ t ∈ P, Inh t) :
    (applicable B P.length = true ∧ ∀ i, i < P.length → CoveredAt P (readAt B P.length) i) ↔
      ∀ vs, memTuple P vs → memList B vs := by
  constructor
  · rintro ⟨ha, hc⟩ vs ⟨hlen, hv⟩
    have hle : B.pre.length ≤ P.length := by
      simp only [applicable, Bool.or_eq_true, beq_iff_eq, Bool.and_eq_true, decide_eq_true_eq] at ha
      rcases ha with h | h
      · omega
      · omega
    refine ⟨by omega, ?_⟩
    intro k hk
    have hk' : k < P.length := by omega
    have := hc k hk' _ (hv k hk')
    rwa [readAt_getD B _ k hk'] at this
  · intro h
    have hw : ∀ k, k < P.length → ∃ v, hasScalar (P.getD k never) v = true := by
      intro k hk
      have : P.getD k never = P[k] := by simp [List.getD_eq_getElem?_getD, hk]
      rw [this]; exact hP _ (List.getElem_mem hk)
    let w : List Scalar := (List.range P.length).map fun k =>
      if hk : k < P.length then Classical.choose (hw k hk) else .absent
    have hwl : w.length = P.length := by simp [w]
    have hwk : ∀ k, k < P.length → hasScalar (P.getD k never) (w.getD k .absent) = true := by
      intro k hk
      have : w.getD k .absent = Classical.choose (hw k hk) := by
        simp [w, List.getD_eq_getElem?_getD, hk]
      rw [this]; exact Classical.choose_spec (hw k hk)
    obtain ⟨hle, hmw⟩ := h w ⟨hwl, hwk⟩
    have hle' : B.pre.length ≤ P.length := by omega
    refine ⟨?_, ?_⟩
    · simp only [applicable, Bool.or_eq_true, beq_iff_eq, Bool.and_eq_true, decide_eq_true_eq, Bool.not_eq_true']
      by_cases e : B.pre.length = P.length
      · exact Or.inl e
      · right
        have hlt : B.pre.length < P.length := by omega
        refine ⟨hlt, ?_⟩
        have := hmw B.pre.length (by omega)
        simp only [Nat.lt_irrefl, if_false] at this
        cases hn : B.items.isNever with
        | false => rfl
        | true =>
          exfalso
          have he : B.items = never := by simpa [SemType.isNever] using hn
          rw [he, hasScalar_never] at this; cases this
    · intro i hi v hv
      have hmem : memTuple P (w.set i v) := by
        refine ⟨by simp [hwl], ?_⟩
        intro k hk
        by_cases e : k = i
        · subst e
          have : (w.set k v).getD k .absent = v := by simp [List.getD_eq_getElem?_getD, hwl, hk]
          rw [this]; exact hv
        · have : (w.set i v).getD k .absent = w.getD k .absent := by
            simp [List.getD_eq_getElem?_getD, Ne.symm e]
          rw [this]; exact hwk k hk
      have := (h _ hmem).2 i (by simp [hwl, hi])
      have hg : (w.set i v).getD i .absent = v := by simp [List.getD_eq_getElem?_getD, hwl, hi]
      rw [hg] at this
      rw [readAt_getD B _ i hi]
      exact this

-- ---------- the theorem ----------
/-- **A closed tuple against a list type: assignability = inclusion.** `A` a tuple type without rest element whose positions
are inhabited scalar types, `B` any list type — a tuple, a tuple with a rest element, an array — with well-formed element
types; `i ≠ j` their atoms in a context with an empty list memo. For every fuel ≥ 10 `is_subtype` answers, and the answer is
*yes* exactly when every value of `A` is a value of `B`. -/
theorem closed_tuple_subtype_iff_inclusion (n i j : Nat) (A B : ListAtomic) (c : Ctx)
    (hij : i ≠ j) (hAi : c.lists[i]? = some (some A)) (hBj : c.lists[j]? = some (some B))
    (hAp : ∀ t ∈ A.pre, Good t ∧ Inh t) (hAx : A.items = never)
    (hBp : ∀ t ∈ B.pre, WF t) (hBx : WF B.items) (hmemo : c.memoL = []) :
    ∃ r c', isSubtype (n + 10) (listFromIdx i) (listFromIdx j) c = some (r, c') ∧
      (r = true ↔ ∀ vs, memTuple A.pre vs → memList B vs) := by
  obtain ⟨D, hdiff, hshape⟩ := diff_list i j hij
  obtain ⟨r, _, hiff⟩ := formula_single n ⟨listKind, i⟩ ⟨listKind, j⟩ A B c hAi hBj hAp hAx hBp hBx
  have hev : ∀ c1 : Ctx, c1.lists = c.lists → listEvery (n + 5 + 3) D [] [] c1 = some (r, c1) := by
    intro c1 hc1
    obtain ⟨r1, hr1, hiff1⟩ := formula_single n ⟨listKind, i⟩ ⟨listKind, j⟩ A B c1 (by rw [hc1]; exact hAi) (by rw [hc1]; exact hBj) hAp hAx hBp hBx
    have hb : r1 = true ↔ r = true := hiff1.trans hiff.symm
    have : r1 = r := by
      cases r1 <;> cases r
      · rfl
      · exact absurd (hb.2 rfl) (by simp)
      · exact absurd (hb.1 rfl) (by simp)
      · rfl
    exact every_shape (n + 5) _ _ D c1 r hshape (this ▸ hr1)
  obtain ⟨c', hle⟩ := listIsEmpty_fresh (n + 8) D c r hmemo hev
  refine ⟨r, c', ?_, ?_⟩
  · unfold isSubtype
    rw [sm_bind_of _ _ c c (lstVec D) (by rw [hdiff]; rfl)]
    exact isEmpty_lstVec (n + 9) D c c' r hle
  · rw [hiff]
    exact covered_list_iff A.pre B fun t ht => (hAp t ht).2

-- ---------- the statement is about something ----------
/-- `[string, 1 | 2]` (atom 0), `[string, number]` (atom 1), `[string]` (atom 2) -/
def exCtx : Ctx := { lists := [some ⟨[{ never with str := .all }, { never with num := .some ⟨true, ["1", "2"]⟩ }], never⟩,
  some ⟨[{ never with str := .all }, { never with num := .all }], never⟩, some ⟨[{ never with str := .all }], never⟩] }
example : ((isSubtype 10 (listFromIdx 0) (listFromIdx 1) exCtx).map (·.1)) = some true := by decide +kernel
example : ((isSubtype 10 (listFromIdx 1) (listFromIdx 0) exCtx).map (·.1)) = some false := by decide +kernel
example : ((isSubtype 10 (listFromIdx 0) (listFromIdx 2) exCtx).map (·.1)) = some false := by decide +kernel
/-- against an array and a tuple with rest: `[string, 1 | 2] extends (string | number)[]` — yes; `extends [string, ...string[]]` — no -/
def exCtx2 : Ctx := { lists := [some ⟨[{ never with str := .all }, { never with num := .some ⟨true, ["1", "2"]⟩ }], never⟩,
  some ⟨[], { never with str := .all, num := .all }⟩, some ⟨[{ never with str := .all }], { never with str := .all }⟩] }
example : ((isSubtype 10 (listFromIdx 0) (listFromIdx 1) exCtx2).map (·.1)) = some true := by decide +kernel
example : ((isSubtype 10 (listFromIdx 0) (listFromIdx 2) exCtx2).map (·.1)) = some false := by decide +kernel

end BeffVerif.C05Tuple
