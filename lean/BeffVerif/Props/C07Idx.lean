import BeffVerif.Props.C07Keyof
/-!
# C07 — `T[K]` for an object type and one declared key is the declared type of that key

`idx_declared_key`: for EVERY object type with distinct keys (with or without an index signature), every declared property
`(k, t)` and every context that defines the atom, the port of `indexed_access` on type vectors (`bdd_mapping_member_type`,
`mapping_member_type`) answers `t` for the literal key `k` — no contribution of the list part, of the index signature (every
requested key is declared: D71 / D93 concern the other case) or of the string tag. Together with `C07Keyof.keyof_flat_object`:
`keyof` lists the declared keys and `T[k]` at each of them is the declared type.
-/
namespace BeffVerif.C07Idx
open BeffVerif Sem C05 C05Flat C07Keyof Bdd

theorem subInter_all_right {α : Type} (f : α → α → Option (Sem.Sub α)) (x : Sem.Sub α) : subInter f x .all = some x := by
  cases x <;> rfl

theorem inter_unknown_right (x : SemType) : inter x unknown = some x := by
  cases x
  simp [inter, unknown, subInter_all_right]

theorem subUnion_none_right {α : Type} (f : α → α → Option (Sem.Sub α)) (x : Sem.Sub α) : subUnion f x .none = some x := by
  cases x <;> rfl

theorem union_never_right (x : SemType) : Sem.union x never = some x := by
  cases x
  simp [Sem.union, never, subUnion_none_right]

/-- with distinct keys, the members selected by one declared key are that one property -/
theorem filter_key : ∀ (vs : List (String × SemType)) (k : String) (t : SemType), (vs.map (·.1)).Nodup → (k, t) ∈ vs →
    (vs.filter fun p => [k].contains p.1) = [(k, t)]
  | [], _, _, _, h => by cases h
  | p :: ps, k, t, hn, h => by
    simp only [List.map_cons, List.nodup_cons] at hn
    simp only [List.filter_cons]
    rcases List.mem_cons.1 h with e | h'
    · subst e
      have : (ps.filter fun p => [k].contains p.1) = [] := by
        apply List.filter_eq_nil_iff.2
        intro q hq hc
        simp only [List.contains_cons, List.contains_nil, Bool.or_false, beq_iff_eq] at hc
        exact hn.1 (List.mem_map.2 ⟨q, hq, hc⟩)
      have hc : ([k].contains k) = true := by simp
      simp only [hc, if_true, this]
    · have hne : p.1 ≠ k := by
        intro e
        exact hn.1 (List.mem_map.2 ⟨(k, t), h', e.symm⟩)
      have : ([k].contains p.1) = false := by simp [hne]
      simp only [this, Bool.false_eq_true, if_false]
      exact filter_key ps k t hn.2 h'

/-- **`T[K]` with one declared key**: for every object type with distinct keys, every declared property `(k, t)` and every
context that defines the atom, indexing the type vector of the object by the literal `k` answers `t` — whether or not the
type has an index signature — and leaves the context alone -/
theorem idx_declared_key (i : Nat) (A : MappingAtomic) (c : Ctx) (k : String) (t : SemType)
    (hA : c.mappings[i]? = some (some A)) (hn : (A.vs.map (·.1)).Nodup) (hk : (k, t) ∈ A.vs) :
    indexedAccess (mappingFromIdx i) { never with str := .some ⟨true, [k]⟩ } c = some (t, c) := by
  have hmt : mappingMemberType A (.lits true [k]) = some t := by
    simp only [mappingMemberType, filter_key A.vs k t hn hk]
    have hall : ([k].all fun l => A.vs.any fun p => p.1 == l) = true := by
      simp only [List.all_cons, List.all_nil, Bool.and_true, List.any_eq_true]
      exact ⟨(k, t), hk, by simp⟩
    simp [hall, union_never]
  have hb : bddMappingMember c 200 (fromAtom ⟨mappingKind, i⟩) (.lits true [k]) unknown = some t := by
    simp only [fromAtom, bddMappingMember, hA, Option.bind_some, id, hmt, inter_unknown_right, union_never_right,
      Option.bind_eq_bind]
  have hu : Sem.union ⟨.none, .none, .none, false, false, .none, .none, .none, false⟩ t = some t := union_never t
  unfold indexedAccess
  simp only [mappingFromIdx, never, hb]
  simp [hu]

/-- `{ a: string; b?: number; [k: string]: ... }["b"]` is `number | absent`, in a context that also holds other atoms -/
example : (indexedAccess (mappingFromIdx 1) { never with str := .some ⟨true, ["b"]⟩ }
    { mappings := [some ⟨[], none⟩, some ⟨[("a", { never with str := .all }), ("b", { never with num := .all, opt := true })], some unknown⟩] }).map (·.1)
    = some { never with num := .all, opt := true } := by decide +kernel

end BeffVerif.C07Idx
