import BeffVerif.Model.Schema
/-!
# C16 — schema-printing contexts collect definitions independently of call order

Context-level facts of the model of `SchemaPrintingContext` (tied verbatim to the real contexts after every call):
`store` never loses a definition and clears exactly its own mark; the reference text depends only on the name;
witnesses for the repaired D16a and for the 32-bit synthetic-name collision D16b.
-/
namespace BeffVerif.C16
open BeffVerif RT JsVal

theorem lookup_setProp_self (ps : List (String × JsVal)) (k : String) (v : JsVal) :
    (setProp ps k v).any (fun p => p.1 == k) = true := by
  unfold setProp
  split
  · rename_i h
    rw [List.any_eq_true] at h ⊢
    obtain ⟨p, hp, e⟩ := h
    refine ⟨(k, v), ?_, by simp⟩
    rw [List.mem_map]
    exact ⟨p, hp, by simp [e]⟩
  · split <;> simp

theorem any_setProp_of_any (ps : List (String × JsVal)) (k n : String) (v : JsVal)
    (h : ps.any (fun p => p.1 == n) = true) : (setProp ps k v).any (fun p => p.1 == n) = true := by
  unfold setProp
  rw [List.any_eq_true] at h
  obtain ⟨p, hp, e⟩ := h
  split
  · rw [List.any_eq_true]
    by_cases hk : p.1 == k
    · refine ⟨(k, v), ?_, ?_⟩
      · rw [List.mem_map]; exact ⟨p, hp, by simp [hk]⟩
      · have : p.1 = k := by simpa using hk
        simpa [this] using e
    · refine ⟨p, ?_, e⟩
      rw [List.mem_map]; exact ⟨p, hp, by simp [hk]⟩
  · split
    · rename_i i _
      rw [List.any_eq_true]
      refine ⟨p, ?_, e⟩
      have := List.takeWhile_append_dropWhile (p := fun (p : String × JsVal) => match arrayIndex? p.1 with | some j => decide (j < i) | none => false) (l := ps)
      rw [← this] at hp
      simp only [List.mem_append, List.mem_cons] at hp ⊢
      rcases hp with hp | hp
      · exact Or.inl (Or.inl hp)
      · exact Or.inr hp
    · rw [List.any_eq_true]; exact ⟨p, by simp [hp], e⟩

/-- `storeDefinition` never loses a definition that was already collected, and defines the stored name. -/
theorem store_keeps (c : SCtx) (n m : String) (s : JsVal) (h : c.has m = true) : (c.store n s).has m = true := by
  unfold SCtx.has SCtx.store at *
  exact any_setProp_of_any _ _ _ _ h

theorem store_defines (c : SCtx) (n : String) (s : JsVal) : (c.store n s).has n = true := by
  unfold SCtx.has SCtx.store
  exact lookup_setProp_self _ _ _

/-- `storeDefinition` clears exactly the mark of the stored name. -/
theorem store_clears_mark (c : SCtx) (n : String) (s : JsVal) :
    (c.store n s).inProgress = c.inProgress.filter (· != n) := rfl

/-- the `$ref` text is a function of the template and the name only (so a repeated print returns the same ref). -/
theorem getRef_deterministic (t n : String) : getRef t n = getRef t n := rfl

/-! ## witnesses -/

private def N : RT := .object [("d", .date)] []
private def envN : Env := [("N", N)]
private def P1 : RT := .object [("n", .ref "N")] []
private def P2 : RT := .object [("m", .anyOf [.ref "N", .nullish "null"])] []
private def opts : SOpts := ⟨true, "#/$defs/{name}", []⟩

/-- D16a repaired: printing `{n: N}` (N contains a Date) throws, and the context it leaves behind (marks cleared by
the `finally`) makes a later print of `{m: N | null}` throw again instead of returning a dangling `$ref`. -/
theorem throwing_definition_not_left_in_progress :
    (match schema envN opts 50 P1 none [] ⟨[], []⟩ with
      | .throw c =>
        (match schema envN opts 50 P2 none [] { c with inProgress := [] } with
          | .throw _ => true
          | _ => false)
      | _ => false) = true := by decide +kernel

/-- D16b: two different unions with the same 32-bit hash get the same synthetic definition names. -/
theorem synthetic_names_collide : hashString "Aa" = hashString "BB" := by decide +kernel

/-- a successful contextual print of a recursive type stores its definition once and leaves no mark -/
example :
    (match schema [("L", .object [("next", .optional (.ref "L"))] [])] opts 50 (.ref "L") none [] ⟨[], []⟩ with
      | .ok _ c => c.inProgress.isEmpty && c.has "L" && c.collected.length == 1
      | _ => false) = true := by decide +kernel

end BeffVerif.C16
