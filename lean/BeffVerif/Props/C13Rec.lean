import BeffVerif.Props.C13Tree
/-!
# C13 — the token stream with named references (cycle offsets)

Part A (this section): for ALL Runtype trees — named references, aliases, recursion, any environment — the stream a
node writes is self-delimiting: `ts1 ++ r1 = ts2 ++ r2 → ts1 = ts2 ∧ r1 = r2`. A back reference is the leaf
`cycleRef <offset>`; every other reference is transparent (it writes what its target writes).
-/
namespace BeffVerif.C13R
open BeffVerif RT Sha JsVal C13T

/-- what `h256 env (n+1) rt act p` is, by the shape of `rt`: the stream of another node (with one unit of fuel less),
a back reference, nothing, or the stream of a structural node (which starts with its own tag) -/
inductive View (env : Env) (n : Nat) (rt : RT) (act : List (String × Nat)) (p : Nat) : Prop
  | trans (rt' : RT) (act' : List (String × Nat)) : h256 env (n+1) rt act p = h256 env n rt' act' p → View env n rt act p
  | cycle (id : Nat) : h256 env (n+1) rt act p = some [.tag "cycleRef", natTok id] → View env n rt act p
  | fail : h256 env (n+1) rt act p = none → View env n rt act p
  | struct : structural rt = true → View env n rt act p

theorem view (env : Env) (n : Nat) (rt : RT) (act : List (String × Nat)) (p : Nat) : View env n rt act p := by
  cases rt with
  | described d t => exact .trans t act (by simp only [h256])
  | ref name =>
    cases hl : env.lookup name with
    | none => exact .fail (by simp only [h256, hl])
    | some to =>
      cases hs : stripDescribed to with
      | ref other => exact .trans (.ref other) act (by simp only [h256, hl, hs])
      | _ =>
        cases hf : act.find? (fun q => q.1 == name) with
        | some q => exact .cycle q.2 (by simp only [h256, hl, hs, hf])
        | none => exact .trans to ((name, p) :: act) (by simp only [h256, hl, hs, hf])
  | _ => exact .struct rfl


/-! ## Part A: the stream is self-delimiting, for every tree -/

def ClaimA (env1 env2 : Env) (n1 n2 : Nat) : Prop :=
  ∀ rt1 rt2 act1 act2, PF (h256 env1 n1 rt1 act1) (h256 env2 n2 rt2 act2) True

theorem PF_triv {e1 e2 : Nat → Option (List Tok)} {P : Prop} (h : PF e1 e2 P) : PF e1 e2 True := PF_mono h (fun _ => trivial)

theorem PF_of_none_left {e1 e2 : Nat → Option (List Tok)} {P : Prop} (h : ∀ p, e1 p = none) : PF e1 e2 P := by
  intro p1 p2 ts1 ts2 r1 r2 h1; rw [h p1] at h1; cases h1

section stepA
variable {env1 env2 : Env} {n1 n2 : Nat} {act1 act2 : List (String × Nat)}

/-- constants of equal number: the streams of two constant lists can be told apart from what follows -/
theorem constsA_pf : ∀ (l1 l2 : List JsVal) (t1 t2 : List (List Tok)) (r1 r2 : List Tok), l1.length = l2.length →
    mapMO constToks l1 = some t1 → mapMO constToks l2 = some t2 → t1.flatten ++ r1 = t2.flatten ++ r2 →
    t1.flatten = t2.flatten ∧ r1 = r2 := by
  intro l1
  induction l1 with
  | nil =>
    intro l2 t1 t2 r1 r2 hl h1 h2 he
    cases l2 with
    | nil => simp [mapMO] at h1 h2; subst h1; subst h2; simpa using he
    | cons y ys => simp at hl
  | cons x xs ih =>
    intro l2 t1 t2 r1 r2 hl h1 h2 he
    cases l2 with
    | nil => simp at hl
    | cons y ys =>
      simp only [mapMO] at h1 h2
      cases hx : constToks x with
      | none => simp [hx] at h1
      | some cx =>
        cases hy : constToks y with
        | none => simp [hy] at h2
        | some cy =>
          cases hxs : mapMO constToks xs with
          | none => simp [hx, hxs] at h1
          | some txs =>
            cases hys : mapMO constToks ys with
            | none => simp [hy, hys] at h2
            | some tys =>
              simp [hx, hxs] at h1; simp [hy, hys] at h2
              subst h1; subst h2
              simp only [List.flatten_cons, List.append_assoc] at he
              obtain ⟨hc, hrest⟩ := constToks_pf hx hy he
              subst hc
              obtain ⟨hf, hr⟩ := ih ys txs tys r1 r2 (by simpa using hl) hxs hys hrest
              exact ⟨by simp only [List.flatten_cons, hf], hr⟩

theorem pfA_consts {vs1 vs2 : List JsVal} :
    PF (h256 env1 (n1+1) (.consts vs1) act1) (h256 env2 (n2+1) (.consts vs2) act2) True := by
  intro p1 p2 ts1 ts2 r1 r2 h1 h2 he
  simp only [h256] at h1 h2
  cases hm1 : mapMO constToks (sortedConsts vs1) with
  | none => rw [hm1] at h1; cases h1
  | some t1 =>
    cases hm2 : mapMO constToks (sortedConsts vs2) with
    | none => rw [hm2] at h2; cases h2
    | some t2 =>
      rw [hm1] at h1; rw [hm2] at h2
      injection h1 with h1; injection h2 with h2
      subst h1; subst h2
      simp only [List.cons_append] at he
      injection he with _ he
      injection he with hn he
      have hlen : vs1.length = vs2.length := natTok_inj hn
      have hl : (sortedConsts vs1).length = (sortedConsts vs2).length := by
        rw [(sortedConsts_perm vs1).length_eq, (sortedConsts_perm vs2).length_eq, hlen]
      obtain ⟨hf, hr⟩ := constsA_pf _ _ _ _ _ _ hl hm1 hm2 he
      exact ⟨by simp only [hf, hlen], hr, trivial⟩

theorem pfA_leaf {rt1 rt2 : RT} {l1 l2 : List Tok} (e1 : h256 env1 (n1+1) rt1 act1 = fun _ => some l1)
    (e2 : h256 env2 (n2+1) rt2 act2 = fun _ => some l2) (hl : l1.length = l2.length) :
    PF (h256 env1 (n1+1) rt1 act1) (h256 env2 (n2+1) rt2 act2) True := by
  rw [e1, e2]; exact PF_triv (PF_const hl)

theorem pfA_children (ih : ClaimA env1 env2 n1 n2) {ts1 ts2 : List RT} (hl : ts1.length = ts2.length) :
    PF (seqT (fun t p => h256 env1 n1 t act1 p) ts1) (seqT (fun t p => h256 env2 n2 t act2 p) ts2) True :=
  PF_triv (PF_seqT (P := fun _ _ => True) ts1 ts2 hl (fun x _ y _ => ih x y act1 act2))

theorem pfA_rest (ih : ClaimA env1 env2 n1 n2) {r1 r2 : Option RT} :
    PF (restEnc env1 n1 act1 r1) (restEnc env2 n2 act2 r2) True := by
  cases r1 with
  | none => cases r2 with
    | none => exact PF_triv (PF_const rfl)
    | some b =>
      exact PF_head_ne (a := .tag "noRest") (b := .tag "rest")
        (fun _ ts h => by simp only [restEnc] at h; injection h with h; exact ⟨[], h.symm⟩)
        (fun _ ts h => pre_head h) (by decide)
  | some a => cases r2 with
    | none =>
      exact PF_head_ne (a := .tag "rest") (b := .tag "noRest")
        (fun _ ts h => pre_head h)
        (fun _ ts h => by simp only [restEnc] at h; injection h with h; exact ⟨[], h.symm⟩) (by decide)
    | some b => exact PF_triv (PF_pre rfl (ih a b act1 act2))

/-- two structural nodes -/
theorem stepA_struct (ih : ClaimA env1 env2 n1 n2) (rt1 rt2 : RT) (hs1 : structural rt1 = true) (hs2 : structural rt2 = true) :
    PF (h256 env1 (n1+1) rt1 act1) (h256 env2 (n2+1) rt2 act2) True := by
  cases rt1 with
  | ref name => simp [structural] at hs1
  | described d t => simp [structural] at hs1
  | typeof t =>
    cases rt2 with
    | typeof t' => exact pfA_leaf (l1 := [.tag "typeof", .str t]) (l2 := [.tag "typeof", .str t']) (by funext p; simp only [h256]) (by funext p; simp only [h256]) rfl
    | _ => first | exact pf_of_tag_ne rfl rfl (by simp [tagOf]) | (simp [structural] at hs2)
  | any =>
    cases rt2 with
    | any => exact pfA_leaf (l1 := [.tag "any"]) (l2 := [.tag "any"]) (by funext p; simp only [h256]) (by funext p; simp only [h256]) rfl
    | _ => first | exact pf_of_tag_ne rfl rfl (by simp [tagOf]) | (simp [structural] at hs2)
  | nullish d =>
    cases rt2 with
    | nullish d' => exact pfA_leaf (l1 := [.tag "nullish"]) (l2 := [.tag "nullish"]) (by funext p; simp only [h256]) (by funext p; simp only [h256]) rfl
    | _ => first | exact pf_of_tag_ne rfl rfl (by simp [tagOf]) | (simp [structural] at hs2)
  | never =>
    cases rt2 with
    | never => exact pfA_leaf (l1 := [.tag "never"]) (l2 := [.tag "never"]) (by funext p; simp only [h256]) (by funext p; simp only [h256]) rfl
    | _ => first | exact pf_of_tag_ne rfl rfl (by simp [tagOf]) | (simp [structural] at hs2)
  | const v =>
    cases rt2 with
    | const v' => exact PF_triv pf_const
    | _ => first | exact pf_of_tag_ne rfl rfl (by simp [tagOf]) | (simp [structural] at hs2)
  | regex tpl d =>
    cases rt2 with
    | regex tpl' d' => exact pfA_leaf (l1 := [.tag "regex", .str (regexSource tpl), .str ""]) (l2 := [.tag "regex", .str (regexSource tpl'), .str ""]) (by funext p; simp only [h256]) (by funext p; simp only [h256]) rfl
    | _ => first | exact pf_of_tag_ne rfl rfl (by simp [tagOf]) | (simp [structural] at hs2)
  | date =>
    cases rt2 with
    | date => exact pfA_leaf (l1 := [.tag "date"]) (l2 := [.tag "date"]) (by funext p; simp only [h256]) (by funext p; simp only [h256]) rfl
    | _ => first | exact pf_of_tag_ne rfl rfl (by simp [tagOf]) | (simp [structural] at hs2)
  | bigint =>
    cases rt2 with
    | bigint => exact pfA_leaf (l1 := [.tag "bigint"]) (l2 := [.tag "bigint"]) (by funext p; simp only [h256]) (by funext p; simp only [h256]) rfl
    | _ => first | exact pf_of_tag_ne rfl rfl (by simp [tagOf]) | (simp [structural] at hs2)
  | typed c =>
    cases rt2 with
    | typed c' => exact pfA_leaf (l1 := [.tag "typedArray", .str c]) (l2 := [.tag "typedArray", .str c']) (by funext p; simp only [h256]) (by funext p; simp only [h256]) rfl
    | _ => first | exact pf_of_tag_ne rfl rfl (by simp [tagOf]) | (simp [structural] at hs2)
  | strfmt fs =>
    cases rt2 with
    | strfmt fs' => exact PF_triv pf_strfmt
    | _ => first | exact pf_of_tag_ne rfl rfl (by simp [tagOf]) | (simp [structural] at hs2)
  | numfmt fs =>
    cases rt2 with
    | numfmt fs' => exact PF_triv pf_numfmt
    | _ => first | exact pf_of_tag_ne rfl rfl (by simp [tagOf]) | (simp [structural] at hs2)
  | consts vs =>
    cases rt2 with
    | consts vs' => exact pfA_consts
    | _ => first | exact pf_of_tag_ne rfl rfl (by simp [tagOf]) | (simp [structural] at hs2)
  | tuple ps1 r1 =>
    cases rt2 with
    | tuple ps2 r2 =>
      have e1 : h256 env1 (n1+1) (.tuple ps1 r1) act1 =
          pre [.tag "tuple", natTok ps1.length] (andThen (seqT (fun t p => h256 env1 n1 t act1 p) ps1) (restEnc env1 n1 act1 r1)) := by
        funext p; cases r1 <;> simp only [h256, restEnc]
      have e2 : h256 env2 (n2+1) (.tuple ps2 r2) act2 =
          pre [.tag "tuple", natTok ps2.length] (andThen (seqT (fun t p => h256 env2 n2 t act2 p) ps2) (restEnc env2 n2 act2 r2)) := by
        funext p; cases r2 <;> simp only [h256, restEnc]
      rw [e1, e2]
      exact PF_triv (PF_pre' rfl (fun hl => PF_andThen (pfA_children ih (natTok_inj (two_tok_inj hl))) (pfA_rest ih)))
    | _ => first | exact pf_of_tag_ne rfl rfl (by simp [tagOf]) | (simp [structural] at hs2)
  | allOf ts1 =>
    cases rt2 with
    | allOf ts2 =>
      have e1 : h256 env1 (n1+1) (.allOf ts1) act1 =
          pre [.tag "allOf", natTok ts1.length] (seqT (fun t p => h256 env1 n1 t act1 p) ts1) := by funext p; simp only [h256]
      have e2 : h256 env2 (n2+1) (.allOf ts2) act2 =
          pre [.tag "allOf", natTok ts2.length] (seqT (fun t p => h256 env2 n2 t act2 p) ts2) := by funext p; simp only [h256]
      rw [e1, e2]
      exact PF_triv (PF_pre' rfl (fun hl => pfA_children ih (natTok_inj (two_tok_inj hl))))
    | _ => first | exact pf_of_tag_ne rfl rfl (by simp [tagOf]) | (simp [structural] at hs2)
  | anyOf ts1 =>
    cases rt2 with
    | anyOf ts2 =>
      have e1 : h256 env1 (n1+1) (.anyOf ts1) act1 =
          pre [.tag "anyOf", natTok ts1.length] (seqT (fun t p => h256 env1 n1 t act1 p) ts1) := by funext p; simp only [h256]
      have e2 : h256 env2 (n2+1) (.anyOf ts2) act2 =
          pre [.tag "anyOf", natTok ts2.length] (seqT (fun t p => h256 env2 n2 t act2 p) ts2) := by funext p; simp only [h256]
      rw [e1, e2]
      exact PF_triv (PF_pre' rfl (fun hl => pfA_children ih (natTok_inj (two_tok_inj hl))))
    | _ => first | exact pf_of_tag_ne rfl rfl (by simp [tagOf]) | (simp [structural] at hs2)
  | array t1 =>
    cases rt2 with
    | array t2 =>
      have e1 : h256 env1 (n1+1) (.array t1) act1 = pre [.tag "array"] (h256 env1 n1 t1 act1) := by funext p; simp only [h256]
      have e2 : h256 env2 (n2+1) (.array t2) act2 = pre [.tag "array"] (h256 env2 n2 t2 act2) := by funext p; simp only [h256]
      rw [e1, e2]
      exact PF_triv (PF_pre rfl (ih t1 t2 act1 act2))
    | _ => first | exact pf_of_tag_ne rfl rfl (by simp [tagOf]) | (simp [structural] at hs2)
  | set t1 =>
    cases rt2 with
    | set t2 =>
      have e1 : h256 env1 (n1+1) (.set t1) act1 = pre [.tag "set"] (h256 env1 n1 t1 act1) := by funext p; simp only [h256]
      have e2 : h256 env2 (n2+1) (.set t2) act2 = pre [.tag "set"] (h256 env2 n2 t2 act2) := by funext p; simp only [h256]
      rw [e1, e2]
      exact PF_triv (PF_pre rfl (ih t1 t2 act1 act2))
    | _ => first | exact pf_of_tag_ne rfl rfl (by simp [tagOf]) | (simp [structural] at hs2)
  | optional t1 =>
    cases rt2 with
    | optional t2 =>
      have e1 : h256 env1 (n1+1) (.optional t1) act1 = pre [.tag "optionalField"] (h256 env1 n1 t1 act1) := by funext p; simp only [h256]
      have e2 : h256 env2 (n2+1) (.optional t2) act2 = pre [.tag "optionalField"] (h256 env2 n2 t2 act2) := by funext p; simp only [h256]
      rw [e1, e2]
      exact PF_triv (PF_pre rfl (ih t1 t2 act1 act2))
    | _ => first | exact pf_of_tag_ne rfl rfl (by simp [tagOf]) | (simp [structural] at hs2)
  | map k1 v1 =>
    cases rt2 with
    | map k2 v2 =>
      have e1 : h256 env1 (n1+1) (.map k1 v1) act1 = pre [.tag "map"] (andThen (h256 env1 n1 k1 act1) (h256 env1 n1 v1 act1)) := by
        funext p; simp only [h256]
      have e2 : h256 env2 (n2+1) (.map k2 v2) act2 = pre [.tag "map"] (andThen (h256 env2 n2 k2 act2) (h256 env2 n2 v2 act2)) := by
        funext p; simp only [h256]
      rw [e1, e2]
      exact PF_triv (PF_pre rfl (PF_andThen (ih k1 k2 act1 act2) (ih v1 v2 act1 act2)))
    | _ => first | exact pf_of_tag_ne rfl rfl (by simp [tagOf]) | (simp [structural] at hs2)
  | disc ss1 key1 m1 sm1 =>
    cases rt2 with
    | disc ss2 key2 m2 sm2 =>
      have e1 : h256 env1 (n1+1) (.disc ss1 key1 m1 sm1) act1 =
          pre [.tag "anyOfDiscriminated", .str key1, natTok ss1.length]
            (andThen (seqT (fun t p => h256 env1 n1 t act1 p) ss1)
              (pre [natTok m1.length] (seqT (caseEnc env1 n1 act1) (sortedProps m1)))) := by
        funext p; simp only [h256]; rfl
      have e2 : h256 env2 (n2+1) (.disc ss2 key2 m2 sm2) act2 =
          pre [.tag "anyOfDiscriminated", .str key2, natTok ss2.length]
            (andThen (seqT (fun t p => h256 env2 n2 t act2 p) ss2)
              (pre [natTok m2.length] (seqT (caseEnc env2 n2 act2) (sortedProps m2)))) := by
        funext p; simp only [h256]; rfl
      rw [e1, e2]
      exact PF_triv (PF_pre' rfl (fun hl => PF_andThen
        (pfA_children ih (natTok_inj (by injection hl with _ h; injection h with _ h; injection h)))
        (PF_pre' rfl (fun hl2 => PF_seqT (P := fun _ _ => True) (sortedProps m1) (sortedProps m2)
          (by rw [sortedProps_length, sortedProps_length]; exact natTok_inj (by injection hl2))
          (fun x _ y _ => by unfold caseEnc; exact PF_triv (PF_pre rfl (ih x.2 y.2 act1 act2)))))))
    | _ => first | exact pf_of_tag_ne rfl rfl (by simp [tagOf]) | (simp [structural] at hs2)
  | object props1 ix1 =>
    cases rt2 with
    | object props2 ix2 =>
      have e1 : h256 env1 (n1+1) (.object props1 ix1) act1 =
          pre [.tag "object", natTok props1.length]
            (andThen (seqT (propEnc env1 n1 act1) (sortedProps props1)) (pre [natTok ix1.length] (seqT (ixEnc env1 n1 act1) ix1))) := by
        funext p; simp only [h256]; rfl
      have e2 : h256 env2 (n2+1) (.object props2 ix2) act2 =
          pre [.tag "object", natTok props2.length]
            (andThen (seqT (propEnc env2 n2 act2) (sortedProps props2)) (pre [natTok ix2.length] (seqT (ixEnc env2 n2 act2) ix2))) := by
        funext p; simp only [h256]; rfl
      rw [e1, e2]
      exact PF_triv (PF_pre' rfl (fun hl => PF_andThen
        (PF_seqT (P := fun _ _ => True) (sortedProps props1) (sortedProps props2)
          (by rw [sortedProps_length, sortedProps_length]; exact natTok_inj (two_tok_inj hl))
          (fun x _ y _ => by unfold propEnc; exact PF_triv (PF_pre rfl (ih x.2 y.2 act1 act2))))
        (PF_pre' rfl (fun hl2 => PF_seqT (P := fun _ _ => True) ix1 ix2 (natTok_inj (by injection hl2))
          (fun x _ y _ => by unfold ixEnc; exact PF_triv (PF_andThen (ih x.1 y.1 act1 act2) (ih x.2 y.2 act1 act2)))))))
    | _ => first | exact pf_of_tag_ne rfl rfl (by simp [tagOf]) | (simp [structural] at hs2)

end stepA


theorem tagOf_ne_cycleRef (rt : RT) (hs : structural rt = true) : tagOf rt ≠ "cycleRef" := by
  cases rt <;> simp [tagOf, structural] at hs ⊢

/-- **Part A**: every node's stream is self-delimiting — closed or recursive, whatever the environments, the sets of
types under expansion and the offsets -/
theorem stream_self_delimiting (env1 env2 : Env) : ∀ n1 n2, ClaimA env1 env2 n1 n2 := by
  intro n1
  induction n1 with
  | zero => intro n2 rt1 rt2 act1 act2 p1 p2 ts1 ts2 r1 r2 h1; simp [h256] at h1
  | succ n1 ih1 =>
    intro n2
    induction n2 with
    | zero => intro rt1 rt2 act1 act2 p1 p2 ts1 ts2 r1 r2 _ h2; simp [h256] at h2
    | succ n2 ih2 =>
      intro rt1 rt2 act1 act2 p1 p2 ts1 ts2 r1 r2 h1 h2 he
      cases view env1 n1 rt1 act1 p1 with
      | trans rt' act' e => rw [e] at h1; exact ih1 (n2+1) rt' rt2 act' act2 p1 p2 ts1 ts2 r1 r2 h1 h2 he
      | fail e => rw [e] at h1; cases h1
      | cycle id e =>
        cases view env2 n2 rt2 act2 p2 with
        | trans rt' act' e2 => rw [e2] at h2; exact ih2 rt1 rt' act1 act' p1 p2 ts1 ts2 r1 r2 h1 h2 he
        | fail e2 => rw [e2] at h2; cases h2
        | cycle id2 e2 =>
          rw [e] at h1; rw [e2] at h2
          injection h1 with h1; injection h2 with h2
          subst h1; subst h2
          obtain ⟨a, b⟩ := List.append_inj he rfl
          exact ⟨a, b, trivial⟩
        | struct hs2 =>
          rw [e] at h1
          injection h1 with h1
          subst h1
          obtain ⟨tl, htl⟩ := h256_head hs2 h2
          subst htl
          simp only [List.cons_append] at he
          injection he with hh _
          injection hh with hh
          exact absurd hh.symm (tagOf_ne_cycleRef rt2 hs2)
      | struct hs1 =>
        cases view env2 n2 rt2 act2 p2 with
        | trans rt' act' e2 => rw [e2] at h2; exact ih2 rt1 rt' act1 act' p1 p2 ts1 ts2 r1 r2 h1 h2 he
        | fail e2 => rw [e2] at h2; cases h2
        | cycle id2 e2 =>
          rw [e2] at h2
          injection h2 with h2
          subst h2
          obtain ⟨tl, htl⟩ := h256_head hs1 h1
          subst htl
          simp only [List.cons_append] at he
          injection he with hh _
          injection hh with hh
          exact absurd hh (tagOf_ne_cycleRef rt1 hs1)
        | struct hs2 => exact stepA_struct (ih1 n2) rt1 rt2 hs1 hs2 p1 p2 ts1 ts2 r1 r2 h1 h2 he

/-- two parsers with the same digest input have the same token stream at every node pair that starts together: in
particular the whole streams are equal as soon as one is a prefix of the other -/
theorem root_streams_equal (env1 env2 : Env) (rt1 rt2 : RT) (ts1 ts2 r1 r2 : List Tok)
    (h1 : hash256Toks env1 rt1 = some ts1) (h2 : hash256Toks env2 rt2 = some ts2) (he : ts1 ++ r1 = ts2 ++ r2) :
    ts1 = ts2 ∧ r1 = r2 := by
  unfold hash256Toks at h1 h2
  cases ha : h256 env1 h256Fuel rt1 [] (bytesLen rootToks) with
  | none => rw [ha] at h1; cases h1
  | some a =>
    cases hb : h256 env2 h256Fuel rt2 [] (bytesLen rootToks) with
    | none => rw [hb] at h2; cases h2
    | some b =>
      rw [ha] at h1; rw [hb] at h2
      injection h1 with h1; injection h2 with h2
      subst h1; subst h2
      rw [List.append_assoc, List.append_assoc] at he
      have he' := List.append_cancel_left he
      obtain ⟨x, y, _⟩ := stream_self_delimiting env1 env2 h256Fuel h256Fuel rt1 rt2 [] [] _ _ _ _ _ _ ha hb he'
      exact ⟨by rw [x], y⟩


/-! ## Part B: with named references, equal streams still mean equal behaviour

The induction is on the runtime's fuel (a reference costs one unit, so following a back reference makes progress),
hence the congruence lemmas of `validate` are restated fuel by fuel. -/

/-- agreement at given fuels -/
def SemAt (env1 env2 : Env) (m1 m2 : Nat) (rt1 rt2 : RT) : Prop :=
  ∀ strict x, Agree (validate env1 strict m1 rt1 x) (validate env2 strict m2 rt2 x)

theorem semAt_of_semEq {env1 env2 : Env} {rt1 rt2 : RT} (h : SemEq env1 env2 rt1 rt2) (m1 m2 : Nat) :
    SemAt env1 env2 m1 m2 rt1 rt2 := fun strict x => h strict m1 m2 x

theorem semAt_zero_l {env1 env2 : Env} {rt1 rt2 : RT} (m2 : Nat) : SemAt env1 env2 0 m2 rt1 rt2 := by
  intro strict x; rw [C13T.validate_zero]; exact agree_nofuel_l _

theorem semAt_zero_r {env1 env2 : Env} {rt1 rt2 : RT} (m1 : Nat) : SemAt env1 env2 m1 0 rt1 rt2 := by
  intro strict x; rw [C13T.validate_zero env2]; exact agree_nofuel_r _

section semAt
variable {env1 env2 : Env} {m1 m2 : Nat}

theorem at_described_l {d : String} {t1 rt2 : RT} (h : SemAt env1 env2 m1 m2 t1 rt2) :
    SemAt env1 env2 (m1+1) m2 (.described d t1) rt2 := by
  intro strict x; rw [validate]; exact h strict x

theorem at_described_r {d : String} {rt1 t2 : RT} (h : SemAt env1 env2 m1 m2 rt1 t2) :
    SemAt env1 env2 m1 (m2+1) rt1 (.described d t2) := by
  intro strict x; rw [validate.eq_def env2]; exact h strict x

theorem at_array {t1 t2 : RT} (h : SemAt env1 env2 m1 m2 t1 t2) : SemAt env1 env2 (m1+1) (m2+1) (.array t1) (.array t2) := by
  intro strict x
  simp only [validate]
  cases x with
  | arr items => exact allShort_agree (fun y hy => ⟨y, hy, h strict y⟩) (fun y hy => ⟨y, hy, h strict y⟩)
  | _ => exact agree_ok rfl

theorem at_set {t1 t2 : RT} (h : SemAt env1 env2 m1 m2 t1 t2) : SemAt env1 env2 (m1+1) (m2+1) (.set t1) (.set t2) := by
  intro strict x
  simp only [validate]
  cases x with
  | set items => exact allShort_agree (fun y hy => ⟨y, hy, h strict y⟩) (fun y hy => ⟨y, hy, h strict y⟩)
  | _ => exact agree_ok rfl

theorem at_optional {t1 t2 : RT} (h : SemAt env1 env2 m1 m2 t1 t2) :
    SemAt env1 env2 (m1+1) (m2+1) (.optional t1) (.optional t2) := by
  intro strict x
  simp only [validate]
  split
  · exact agree_ok rfl
  · exact h strict x

theorem at_map {k1 k2 v1 v2 : RT} (hk : SemAt env1 env2 m1 m2 k1 k2) (hv : SemAt env1 env2 m1 m2 v1 v2) :
    SemAt env1 env2 (m1+1) (m2+1) (.map k1 v1) (.map k2 v2) := by
  intro strict x
  simp only [validate]
  cases x with
  | map es =>
    apply allShort_agree
    · intro e he; exact ⟨e, he, agree_seq (hk strict e.1) (hv strict e.2)⟩
    · intro e he; exact ⟨e, he, agree_seq (hk strict e.1) (hv strict e.2)⟩
  | _ => exact agree_ok rfl

theorem at_allOf {ts1 ts2 : List RT} (h : Pairwise2 (SemAt env1 env2 m1 m2) ts1 ts2) :
    SemAt env1 env2 (m1+1) (m2+1) (.allOf ts1) (.allOf ts2) := by
  intro strict x
  simp only [validate]
  apply allShort_agree_p2
  refine pairwise2_mono ?_ h
  intro a b hab
  split
  · exact hab strict x
  · exact agree_ok rfl

theorem at_anyOf {ts1 ts2 : List RT} (h : Pairwise2 (SemAt env1 env2 m1 m2) ts1 ts2) :
    SemAt env1 env2 (m1+1) (m2+1) (.anyOf ts1) (.anyOf ts2) := by
  intro strict x
  simp only [validate]
  apply anyShort_agree_p2
  exact pairwise2_mono (fun a b hab => hab strict x) h

/-- the rest elements of two tuples at given fuels -/
def RestAt (env1 env2 : Env) (m1 m2 : Nat) : Option RT → Option RT → Prop
  | none, none => True
  | some a, some b => SemAt env1 env2 m1 m2 a b
  | _, _ => False

theorem at_tuple {ps1 ps2 : List RT} {r1 r2 : Option RT} (hp : Pairwise2 (SemAt env1 env2 m1 m2) ps1 ps2)
    (hr : RestAt env1 env2 m1 m2 r1 r2) : SemAt env1 env2 (m1+1) (m2+1) (.tuple ps1 r1) (.tuple ps2 r2) := by
  intro strict x
  simp only [validate]
  have hl := pairwise2_length hp
  cases x with
  | arr items =>
    simp only
    rw [← hl]
    apply agree_seq
    · apply allShort_agree_p2
      refine pairwise2_mono ?_ (pairwise2_zip ps1 ps2 (List.range ps1.length) hp)
      intro a b hab
      rw [hab.2]
      exact hab.1 strict _
    · cases r1 with
      | none => cases r2 with
        | none => exact agree_ok rfl
        | some b => exact absurd hr (by simp [RestAt])
      | some a => cases r2 with
        | none => exact absurd hr (by simp [RestAt])
        | some b =>
          simp only [RestAt] at hr
          exact allShort_agree (fun y hy => ⟨y, hy, hr strict y⟩) (fun y hy => ⟨y, hy, hr strict y⟩)
  | _ => exact agree_ok rfl

theorem at_disc {ss1 ss2 : List RT} {key : String} {mp1 mp2 sm1 sm2 : List (String × RT)}
    (hn1 : (mp1.map (·.1)).Nodup) (hn2 : (mp2.map (·.1)).Nodup)
    (hp : Pairwise2 (fun p q => p.1 = q.1 ∧ SemAt env1 env2 m1 m2 p.2 q.2) (sortedProps mp1) (sortedProps mp2)) :
    SemAt env1 env2 (m1+1) (m2+1) (.disc ss1 key mp1 sm1) (.disc ss2 key mp2 sm2) := by
  intro strict x
  simp only [validate]
  split
  · exact agree_ok rfl
  · split
    · exact agree_ok rfl
    · have key_rel : ∀ k : String,
          (match mp1.find? (fun p => p.1 == k), mp2.find? (fun p => p.1 == k) with
            | none, none => True
            | some p, some q => SemAt env1 env2 m1 m2 p.2 q.2
            | _, _ => False) := by
        intro k
        rw [← find_key_perm (sortedProps_perm mp1) ((sortedProps_perm mp1).map (·.1) |>.nodup_iff.2 hn1) k,
            ← find_key_perm (sortedProps_perm mp2) ((sortedProps_perm mp2).map (·.1) |>.nodup_iff.2 hn2) k]
        exact find_key_p2 k hp
      cases hd : x.getProp key with
      | str k =>
        simp only [lookupMapping]
        have := key_rel k
        cases h1 : mp1.find? (fun p => p.1 == k) <;> cases h2 : mp2.find? (fun p => p.1 == k) <;> simp only [h1, h2] at this
        · exact agree_ok rfl
        · exact this strict x
      | _ => simp only [lookupMapping]; exact agree_ok rfl

theorem at_object {props1 props2 : List (String × RT)} {ix1 ix2 : List (RT × RT)}
    (hp : Pairwise2 (fun p q => p.1 = q.1 ∧ SemAt env1 env2 m1 m2 p.2 q.2) (sortedProps props1) (sortedProps props2))
    (hi : Pairwise2 (fun (p q : RT × RT) => SemAt env1 env2 m1 m2 p.1 q.1 ∧ SemAt env1 env2 m1 m2 p.2 q.2) ix1 ix2) :
    SemAt env1 env2 (m1+1) (m2+1) (.object props1 ix1) (.object props2 ix2) := by
  have h12 : ∀ p ∈ props1, ∃ q ∈ props2, p.1 = q.1 ∧ SemAt env1 env2 m1 m2 p.2 q.2 := by
    intro p hp1
    obtain ⟨q, hq, hr⟩ := pairwise2_left hp p ((sortedProps_perm props1).mem_iff.2 hp1)
    exact ⟨q, (sortedProps_perm props2).mem_iff.1 hq, hr⟩
  have h21 : ∀ q ∈ props2, ∃ p ∈ props1, p.1 = q.1 ∧ SemAt env1 env2 m1 m2 p.2 q.2 := by
    intro q hq2
    obtain ⟨p, hp1, hr⟩ := pairwise2_right hp q ((sortedProps_perm props2).mem_iff.2 hq2)
    exact ⟨p, (sortedProps_perm props1).mem_iff.1 hp1, hr⟩
  have hkeys : ∀ k : String, (props1.map (·.1)).contains k = (props2.map (·.1)).contains k := by
    intro k
    rw [Bool.eq_iff_iff]
    simp only [List.contains_iff_mem, List.mem_map]
    constructor
    · rintro ⟨p, hp1, rfl⟩
      obtain ⟨q, hq, hr⟩ := h12 p hp1
      exact ⟨q, hq, hr.1.symm⟩
    · rintro ⟨q, hq, rfl⟩
      obtain ⟨p, hp1, hr⟩ := h21 q hq
      exact ⟨p, hp1, hr.1⟩
  intro strict x
  simp only [validate]
  split
  · exact agree_ok rfl
  · apply agree_seq
    · apply allShort_agree
      · intro p hp1
        obtain ⟨q, hq, hr⟩ := h12 p hp1
        exact ⟨q, hq, by rw [hr.1]; exact hr.2 strict _⟩
      · intro q hq
        obtain ⟨p, hp1, hr⟩ := h21 q hq
        exact ⟨p, hp1, by rw [hr.1]; exact hr.2 strict _⟩
    · have hfilter : x.ownKeys.filter (fun k => !(props1.map (·.1)).contains k) =
          x.ownKeys.filter (fun k => !(props2.map (·.1)).contains k) := by
        apply List.filter_congr
        intro k _
        rw [hkeys k]
      have hlen := pairwise2_length hi
      simp only [hfilter, hlen]
      split
      · apply allShort_agree
        · intro k hk
          refine ⟨k, hk, ?_⟩
          simp only [indexedAccepts]
          apply anyShort_agree_p2
          exact pairwise2_mono (fun a b hab => agree_seq (hab.1 strict _) (hab.2 strict _)) hi
        · intro k hk
          refine ⟨k, hk, ?_⟩
          simp only [indexedAccepts]
          apply anyShort_agree_p2
          exact pairwise2_mono (fun a b hab => agree_seq (hab.1 strict _) (hab.2 strict _)) hi
      · split <;> exact agree_ok rfl

end semAt


/-! ### encoders started at the same offset -/

/-- like `PF`, with both encoders started at the same offset `q`, beyond `lo` -/
def PFs (lo : Nat) (e1 e2 : Nat → Option (List Tok)) (P : Prop) : Prop :=
  ∀ q ts1 ts2 r1 r2, lo < q → e1 q = some ts1 → e2 q = some ts2 → ts1 ++ r1 = ts2 ++ r2 → ts1 = ts2 ∧ r1 = r2 ∧ P

theorem PFs_mono {lo : Nat} {e1 e2 : Nat → Option (List Tok)} {P Q : Prop} (h : PFs lo e1 e2 P) (hpq : P → Q) :
    PFs lo e1 e2 Q := by
  intro q ts1 ts2 r1 r2 hq h1 h2 he
  obtain ⟨a, b, c⟩ := h q ts1 ts2 r1 r2 hq h1 h2 he
  exact ⟨a, b, hpq c⟩

theorem PFs_of_PF {lo : Nat} {e1 e2 : Nat → Option (List Tok)} {P : Prop} (h : PF e1 e2 P) : PFs lo e1 e2 P :=
  fun q ts1 ts2 r1 r2 _ h1 h2 he => h q q ts1 ts2 r1 r2 h1 h2 he

theorem PFs_pre' {lo : Nat} {l1 l2 : List Tok} {e1 e2 : Nat → Option (List Tok)} {P : Prop} (hl : l1.length = l2.length)
    (h : l1 = l2 → PFs lo e1 e2 P) : PFs lo (pre l1 e1) (pre l2 e2) (l1 = l2 ∧ P) := by
  intro q ts1 ts2 r1 r2 hq h1 h2 he
  unfold pre at h1 h2
  cases ha : e1 (q + bytesLen l1) with
  | none => rw [ha] at h1; cases h1
  | some a =>
    cases hb : e2 (q + bytesLen l2) with
    | none => rw [hb] at h2; cases h2
    | some b =>
      rw [ha] at h1; rw [hb] at h2
      injection h1 with h1; injection h2 with h2
      subst h1; subst h2
      rw [List.append_assoc, List.append_assoc] at he
      obtain ⟨hl', hrest⟩ := List.append_inj he hl
      subst hl'
      obtain ⟨x, y, z⟩ := h rfl _ _ _ _ _ (by omega) ha hb hrest
      subst x
      exact ⟨rfl, y, rfl, z⟩

theorem PFs_andThen' {lo : Nat} {f1 f2 g1 g2 : Nat → Option (List Tok)} {P Q : Prop} (hf : PFs lo f1 f2 P)
    (hg : P → PFs lo g1 g2 Q) : PFs lo (andThen f1 g1) (andThen f2 g2) (P ∧ Q) := by
  intro q ts1 ts2 r1 r2 hq h1 h2 he
  unfold andThen at h1 h2
  cases ha : f1 q with
  | none => rw [ha] at h1; cases h1
  | some a =>
    cases hb : f2 q with
    | none => rw [hb] at h2; cases h2
    | some b =>
      simp only [ha] at h1; simp only [hb] at h2
      cases hc : g1 (q + bytesLen a) with
      | none => simp only [hc] at h1; cases h1
      | some c =>
        cases hd : g2 (q + bytesLen b) with
        | none => simp only [hd] at h2; cases h2
        | some d =>
          simp only [hc] at h1; simp only [hd] at h2
          injection h1 with h1; injection h2 with h2
          subst h1; subst h2
          rw [List.append_assoc, List.append_assoc] at he
          obtain ⟨x, y, z⟩ := hf _ _ _ _ _ hq ha hb he
          subst x
          obtain ⟨x', y', z'⟩ := hg z _ _ _ _ _ (by omega) hc hd y
          subst x'
          exact ⟨rfl, y', z, z'⟩

theorem PFs_seqT {lo : Nat} {α β : Type} {f : α → Nat → Option (List Tok)} {g : β → Nat → Option (List Tok)}
    {P : α → β → Prop} : ∀ (xs : List α) (ys : List β), xs.length = ys.length →
    (∀ x ∈ xs, ∀ y ∈ ys, PFs lo (f x) (g y) (P x y)) → PFs lo (seqT f xs) (seqT g ys) (Pairwise2 P xs ys) := by
  intro xs
  induction xs with
  | nil =>
    intro ys hl _
    cases ys with
    | nil =>
      intro q ts1 ts2 r1 r2 _ h1 h2 he
      simp only [seqT] at h1 h2
      injection h1 with h1; injection h2 with h2
      subst h1; subst h2
      exact ⟨rfl, he, trivial⟩
    | cons y ys => simp at hl
  | cons x xs ih =>
    intro ys hl hP
    cases ys with
    | nil => simp at hl
    | cons y ys =>
      have hl' : xs.length = ys.length := by simpa using hl
      have hrec := ih ys hl' (fun a ha b hb => hP a (List.mem_cons_of_mem _ ha) b (List.mem_cons_of_mem _ hb))
      have hxy := hP x (by simp) y (by simp)
      intro q ts1 ts2 r1 r2 hq h1 h2 he
      simp only [seqT] at h1 h2
      cases ha : f x q with
      | none => rw [ha] at h1; cases h1
      | some a =>
        cases hb : g y q with
        | none => rw [hb] at h2; cases h2
        | some b =>
          simp only [ha] at h1; simp only [hb] at h2
          cases hc : seqT f xs (q + bytesLen a) with
          | none => simp only [hc] at h1; cases h1
          | some c =>
            cases hd : seqT g ys (q + bytesLen b) with
            | none => simp only [hd] at h2; cases h2
            | some d =>
              simp only [hc] at h1; simp only [hd] at h2
              injection h1 with h1; injection h2 with h2
              subst h1; subst h2
              rw [List.append_assoc, List.append_assoc] at he
              obtain ⟨u, v, w⟩ := hxy _ _ _ _ _ hq ha hb he
              subst u
              obtain ⟨u', v', w'⟩ := hrec _ _ _ _ _ (by omega) hc hd v
              subst u'
              exact ⟨rfl, v', w, w'⟩

theorem bytesLen_pos (t : Tok) (l : List Tok) : 0 < bytesLen (t :: l) := by
  have : t.bytes ≠ [] := C13.bytes_ne_nil t
  have h0 : 0 < t.bytes.length := List.length_pos_iff.2 this
  simp only [bytesLen]
  omega

/-- a node at offset `p` that writes a non-empty prefix and then its children: the children start beyond `p` -/
theorem pre_at {p : Nat} {t1 t2 : Tok} {l1 l2 : List Tok} {e1 e2 : Nat → Option (List Tok)} {P : Prop}
    (hl : l1.length = l2.length) (h : t1 :: l1 = t2 :: l2 → PFs p e1 e2 P) {ts1 ts2 r1 r2 : List Tok}
    (h1 : pre (t1 :: l1) e1 p = some ts1) (h2 : pre (t2 :: l2) e2 p = some ts2) (he : ts1 ++ r1 = ts2 ++ r2) :
    ts1 = ts2 ∧ r1 = r2 ∧ (t1 :: l1 = t2 :: l2 ∧ P) := by
  unfold pre at h1 h2
  cases ha : e1 (p + bytesLen (t1 :: l1)) with
  | none => rw [ha] at h1; cases h1
  | some a =>
    cases hb : e2 (p + bytesLen (t2 :: l2)) with
    | none => rw [hb] at h2; cases h2
    | some b =>
      rw [ha] at h1; rw [hb] at h2
      injection h1 with h1; injection h2 with h2
      subst h1; subst h2
      rw [List.append_assoc, List.append_assoc] at he
      obtain ⟨hl', hrest⟩ := List.append_inj he (by simp [hl])
      have hpos := bytesLen_pos t1 l1
      rw [← hl'] at hb
      obtain ⟨x, y, z⟩ := h hl' _ _ _ _ _ (by omega) ha hb hrest
      subst x
      exact ⟨by rw [hl'], y, hl', z⟩


/-! ### trees with named references -/

/-- Runtype trees as the JavaScript objects can be (see `C13T.Good`), now with named references -/
inductive GoodR : RT → Prop
  | typeof (t : String) : GoodR (.typeof t)
  | any : GoodR .any
  | nullish (d : String) : GoodR (.nullish d)
  | never : GoodR .never
  | const (v : JsVal) : GoodR (.const v)
  | regex (tpl : Tpl) (d : String) : GoodR (.regex tpl d)
  | date : GoodR .date
  | bigint : GoodR .bigint
  | typed (c : String) : GoodR (.typed c)
  | strfmt (fs : List String) : GoodR (.strfmt fs)
  | numfmt (fs : List String) : GoodR (.numfmt fs)
  | consts (vs : List JsVal) : (∀ v ∈ vs, isConst v = true) → GoodR (.consts vs)
  | tuple (ps : List RT) (rest : Option RT) : (∀ t ∈ ps, GoodR t) → (∀ r, rest = some r → GoodR r) → GoodR (.tuple ps rest)
  | allOf (ts : List RT) : (∀ t ∈ ts, GoodR t) → GoodR (.allOf ts)
  | anyOf (ts : List RT) : (∀ t ∈ ts, GoodR t) → GoodR (.anyOf ts)
  | array (t : RT) : GoodR t → GoodR (.array t)
  | map (k v : RT) : GoodR k → GoodR v → GoodR (.map k v)
  | set (t : RT) : GoodR t → GoodR (.set t)
  | disc (schemas : List RT) (key : String) (mapping sm : List (String × RT)) :
      (mapping.map (·.1)).Nodup → (∀ p ∈ mapping, GoodR p.2) → (∀ t ∈ schemas, GoodR t) →
      GoodR (.disc schemas key mapping sm)
  | optional (t : RT) : GoodR t → GoodR (.optional t)
  | object (props : List (String × RT)) (ix : List (RT × RT)) :
      (props.map (·.1)).Nodup → (∀ p ∈ props, GoodR p.2) → (∀ p ∈ ix, GoodR p.1) → (∀ p ∈ ix, GoodR p.2) →
      GoodR (.object props ix)
  | ref (name : String) : GoodR (.ref name)
  | described (d : String) (t : RT) : GoodR t → GoodR (.described d t)

/-- every named type of the environment is such a tree -/
def GoodEnv (env : Env) : Prop := ∀ name t, env.lookup name = some t → GoodR t

theorem goodR_stripDescribed {t : RT} (h : GoodR t) : GoodR (stripDescribed t) := by
  induction h with
  | described d t _ ih => simpa [stripDescribed] using ih
  | _ => simp only [stripDescribed]; constructor <;> assumption

/-- leaves (no children): the closed theorem applies to them as they are -/
def isLeaf : RT → Bool
  | .typeof _ | .any | .nullish _ | .never | .const _ | .regex _ _ | .date | .bigint | .typed _ | .strfmt _ | .numfmt _
  | .consts _ => true
  | _ => false

theorem good_of_leaf {rt : RT} (h : GoodR rt) (hl : isLeaf rt = true) : Good rt := by
  cases h <;> simp only [isLeaf] at hl <;> first | (cases hl; done) | (constructor; done) | (constructor; assumption)


theorem isLeaf_of_tag_eq (rt1 rt2 : RT) (hs2 : structural rt2 = true) (htag : tagOf rt1 = tagOf rt2) (hl : isLeaf rt1 = true) :
    isLeaf rt2 = true := by
  cases rt1 <;> simp only [isLeaf] at hl <;> first
    | (cases hl; done)
    | (cases rt2 <;> simp [tagOf, structural, isLeaf] at htag hs2 ⊢)

section stepB
variable {env1 env2 : Env} {a b n1 n2 p : Nat} {act1 act2 : List (String × Nat)}

/-- what the induction provides for the children of a node at offset `p` -/
def ChildB (env1 env2 : Env) (a b n1 n2 p : Nat) (act1 act2 : List (String × Nat)) : Prop :=
  ∀ c1 c2, GoodR c1 → GoodR c2 → PFs p (h256 env1 n1 c1 act1) (h256 env2 n2 c2 act2) (SemAt env1 env2 a b c1 c2)

theorem childB_list (ihc : ChildB env1 env2 a b n1 n2 p act1 act2) {ts1 ts2 : List RT} (hl : ts1.length = ts2.length)
    (hg1 : ∀ t ∈ ts1, GoodR t) (hg2 : ∀ t ∈ ts2, GoodR t) :
    PFs p (seqT (fun t q => h256 env1 n1 t act1 q) ts1) (seqT (fun t q => h256 env2 n2 t act2 q) ts2)
      (Pairwise2 (SemAt env1 env2 a b) ts1 ts2) :=
  PFs_seqT ts1 ts2 hl (fun x hx y hy => ihc x y (hg1 x hx) (hg2 y hy))

theorem childB_rest (ihc : ChildB env1 env2 a b n1 n2 p act1 act2) {r1 r2 : Option RT}
    (hg1 : ∀ r, r1 = some r → GoodR r) (hg2 : ∀ r, r2 = some r → GoodR r) :
    PFs p (restEnc env1 n1 act1 r1) (restEnc env2 n2 act2 r2) (RestAt env1 env2 a b r1 r2) := by
  cases r1 with
  | none => cases r2 with
    | none => exact PFs_of_PF (PF_mono (PF_const rfl) (fun _ => trivial))
    | some y =>
      exact PFs_of_PF (PF_head_ne (a := .tag "noRest") (b := .tag "rest")
        (fun _ ts h => by simp only [restEnc] at h; injection h with h; exact ⟨[], h.symm⟩)
        (fun _ ts h => pre_head h) (by decide))
  | some x => cases r2 with
    | none =>
      exact PFs_of_PF (PF_head_ne (a := .tag "rest") (b := .tag "noRest")
        (fun _ ts h => pre_head h)
        (fun _ ts h => by simp only [restEnc] at h; injection h with h; exact ⟨[], h.symm⟩) (by decide))
    | some y =>
      exact PFs_mono (PFs_pre' rfl (fun _ => ihc x y (hg1 x rfl) (hg2 y rfl))) (fun h => h.2)


theorem good_sorted {l : List (String × RT)} (h : ∀ q ∈ l, GoodR q.2) : ∀ q ∈ sortedProps l, GoodR q.2 :=
  fun q hq => h q ((sortedProps_perm l).mem_iff.1 hq)

/-- two structural nodes at the same offset with the same continuation of the stream: they agree at fuels a+1, b+1 as
soon as their children do at a, b -/
theorem stepB_struct (hre : SourceDeterminesMatch) (ihc : ChildB env1 env2 a b n1 n2 p act1 act2)
    (rt1 rt2 : RT) (hg1 : GoodR rt1) (hg2 : GoodR rt2) (hs1 : structural rt1 = true) (hs2 : structural rt2 = true)
    {ts1 ts2 r1 r2 : List Tok} (h1 : h256 env1 (n1+1) rt1 act1 p = some ts1) (h2 : h256 env2 (n2+1) rt2 act2 p = some ts2)
    (he : ts1 ++ r1 = ts2 ++ r2) : SemAt env1 env2 (a+1) (b+1) rt1 rt2 := by
  by_cases htag : tagOf rt1 = tagOf rt2
  · by_cases hleaf : isLeaf rt1 = true
    · -- leaves: the closed theorem applies
      have hleaf2 := isLeaf_of_tag_eq rt1 rt2 hs2 htag hleaf
      exact semAt_of_semEq
        (h256_injective_closed hre env1 env2 (n1+1) (n2+1) rt1 rt2 act1 act2 (good_of_leaf hg1 hleaf) (good_of_leaf hg2 hleaf2)
          p p ts1 ts2 r1 r2 h1 h2 he).2.2 _ _
    · cases hg1 with
      | array t1 hgt1 =>
        cases hg2 with
        | array t2 hgt2 =>
          have e1 : h256 env1 (n1+1) (.array t1) act1 = pre [.tag "array"] (h256 env1 n1 t1 act1) := by funext q; simp only [h256]
          have e2 : h256 env2 (n2+1) (.array t2) act2 = pre [.tag "array"] (h256 env2 n2 t2 act2) := by funext q; simp only [h256]
          rw [e1] at h1; rw [e2] at h2
          exact at_array (pre_at rfl (fun _ => ihc t1 t2 hgt1 hgt2) h1 h2 he).2.2.2
        | _ => simp [tagOf] at htag
      | set t1 hgt1 =>
        cases hg2 with
        | set t2 hgt2 =>
          have e1 : h256 env1 (n1+1) (.set t1) act1 = pre [.tag "set"] (h256 env1 n1 t1 act1) := by funext q; simp only [h256]
          have e2 : h256 env2 (n2+1) (.set t2) act2 = pre [.tag "set"] (h256 env2 n2 t2 act2) := by funext q; simp only [h256]
          rw [e1] at h1; rw [e2] at h2
          exact at_set (pre_at rfl (fun _ => ihc t1 t2 hgt1 hgt2) h1 h2 he).2.2.2
        | _ => simp [tagOf] at htag
      | optional t1 hgt1 =>
        cases hg2 with
        | optional t2 hgt2 =>
          have e1 : h256 env1 (n1+1) (.optional t1) act1 = pre [.tag "optionalField"] (h256 env1 n1 t1 act1) := by
            funext q; simp only [h256]
          have e2 : h256 env2 (n2+1) (.optional t2) act2 = pre [.tag "optionalField"] (h256 env2 n2 t2 act2) := by
            funext q; simp only [h256]
          rw [e1] at h1; rw [e2] at h2
          exact at_optional (pre_at rfl (fun _ => ihc t1 t2 hgt1 hgt2) h1 h2 he).2.2.2
        | _ => simp [tagOf] at htag
      | map k1 v1 hk1 hv1 =>
        cases hg2 with
        | map k2 v2 hk2 hv2 =>
          have e1 : h256 env1 (n1+1) (.map k1 v1) act1 = pre [.tag "map"] (andThen (h256 env1 n1 k1 act1) (h256 env1 n1 v1 act1)) := by
            funext q; simp only [h256]
          have e2 : h256 env2 (n2+1) (.map k2 v2) act2 = pre [.tag "map"] (andThen (h256 env2 n2 k2 act2) (h256 env2 n2 v2 act2)) := by
            funext q; simp only [h256]
          rw [e1] at h1; rw [e2] at h2
          have := (pre_at rfl (fun _ => PFs_andThen' (ihc k1 k2 hk1 hk2) (fun _ => ihc v1 v2 hv1 hv2)) h1 h2 he).2.2.2
          exact at_map this.1 this.2
        | _ => simp [tagOf] at htag
      | allOf ts1' hgs1 =>
        cases hg2 with
        | allOf ts2' hgs2 =>
          have e1 : h256 env1 (n1+1) (.allOf ts1') act1 =
              pre [.tag "allOf", natTok ts1'.length] (seqT (fun t q => h256 env1 n1 t act1 q) ts1') := by funext q; simp only [h256]
          have e2 : h256 env2 (n2+1) (.allOf ts2') act2 =
              pre [.tag "allOf", natTok ts2'.length] (seqT (fun t q => h256 env2 n2 t act2 q) ts2') := by funext q; simp only [h256]
          rw [e1] at h1; rw [e2] at h2
          have inner : [Tok.tag "allOf", natTok ts1'.length] = [Tok.tag "allOf", natTok ts2'.length] →
              PFs p (seqT (fun t q => h256 env1 n1 t act1 q) ts1') (seqT (fun t q => h256 env2 n2 t act2 q) ts2')
                (Pairwise2 (SemAt env1 env2 a b) ts1' ts2') :=
            fun hl => childB_list (ts1 := ts1') (ts2 := ts2') ihc (natTok_inj (two_tok_inj hl)) hgs1 hgs2
          exact at_allOf (pre_at (by rfl) inner h1 h2 he).2.2.2
        | _ => simp [tagOf] at htag
      | anyOf ts1' hgs1 =>
        cases hg2 with
        | anyOf ts2' hgs2 =>
          have e1 : h256 env1 (n1+1) (.anyOf ts1') act1 =
              pre [.tag "anyOf", natTok ts1'.length] (seqT (fun t q => h256 env1 n1 t act1 q) ts1') := by funext q; simp only [h256]
          have e2 : h256 env2 (n2+1) (.anyOf ts2') act2 =
              pre [.tag "anyOf", natTok ts2'.length] (seqT (fun t q => h256 env2 n2 t act2 q) ts2') := by funext q; simp only [h256]
          rw [e1] at h1; rw [e2] at h2
          have inner : [Tok.tag "anyOf", natTok ts1'.length] = [Tok.tag "anyOf", natTok ts2'.length] →
              PFs p (seqT (fun t q => h256 env1 n1 t act1 q) ts1') (seqT (fun t q => h256 env2 n2 t act2 q) ts2')
                (Pairwise2 (SemAt env1 env2 a b) ts1' ts2') :=
            fun hl => childB_list (ts1 := ts1') (ts2 := ts2') ihc (natTok_inj (two_tok_inj hl)) hgs1 hgs2
          exact at_anyOf (pre_at (by rfl) inner h1 h2 he).2.2.2
        | _ => simp [tagOf] at htag
      | tuple ps1 rr1 hp1 hr1 =>
        cases hg2 with
        | tuple ps2 rr2 hp2 hr2 =>
          have e1 : h256 env1 (n1+1) (.tuple ps1 rr1) act1 =
              pre [.tag "tuple", natTok ps1.length] (andThen (seqT (fun t q => h256 env1 n1 t act1 q) ps1) (restEnc env1 n1 act1 rr1)) := by
            funext q; cases rr1 <;> simp only [h256, restEnc]
          have e2 : h256 env2 (n2+1) (.tuple ps2 rr2) act2 =
              pre [.tag "tuple", natTok ps2.length] (andThen (seqT (fun t q => h256 env2 n2 t act2 q) ps2) (restEnc env2 n2 act2 rr2)) := by
            funext q; cases rr2 <;> simp only [h256, restEnc]
          rw [e1] at h1; rw [e2] at h2
          have inner : [Tok.tag "tuple", natTok ps1.length] = [Tok.tag "tuple", natTok ps2.length] →
              PFs p (andThen (seqT (fun t q => h256 env1 n1 t act1 q) ps1) (restEnc env1 n1 act1 rr1))
                (andThen (seqT (fun t q => h256 env2 n2 t act2 q) ps2) (restEnc env2 n2 act2 rr2))
                (Pairwise2 (SemAt env1 env2 a b) ps1 ps2 ∧ RestAt env1 env2 a b rr1 rr2) :=
            fun hl => PFs_andThen' (childB_list (ts1 := ps1) (ts2 := ps2) ihc (natTok_inj (two_tok_inj hl)) hp1 hp2)
              (fun _ => childB_rest ihc hr1 hr2)
          have := (pre_at (by rfl) inner h1 h2 he).2.2.2
          exact at_tuple this.1 this.2
        | _ => simp [tagOf] at htag
      | disc ss1 key1 mp1 sm1 hn1 hm1 hss1 =>
        cases hg2 with
        | disc ss2 key2 mp2 sm2 hn2 hm2 hss2 =>
          have e1 : h256 env1 (n1+1) (.disc ss1 key1 mp1 sm1) act1 =
              pre [.tag "anyOfDiscriminated", .str key1, natTok ss1.length]
                (andThen (seqT (fun t q => h256 env1 n1 t act1 q) ss1)
                  (pre [natTok mp1.length] (seqT (caseEnc env1 n1 act1) (sortedProps mp1)))) := by
            funext q; simp only [h256]; rfl
          have e2 : h256 env2 (n2+1) (.disc ss2 key2 mp2 sm2) act2 =
              pre [.tag "anyOfDiscriminated", .str key2, natTok ss2.length]
                (andThen (seqT (fun t q => h256 env2 n2 t act2 q) ss2)
                  (pre [natTok mp2.length] (seqT (caseEnc env2 n2 act2) (sortedProps mp2)))) := by
            funext q; simp only [h256]; rfl
          rw [e1] at h1; rw [e2] at h2
          have hcase : ∀ x ∈ sortedProps mp1, ∀ y ∈ sortedProps mp2,
              PFs p (caseEnc env1 n1 act1 x) (caseEnc env2 n2 act2 y) (x.1 = y.1 ∧ SemAt env1 env2 a b x.2 y.2) := by
            intro x hx y hy
            unfold caseEnc
            refine PFs_mono (PFs_pre' (l1 := [.str x.1]) (l2 := [.str y.1]) rfl
              (fun _ => ihc x.2 y.2 (good_sorted hm1 x hx) (good_sorted hm2 y hy))) ?_
            intro h
            refine ⟨?_, h.2⟩
            have := h.1
            injection this with h1' _
            injection h1'
          have inner : [Tok.tag "anyOfDiscriminated", .str key1, natTok ss1.length] = [Tok.tag "anyOfDiscriminated", .str key2, natTok ss2.length] →
              PFs p (andThen (seqT (fun t q => h256 env1 n1 t act1 q) ss1) (pre [natTok mp1.length] (seqT (caseEnc env1 n1 act1) (sortedProps mp1))))
                (andThen (seqT (fun t q => h256 env2 n2 t act2 q) ss2) (pre [natTok mp2.length] (seqT (caseEnc env2 n2 act2) (sortedProps mp2))))
                (Pairwise2 (SemAt env1 env2 a b) ss1 ss2 ∧ ([natTok mp1.length] = [natTok mp2.length] ∧
                  Pairwise2 (fun (x y : String × RT) => x.1 = y.1 ∧ SemAt env1 env2 a b x.2 y.2) (sortedProps mp1) (sortedProps mp2))) := by
            intro hl
            have hlen : ss1.length = ss2.length := natTok_inj (by injection hl with _ h; injection h with _ h; injection h)
            exact PFs_andThen' (childB_list (ts1 := ss1) (ts2 := ss2) ihc hlen hss1 hss2)
              (fun _ => PFs_pre' rfl (fun hl2 => PFs_seqT (sortedProps mp1) (sortedProps mp2)
                (by rw [sortedProps_length, sortedProps_length]; exact natTok_inj (by injection hl2)) hcase))
          have hres := pre_at (by rfl) inner h1 h2 he
          have hkey : key1 = key2 := by
            have := hres.2.2.1
            injection this with _ h'; injection h' with h'' _; injection h''
          subst hkey
          exact at_disc hn1 hn2 hres.2.2.2.2.2
        | _ => simp [tagOf] at htag
      | object props1 ix1 hn1 hp1 hk1 hv1 =>
        cases hg2 with
        | object props2 ix2 hn2 hp2 hk2 hv2 =>
          have e1 : h256 env1 (n1+1) (.object props1 ix1) act1 =
              pre [.tag "object", natTok props1.length]
                (andThen (seqT (propEnc env1 n1 act1) (sortedProps props1)) (pre [natTok ix1.length] (seqT (ixEnc env1 n1 act1) ix1))) := by
            funext q; simp only [h256]; rfl
          have e2 : h256 env2 (n2+1) (.object props2 ix2) act2 =
              pre [.tag "object", natTok props2.length]
                (andThen (seqT (propEnc env2 n2 act2) (sortedProps props2)) (pre [natTok ix2.length] (seqT (ixEnc env2 n2 act2) ix2))) := by
            funext q; simp only [h256]; rfl
          rw [e1] at h1; rw [e2] at h2
          have hprop : ∀ x ∈ sortedProps props1, ∀ y ∈ sortedProps props2,
              PFs p (propEnc env1 n1 act1 x) (propEnc env2 n2 act2 y) (x.1 = y.1 ∧ SemAt env1 env2 a b x.2 y.2) := by
            intro x hx y hy
            unfold propEnc
            refine PFs_mono (PFs_pre' (l1 := [.str x.1, .bool (isOptionalField x.2)]) (l2 := [.str y.1, .bool (isOptionalField y.2)]) rfl
              (fun _ => ihc x.2 y.2 (good_sorted hp1 x hx) (good_sorted hp2 y hy))) ?_
            intro h
            refine ⟨?_, h.2⟩
            have := h.1
            injection this with h1' _
            injection h1'
          have hix : ∀ x ∈ ix1, ∀ y ∈ ix2,
              PFs p (ixEnc env1 n1 act1 x) (ixEnc env2 n2 act2 y) (SemAt env1 env2 a b x.1 y.1 ∧ SemAt env1 env2 a b x.2 y.2) := by
            intro x hx y hy
            unfold ixEnc
            exact PFs_andThen' (ihc x.1 y.1 (hk1 x hx) (hk2 y hy)) (fun _ => ihc x.2 y.2 (hv1 x hx) (hv2 y hy))
          have inner : [Tok.tag "object", natTok props1.length] = [Tok.tag "object", natTok props2.length] →
              PFs p (andThen (seqT (propEnc env1 n1 act1) (sortedProps props1)) (pre [natTok ix1.length] (seqT (ixEnc env1 n1 act1) ix1)))
                (andThen (seqT (propEnc env2 n2 act2) (sortedProps props2)) (pre [natTok ix2.length] (seqT (ixEnc env2 n2 act2) ix2)))
                (Pairwise2 (fun (x y : String × RT) => x.1 = y.1 ∧ SemAt env1 env2 a b x.2 y.2) (sortedProps props1) (sortedProps props2) ∧
                  ([natTok ix1.length] = [natTok ix2.length] ∧
                    Pairwise2 (fun (x y : RT × RT) => SemAt env1 env2 a b x.1 y.1 ∧ SemAt env1 env2 a b x.2 y.2) ix1 ix2)) := by
            intro hl
            exact PFs_andThen'
              (PFs_seqT (sortedProps props1) (sortedProps props2)
                (by rw [sortedProps_length, sortedProps_length]; exact natTok_inj (two_tok_inj hl)) hprop)
              (fun _ => PFs_pre' rfl (fun hl2 => PFs_seqT ix1 ix2 (natTok_inj (by injection hl2)) hix))
          have hres := pre_at (by rfl) inner h1 h2 he
          exact at_object hres.2.2.2.1 hres.2.2.2.2.2
        | _ => simp [tagOf] at htag
      | _ => first | (simp [isLeaf] at hleaf; done) | (simp [structural] at hs1)
  · exact (pf_of_tag_ne (P := False) hs1 hs2 htag p p ts1 ts2 r1 r2 h1 h2 he).2.2.elim

end stepB


/-! ### transparent wrappers -/

def descDepth : RT → Nat
  | .described _ t => descDepth t + 1
  | _ => 0

theorem h256_of_strip {env : Env} {act : List (String × Nat)} {p : Nat} {ts : List Tok} (t : RT) (k : Nat)
    (h : h256 env k (stripDescribed t) act p = some ts) : ∃ k', h256 env k' t act p = some ts := by
  have key : ∀ (d : Nat) (t : RT), descDepth t = d → h256 env k (stripDescribed t) act p = some ts →
      ∃ k', h256 env k' t act p = some ts := by
    intro d
    induction d with
    | zero =>
      intro t hd h
      cases t with
      | described d' t' => simp [descDepth] at hd
      | _ => exact ⟨k, by simpa [stripDescribed] using h⟩
    | succ d ih =>
      intro t hd h
      cases t with
      | described d' t' =>
        simp only [descDepth, Nat.add_right_cancel_iff] at hd
        simp only [stripDescribed] at h
        obtain ⟨k', hk'⟩ := ih t' hd h
        exact ⟨k' + 1, by simp only [h256]; exact hk'⟩
      | _ => simp [descDepth] at hd
  exact key _ t rfl h

theorem h256_to_strip {env : Env} {act : List (String × Nat)} {p : Nat} {ts : List Tok} (t : RT) (k : Nat)
    (h : h256 env k t act p = some ts) : ∃ k', h256 env k' (stripDescribed t) act p = some ts := by
  have key : ∀ (d : Nat) (t : RT) (k : Nat), descDepth t = d → h256 env k t act p = some ts →
      ∃ k', h256 env k' (stripDescribed t) act p = some ts := by
    intro d
    induction d with
    | zero =>
      intro t k hd h
      cases t with
      | described d' t' => simp [descDepth] at hd
      | _ => exact ⟨k, by simpa [stripDescribed] using h⟩
    | succ d ih =>
      intro t k hd h
      cases t with
      | described d' t' =>
        simp only [descDepth, Nat.add_right_cancel_iff] at hd
        cases k with
        | zero => simp [h256] at h
        | succ k =>
          simp only [h256] at h
          obtain ⟨k', hk'⟩ := ih t' k hd h
          exact ⟨k', by simpa [stripDescribed] using hk'⟩
      | _ => simp [descDepth] at hd
  exact key _ t k rfl h

section refsem
variable {env1 env2 : Env}

theorem at_ref_l {name : String} {to rt2 : RT} {m1 m2 : Nat} (hl : env1.lookup name = some to)
    (h : SemAt env1 env2 m1 m2 to rt2) : SemAt env1 env2 (m1+1) m2 (.ref name) rt2 := by
  intro strict x
  simp only [validate, hl]
  exact h strict x

theorem at_ref_r {name : String} {rt1 to : RT} {m1 m2 : Nat} (hl : env2.lookup name = some to)
    (h : SemAt env1 env2 m1 m2 rt1 to) : SemAt env1 env2 m1 (m2+1) rt1 (.ref name) := by
  intro strict x
  rw [validate.eq_def env2]
  simp only [hl]
  exact h strict x

end refsem


/-! ### the types under expansion -/

/-- offsets strictly decrease from the head (the most recent binder) -/
def Sorted (act : List (String × Nat)) : Prop := act.Pairwise (fun e e' => e'.2 < e.2)

/-- what holds of the set of types under expansion when the node `rt` is about to be written at offset `p` -/
structure Inv (env : Env) (p : Nat) (act : List (String × Nat)) (rt : RT) : Prop where
  sorted : Sorted act
  le : ∀ e ∈ act, e.2 ≤ p
  atp : ∀ x, (x, p) ∈ act → (∀ nm, stripDescribed rt ≠ .ref nm) ∧
    ∃ to, env.lookup x = some to ∧ stripDescribed to = stripDescribed rt

theorem inv_described {env : Env} {p : Nat} {act : List (String × Nat)} {d : String} {t : RT}
    (h : Inv env p act (.described d t)) : Inv env p act t :=
  ⟨h.sorted, h.le, fun x hx => by simpa [stripDescribed] using h.atp x hx⟩

theorem inv_ref_lt {env : Env} {p : Nat} {act : List (String × Nat)} {name : String}
    (h : Inv env p act (.ref name)) : ∀ e ∈ act, e.2 < p := by
  intro e he
  rcases Nat.lt_or_ge e.2 p with hlt | hge
  · exact hlt
  · have heq : e.2 = p := Nat.le_antisymm (h.le e he) hge
    have hmem : (e.1, p) ∈ act := by rw [← heq]; exact he
    exact absurd rfl ((h.atp e.1 hmem).1 name)

theorem inv_of_lt {env : Env} {p : Nat} {act : List (String × Nat)} {rt : RT} (hs : Sorted act)
    (hlt : ∀ e ∈ act, e.2 < p) : Inv env p act rt :=
  ⟨hs, fun e he => Nat.le_of_lt (hlt e he), fun x hx => absurd (hlt _ hx) (Nat.lt_irrefl _)⟩

theorem inv_child {env : Env} {p q : Nat} {act : List (String × Nat)} {rt c : RT} (h : Inv env p act rt) (hq : p < q) :
    Inv env q act c :=
  inv_of_lt h.sorted (fun e he => Nat.lt_of_le_of_lt (h.le e he) hq)

theorem inv_expand {env : Env} {p : Nat} {act : List (String × Nat)} {name : String} {to : RT}
    (h : Inv env p act (.ref name)) (hl : env.lookup name = some to) (hs : ∀ nm, stripDescribed to ≠ .ref nm) :
    Inv env p ((name, p) :: act) to := by
  have hlt := inv_ref_lt h
  refine ⟨?_, ?_, ?_⟩
  · exact List.pairwise_cons.2 ⟨fun e he => hlt e he, h.sorted⟩
  · intro e he
    rcases List.mem_cons.1 he with rfl | he
    · exact Nat.le_refl _
    · exact Nat.le_of_lt (hlt e he)
  · intro x hx
    rcases List.mem_cons.1 hx with e | hx
    · injection e with e1 _
      subst e1
      exact ⟨hs, to, hl, rfl⟩
    · exact absurd (hlt _ hx) (Nat.lt_irrefl _)

/-- the entry at the current offset, if any, is the head -/
theorem inv_head {env : Env} {p : Nat} {act : List (String × Nat)} {rt : RT} (h : Inv env p act rt) {x : String}
    (hx : (x, p) ∈ act) : ∃ tl, act = (x, p) :: tl ∧ ∀ e ∈ tl, e.2 < p := by
  cases act with
  | nil => cases hx
  | cons e tl =>
    have hs := List.pairwise_cons.1 h.sorted
    rcases List.mem_cons.1 hx with rfl | hx'
    · exact ⟨tl, rfl, fun e' he' => hs.1 e' he'⟩
    · -- an entry of the tail with offset p would be below the head, which is at most p
      have h1 := hs.1 _ hx'
      have h2 := h.le e (by simp)
      exact absurd (Nat.lt_of_lt_of_le h1 h2) (Nat.lt_irrefl _)

/-- `s` is the suffix of `act` that starts with the entry `e` -/
def SuffixAt (act : List (String × Nat)) (e : String × Nat) (s : List (String × Nat)) : Prop :=
  ∃ front tl, act = front ++ s ∧ s = e :: tl

theorem suffix_of_mem {act : List (String × Nat)} {e : String × Nat} (h : e ∈ act) : ∃ s, SuffixAt act e s := by
  obtain ⟨front, tl, rfl⟩ := List.append_of_mem h
  exact ⟨e :: tl, front, tl, rfl, rfl⟩

theorem suffix_cons {hd e : String × Nat} {act s : List (String × Nat)} (h : SuffixAt (hd :: act) e s) :
    (s = hd :: act ∧ e = hd) ∨ SuffixAt act e s := by
  obtain ⟨front, tl, h1, h2⟩ := h
  cases front with
  | nil =>
    left
    simp only [List.nil_append] at h1
    subst h2
    rw [← h1]
    injection h1 with h3 _
    exact ⟨rfl, h3.symm⟩
  | cons f front =>
    right
    simp only [List.cons_append] at h1
    injection h1 with _ h4
    exact ⟨front, tl, h4, h2⟩

theorem suffix_suffix {act s s' : List (String × Nat)} {e e' : String × Nat} (h : SuffixAt act e s) (h' : SuffixAt s e' s') :
    SuffixAt act e' s' := by
  obtain ⟨f1, t1, h1, _⟩ := h
  obtain ⟨f2, t2, h3, h4⟩ := h'
  exact ⟨f1 ++ f2, t2, by rw [h1, h3, List.append_assoc], h4⟩

theorem suffix_sorted {act s : List (String × Nat)} {e : String × Nat} (hs : Sorted act) (h : SuffixAt act e s) :
    Sorted s ∧ (∀ e' ∈ s.tail, e'.2 < e.2) := by
  obtain ⟨front, tl, h1, h2⟩ := h
  subst h2
  have : Sorted (e :: tl) := by
    rw [h1] at hs
    exact (List.pairwise_append.1 hs).2.1
  exact ⟨this, fun e' he' => (List.pairwise_cons.1 this).1 e' he'⟩


theorem suffix_mem {act s : List (String × Nat)} {e : String × Nat} (h : SuffixAt act e s) : e ∈ act := by
  obtain ⟨front, tl, h1, h2⟩ := h
  rw [h1, h2]; simp

theorem suffix_self (e : String × Nat) (tl : List (String × Nat)) : SuffixAt (e :: tl) e (e :: tl) := ⟨[], tl, rfl, rfl⟩

/-- binders of the two sides that start at the same offset have bodies that write the same stream there -/
def ActSyn (env1 env2 : Env) (act1 act2 : List (String × Nat)) : Prop :=
  ∀ x1 x2 id s1 s2, SuffixAt act1 (x1, id) s1 → SuffixAt act2 (x2, id) s2 →
    ∃ to1 to2 k1 k2 ts, env1.lookup x1 = some to1 ∧ env2.lookup x2 = some to2 ∧
      (∀ nm, stripDescribed to1 ≠ .ref nm) ∧ (∀ nm, stripDescribed to2 ≠ .ref nm) ∧
      h256 env1 k1 to1 s1 id = some ts ∧ h256 env2 k2 to2 s2 id = some ts

theorem actsyn_nil (env1 env2 : Env) : ActSyn env1 env2 [] [] := by
  intro x1 x2 id s1 s2 h1 _
  exact absurd (suffix_mem h1) (by simp)

theorem actsyn_suffix {env1 env2 : Env} {act1 act2 s1 s2 : List (String × Nat)} {e1 e2 : String × Nat}
    (h : ActSyn env1 env2 act1 act2) (h1 : SuffixAt act1 e1 s1) (h2 : SuffixAt act2 e2 s2) : ActSyn env1 env2 s1 s2 :=
  fun x1 x2 id t1 t2 ht1 ht2 => h x1 x2 id t1 t2 (suffix_suffix h1 ht1) (suffix_suffix h2 ht2)

/-- a binder pushed on the left at an offset no binder of the right has -/
theorem actsyn_cons_l {env1 env2 : Env} {act1 act2 : List (String × Nat)} {x : String} {p : Nat}
    (h : ActSyn env1 env2 act1 act2) (hne : ∀ e ∈ act2, e.2 ≠ p) : ActSyn env1 env2 ((x, p) :: act1) act2 := by
  intro x1 x2 id s1 s2 h1 h2
  rcases suffix_cons h1 with ⟨_, he⟩ | h1'
  · injection he with _ hid
    exact absurd hid (hne _ (suffix_mem h2))
  · exact h x1 x2 id s1 s2 h1' h2

theorem actsyn_cons_r {env1 env2 : Env} {act1 act2 : List (String × Nat)} {x : String} {p : Nat}
    (h : ActSyn env1 env2 act1 act2) (hne : ∀ e ∈ act1, e.2 ≠ p) : ActSyn env1 env2 act1 ((x, p) :: act2) := by
  intro x1 x2 id s1 s2 h1 h2
  rcases suffix_cons h2 with ⟨_, he⟩ | h2'
  · injection he with _ hid
    exact absurd hid (hne _ (suffix_mem h1))
  · exact h x1 x2 id s1 s2 h1 h2'

/-- binders pushed on both sides at the same offset, whose bodies write the same stream -/
theorem actsyn_cons_both {env1 env2 : Env} {act1 act2 : List (String × Nat)} {x1 x2 : String} {p : Nat} {to1 to2 : RT}
    {k1 k2 : Nat} {ts : List Tok} (h : ActSyn env1 env2 act1 act2) (hlt1 : ∀ e ∈ act1, e.2 < p) (hlt2 : ∀ e ∈ act2, e.2 < p)
    (hl1 : env1.lookup x1 = some to1) (hl2 : env2.lookup x2 = some to2)
    (hs1 : ∀ nm, stripDescribed to1 ≠ .ref nm) (hs2 : ∀ nm, stripDescribed to2 ≠ .ref nm)
    (hb1 : h256 env1 k1 to1 ((x1, p) :: act1) p = some ts) (hb2 : h256 env2 k2 to2 ((x2, p) :: act2) p = some ts) :
    ActSyn env1 env2 ((x1, p) :: act1) ((x2, p) :: act2) := by
  intro y1 y2 id s1 s2 h1 h2
  rcases suffix_cons h1 with ⟨e1, he1⟩ | h1'
  · rcases suffix_cons h2 with ⟨e2, he2⟩ | h2'
    · injection he1 with hy1 hid1
      injection he2 with hy2 _
      subst e1; subst e2; subst hy1; subst hy2; subst hid1
      exact ⟨to1, to2, k1, k2, ts, hl1, hl2, hs1, hs2, hb1, hb2⟩
    · injection he1 with _ hid
      have := hlt2 _ (suffix_mem h2')
      simp only at this
      omega
  · rcases suffix_cons h2 with ⟨e2, he2⟩ | h2'
    · injection he2 with _ hid
      have := hlt1 _ (suffix_mem h1')
      simp only at this
      omega
    · exact h y1 y2 id s1 s2 h1' h2'

/-- a binder pushed on the left at the offset of the HEAD binder of the right, whose bodies write the same stream -/
theorem actsyn_cons_l_head {env1 env2 : Env} {act1 tl2 : List (String × Nat)} {x1 x2 : String} {p : Nat} {to1 to2 : RT}
    {k1 k2 : Nat} {ts : List Tok} (h : ActSyn env1 env2 act1 ((x2, p) :: tl2)) (hlt1 : ∀ e ∈ act1, e.2 < p) (hlt2 : ∀ e ∈ tl2, e.2 < p)
    (hl1 : env1.lookup x1 = some to1) (hl2 : env2.lookup x2 = some to2)
    (hs1 : ∀ nm, stripDescribed to1 ≠ .ref nm) (hs2 : ∀ nm, stripDescribed to2 ≠ .ref nm)
    (hb1 : h256 env1 k1 to1 ((x1, p) :: act1) p = some ts) (hb2 : h256 env2 k2 to2 ((x2, p) :: tl2) p = some ts) :
    ActSyn env1 env2 ((x1, p) :: act1) ((x2, p) :: tl2) := by
  intro y1 y2 id s1 s2 h1 h2
  rcases suffix_cons h1 with ⟨e1, he1⟩ | h1'
  · rcases suffix_cons h2 with ⟨e2, he2⟩ | h2'
    · injection he1 with hy1 hid1
      injection he2 with hy2 _
      subst e1; subst e2; subst hy1; subst hy2; subst hid1
      exact ⟨to1, to2, k1, k2, ts, hl1, hl2, hs1, hs2, hb1, hb2⟩
    · injection he1 with _ hid
      have := hlt2 _ (suffix_mem h2')
      simp only at this
      omega
  · exact h y1 y2 id s1 s2 h1' h2

theorem actsyn_cons_r_head {env1 env2 : Env} {tl1 act2 : List (String × Nat)} {x1 x2 : String} {p : Nat} {to1 to2 : RT}
    {k1 k2 : Nat} {ts : List Tok} (h : ActSyn env1 env2 ((x1, p) :: tl1) act2) (hlt1 : ∀ e ∈ tl1, e.2 < p) (hlt2 : ∀ e ∈ act2, e.2 < p)
    (hl1 : env1.lookup x1 = some to1) (hl2 : env2.lookup x2 = some to2)
    (hs1 : ∀ nm, stripDescribed to1 ≠ .ref nm) (hs2 : ∀ nm, stripDescribed to2 ≠ .ref nm)
    (hb1 : h256 env1 k1 to1 ((x1, p) :: tl1) p = some ts) (hb2 : h256 env2 k2 to2 ((x2, p) :: act2) p = some ts) :
    ActSyn env1 env2 ((x1, p) :: tl1) ((x2, p) :: act2) := by
  intro y1 y2 id s1 s2 h1 h2
  rcases suffix_cons h2 with ⟨e2, he2⟩ | h2'
  · rcases suffix_cons h1 with ⟨e1, he1⟩ | h1'
    · injection he1 with hy1 hid1
      injection he2 with hy2 _
      subst e1; subst e2; subst hy1; subst hy2; subst hid1
      exact ⟨to1, to2, k1, k2, ts, hl1, hl2, hs1, hs2, hb1, hb2⟩
    · injection he2 with _ hid
      have := hlt1 _ (suffix_mem h1')
      simp only at this
      omega
  · exact h y1 y2 id s1 s2 h1 h2'

/-- what a node at fuel `k+1` is, with what the runtime needs to know about it -/
inductive Kind (env : Env) (k : Nat) (rt : RT) (act : List (String × Nat)) (p : Nat) (ts : List Tok) : Prop
  | descr (d : String) (t : RT) : rt = .described d t → GoodR t → h256 env k t act p = some ts → Kind env k rt act p ts
  | alias (name : String) (to : RT) : rt = .ref name → env.lookup name = some to → (∃ other, stripDescribed to = .ref other) →
      (∃ k', h256 env k' to act p = some ts) → Kind env k rt act p ts
  | expand (name : String) (to : RT) : rt = .ref name → env.lookup name = some to → (∀ nm, stripDescribed to ≠ .ref nm) →
      h256 env k to ((name, p) :: act) p = some ts → Kind env k rt act p ts
  | cycle (name : String) (to : RT) (id : Nat) : rt = .ref name → env.lookup name = some to →
      (∀ nm, stripDescribed to ≠ .ref nm) → (name, id) ∈ act → ts = [.tag "cycleRef", natTok id] → Kind env k rt act p ts
  | struct : structural rt = true → Kind env k rt act p ts

theorem classify {env : Env} {k : Nat} {rt : RT} {act : List (String × Nat)} {p : Nat} {ts : List Tok} (hg : GoodR rt)
    (h : h256 env (k+1) rt act p = some ts) : Kind env k rt act p ts := by
  cases hg with
  | described d t hgt => exact .descr d t rfl hgt (by simpa only [h256] using h)
  | ref name =>
    cases hl : env.lookup name with
    | none => simp only [h256, hl] at h; cases h
    | some to =>
      cases hs : stripDescribed to with
      | ref other =>
        have h' : h256 env k (.ref other) act p = some ts := by simpa only [h256, hl, hs] using h
        exact .alias name to rfl hl ⟨other, hs⟩ (h256_of_strip to k (by rw [hs]; exact h'))
      | _ =>
        all_goals
          have hnr : ∀ nm, stripDescribed to ≠ .ref nm := by intro nm; rw [hs]; intro e; cases e
          cases hf : act.find? (fun q => q.1 == name) with
          | some q =>
            have hq : q ∈ act := List.mem_of_find?_eq_some hf
            have hqn : q.1 = name := by simpa using List.find?_some hf
            refine .cycle name to q.2 rfl hl hnr (by rw [← hqn]; exact hq) ?_
            simp only [h256, hl, hs, hf] at h
            injection h with h
            exact h.symm
          | none => exact .expand name to rfl hl hnr (by simpa only [h256, hl, hs, hf] using h)
  | _ => exact .struct rfl


theorem inv_suffix {env : Env} {act s : List (String × Nat)} {x : String} {id : Nat} {to : RT} (hs : Sorted act)
    (h : SuffixAt act (x, id) s) (hl : env.lookup x = some to) (hnr : ∀ nm, stripDescribed to ≠ .ref nm) :
    Inv env id s to := by
  obtain ⟨hss, htl⟩ := suffix_sorted hs h
  obtain ⟨front, tl, _, h2⟩ := h
  subst h2
  simp only [List.tail_cons] at htl
  refine ⟨hss, ?_, ?_⟩
  · intro e he
    rcases List.mem_cons.1 he with rfl | he
    · exact Nat.le_refl _
    · exact Nat.le_of_lt (htl e he)
  · intro y hy
    rcases List.mem_cons.1 hy with e | hy
    · injection e with e1 _
      subst e1
      exact ⟨hnr, to, hl, rfl⟩
    · exact absurd (htl _ hy) (Nat.lt_irrefl _)

/-- the claim of Part B at total runtime fuel `s` -/
def ClaimB (env1 env2 : Env) (s : Nat) : Prop :=
  ∀ m1 m2, m1 + m2 = s → ∀ (n1 n2 : Nat) (rt1 rt2 : RT) (act1 act2 : List (String × Nat)) (p : Nat) (ts1 ts2 r1 r2 : List Tok),
    GoodR rt1 → GoodR rt2 → Inv env1 p act1 rt1 → Inv env2 p act2 rt2 → ActSyn env1 env2 act1 act2 →
    h256 env1 n1 rt1 act1 p = some ts1 → h256 env2 n2 rt2 act2 p = some ts2 → ts1 ++ r1 = ts2 ++ r2 →
    SemAt env1 env2 m1 m2 rt1 rt2

/-- the head binder of the other side, when it sits at the current offset, has a body that writes the current stream -/
theorem head_body {env : Env} {k p : Nat} {rt : RT} {act : List (String × Nat)} {ts : List Tok} (hI : Inv env p act rt)
    (h : h256 env k rt act p = some ts) (e : String × Nat) (he : e ∈ act) (heq : e.2 = p) :
    ∃ x tl to k', act = (x, p) :: tl ∧ (∀ e' ∈ tl, e'.2 < p) ∧ env.lookup x = some to ∧
      (∀ nm, stripDescribed to ≠ .ref nm) ∧ h256 env k' to ((x, p) :: tl) p = some ts := by
  have hmem : (e.1, p) ∈ act := by rw [← heq]; exact he
  obtain ⟨tl, hact, hlt⟩ := inv_head hI hmem
  obtain ⟨hnr, to, hl, hst⟩ := hI.atp e.1 hmem
  obtain ⟨k', hk'⟩ := h256_to_strip rt k h
  rw [← hst] at hk' hnr
  obtain ⟨k'', hk''⟩ := h256_of_strip to k' hk'
  exact ⟨e.1, tl, to, k'', hact, hlt, hl, hnr, by rw [← hact]; exact hk''⟩

theorem stepB (hre : SourceDeterminesMatch) {env1 env2 : Env} (hE1 : GoodEnv env1) (hE2 : GoodEnv env2) (s : Nat)
    (IH : ∀ s', s' < s → ClaimB env1 env2 s') : ClaimB env1 env2 s := by
  intro m1 m2 hs n1 n2 rt1 rt2 act1 act2 p ts1 ts2 r1 r2 hg1 hg2 hI1 hI2 hA h1 h2 he
  cases m1 with
  | zero => exact semAt_zero_l _
  | succ a =>
  cases m2 with
  | zero => exact semAt_zero_r _
  | succ b =>
  cases n1 with
  | zero => simp [h256] at h1
  | succ k1 =>
  cases n2 with
  | zero => simp [h256] at h2
  | succ k2 =>
  obtain ⟨hts, _, _⟩ := stream_self_delimiting env1 env2 (k1+1) (k2+1) rt1 rt2 act1 act2 p p ts1 ts2 r1 r2 h1 h2 he
  subst hts
  rcases classify hg1 h1 with ⟨d, t, rfl, hgt, ht⟩ | ⟨x1, to1, rfl, hl1, _, ⟨k', hk'⟩⟩ | ⟨x1, to1, rfl, hl1, hnr1, hx1⟩ |
      ⟨x1, to1, id1, rfl, hl1, hnr1, hmem1, hc1⟩ | hs1
  · exact at_described_l (IH (a + (b+1)) (by omega) a (b+1) rfl k1 (k2+1) t rt2 act1 act2 p ts1 ts1 r1 r2 hgt hg2
      (inv_described hI1) hI2 hA ht h2 he)
  · exact at_ref_l hl1 (IH (a + (b+1)) (by omega) a (b+1) rfl k' (k2+1) to1 rt2 act1 act2 p ts1 ts1 r1 r2 (hE1 _ _ hl1) hg2
      (inv_of_lt hI1.sorted (inv_ref_lt hI1)) hI2 hA hk' h2 he)
  · -- side 1 opens a binder
    rcases classify hg2 h2 with ⟨d, t, rfl, hgt, ht⟩ | ⟨x2, to2, rfl, hl2, _, ⟨k', hk'⟩⟩ | ⟨x2, to2, rfl, hl2, hnr2, hx2⟩ |
        ⟨x2, to2, id2, rfl, hl2, hnr2, hmem2, hc2⟩ | hs2
    · exact at_described_r (IH ((a+1) + b) (by omega) (a+1) b rfl (k1+1) k2 (.ref x1) t act1 act2 p ts1 ts1 r1 r2 hg1 hgt
        hI1 (inv_described hI2) hA h1 ht he)
    · exact at_ref_r hl2 (IH ((a+1) + b) (by omega) (a+1) b rfl (k1+1) k' (.ref x1) to2 act1 act2 p ts1 ts1 r1 r2 hg1
        (hE2 _ _ hl2) hI1 (inv_of_lt hI2.sorted (inv_ref_lt hI2)) hA h1 hk' he)
    · have hA' := actsyn_cons_both hA (inv_ref_lt hI1) (inv_ref_lt hI2) hl1 hl2 hnr1 hnr2 hx1 hx2
      exact at_ref_l hl1 (at_ref_r hl2 (IH (a + b) (by omega) a b rfl k1 k2 to1 to2 _ _ p ts1 ts1 r1 r2 (hE1 _ _ hl1)
        (hE2 _ _ hl2) (inv_expand hI1 hl1 hnr1) (inv_expand hI2 hl2 hnr2) hA' hx1 hx2 he))
    · have hA' : ActSyn env1 env2 ((x1, p) :: act1) act2 :=
        actsyn_cons_l hA (fun e he => Nat.ne_of_lt (inv_ref_lt hI2 e he))
      exact at_ref_l hl1 (IH (a + (b+1)) (by omega) a (b+1) rfl k1 (k2+1) to1 (.ref x2) _ act2 p ts1 ts1 r1 r2 (hE1 _ _ hl1)
        hg2 (inv_expand hI1 hl1 hnr1) hI2 hA' hx1 h2 he)
    · have hA' : ActSyn env1 env2 ((x1, p) :: act1) act2 := by
        by_cases hex : ∃ e, e ∈ act2 ∧ e.2 = p
        · obtain ⟨e, hemem, heq⟩ := hex
          obtain ⟨x2, tl2, to2, k', hact, hlt2, hl2, hnr2, hb2⟩ := head_body hI2 h2 e hemem heq
          subst hact
          exact actsyn_cons_l_head hA (inv_ref_lt hI1) hlt2 hl1 hl2 hnr1 hnr2 hx1 hb2
        · exact actsyn_cons_l hA (fun e hemem heq => hex ⟨e, hemem, heq⟩)
      exact at_ref_l hl1 (IH (a + (b+1)) (by omega) a (b+1) rfl k1 (k2+1) to1 rt2 _ act2 p ts1 ts1 r1 r2 (hE1 _ _ hl1)
        hg2 (inv_expand hI1 hl1 hnr1) hI2 hA' hx1 h2 he)
  · -- side 1 writes a back reference
    rcases classify hg2 h2 with ⟨d, t, rfl, hgt, ht⟩ | ⟨x2, to2, rfl, hl2, _, ⟨k', hk'⟩⟩ | ⟨x2, to2, rfl, hl2, hnr2, hx2⟩ |
        ⟨x2, to2, id2, rfl, hl2, hnr2, hmem2, hc2⟩ | hs2
    · exact at_described_r (IH ((a+1) + b) (by omega) (a+1) b rfl (k1+1) k2 (.ref x1) t act1 act2 p ts1 ts1 r1 r2 hg1 hgt
        hI1 (inv_described hI2) hA h1 ht he)
    · exact at_ref_r hl2 (IH ((a+1) + b) (by omega) (a+1) b rfl (k1+1) k' (.ref x1) to2 act1 act2 p ts1 ts1 r1 r2 hg1
        (hE2 _ _ hl2) hI1 (inv_of_lt hI2.sorted (inv_ref_lt hI2)) hA h1 hk' he)
    · have hA' : ActSyn env1 env2 act1 ((x2, p) :: act2) :=
        actsyn_cons_r hA (fun e he => Nat.ne_of_lt (inv_ref_lt hI1 e he))
      exact at_ref_r hl2 (IH ((a+1) + b) (by omega) (a+1) b rfl (k1+1) k2 (.ref x1) to2 act1 _ p ts1 ts1 r1 r2 hg1
        (hE2 _ _ hl2) hI1 (inv_expand hI2 hl2 hnr2) hA' h1 hx2 he)
    · -- both write a back reference: the offsets are equal, and the two binders' bodies wrote the same stream
      have hid : id1 = id2 := by
        rw [hc1] at hc2
        injection hc2 with _ h3
        injection h3 with h4 _
        exact natTok_inj h4
      subst hid
      obtain ⟨s1, hs1⟩ := suffix_of_mem hmem1
      obtain ⟨s2, hs2⟩ := suffix_of_mem hmem2
      obtain ⟨to1', to2', j1, j2, ts, hl1', hl2', _, _, hb1, hb2⟩ := hA x1 x2 id1 s1 s2 hs1 hs2
      have e1 : to1' = to1 := Option.some.inj (hl1'.symm.trans hl1)
      have e2 : to2' = to2 := Option.some.inj (hl2'.symm.trans hl2)
      subst e1; subst e2
      exact at_ref_l hl1 (at_ref_r hl2 (IH (a + b) (by omega) a b rfl j1 j2 to1' to2' s1 s2 id1 ts ts [] [] (hE1 _ _ hl1)
        (hE2 _ _ hl2) (inv_suffix hI1.sorted hs1 hl1 hnr1) (inv_suffix hI2.sorted hs2 hl2 hnr2) (actsyn_suffix hA hs1 hs2)
        hb1 hb2 rfl))
    · exfalso
      obtain ⟨tl, htl⟩ := h256_head hs2 h2
      rw [hc1] at htl
      injection htl with h3 _
      injection h3 with h4
      exact tagOf_ne_cycleRef rt2 hs2 h4.symm
  · -- side 1 is a structural node
    rcases classify hg2 h2 with ⟨d, t, rfl, hgt, ht⟩ | ⟨x2, to2, rfl, hl2, _, ⟨k', hk'⟩⟩ | ⟨x2, to2, rfl, hl2, hnr2, hx2⟩ |
        ⟨x2, to2, id2, rfl, hl2, hnr2, hmem2, hc2⟩ | hs2
    · exact at_described_r (IH ((a+1) + b) (by omega) (a+1) b rfl (k1+1) k2 rt1 t act1 act2 p ts1 ts1 r1 r2 hg1 hgt
        hI1 (inv_described hI2) hA h1 ht he)
    · exact at_ref_r hl2 (IH ((a+1) + b) (by omega) (a+1) b rfl (k1+1) k' rt1 to2 act1 act2 p ts1 ts1 r1 r2 hg1
        (hE2 _ _ hl2) hI1 (inv_of_lt hI2.sorted (inv_ref_lt hI2)) hA h1 hk' he)
    · have hA' : ActSyn env1 env2 act1 ((x2, p) :: act2) := by
        by_cases hex : ∃ e, e ∈ act1 ∧ e.2 = p
        · obtain ⟨e, hemem, heq⟩ := hex
          obtain ⟨y1, tl1, to1, k', hact, hlt1, hl1, hnr1, hb1⟩ := head_body hI1 h1 e hemem heq
          subst hact
          exact actsyn_cons_r_head hA hlt1 (inv_ref_lt hI2) hl1 hl2 hnr1 hnr2 hb1 hx2
        · exact actsyn_cons_r hA (fun e hemem heq => hex ⟨e, hemem, heq⟩)
      exact at_ref_r hl2 (IH ((a+1) + b) (by omega) (a+1) b rfl (k1+1) k2 rt1 to2 act1 _ p ts1 ts1 r1 r2 hg1
        (hE2 _ _ hl2) hI1 (inv_expand hI2 hl2 hnr2) hA' h1 hx2 he)
    · exfalso
      obtain ⟨tl, htl⟩ := h256_head hs1 h1
      rw [hc2] at htl
      injection htl with h3 _
      injection h3 with h4
      exact tagOf_ne_cycleRef rt1 hs1 h4.symm
    · have ihc : ChildB env1 env2 a b k1 k2 p act1 act2 := by
        intro c1 c2 gc1 gc2 q t1 t2 q1 q2 hq e1 e2 hee
        obtain ⟨x, y, _⟩ := stream_self_delimiting env1 env2 k1 k2 c1 c2 act1 act2 q q t1 t2 q1 q2 e1 e2 hee
        exact ⟨x, y, IH (a + b) (by omega) a b rfl k1 k2 c1 c2 act1 act2 q t1 t2 q1 q2 gc1 gc2
          (inv_child (rt := rt1) hI1 hq) (inv_child (rt := rt2) hI2 hq) hA e1 e2 hee⟩
      exact stepB_struct hre ihc rt1 rt2 hg1 hg2 hs1 hs2 h1 h2 he

theorem claimB_all (hre : SourceDeterminesMatch) {env1 env2 : Env} (hE1 : GoodEnv env1) (hE2 : GoodEnv env2) :
    ∀ s, ClaimB env1 env2 s := by
  intro s
  induction s using Nat.strongRecOn with
  | _ s ih => exact stepB hre hE1 hE2 s ih


/-! ## The property, for recursive types -/

/-- **C13 (recursive types, stream level)**: two validators — trees with named references into their own environments,
recursive or not — whose `hash256()` streams are equal never give different answers on any value. Names, alias
boundaries and description wrappers are free to differ; back references are compared by the offset of their binder. -/
theorem same_stream_same_behaviour_rec (hre : SourceDeterminesMatch) {env1 env2 : Env} (hE1 : GoodEnv env1) (hE2 : GoodEnv env2)
    {rt1 rt2 : RT} (hg1 : GoodR rt1) (hg2 : GoodR rt2) {ts : List Tok}
    (h1 : hash256Toks env1 rt1 = some ts) (h2 : hash256Toks env2 rt2 = some ts) : SemEq env1 env2 rt1 rt2 := by
  unfold hash256Toks at h1 h2
  cases ha : h256 env1 h256Fuel rt1 [] (bytesLen rootToks) with
  | none => rw [ha] at h1; cases h1
  | some a =>
    cases hb : h256 env2 h256Fuel rt2 [] (bytesLen rootToks) with
    | none => rw [hb] at h2; cases h2
    | some b =>
      rw [ha] at h1; rw [hb] at h2
      injection h1 with h1; injection h2 with h2
      have hab : a ++ [] = b ++ [] := by
        rw [← h2] at h1
        simpa using List.append_cancel_left h1
      intro strict m1 m2 x
      have hinv1 : Inv env1 (bytesLen rootToks) [] rt1 := inv_of_lt List.Pairwise.nil (fun e he => by cases he)
      have hinv2 : Inv env2 (bytesLen rootToks) [] rt2 := inv_of_lt List.Pairwise.nil (fun e he => by cases he)
      exact claimB_all hre hE1 hE2 (m1 + m2) m1 m2 rfl h256Fuel h256Fuel rt1 rt2 [] [] _ a b [] [] hg1 hg2 hinv1 hinv2
        (actsyn_nil env1 env2) ha hb hab strict x

/-- contrapositive: validators that disagree on some value have different streams -/
theorem different_behaviour_different_stream_rec (hre : SourceDeterminesMatch) {env1 env2 : Env} (hE1 : GoodEnv env1)
    (hE2 : GoodEnv env2) {rt1 rt2 : RT} (hg1 : GoodR rt1) (hg2 : GoodR rt2) {ts1 ts2 : List Tok}
    (h1 : hash256Toks env1 rt1 = some ts1) (h2 : hash256Toks env2 rt2 = some ts2)
    {strict : Bool} {m1 m2 : Nat} {x : JsVal} {b1 b2 : Bool}
    (hv1 : validate env1 strict m1 rt1 x = .ok b1) (hv2 : validate env2 strict m2 rt2 x = .ok b2) (hne : b1 ≠ b2) :
    ts1 ≠ ts2 := by
  intro e
  subst e
  exact hne (same_stream_same_behaviour_rec hre hE1 hE2 hg1 hg2 h1 h2 strict m1 m2 x b1 b2 hv1 hv2)

/-- … hence different byte streams handed to SHA-256: what is left is a collision of SHA-256 itself -/
theorem different_behaviour_different_bytes_rec (hre : SourceDeterminesMatch) {env1 env2 : Env} (hE1 : GoodEnv env1)
    (hE2 : GoodEnv env2) {rt1 rt2 : RT} (hg1 : GoodR rt1) (hg2 : GoodR rt2) {ts1 ts2 : List Tok}
    (h1 : hash256Toks env1 rt1 = some ts1) (h2 : hash256Toks env2 rt2 = some ts2)
    (v1 : ∀ t ∈ ts1, C13.Tok.Valid t) (v2 : ∀ t ∈ ts2, C13.Tok.Valid t)
    {strict : Bool} {m1 m2 : Nat} {x : JsVal} {b1 b2 : Bool}
    (hv1 : validate env1 strict m1 rt1 x = .ok b1) (hv2 : validate env2 strict m2 rt2 x = .ok b2) (hne : b1 ≠ b2) :
    encodeToks ts1 ≠ encodeToks ts2 :=
  fun e => different_behaviour_different_stream_rec hre hE1 hE2 hg1 hg2 h1 h2 hv1 hv2 hne (C13.tokens_injective ts1 ts2 v1 v2 e)

/-! ### non-vacuity -/

private def listBody (self : String) : RT :=
  .object [("v", .typeof "number"), ("next", .optional (.described "tail" (.ref self)))] []

private def envL : Env := [("L", listBody "L")]
private def envM : Env := [("Alias", .described "an alias" (.ref "M")), ("M", listBody "M")]

private theorem good_listBody (self : String) : GoodR (listBody self) := by
  refine .object _ _ (by simp) ?_ (by intro p hp; cases hp) (by intro p hp; cases hp)
  intro p hp
  simp only [List.mem_cons, List.mem_nil_iff, or_false] at hp
  rcases hp with rfl | rfl
  · exact .typeof _
  · exact .optional _ (.described _ _ (.ref _))

/-- an environment all of whose entries are good trees -/
theorem goodEnv_of_forall {env : Env} (h : ∀ q ∈ env, GoodR q.2) : GoodEnv env := by
  intro name t hl
  unfold Env.lookup at hl
  cases hf : env.find? (fun q => q.1 == name) with
  | none => rw [hf] at hl; cases hl
  | some q =>
    rw [hf] at hl
    injection hl with hl
    subst hl
    exact h q (List.mem_of_find?_eq_some hf)

private theorem goodEnvL : GoodEnv envL := by
  apply goodEnv_of_forall
  intro q hq
  simp only [envL, List.mem_cons, List.mem_nil_iff, or_false] at hq
  subst hq; exact good_listBody _

private theorem goodEnvM : GoodEnv envM := by
  apply goodEnv_of_forall
  intro q hq
  simp only [envM, List.mem_cons, List.mem_nil_iff, or_false] at hq
  rcases hq with rfl | rfl
  · exact .described _ _ (.ref _)
  · exact good_listBody _

/-- a recursive type under two names, once reached through an alias with a description: the hypotheses hold, the two
streams exist and are EQUAL (alpha-equivalence: the back reference is written as an offset), and the type accepts /
rejects values -/
example : GoodEnv envL ∧ GoodEnv envM ∧ (hash256Toks envL (.ref "L")).isSome = true ∧
    hash256Toks envL (.ref "L") = hash256Toks envM (.ref "Alias") ∧
    validate envL false 10 (.ref "L") (.obj [("v", .num "1"), ("next", .obj [("v", .num "2")])]) = .ok true ∧
    validate envL false 10 (.ref "L") (.obj [("v", .num "1"), ("next", .obj [("v", .str "2")])]) = .ok false :=
  ⟨goodEnvL, goodEnvM, by decide +kernel, by decide +kernel, by decide +kernel, by decide +kernel⟩

/-- the back reference is part of the stream: a list whose tail is the list itself and one whose tail is any number have
different streams -/
example : hash256Toks envL (.ref "L") ≠
    hash256Toks [] (.object [("v", .typeof "number"), ("next", .optional (.typeof "number"))] []) := by
  decide +kernel

end BeffVerif.C13R
